/-
Laws of `Result.Equal` / `headerEqual` (Model/CodecResult.lean): field-by-field characterisation,
reflexivity, symmetry and transitivity on header maps as net/http yields them, the asymmetry of
the unchanged code on maps with an empty value list, and `Equal` between a result and what any
decoder hands back after any other decoder.
-/
import Vegeta.Proofs.EncodeCmdDomain
import Vegeta.Proofs.CodecMIME
namespace Vegeta.Proofs.EncodeCmd
open Vegeta.Go Vegeta.Model.Codec Vegeta.Model.GobValue Vegeta.Model.EncodeCmd Vegeta.Proofs.Codec Vegeta.Proofs.Gob

/-- `Result.Equal` field by field -/
theorem equal_iff (a b : Result) : a.equal b = true ↔
    (a.attack = b.attack ∧ a.seq = b.seq ∧ a.code = b.code ∧ a.timestamp = b.timestamp ∧ a.latency = b.latency ∧
     a.bytesIn = b.bytesIn ∧ a.bytesOut = b.bytesOut ∧ a.error = b.error ∧ a.body.getD [] = b.body.getD [] ∧
     a.method = b.method ∧ a.url = b.url ∧ headerEqual a.headers b.headers = true) := by
  simp only [Result.equal, Bool.and_eq_true, beq_iff_eq, and_assoc]

theorem headerEqual_iff (h1 h2 : Header) :
    headerEqual (some h1) (some h2) = true ↔ h1.length = h2.length ∧ ∀ kv ∈ h1, headerGet h2 kv.1 = kv.2 := by
  simp only [headerEqual, Bool.and_eq_true, beq_iff_eq, List.all_eq_true]

theorem headerEqual_nil (h : Header) :
    headerEqual none none = true ∧ headerEqual none (some h) = false ∧ headerEqual (some h) none = false :=
  ⟨rfl, rfl, rfl⟩

/-! ### auxiliary facts -/

/-- a non-nil `h[k]` comes from an entry of the map -/
theorem headerGet_ne_nil (h : Header) (k : Bytes) (hne : headerGet h k ≠ []) :
    ∃ kv ∈ h, kv.1 = k ∧ kv.2 = headerGet h k := by
  unfold headerGet at hne ⊢
  cases hf : h.find? (fun kv => kv.1 == k) with
  | none => rw [hf] at hne; exact absurd rfl hne
  | some kv =>
    refine ⟨kv, List.mem_of_find?_eq_some hf, ?_, rfl⟩
    simpa using List.find?_some hf

/-- pigeonhole: a duplicate-free list contained in a list that is not longer contains all of it -/
theorem subset_of_nodup_subset_length {α : Type} [DecidableEq α] :
    ∀ (l1 l2 : List α), l1.Nodup → l1 ⊆ l2 → l2.length ≤ l1.length → l2 ⊆ l1 := by
  intro l1
  induction l1 with
  | nil =>
    intro l2 _ _ hl
    cases l2 with
    | nil => exact fun _ h => h
    | cons x l2 => simp at hl
  | cons a l1 ih =>
    intro l2 hn hs hl
    rw [List.nodup_cons] at hn
    have ha : a ∈ l2 := hs (by simp)
    have hs' : l1 ⊆ l2.erase a := by
      intro x hx
      have hxa : x ≠ a := fun h => hn.1 (h ▸ hx)
      exact (List.mem_erase_of_ne hxa).2 (hs (by simp [hx]))
    have hl' : (l2.erase a).length ≤ l1.length := by
      rw [List.length_erase_of_mem ha]; simp only [List.length_cons] at hl; omega
    have := ih (l2.erase a) hn.2 hs' hl'
    intro x hx
    by_cases hxa : x = a
    · simp [hxa]
    · exact List.mem_cons_of_mem _ (this ((List.mem_erase_of_ne hxa).2 hx))

theorem headerEqual_opt_refl (o : Option Header) (h : HeadersOK o) : headerEqual o o = true := by
  cases o with
  | none => rfl
  | some x => exact headerEqual_refl x (h x rfl)

theorem headerEqual_some_symm (h1 h2 : Header) (n1 : (h1.map (·.1)).Nodup) (n2 : (h2.map (·.1)).Nodup)
    (v1 : ∀ kv ∈ h1, kv.2 ≠ []) (h : headerEqual (some h1) (some h2) = true) :
    headerEqual (some h2) (some h1) = true := by
  rw [headerEqual_iff] at h ⊢
  obtain ⟨hlen, hget⟩ := h
  refine ⟨hlen.symm, ?_⟩
  -- every key of h1 is a key of h2
  have hsub : h1.map (·.1) ⊆ h2.map (·.1) := by
    intro k hk
    obtain ⟨kv, hkv, rfl⟩ := List.mem_map.1 hk
    have hne : headerGet h2 kv.1 ≠ [] := by rw [hget kv hkv]; exact v1 kv hkv
    obtain ⟨kv', hkv', hk', _⟩ := headerGet_ne_nil h2 kv.1 hne
    exact List.mem_map.2 ⟨kv', hkv', hk'⟩
  have hsup := subset_of_nodup_subset_length _ _ n1 hsub (by simp [hlen])
  intro kv hkv
  obtain ⟨kv', hkv', hk'⟩ := List.mem_map.1 (hsup (List.mem_map_of_mem (f := (·.1)) hkv))
  have e1 : headerGet h2 kv'.1 = kv'.2 := hget kv' hkv'
  have e2 : headerGet h2 kv.1 = kv.2 := headerGet_mem h2 n2 kv hkv
  have hk'' : kv'.1 = kv.1 := hk'
  rw [← hk'', headerGet_mem h1 n1 kv' hkv', ← e1, hk'', e2]

theorem headerEqual_some_trans (h1 h2 h3 : Header) (v1 : ∀ kv ∈ h1, kv.2 ≠ [])
    (e12 : headerEqual (some h1) (some h2) = true) (e23 : headerEqual (some h2) (some h3) = true) :
    headerEqual (some h1) (some h3) = true := by
  rw [headerEqual_iff] at e12 e23 ⊢
  refine ⟨e12.1.trans e23.1, ?_⟩
  intro kv hkv
  have hg := e12.2 kv hkv
  have hne : headerGet h2 kv.1 ≠ [] := by rw [hg]; exact v1 kv hkv
  obtain ⟨kv', hkv', hk', hv'⟩ := headerGet_ne_nil h2 kv.1 hne
  rw [← hk', e23.2 kv' hkv', hv', hg]

/-! ### the laws -/

/-- reflexive on Go maps (distinct keys) -/
theorem equal_refl (r : Result) (h : HeadersOK r.headers) : r.equal r = true := by
  rw [equal_iff]
  exact ⟨rfl, rfl, rfl, rfl, rfl, rfl, rfl, rfl, rfl, rfl, rfl, headerEqual_opt_refl _ h⟩

/-- symmetric on header maps as net/http yields them (distinct keys, every key with ≥ 1 value) -/
theorem equal_symm (a b : Result) (ha : HeadersOK a.headers) (hb : HeadersOK b.headers)
    (va : ValuesNonEmpty a.headers) (vb : ValuesNonEmpty b.headers) (h : a.equal b = true) : b.equal a = true := by
  have _ := vb
  rw [equal_iff] at h ⊢
  obtain ⟨h1, h2, h3, h4, h5, h6, h7, h8, h9, h10, h11, h12⟩ := h
  refine ⟨h1.symm, h2.symm, h3.symm, h4.symm, h5.symm, h6.symm, h7.symm, h8.symm, h9.symm, h10.symm,
    h11.symm, ?_⟩
  cases hah : a.headers with
  | none =>
    cases hbh : b.headers with
    | none => rfl
    | some y => rw [hah, hbh] at h12; exact absurd h12 (by simp [headerEqual])
  | some x =>
    cases hbh : b.headers with
    | none => rw [hah, hbh] at h12; exact absurd h12 (by simp [headerEqual])
    | some y =>
      rw [hah, hbh] at h12
      exact headerEqual_some_symm x y (ha x hah) (hb y hbh) (va x hah) h12

/-- transitive -/
theorem equal_trans (a b c : Result) (va : ValuesNonEmpty a.headers) (h1 : a.equal b = true) (h2 : b.equal c = true) :
    a.equal c = true := by
  rw [equal_iff] at h1 h2 ⊢
  obtain ⟨a1, a2, a3, a4, a5, a6, a7, a8, a9, a10, a11, a12⟩ := h1
  obtain ⟨b1, b2, b3, b4, b5, b6, b7, b8, b9, b10, b11, b12⟩ := h2
  refine ⟨a1.trans b1, a2.trans b2, a3.trans b3, a4.trans b4, a5.trans b5, a6.trans b6, a7.trans b7,
    a8.trans b8, a9.trans b9, a10.trans b10, a11.trans b11, ?_⟩
  cases hah : a.headers with
  | none =>
    cases hbh : b.headers with
    | none => rw [hbh] at b12; exact b12
    | some y => rw [hah, hbh] at a12; exact absurd a12 (by simp [headerEqual])
  | some x =>
    cases hbh : b.headers with
    | none => rw [hah, hbh] at a12; exact absurd a12 (by simp [headerEqual])
    | some y =>
      cases hch : c.headers with
      | none => rw [hbh, hch] at b12; exact absurd b12 (by simp [headerEqual])
      | some z =>
        rw [hah, hbh] at a12
        rw [hbh, hch] at b12
        exact headerEqual_some_trans x y z (va x hah) a12 b12

/-- oddity of the unchanged code: with a key whose value list is empty, `Equal` is NOT symmetric:
h1 = {A:[x], B:[]} vs h2 = {A:[x], C:[y]} -/
theorem equal_not_symmetric_witness :
    ∃ a b : Result, HeadersOK a.headers ∧ HeadersOK b.headers ∧ a.equal b = true ∧ b.equal a = false := by
  refine ⟨{ headers := some [([65], [[120]]), ([66], [])] },
          { headers := some [([65], [[120]]), ([67], [[121]])] }, ?_, ?_, by decide, by decide⟩
  · intro x hx; cases hx; decide
  · intro x hx; cases hx; decide

theorem equal_body_nil_empty (r : Result) (h : HeadersOK r.headers) :
    ({ r with body := none } : Result).equal { r with body := some [] } = true ∧
    ({ r with body := some [] } : Result).equal { r with body := none } = true := by
  have := headerEqual_opt_refl _ h
  constructor <;> rw [equal_iff] <;> simp [this]

theorem equal_headers_nil_empty (r : Result) :
    ({ r with headers := none } : Result).equal { r with headers := some [] } = false ∧
    ({ r with headers := some [] } : Result).equal { r with headers := none } = false := by
  constructor <;> simp [Result.equal, headerEqual]

/-! ### decoders -/

theorem gob_body_getD (x : Bytes) (b : Option Bytes) (hb : b.getD [] = x) :
    (if x = [] then none else b).getD [] = x := by
  split
  · rename_i h; simp [h]
  · exact hb

theorem sortKV_nodup (x : Header) (hn : (x.map (·.1)).Nodup) : ((sortKV x).map (·.1)).Nodup :=
  ((sortKV_perm x).map (·.1)).nodup_iff.2 hn

/-- the header maps a chain of at most two decoders can hand back are `Equal` to the original -/
theorem headerEqual_decoded (o : Option Header) (h : HeadersOK o) :
    headerEqual o o = true ∧
    headerEqual (o.map sortKV) o = true ∧ headerEqual o (o.map sortKV) = true ∧
    headerEqual ((o.map sortKV).map sortKV) o = true ∧ headerEqual o ((o.map sortKV).map sortKV) = true := by
  cases o with
  | none => exact ⟨rfl, rfl, rfl, rfl, rfl⟩
  | some x =>
    have hn := h x rfl
    have hn1 := sortKV_nodup x hn
    have hn2 := sortKV_nodup _ hn1
    have p1 := sortKV_perm x
    have p2 := (sortKV_perm (sortKV x)).trans p1
    exact ⟨headerEqual_refl x hn, headerEqual_of_perm _ _ p1 hn, headerEqual_of_perm _ _ p1.symm hn1,
      headerEqual_of_perm _ _ p2 hn, headerEqual_of_perm _ _ p2.symm hn2⟩

/-- what any decoder hands back after any other decoder is `Equal` to the original, both ways -/
theorem decodedBy_equal (src dst : Codec) (r : Result) (h : HeadersOK r.headers) :
    (decodedBy dst (decodedBy src r)).equal r = true ∧ r.equal (decodedBy dst (decodedBy src r)) = true := by
  obtain ⟨e0, e1, e1', e2, e2'⟩ := headerEqual_decoded r.headers h
  have e3 : headerEqual (Option.map (sortKV ∘ sortKV) r.headers) r.headers = true := by simpa using e2
  have e3' : headerEqual r.headers (Option.map (sortKV ∘ sortKV) r.headers) = true := by simpa using e2'
  cases src <;> cases dst <;>
    simp [equal_iff, decodedBy, csvDecoded, gobDecoded, gob_body_getD, e0, e1, e1', e3, e3']

theorem equalAll_decodedBy (src dst : Codec) (rs : List Result) (h : ∀ r ∈ rs, HeadersOK r.headers) :
    equalAll (rs.map (decodedBy dst ∘ decodedBy src)) rs = true := by
  induction rs with
  | nil => rfl
  | cons r rs ih =>
    simp only [List.map_cons, equalAll, Bool.and_eq_true]
    exact ⟨(decodedBy_equal src dst r (h r (by simp))).1, ih (fun r hr => h r (by simp [hr]))⟩

/-! ### non-vacuity -/

/-- `{X-A: [1, b], B: [c]}` in two iteration orders -/
def exA : Result := { headers := some [([88, 45, 65], [[49], [98]]), ([66], [[99]])] }
def exB : Result := { headers := some [([66], [[99]]), ([88, 45, 65], [[49], [98]])] }

example : HeadersOK exA.headers ∧ HeadersOK exB.headers ∧ ValuesNonEmpty exA.headers ∧
    ValuesNonEmpty exB.headers ∧ exA.equal exB = true ∧ exB.equal exA = true := by
  refine ⟨?_, ?_, ?_, ?_, by decide, by decide⟩
  · intro x hx; cases hx; decide
  · intro x hx; cases hx; decide
  · intro x hx; cases hx; decide
  · intro x hx; cases hx; decide

example : exB.equal exA = true :=
  equal_symm exA exB (by intro x hx; cases hx; decide) (by intro x hx; cases hx; decide)
    (by intro x hx; cases hx; decide) (by intro x hx; cases hx; decide) (by decide)

/-- the asymmetric pair: `{A:[x], B:[]}` against `{A:[x], C:[y]}` -/
example :
    let a : Result := { headers := some [([65], [[120]]), ([66], [])] }
    let b : Result := { headers := some [([65], [[120]]), ([67], [[121]])] }
    a.equal b = true ∧ b.equal a = false := by decide

end Vegeta.Proofs.EncodeCmd
