/-
C08, part 1: the reader algebra of `DecoderFor` — trial invariant, `sniff_preserves_stream`, the final
reader, and which decoder is chosen.  (Kept in its own file so that Proofs/Commands.lean, the
command-level composition, can build on it; Props/C08.lean imports both.)
-/
import Vegeta.Model.DecoderFor
namespace Vegeta.Props.C08
open Vegeta.Go Vegeta.Model.DecoderFor

/-! ### the reader algebra -/

theorem aux_readUnder (rest : Bytes) (q : ReadReq) :
    (readUnder rest q).1 ++ (readUnder rest q).2 = rest := by
  simp [readUnder, List.take_append_drop]

theorem aux_readMem (s : Bytes) (n : Nat) : (readMem s n).1 ++ (readMem s n).2 = s := by
  simp [readMem, List.take_append_drop]

theorem aux_chunk_pos (n k remaining : Nat) (hn : 1 ≤ n) (hr : 1 ≤ remaining) :
    1 ≤ chunk n k remaining ∧ chunk n k remaining ≤ min n remaining := by
  unfold chunk
  simp only []
  have : min n remaining ≠ 0 := by omega
  simp only [this, ↓reduceIte]
  split <;> omega

/-- an underlying `Read` never returns more than asked for, and at least one byte unless the
buffer is empty or nothing remains -/
theorem aux_chunk_le (n k remaining : Nat) : chunk n k remaining ≤ min n remaining := by
  unfold chunk
  simp only []
  split
  · omega
  · split <;> omega

/-- Invariant of one trial: what the trial decoder has seen so far, followed by the unread part of
the snapshot, is `buf`; and `buf` followed by the unread part of `r` is the original stream. -/
def TrialInv (orig : Bytes) (seen : Bytes) (t : Trial) : Prop :=
  seen ++ t.snap = t.st.buf ∧ t.st.buf ++ t.st.under = orig

theorem aux_trial_start (orig : Bytes) (s : Sniff) (h : s.stream = orig) :
    TrialInv orig [] (Trial.start s) := by
  exact ⟨rfl, h⟩

theorem aux_trial_read (orig seen : Bytes) (t : Trial) (q : ReadReq) (h : TrialInv orig seen t) :
    TrialInv orig (seen ++ (t.read q).1) (t.read q).2 := by
  obtain ⟨h1, h2⟩ := h
  unfold Trial.read
  split
  · simpa [TrialInv] using ⟨h1, h2⟩
  · split
    · rename_i b bs hs
      simp only [TrialInv]
      refine ⟨?_, h2⟩
      rw [List.append_assoc, aux_readMem, h1]
    · rename_i hs
      simp only [TrialInv]
      rw [hs, List.append_nil] at h1
      refine ⟨by rw [hs, List.append_nil, h1], ?_⟩
      rw [List.append_assoc, aux_readUnder, h2]

theorem aux_trial_run (orig : Bytes) : ∀ (script : Script) (seen : Bytes) (t : Trial),
    TrialInv orig seen t → TrialInv orig (seen ++ (t.run script).1.flatten) (t.run script).2 := by
  intro script
  induction script with
  | nil => intro seen t h; simpa [Trial.run] using h
  | cons q qs ih =>
    intro seen t h
    have h1 := aux_trial_read orig seen t q h
    have h2 := ih _ _ h1
    simpa [Trial.run, List.append_assoc] using h2

/-- One whole trial, whatever its read script and the chunking of the underlying reader: the state
it leaves behind still denotes the original stream, and the bytes the trial decoder saw are the
first bytes of the original stream (nothing skipped, nothing replayed twice). -/
theorem trial_preserves_stream (orig : Bytes) (s : Sniff) (script : Script) (h : s.stream = orig) :
    ((Trial.start s).run script).2.st.stream = orig ∧
    ((Trial.start s).run script).1.flatten <+: orig := by
  have := aux_trial_run orig script [] (Trial.start s) (aux_trial_start orig s h)
  obtain ⟨h1, h2⟩ := this
  refine ⟨h2, ?_⟩
  simp only [List.nil_append] at h1
  rw [← h2, ← h1, List.append_assoc]
  exact List.prefix_append _ _

theorem aux_sniffFrom (orig : Bytes) : ∀ (trials : List TrialDec) (i0 : Nat) (s : Sniff),
    s.stream = orig →
    (∀ i st, (sniffFrom i0 s trials).1 = some (i, st) → st.stream = orig) ∧
    (∀ seen ∈ (sniffFrom i0 s trials).2, seen.flatten <+: orig) := by
  intro trials
  induction trials with
  | nil => intro i0 s _; simp [sniffFrom]
  | cons d ds ih =>
    intro i0 s h
    have ht := trial_preserves_stream orig s d.script h
    unfold sniffFrom
    simp only []
    split
    · refine ⟨?_, ?_⟩
      · intro i st hh
        simp only [Option.some.injEq, Prod.mk.injEq] at hh
        rw [← hh.2]; exact ht.1
      · intro seen hs
        simp only [List.mem_singleton] at hs
        rw [hs]; exact ht.2
    · have := ih (i0 + 1) _ ht.1
      refine ⟨this.1, ?_⟩
      intro seen hs
      rcases List.mem_cons.mp hs with h' | h'
      · rw [h']; exact ht.2
      · exact this.2 seen h'

/-- **"… format detection selects a decoder that yields exactly the encoded sequence from the first
record on (nothing consumed while sniffing is lost or replayed twice)."**  After any number of
failed trials, with any read scripts (over-reading by any amount) and any chunking of the
underlying reader, the reader handed to the chosen decoder, `MultiReader(&buf, r)`, denotes the
original stream from byte 0: `buf ++ rest = original`. -/
theorem sniff_preserves_stream (orig : Bytes) (trials : List TrialDec) (i : Nat) (st : Sniff)
    (h : (decoderFor orig trials).1 = some (i, st)) : st.buf ++ st.under = orig :=
  (aux_sniffFrom orig trials 0 ⟨[], orig⟩ rfl).1 i st h

/-- Every trial decoder, too, is shown the original stream from byte 0. -/
theorem sniff_trials_see_prefix (orig : Bytes) (trials : List TrialDec) :
    ∀ seen ∈ (decoderFor orig trials).2, seen.flatten <+: orig :=
  (aux_sniffFrom orig trials 0 ⟨[], orig⟩ rfl).2

/-! ### the final reader -/

theorem aux_final_read (s : Sniff) (q : ReadReq) :
    (finalRead s q).1 ++ (finalRead s q).2.stream = s.stream := by
  unfold finalRead
  split
  · simp
  · split
    · rename_i b bs hs
      simp only [Sniff.stream]
      rw [← List.append_assoc, aux_readMem]
    · rename_i hs
      simp only [Sniff.stream, hs, List.nil_append]
      exact aux_readUnder _ _

/-- **What the chosen decoder reads is the stream, in order, each byte once**: after any reads on
the final reader, the bytes returned so far followed by what the reader still denotes are the
stream it denoted at the start. -/
theorem final_reader_yields_stream : ∀ (script : Script) (s : Sniff),
    (finalRun s script).1.flatten ++ (finalRun s script).2.stream = s.stream := by
  intro script
  induction script with
  | nil => intro s; simp [finalRun]
  | cons q qs ih =>
    intro s
    have h1 := aux_final_read s q
    have h2 := ih (finalRead s q).2
    simp only [finalRun, List.flatten_cons, List.append_assoc]
    rw [h2, h1]

/-- A `Read` with a non-empty buffer on the final reader returns at least one byte unless the
stream is at its end (so the decoder is never starved and sees EOF only at the real end). -/
theorem final_read_progress (s : Sniff) (q : ReadReq) (hn : 1 ≤ q.n) :
    ((finalRead s q).1 = [] ↔ s.stream = []) := by
  unfold finalRead
  have hn0 : q.n ≠ 0 := by omega
  simp only [hn0, ↓reduceIte]
  split
  · rename_i b bs hs
    simp only [readMem, Sniff.stream, hs]
    constructor
    · intro h
      have : (List.take q.n (b :: bs)).length = 0 := by rw [h]; rfl
      simp at this; omega
    · intro h; simp at h
  · rename_i hs
    simp only [readUnder, Sniff.stream, hs, List.nil_append]
    constructor
    · intro h
      cases hu : s.under with
      | nil => rfl
      | cons c cs =>
        exfalso
        have hp := aux_chunk_pos q.n q.k s.under.length hn (by rw [hu]; simp)
        have : (List.take (chunk q.n q.k s.under.length) s.under).length = 0 := by rw [h]; rfl
        rw [List.length_take] at this
        omega
    · intro h; rw [h]; simp

theorem aux_final_drains : ∀ (script : Script) (s : Sniff), (∀ q ∈ script, 1 ≤ q.n) →
    s.stream.length ≤ script.length → (finalRun s script).1.flatten = s.stream := by
  intro script
  induction script with
  | nil =>
    intro s _ hl
    have : s.stream = [] := List.length_eq_zero_iff.mp (by simpa using hl)
    simp [finalRun, this]
  | cons q qs ih =>
    intro s hq hl
    have h1 := aux_final_read s q
    have hp := final_read_progress s q (hq q (by simp))
    simp only [finalRun, List.flatten_cons]
    by_cases he : s.stream = []
    · have hg : (finalRead s q).1 = [] := hp.mpr he
      have hs : (finalRead s q).2.stream = [] := by rw [hg, he] at h1; simpa using h1
      rw [ih _ (fun q' h' => hq q' (by simp [h'])) (by rw [hs]; simp), hg, hs, he]; rfl
    · have hg : (finalRead s q).1 ≠ [] := fun h => he (hp.mp h)
      have hlen : (finalRead s q).2.stream.length < s.stream.length := by
        have := congrArg List.length h1
        rw [List.length_append] at this
        have : 0 < (finalRead s q).1.length := List.length_pos_iff.mpr hg
        omega
      rw [ih _ (fun q' h' => hq q' (by simp [h'])) (by simp only [List.length_cons] at hl; omega)]
      exact h1

/-- **The chosen decoder can read the whole original stream**: after detection, enough non-empty
reads on the final reader return exactly the original stream from byte 0 to its end. -/
theorem final_reader_drains_original (orig : Bytes) (trials : List TrialDec) (i : Nat) (st : Sniff)
    (h : (decoderFor orig trials).1 = some (i, st)) (script : Script) (hq : ∀ q ∈ script, 1 ≤ q.n)
    (hl : orig.length ≤ script.length) : (finalRun st script).1.flatten = orig := by
  have hs : st.stream = orig := sniff_preserves_stream orig trials i st h
  rw [aux_final_drains script st hq (by rw [hs]; exact hl), hs]

/-! ### which decoder is chosen -/

theorem aux_first_accept : ∀ (trials : List TrialDec) (i0 : Nat) (s : Sniff),
    (∀ i st, (sniffFrom i0 s trials).1 = some (i, st) →
      i0 ≤ i ∧ (trials[i - i0]?.map (·.accept)) = some true ∧
        ∀ j, j < i - i0 → (trials[j]?.map (·.accept)) = some false) ∧
    ((sniffFrom i0 s trials).1 = none ↔ ∀ d ∈ trials, d.accept = false) := by
  intro trials
  induction trials with
  | nil => intro i0 s; simp [sniffFrom]
  | cons d ds ih =>
    intro i0 s
    unfold sniffFrom
    simp only []
    split
    · rename_i hacc
      refine ⟨?_, ?_⟩
      · intro i st hh
        simp only [Option.some.injEq, Prod.mk.injEq] at hh
        obtain ⟨hi, _⟩ := hh
        subst hi
        simp [hacc]
      · simp [hacc]
    · rename_i hacc
      have hacc' : d.accept = false := by simpa using hacc
      obtain ⟨ih1, ih2⟩ := ih (i0 + 1) ((Trial.start s).run d.script).2.st
      refine ⟨?_, ?_⟩
      · intro i st hh
        obtain ⟨hle, hget, hall⟩ := ih1 i st hh
        have e : i - i0 = (i - (i0 + 1)) + 1 := by omega
        refine ⟨by omega, ?_, ?_⟩
        · rw [e]; simpa using hget
        · intro j hj
          cases j with
          | zero => simp [hacc']
          | succ j => simpa using hall j (by omega)
      · rw [ih2]
        simp [hacc']

/-- **`DecoderFor` chooses the first factory whose trial accepts, and returns nil exactly when none
accepts** ("it returns no decoder, rather than a wrong one, for input that is in none of the
formats": a decoder is returned only if that format's own decoder accepted a first record read
from byte 0 of the original stream). -/
theorem detect_first_accepting (orig : Bytes) (trials : List TrialDec) :
    (∀ i st, (decoderFor orig trials).1 = some (i, st) →
      (trials[i]?.map (·.accept)) = some true ∧ ∀ j, j < i → (trials[j]?.map (·.accept)) = some false) ∧
    ((decoderFor orig trials).1 = none ↔ ∀ d ∈ trials, d.accept = false) := by
  obtain ⟨h1, h2⟩ := aux_first_accept trials 0 ⟨[], orig⟩
  refine ⟨?_, h2⟩
  intro i st h
  obtain ⟨_, a, b⟩ := h1 i st h
  exact ⟨by simpa using a, by simpa using b⟩

/-- **Detection of the stream's own format.**  If the trial of format number `f` accepts the
stream and the trials tried before it reject it, `DecoderFor` returns format `f`'s decoder over a
reader that denotes the original stream. -/
theorem detect_selects_own_format (orig : Bytes) (trials : List TrialDec) (f : Nat) (d : TrialDec)
    (hf : trials[f]? = some d) (hown : d.accept = true)
    (hbefore : ∀ j d', j < f → trials[j]? = some d' → d'.accept = false) :
    ∃ st, (decoderFor orig trials).1 = some (f, st) ∧ st.buf ++ st.under = orig := by
  obtain ⟨h1, h2⟩ := detect_first_accepting orig trials
  cases hres : (decoderFor orig trials).1 with
  | none =>
    have := h2.mp hres d (List.mem_of_getElem? hf)
    rw [hown] at this; cases this
  | some p =>
    obtain ⟨i, st⟩ := p
    obtain ⟨ha, hb⟩ := h1 i st hres
    have hif : i = f := by
      rcases Nat.lt_trichotomy i f with hlt | heq | hgt
      · exfalso
        cases hi : trials[i]? with
        | none => rw [hi] at ha; simp at ha
        | some di =>
          rw [hi] at ha
          have := hbefore i di hlt hi
          simp [this] at ha
      · exact heq
      · exfalso
        have := hb f hgt
        rw [hf] at this
        simp [hown] at this
    subst hif
    exact ⟨st, rfl, sniff_preserves_stream orig trials i st hres⟩

end Vegeta.Props.C08
