/-
The independent reader of the documented JSON layout (`Spec/Layout.lean`: its own tokenizer and
object grammar, the documented member names and units) reads every record written by the model
of the JSON encoder back to exactly the result that was written.

The RFC 3339 layer is taken as the hypothesis `TimeText` (proved in `Proofs/CodecRFC3339.lean`).
-/
import Vegeta.Proofs.CodecDomain
import Vegeta.Proofs.CodecDecimal
import Vegeta.Proofs.CodecBase64
import Vegeta.Proofs.CodecJSONString
import Vegeta.Spec.Layout
namespace Vegeta.Proofs.Codec
open Vegeta.Go Vegeta.Model.Codec Vegeta.Spec.Layout

/-! ### the tokenizer on the pieces the encoder writes -/

/-- `s` tokenizes to `ts` with any sufficient fuel -/
def Toks (s : Bytes) (ts : List JTok) : Prop :=
  ∀ fuel, s.length < fuel → tokenizeF fuel s = some ts

theorem toks_tokenize {s : Bytes} {ts : List JTok} (h : Toks s ts) : tokenize s = some ts :=
  h _ (Nat.lt_succ_self _)

theorem toks_nil : Toks [] [] := by
  intro fuel hf
  cases fuel with
  | zero => simp at hf
  | succ f => rfl

theorem toks_lbrace {tail : Bytes} {ts : List JTok} (h : Toks tail ts) :
    Toks (123 :: tail) (.lbrace :: ts) := by
  intro fuel hf
  cases fuel with
  | zero => simp at hf
  | succ f =>
    have := h f (by simp at hf; omega)
    simp [tokenizeF, isJSONSpace, this]

theorem toks_rbrace {tail : Bytes} {ts : List JTok} (h : Toks tail ts) :
    Toks (125 :: tail) (.rbrace :: ts) := by
  intro fuel hf
  cases fuel with
  | zero => simp at hf
  | succ f =>
    have := h f (by simp at hf; omega)
    simp [tokenizeF, isJSONSpace, this]

theorem toks_lbrack {tail : Bytes} {ts : List JTok} (h : Toks tail ts) :
    Toks (91 :: tail) (.lbrack :: ts) := by
  intro fuel hf
  cases fuel with
  | zero => simp at hf
  | succ f =>
    have := h f (by simp at hf; omega)
    simp [tokenizeF, isJSONSpace, this]

theorem toks_rbrack {tail : Bytes} {ts : List JTok} (h : Toks tail ts) :
    Toks (93 :: tail) (.rbrack :: ts) := by
  intro fuel hf
  cases fuel with
  | zero => simp at hf
  | succ f =>
    have := h f (by simp at hf; omega)
    simp [tokenizeF, isJSONSpace, this]

theorem toks_colon {tail : Bytes} {ts : List JTok} (h : Toks tail ts) :
    Toks (58 :: tail) (.colon :: ts) := by
  intro fuel hf
  cases fuel with
  | zero => simp at hf
  | succ f =>
    have := h f (by simp at hf; omega)
    simp [tokenizeF, isJSONSpace, this]

theorem toks_comma {tail : Bytes} {ts : List JTok} (h : Toks tail ts) :
    Toks (44 :: tail) (.comma :: ts) := by
  intro fuel hf
  cases fuel with
  | zero => simp at hf
  | succ f =>
    have := h f (by simp at hf; omega)
    simp [tokenizeF, isJSONSpace, this]

/-- the newline that ends the record is white space -/
theorem toks_newline {tail : Bytes} {ts : List JTok} (h : Toks tail ts) :
    Toks (10 :: tail) ts := by
  intro fuel hf
  cases fuel with
  | zero => simp at hf
  | succ f =>
    have := h f (by simp at hf; omega)
    simp [tokenizeF, isJSONSpace, this]

theorem toks_null {tail : Bytes} {ts : List JTok} (h : Toks tail ts) :
    Toks (110 :: 117 :: 108 :: 108 :: tail) (.null :: ts) := by
  intro fuel hf
  cases fuel with
  | zero => simp at hf
  | succ f =>
    have := h f (by simp at hf; omega)
    simp [tokenizeF, isJSONSpace, isDigitB, this]

/-- a quoted text without `"` and `\` (member names, base64, the timestamp) -/
theorem toks_plain (n : Bytes) (hn : ∀ c ∈ n, c ≠ 34 ∧ c ≠ 92) {tail : Bytes} {ts : List JTok}
    (h : Toks tail ts) : Toks (34 :: (n ++ 34 :: tail)) (.str n :: ts) := by
  intro fuel hf
  cases fuel with
  | zero => simp at hf
  | succ f =>
    have := h f (by simp at hf; omega)
    have h92 : 92 ∉ n := fun hm => (hn 92 hm).2 rfl
    simp [tokenizeF, isJSONSpace, fetchString_plain n tail hn, unescape_plain n h92, this]

/-- a string as the writer escapes it -/
theorem toks_esc (s : Bytes) (hs : validUTF8 s = true) {tail : Bytes} {ts : List JTok}
    (h : Toks tail ts) : Toks (34 :: (jsonEscape s ++ 34 :: tail)) (.str s :: ts) := by
  intro fuel hf
  cases fuel with
  | zero => simp at hf
  | succ f =>
    have := h f (by simp at hf; omega)
    simp [tokenizeF, isJSONSpace, fetchString_jsonEscape, unescape_jsonEscape s hs, this]

theorem toks_jsonString (s : Bytes) (hs : validUTF8 s = true) {tail : Bytes} {ts : List JTok}
    (h : Toks tail ts) : Toks (jsonString s ++ tail) (.str s :: ts) := by
  have := toks_esc s hs h
  simpa [jsonString] using this

theorem takeWhile_dropWhile_prefix (p : Nat → Bool) (ds : List Nat) (c : Nat) (t : List Nat)
    (hd : ∀ x ∈ ds, p x = true) (hc : p c = false) :
    (ds ++ c :: t).takeWhile p = ds ∧ (ds ++ c :: t).dropWhile p = c :: t := by
  induction ds with
  | nil => simp [hc]
  | cons d ds ih =>
    have hd0 := hd d (by simp)
    have := ih (fun x hx => hd x (by simp [hx]))
    simp [hd0, this]

/-- a number followed by a byte that cannot continue it -/
theorem toks_num (d : Nat) (ds : Bytes) (c : Nat) (t : Bytes) {ts : List JTok}
    (hd : d = 45 ∨ (48 ≤ d ∧ d ≤ 57)) (hds : ∀ x ∈ ds, 48 ≤ x ∧ x ≤ 57)
    (hc : isNumByte c = false) (h : Toks (c :: t) ts) :
    Toks (d :: (ds ++ c :: t)) (.num (d :: ds) :: ts) := by
  intro fuel hf
  cases fuel with
  | zero => simp at hf
  | succ f =>
    have := h f (by simp at hf ⊢; omega)
    have hp : ∀ x ∈ ds, isNumByte x = true := by
      intro x hx
      have := hds x hx
      simp [isNumByte, isDigitB, this]
    obtain ⟨h1, h2⟩ := takeWhile_dropWhile_prefix isNumByte ds c t hp hc
    have hsp : isJSONSpace d = false := by
      simp [isJSONSpace]; omega
    have hdig : (isDigitB d || d == 45) = true := by
      simp [isDigitB]; omega
    unfold tokenizeF
    rw [hsp]
    rw [if_neg (by simp), if_neg (by omega), if_neg (by omega), if_neg (by omega), if_neg (by omega),
      if_neg (by omega), if_neg (by omega), if_neg (by omega), if_pos hdig, h1, h2, this]
    rfl

theorem toks_fmtNat (n : Nat) {tail : Bytes} {ts : List JTok} (h : Toks (44 :: tail) ts) :
    Toks (fmtNat n ++ 44 :: tail) (.num (fmtNat n) :: ts) := by
  obtain ⟨d, ds, e, hd, hds⟩ := fmtNat_cons n
  rw [e]
  exact toks_num d ds 44 tail (Or.inr hd) hds (by decide) h

theorem toks_fmtInt (i : Int) {tail : Bytes} {ts : List JTok} (h : Toks (44 :: tail) ts) :
    Toks (fmtInt i ++ 44 :: tail) (.num (fmtInt i) :: ts) := by
  obtain ⟨d, ds, e, hd, hds⟩ := fmtInt_cons i
  rw [e]
  exact toks_num d ds 44 tail hd hds (by decide) h

/-! ### the token list of an encoded record -/

/-- token lists joined by commas -/
def commaJoinT : List (List JTok) → List JTok
  | [] => []
  | [x] => x
  | x :: y :: r => x ++ .comma :: commaJoinT (y :: r)

theorem toks_commaJoin {α : Type} (f : α → Bytes) (g : α → List JTok) (xs : List α)
    (hx : ∀ x ∈ xs, ∀ tail ts, Toks tail ts → Toks (f x ++ tail) (g x ++ ts))
    {tail : Bytes} {ts : List JTok} (h : Toks tail ts) :
    Toks (commaJoin (xs.map f) ++ tail) (commaJoinT (xs.map g) ++ ts) := by
  induction xs with
  | nil => simpa [commaJoin, commaJoinT] using h
  | cons x xs ih =>
    cases xs with
    | nil => simpa [commaJoin, commaJoinT] using hx x (by simp) tail ts h
    | cons y ys =>
      have ih' := ih (fun z hz => hx z (by simp [hz]))
      have := hx x (by simp) _ _ (toks_comma ih')
      simpa [commaJoin, commaJoinT, List.append_assoc] using this

def strToks (vs : List Bytes) : List JTok := commaJoinT (vs.map (fun v => [JTok.str v]))

def entryToks (kv : Bytes × List Bytes) : List JTok :=
  .str kv.1 :: .colon :: (if kv.2.isEmpty then [.null] else .lbrack :: (strToks kv.2 ++ [.rbrack]))

def entriesToks (h : Header) : List JTok := commaJoinT (h.map entryToks)

def headersToks : Option Header → List JTok
  | none => [.null]
  | some h => .lbrace :: (entriesToks h ++ [.rbrace])

def bodyTok : Option Bytes → JTok
  | none => .null
  | some b => .str (b64Encode b)

theorem toks_entry (kv : Bytes × List Bytes)
    (hk : validUTF8 kv.1 = true) (hv : ∀ v ∈ kv.2, validUTF8 v = true)
    {tail : Bytes} {ts : List JTok} (h : Toks tail ts) :
    Toks (jsonHeaderEntry kv ++ tail) (entryToks kv ++ ts) := by
  unfold jsonHeaderEntry entryToks
  cases hvs : kv.2.isEmpty with
  | true =>
    have := toks_jsonString kv.1 hk (toks_colon (toks_null h))
    simpa [List.append_assoc] using this
  | false =>
    have h1 : Toks (commaJoin (kv.2.map jsonString) ++ 93 :: tail) (strToks kv.2 ++ .rbrack :: ts) :=
      toks_commaJoin jsonString (fun v => [JTok.str v]) kv.2
        (fun v hv' tail ts ht => toks_jsonString v (hv v hv') ht) (toks_rbrack h)
    have := toks_jsonString kv.1 hk (toks_colon (toks_lbrack h1))
    simpa [List.append_assoc] using this

theorem toks_headers (oh : Option Header)
    (hh : ∀ h, oh = some h → ∀ kv ∈ h, validUTF8 kv.1 = true ∧ ∀ v ∈ kv.2, validUTF8 v = true)
    {tail : Bytes} {ts : List JTok} (h : Toks tail ts) :
    Toks (jsonHeaders oh ++ tail) (headersToks oh ++ ts) := by
  cases oh with
  | none => simpa [jsonHeaders, headersToks] using toks_null h
  | some hd =>
    have h1 : Toks (commaJoin (hd.map jsonHeaderEntry) ++ 125 :: tail) (entriesToks hd ++ .rbrace :: ts) :=
      toks_commaJoin jsonHeaderEntry entryToks hd
        (fun kv hkv tail ts ht => toks_entry kv (hh hd rfl kv hkv).1 (hh hd rfl kv hkv).2 ht) (toks_rbrace h)
    simpa [jsonHeaders, headersToks, List.append_assoc] using toks_lbrace h1

theorem toks_body (ob : Option Bytes) {tail : Bytes} {ts : List JTok} (h : Toks tail ts) :
    Toks (jsonBody ob ++ tail) (bodyTok ob :: ts) := by
  cases ob with
  | none => simpa [jsonBody, bodyTok] using toks_null h
  | some b =>
    have := toks_plain (b64Encode b)
      (fun c hc => ⟨(b64Encode_safe b c hc).2.2.1, (b64Encode_safe b c hc).2.2.2.2.1⟩) h
    simpa [jsonBody, bodyTok, List.append_assoc] using this

/-- `"name":` -/
theorem toks_key (n : Bytes) (hn : ∀ c ∈ n, c ≠ 34 ∧ c ≠ 92) {tail : Bytes} {ts : List JTok}
    (h : Toks tail ts) : Toks (34 :: (n ++ 34 :: 58 :: tail)) (.str n :: .colon :: ts) :=
  toks_plain n hn (toks_colon h)

/-- the tokens of the members of an encoded record (after the opening `{`), `tt` the timestamp text -/
def recToks (r : Result) (tt : Bytes) : List JTok :=
  .str nAttack :: .colon :: .str r.attack :: .comma ::
  .str nSeq :: .colon :: .num (fmtNat r.seq) :: .comma ::
  .str nCode :: .colon :: .num (fmtNat r.code) :: .comma ::
  .str nTimestamp :: .colon :: .str tt :: .comma ::
  .str nLatency :: .colon :: .num (fmtInt r.latency) :: .comma ::
  .str nBytesOut :: .colon :: .num (fmtNat r.bytesOut) :: .comma ::
  .str nBytesIn :: .colon :: .num (fmtNat r.bytesIn) :: .comma ::
  .str nError :: .colon :: .str r.error :: .comma ::
  .str nBody :: .colon :: bodyTok r.body :: .comma ::
  .str nMethod :: .colon :: .str r.method :: .comma ::
  .str nURL :: .colon :: .str r.url :: .comma ::
  .str nHeaders :: .colon :: (headersToks r.headers ++ [.rbrace])

/-- the bytes of an encoded record, right-nested -/
theorem encodeJSON_eq (offMin : Int) (r : Result) (tt : Bytes) (ht : fmtRFC3339 r.timestamp offMin = some tt) :
    encodeJSON offMin r = some (123 :: 34 :: (nAttack ++ 34 :: 58 :: (jsonString r.attack ++
      44 :: 34 :: (nSeq ++ 34 :: 58 :: (fmtNat r.seq ++
      44 :: 34 :: (nCode ++ 34 :: 58 :: (fmtNat r.code ++
      44 :: 34 :: (nTimestamp ++ 34 :: 58 :: 34 :: (tt ++ 34 ::
      44 :: 34 :: (nLatency ++ 34 :: 58 :: (fmtInt r.latency ++
      44 :: 34 :: (nBytesOut ++ 34 :: 58 :: (fmtNat r.bytesOut ++
      44 :: 34 :: (nBytesIn ++ 34 :: 58 :: (fmtNat r.bytesIn ++
      44 :: 34 :: (nError ++ 34 :: 58 :: (jsonString r.error ++
      44 :: 34 :: (nBody ++ 34 :: 58 :: (jsonBody r.body ++
      44 :: 34 :: (nMethod ++ 34 :: 58 :: (jsonString r.method ++
      44 :: 34 :: (nURL ++ 34 :: 58 :: (jsonString r.url ++
      44 :: 34 :: (nHeaders ++ 34 :: 58 :: (jsonHeaders r.headers ++ [125, 10]))))))))))))))))))))))))) := by
  simp only [encodeJSON, timeMarshalJSON, ht, Option.map_some, kAttack, kSeq, kCode, kTimestamp, kLatency,
    kBytesOut, kBytesIn, kError, kBody, kMethod, kURL, kHeaders, List.append_assoc, List.cons_append,
    List.nil_append]

theorem tokenize_encodeJSON (offMin : Int) (r : Result) (hr : ReprJSONResult r) (tt : Bytes)
    (ht : fmtRFC3339 r.timestamp offMin = some tt) (hp : ∀ c ∈ tt, c ≠ 34 ∧ c ≠ 92) :
    ∃ b, encodeJSON offMin r = some b ∧ tokenize b = some (.lbrace :: recToks r tt) := by
  refine ⟨_, encodeJSON_eq offMin r tt ht, toks_tokenize ?_⟩
  unfold recToks
  refine toks_lbrace (toks_key nAttack (by decide) (toks_jsonString _ hr.attack (toks_comma ?_)))
  refine toks_key nSeq (by decide) (toks_fmtNat _ (toks_comma ?_))
  refine toks_key nCode (by decide) (toks_fmtNat _ (toks_comma ?_))
  refine toks_key nTimestamp (by decide) (toks_plain tt hp (toks_comma ?_))
  refine toks_key nLatency (by decide) (toks_fmtInt _ (toks_comma ?_))
  refine toks_key nBytesOut (by decide) (toks_fmtNat _ (toks_comma ?_))
  refine toks_key nBytesIn (by decide) (toks_fmtNat _ (toks_comma ?_))
  refine toks_key nError (by decide) (toks_jsonString _ hr.error (toks_comma ?_))
  refine toks_key nBody (by decide) (toks_body _ (toks_comma ?_))
  refine toks_key nMethod (by decide) (toks_jsonString _ hr.method (toks_comma ?_))
  refine toks_key nURL (by decide) (toks_jsonString _ hr.url (toks_comma ?_))
  refine toks_key nHeaders (by decide) (toks_headers _ (fun h hh => (hr.headers h hh).2) ?_)
  exact toks_rbrace (toks_newline toks_nil)

/-! ### the grammar on that token list -/

theorem pStrings_strToks (vs : List Bytes) (rest : List JTok) :
    pStrings (strToks vs ++ .rbrack :: rest) = some (vs, rest) := by
  induction vs with
  | nil => simp [strToks, commaJoinT, pStrings]
  | cons v vs ih =>
    cases vs with
    | nil => simp [strToks, commaJoinT, pStrings]
    | cons w ws =>
      have : strToks (v :: w :: ws) = .str v :: .comma :: strToks (w :: ws) := by
        simp [strToks, commaJoinT]
      rw [this]
      simp only [List.cons_append, pStrings, ih]
      rfl

theorem pHeaderMembers_entriesToks (h : Header) :
    ∀ (fuel : Nat) (acc : Header) (rest : List JTok), h.length < fuel →
      pHeaderMembers fuel (entriesToks h ++ .rbrace :: rest) acc = some (acc ++ h, rest) := by
  induction h with
  | nil =>
    intro fuel acc rest hf
    cases fuel with
    | zero => simp at hf
    | succ f => simp [entriesToks, commaJoinT, pHeaderMembers]
  | cons kv h ih =>
    intro fuel acc rest hf
    cases fuel with
    | zero => simp at hf
    | succ f =>
      obtain ⟨k, vs⟩ := kv
      have hf' : h.length < f := by simp at hf; omega
      cases h with
      | nil =>
        cases vs with
        | nil => simp [entriesToks, commaJoinT, entryToks, pHeaderMembers]
        | cons v vs =>
          simp [entriesToks, commaJoinT, entryToks, pHeaderMembers, pStrings_strToks]
      | cons kv' h' =>
        have e : entriesToks ((k, vs) :: kv' :: h') = entryToks (k, vs) ++ .comma :: entriesToks (kv' :: h') := by
          simp [entriesToks, commaJoinT]
        have ih' := ih f (acc ++ [(k, vs)]) rest hf'
        rw [e]
        cases vs with
        | nil =>
          simp [entryToks, pHeaderMembers, ih']
        | cons v vs =>
          simp [entryToks, pHeaderMembers, pStrings_strToks, ih']

theorem length_le_entriesToks (h : Header) : h.length ≤ (entriesToks h).length := by
  induction h with
  | nil => simp
  | cons kv h ih =>
    cases h with
    | nil => simp [entriesToks, commaJoinT, entryToks]
    | cons kv' h' =>
      have e : entriesToks (kv :: kv' :: h') = entryToks kv ++ .comma :: entriesToks (kv' :: h') := by
        simp [entriesToks, commaJoinT]
      rw [e]
      simp only [List.length_append, List.length_cons] at ih ⊢
      omega

theorem pMembers_str (fuel : Nat) (k s : Bytes) (rest : List JTok) (r r' : Result)
    (h : setScalar k (.str s) r = some r') :
    pMembers (fuel + 1) (.str k :: .colon :: .str s :: .comma :: rest) r = pMembers fuel rest r' := by
  simp [pMembers, h]

theorem pMembers_num (fuel : Nat) (k s : Bytes) (rest : List JTok) (r r' : Result)
    (h : setScalar k (.num s) r = some r') :
    pMembers (fuel + 1) (.str k :: .colon :: .num s :: .comma :: rest) r = pMembers fuel rest r' := by
  simp [pMembers, h]

theorem pMembers_null (fuel : Nat) (k : Bytes) (rest : List JTok) (r : Result) :
    pMembers (fuel + 1) (.str k :: .colon :: .null :: .comma :: rest) r = pMembers fuel rest r := by
  simp [pMembers, setScalar]

theorem setScalar_attack (s : Bytes) (r : Result) :
    setScalar nAttack (.str s) r = some { r with attack := s } := by
  simp [setScalar, nAttack, dAttack]

theorem setScalar_seq (n : Nat) (r : Result) :
    setScalar nSeq (.num (fmtNat n)) r = some { r with seq := n } := by
  simp [setScalar, nSeq, dSeq, specNat_fmtNat]

theorem setScalar_code (n : Nat) (hn : n < 65536) (r : Result) :
    setScalar nCode (.num (fmtNat n)) r = some { r with code := n } := by
  simp [setScalar, nCode, dSeq, dCode, specNat_fmtNat, hn]

theorem setScalar_timestamp (tt : Bytes) (t : Int) (ht : parseRFC3339 tt = some t) (r : Result) :
    setScalar nTimestamp (.str tt) r = some { r with timestamp := t } := by
  simp [setScalar, nTimestamp, dAttack, dError, dMethod, dURL, dBody, dTimestamp, ht]

theorem setScalar_latency (i : Int) (r : Result) :
    setScalar nLatency (.num (fmtInt i)) r = some { r with latency := i } := by
  simp [setScalar, nLatency, dSeq, dCode, dLatency, specInt_fmtInt]

theorem setScalar_bytesOut (n : Nat) (r : Result) :
    setScalar nBytesOut (.num (fmtNat n)) r = some { r with bytesOut := n } := by
  simp [setScalar, nBytesOut, dSeq, dCode, dLatency, dBytesOut, specNat_fmtNat]

theorem setScalar_bytesIn (n : Nat) (r : Result) :
    setScalar nBytesIn (.num (fmtNat n)) r = some { r with bytesIn := n } := by
  simp [setScalar, nBytesIn, dSeq, dCode, dLatency, dBytesOut, dBytesIn, specNat_fmtNat]

theorem setScalar_error (s : Bytes) (r : Result) :
    setScalar nError (.str s) r = some { r with error := s } := by
  simp [setScalar, nError, dAttack, dError]

theorem setScalar_body (b : Bytes) (hb : ∀ x ∈ b, x < 256) (r : Result) :
    setScalar nBody (.str (b64Encode b)) r = some { r with body := some b } := by
  simp [setScalar, nBody, dAttack, dError, dMethod, dURL, dBody, b64Decode_b64Encode b hb, optOutcome]

theorem setScalar_method (s : Bytes) (r : Result) :
    setScalar nMethod (.str s) r = some { r with method := s } := by
  simp [setScalar, nMethod, dAttack, dError, dMethod]

theorem setScalar_url (s : Bytes) (r : Result) :
    setScalar nURL (.str s) r = some { r with url := s } := by
  simp [setScalar, nURL, dAttack, dError, dMethod, dURL]

/-- the `body` member: `null` leaves the (still nil) body alone -/
theorem pMembers_body (fuel : Nat) (ob : Option Bytes) (hb : ∀ b, ob = some b → ∀ x ∈ b, x < 256)
    (rest : List JTok) (r : Result) (h0 : r.body = none) :
    pMembers (fuel + 1) (.str nBody :: .colon :: bodyTok ob :: .comma :: rest) r =
      pMembers fuel rest { r with body := ob } := by
  cases ob with
  | none =>
    have : { r with body := none } = r := by cases r; simp_all
    rw [this]; exact pMembers_null _ _ _ _
  | some b => exact pMembers_str _ _ _ _ _ _ (setScalar_body b (hb b rfl) r)

/-- the `headers` member, the last one -/
theorem pMembers_headers (fuel : Nat) (oh : Option Header) (r : Result) (h0 : r.headers = none) :
    pMembers (fuel + 1) (.str nHeaders :: .colon :: (headersToks oh ++ [.rbrace])) r =
      some { r with headers := oh } := by
  cases oh with
  | none =>
    have : { r with headers := none } = r := by cases r; simp_all
    rw [this]
    simp [headersToks, pMembers, setScalar]
  | some h =>
    have := pHeaderMembers_entriesToks h ((entriesToks h).length + 2 + 1) [] [.rbrace]
      (by have := length_le_entriesToks h; omega)
    simp only [List.nil_append] at this
    have e : (nHeaders == dHeaders) = true := by decide
    simp [headersToks, pMembers, e, this]

theorem pMembers_recToks (r : Result) (hr : ReprJSONResult r) (tt : Bytes)
    (ht : parseRFC3339 tt = some r.timestamp) (fuel : Nat) :
    pMembers (fuel + 12) (recToks r tt) {} = some r := by
  unfold recToks
  rw [pMembers_str _ _ _ _ _ _ (setScalar_attack _ _),
    pMembers_num _ _ _ _ _ _ (setScalar_seq _ _),
    pMembers_num _ _ _ _ _ _ (setScalar_code _ hr.num.code _),
    pMembers_str _ _ _ _ _ _ (setScalar_timestamp _ _ ht _),
    pMembers_num _ _ _ _ _ _ (setScalar_latency _ _),
    pMembers_num _ _ _ _ _ _ (setScalar_bytesOut _ _),
    pMembers_num _ _ _ _ _ _ (setScalar_bytesIn _ _),
    pMembers_str _ _ _ _ _ _ (setScalar_error _ _),
    pMembers_body _ _ hr.body _ _ rfl,
    pMembers_str _ _ _ _ _ _ (setScalar_method _ _),
    pMembers_str _ _ _ _ _ _ (setScalar_url _ _),
    pMembers_headers _ _ _ rfl]

/-- what the RFC 3339 layer provides for the timestamp `ts` shown in zone `offMin` -/
def TimeText (ts offMin : Int) : Prop :=
  ∃ b, fmtRFC3339 ts offMin = some b ∧ parseRFC3339 b = some ts ∧ ∀ c ∈ b, 32 ≤ c ∧ c < 128 ∧ c ≠ 34 ∧ c ≠ 92

/-- **spec_reader_agrees_json**: the independent reader of the documented member names and units reads
every encoded record of the JSON domain back to exactly the result that was written -/
theorem specReadJSONLine_encodeJSON (offMin : Int) (r : Result) (hr : ReprJSONResult r)
    (ht : TimeText r.timestamp offMin) :
    ∃ b, encodeJSON offMin r = some b ∧ specReadJSONLine b = some r := by
  obtain ⟨tt, hf, hp, hc⟩ := ht
  obtain ⟨b, hb, htok⟩ := tokenize_encodeJSON offMin r hr tt hf (fun c hx => (hc c hx).2.2)
  refine ⟨b, hb, ?_⟩
  unfold specReadJSONLine
  rw [htok]
  have hl : (recToks r tt).length + 1 = ((recToks r tt).length - 11) + 12 := by
    simp [recToks]
  show pMembers ((recToks r tt).length + 1) (recToks r tt) {} = some r
  rw [hl]
  exact pMembers_recToks r hr tt hp _

/-! ### sanity checks on concrete records -/

/-- escapes in texts, a body, a header map with a two-valued and a value-less key, zone +01:00 -/
def sampleJSONResult : Result :=
  { attack := [97, 34, 60], seq := 7, code := 200, timestamp := 1600000000123456789, latency := -5, bytesOut := 3,
    bytesIn := 10, body := some [1, 2, 255], method := [71, 69, 84], url := [104],
    headers := some [([65], [[98], [99, 92]]), ([66], [])] }

set_option maxRecDepth 100000 in
example : (encodeJSON 60 sampleJSONResult).bind specReadJSONLine = some sampleJSONResult := by decide

-- nil body and nil header map are written as `null` and read back as nil
set_option maxRecDepth 100000 in
example : (encodeJSON 0 { timestamp := 0 }).bind specReadJSONLine = some { timestamp := 0 } := by decide

-- an empty (non-nil) header map is written as `{}` and read back as the empty map
set_option maxRecDepth 100000 in
example : (encodeJSON 0 { timestamp := 1, headers := some [] }).bind specReadJSONLine =
    some { timestamp := 1, headers := some [] } := by decide

end Vegeta.Proofs.Codec
