/-
Shared definitions for the theorems about encoder call sequences and the `encode` command
(Model/EncodeCmd.lean): per-codec domains, stream encoders, and what each decoder hands back.
-/
import Vegeta.Model.EncodeCmd
import Vegeta.Proofs.CodecDomain
import Vegeta.Proofs.GobValueDomain
namespace Vegeta.Proofs.EncodeCmd
open Vegeta.Go Vegeta.Model.Codec Vegeta.Model.GobFrame Vegeta.Model.GobValue Vegeta.Model.EncodeCmd
open Vegeta.Proofs.Codec Vegeta.Proofs.Gob

/-- what the decoder of a codec returns for an encoded result -/
def decodedBy : Codec → Result → Result
  | .csv => csvDecoded
  | .json => id
  | .gob => gobDecoded

/-- the representable domain of a codec, for results whose timestamps are shown in zone `z` -/
def ReprFor (c : Codec) (z : Zone) (r : Result) : Prop :=
  match c with
  | .csv => ReprCSVResult r
  | .json => ReprJSONResult r ∧ (zoneMin z).natAbs < 1440
  | .gob => ReprGobResult z r ∧ ZoneOK z

/-- the bytes an encoder of the codec writes for a whole stream -/
def encodeAllWith (c : Codec) (z : Zone) (rs : List Result) : Option Bytes :=
  match c with
  | .csv => some (encodeCSVAll rs)
  | .json => encodeJSONAll (zoneMin z) rs
  | .gob => encodeGobAll z rs

/-- one whole record as the encoder writes it (`[]` if the result cannot be encoded) -/
def recordOf (c : Codec) (a : Zone × Result) : Bytes :=
  match c with
  | .csv => encodeCSV a.2
  | .json => (encodeJSON (zoneMin a.1) a.2).getD []
  | .gob => ((valuePayload a.1 a.2).map encodeFrame).getD []

/-- the arguments of the calls that returned nil, in call order -/
def okCalls (c : Codec) (st : EncState) (args : List (Zone × Result)) : List (Zone × Result) :=
  ((args.zip (encCalls c st args).2).filter (·.2)).map (·.1)

/-- a header map as a Go map: distinct keys -/
def HeadersOK (h : Option Header) : Prop := ∀ x, h = some x → (x.map (·.1)).Nodup

/-- header maps as net/http yields them: every key has at least one value -/
def ValuesNonEmpty (h : Option Header) : Prop := ∀ x, h = some x → ∀ kv ∈ x, kv.2 ≠ []

end Vegeta.Proofs.EncodeCmd
