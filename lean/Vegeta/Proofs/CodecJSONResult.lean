/-
The JSON result codec, one record: what the generated encoder (`MarshalEasyJSON` + newline) writes
for a result of the JSON domain is read back by the generated decoder (`UnmarshalEasyJSON` over the
jlexer token layer) as exactly that result.  The RFC 3339 layer enters as the hypothesis `TimeOK`.
-/
import Vegeta.Proofs.CodecDomain
import Vegeta.Proofs.CodecDecimal
import Vegeta.Proofs.CodecBase64
import Vegeta.Proofs.CodecJSONString
namespace Vegeta.Proofs.Codec
open Vegeta.Go Vegeta.Model.Codec

/-- what the RFC 3339 layer provides for the timestamp of `r` shown in zone `offMin` -/
def TimeOK (ts offMin : Int) : Prop :=
  ∃ b, timeMarshalJSON ts offMin = some (34 :: (b ++ [34])) ∧ timeUnmarshalJSON (34 :: (b ++ [34])) = .ok ts ∧
    ∀ c ∈ b, 32 ≤ c ∧ c < 128 ∧ c ≠ 34 ∧ c ≠ 92

/-! ### the `Outcome` monad -/

theorem ok_bind {α β} (a : α) (f : α → Outcome β) : (Outcome.ok a >>= f) = f a := rfl
theorem pure_eq_ok {α} (a : α) : (pure a : Outcome α) = .ok a := rfl

/-! ### token lemmas -/

theorem next_comma (s : Bytes) (fe : Bool) :
    Lex.next ⟨44 :: s, 44, fe⟩ = Lex.next ⟨s, 0, fe⟩ := by
  simp [Lex.next, fetchToken]

theorem next_colon (s : Bytes) (fe : Bool) :
    Lex.next ⟨58 :: s, 58, fe⟩ = Lex.next ⟨s, 0, fe⟩ := by
  simp [Lex.next, fetchToken]

/-- a string token whose body has neither quote nor backslash -/
theorem next_str_plain (n rest : Bytes) (fe : Bool) (h : ∀ c ∈ n, c ≠ 34 ∧ c ≠ 92) :
    Lex.next ⟨34 :: (n ++ 34 :: rest), 0, fe⟩ = .ok (.str n, ⟨rest, 0, fe⟩) := by
  simp [Lex.next, fetchToken, fetchString_plain n rest h]

/-- a string token as the writer wrote it -/
theorem next_jsonString (s rest : Bytes) (fe : Bool) :
    Lex.next ⟨jsonString s ++ rest, 0, fe⟩ = .ok (.str (jsonEscape s), ⟨rest, 0, fe⟩) := by
  simp [Lex.next, jsonString, fetchToken, fetchString_jsonEscape s rest]

theorem fetchNumberP_digits (ds rest : Bytes) (hds : ∀ x ∈ ds, 48 ≤ x ∧ x ≤ 57) :
    ∀ hasE afterE hasDot, fetchNumberP hasE afterE hasDot (ds ++ 44 :: rest) = some (ds, 44 :: rest) := by
  induction ds with
  | nil => intro a b c; simp [fetchNumberP, isDigitB, isTokenEnd]
  | cons d ds ih =>
    intro a b c
    have hd := hds d (by simp)
    have := ih (fun x hx => hds x (by simp [hx])) a false c
    simp [fetchNumberP, isDigitB, hd.1, hd.2, this]

/-- a number token: an optional sign or a digit, then digits, then a comma -/
theorem next_num (d : Nat) (ds rest : Bytes) (fe : Bool) (hd : d = 45 ∨ (48 ≤ d ∧ d ≤ 57))
    (hds : ∀ x ∈ ds, 48 ≤ x ∧ x ≤ 57) :
    Lex.next ⟨d :: (ds ++ 44 :: rest), 0, fe⟩ = .ok (.num (d :: ds), ⟨44 :: rest, 0, fe⟩) := by
  have h1 : ¬ (d = 58 ∨ d = 44) := by omega
  have h2 : ¬ (d = 32 ∨ d = 9 ∨ d = 13 ∨ d = 10) := by omega
  have h3 : ¬ d = 34 := by omega
  have h4 : ¬ (d = 123 ∨ d = 91) := by omega
  have h5 : ¬ (d = 125 ∨ d = 93) := by omega
  have h6 : (isDigitB d = true ∨ d = 45) := by
    simp only [isDigitB, Bool.and_eq_true, decide_eq_true_eq]; omega
  simp only [Lex.next, fetchToken, h1, h2, h3, h4, h5, h6, if_false, if_true,
    fetchNumberP_digits ds rest hds false false false]
  simp

theorem next_fmtNat (n : Nat) (rest : Bytes) (fe : Bool) :
    Lex.next ⟨fmtNat n ++ 44 :: rest, 0, fe⟩ = .ok (.num (fmtNat n), ⟨44 :: rest, 0, fe⟩) := by
  obtain ⟨d, r, e, hd, hr⟩ := fmtNat_cons n
  rw [e]
  exact next_num d r rest fe (Or.inr hd) hr

theorem next_fmtInt (i : Int) (rest : Bytes) (fe : Bool) :
    Lex.next ⟨fmtInt i ++ 44 :: rest, 0, fe⟩ = .ok (.num (fmtInt i), ⟨44 :: rest, 0, fe⟩) := by
  obtain ⟨d, r, e, hd, hr⟩ := fmtInt_cons i
  rw [e]
  exact next_num d r rest fe hd hr

theorem next_null (c : Nat) (rest : Bytes) (fe : Bool) (hc : isTokenEnd c = true) :
    Lex.next ⟨110 :: 117 :: 108 :: 108 :: c :: rest, 0, fe⟩ = .ok (.null, ⟨c :: rest, 0, fe⟩) := by
  simp [Lex.next, fetchToken, fetchKeyword, hc, isDigitB]

theorem next_open (c : Nat) (rest : Bytes) (fe : Bool) (hc : c = 123 ∨ c = 91) :
    Lex.next ⟨c :: rest, 0, fe⟩ = .ok (.delim c, ⟨rest, 0, true⟩) := by
  rcases hc with rfl | rfl <;> simp [Lex.next, fetchToken]

theorem next_close (c : Nat) (rest : Bytes) (ws : Nat) (fe : Bool) (hc : c = 125 ∨ c = 93)
    (h : fe = true ∨ ws = 44) :
    Lex.next ⟨c :: rest, ws, fe⟩ = .ok (.delim c, ⟨rest, 0, fe⟩) := by
  rcases hc with rfl | rfl <;> rcases h with rfl | rfl <;> simp [Lex.next, fetchToken]

/-! ### value lemmas: the readers on a value that follows a colon -/

theorem plain_of_no_bs {n : Bytes} (h : ∀ c ∈ n, c ≠ 34 ∧ c ≠ 92) : 92 ∉ n :=
  fun hx => (h 92 hx).2 rfl

theorem lexString_colon (s : Bytes) (fe : Bool) :
    lexString ⟨58 :: s, 58, fe⟩ = lexString ⟨s, 0, fe⟩ := by
  simp only [lexString, next_colon]

theorem lexNumber_colon (s : Bytes) (fe : Bool) :
    lexNumber ⟨58 :: s, 58, fe⟩ = lexNumber ⟨s, 0, fe⟩ := by
  simp only [lexNumber, next_colon]

theorem lexDelim_colon (c : Nat) (s : Bytes) (fe : Bool) :
    lexDelim c ⟨58 :: s, 58, fe⟩ = lexDelim c ⟨s, 0, fe⟩ := by
  simp only [lexDelim, next_colon]

theorem lexRawString_colon (s : Bytes) (fe : Bool) :
    lexRawString ⟨58 :: s, 58, fe⟩ = lexRawString ⟨s, 0, fe⟩ := by
  simp only [lexRawString, next_colon]

/-- `in.String()` on a written string -/
theorem lexString_jsonString (s rest : Bytes) (fe : Bool) (h : validUTF8 s = true) :
    lexString ⟨jsonString s ++ rest, 0, fe⟩ = .ok (s, ⟨rest, 0, fe⟩) := by
  simp only [lexString, next_jsonString, unescape_jsonEscape s h]

/-- `in.String()` on a plain string token -/
theorem lexString_plain (n rest : Bytes) (fe : Bool) (h : ∀ c ∈ n, c ≠ 34 ∧ c ≠ 92) :
    lexString ⟨34 :: (n ++ 34 :: rest), 0, fe⟩ = .ok (n, ⟨rest, 0, fe⟩) := by
  simp only [lexString, next_str_plain n rest fe h, unescape_plain n (plain_of_no_bs h)]

theorem lexUint_fmtNat (bits n : Nat) (rest : Bytes) (fe : Bool) (hb : bits ≤ 64) (h : n < 2 ^ bits) :
    lexUint bits ⟨fmtNat n ++ 44 :: rest, 0, fe⟩ = .ok (n, ⟨44 :: rest, 0, fe⟩) := by
  simp only [lexUint, lexNumber, next_fmtNat, ok_bind, parseUint_fmtNat bits n hb h, pure_eq_ok]

theorem lexInt_fmtInt (i : Int) (rest : Bytes) (fe : Bool) (h : inS64 i) :
    lexInt 64 ⟨fmtInt i ++ 44 :: rest, 0, fe⟩ = .ok (i, ⟨44 :: rest, 0, fe⟩) := by
  simp only [lexInt, lexNumber, next_fmtInt, ok_bind, parseInt_fmtInt i h, pure_eq_ok]

theorem lexBytes_body (b rest : Bytes) (fe : Bool) (h : ∀ x ∈ b, x < 256) :
    lexBytes ⟨jsonBody (some b) ++ rest, 0, fe⟩ = .ok (b, ⟨rest, 0, fe⟩) := by
  have hp : ∀ c ∈ b64Encode b, c ≠ 34 ∧ c ≠ 92 := fun c hc =>
    ⟨(b64Encode_safe b c hc).2.2.1, (b64Encode_safe b c hc).2.2.2.2.1⟩
  have e : jsonBody (some b) ++ rest = 34 :: (b64Encode b ++ 34 :: rest) := by
    simp [jsonBody]
  simp only [lexBytes, e, lexString_plain _ rest fe hp, ok_bind, b64Decode_b64Encode b h, pure_eq_ok]

theorem lexRawString_plain (n rest : Bytes) (fe : Bool) (h : ∀ c ∈ n, c ≠ 34 ∧ c ≠ 92) :
    lexRawString ⟨34 :: (n ++ [34]) ++ rest, 0, fe⟩ = .ok (34 :: (n ++ [34]), ⟨rest, 0, fe⟩) := by
  have e : 34 :: (n ++ [34]) ++ rest = 34 :: (n ++ 34 :: rest) := by simp
  simp only [lexRawString, e, next_str_plain n rest fe h]

/-! ### string arrays -/

/-- what is left of a written array after an element: `,"v"` per further element, then `]` -/
def arrTail : List Bytes → Bytes → Bytes
  | [], tail => 93 :: tail
  | v :: vs, tail => 44 :: (jsonString v ++ arrTail vs tail)

theorem commaJoin_arr (v : Bytes) (vs : List Bytes) (tail : Bytes) :
    commaJoin ((v :: vs).map jsonString) ++ 93 :: tail = jsonString v ++ arrTail vs tail := by
  induction vs generalizing v with
  | nil => simp [commaJoin, arrTail]
  | cons w ws ih =>
    have := ih w
    simp only [List.map_cons] at this ⊢
    simp only [commaJoin, arrTail, List.append_assoc, List.cons_append, this]

theorem arrTail_length (vs : List Bytes) (tail : Bytes) : vs.length + 1 ≤ (arrTail vs tail).length := by
  induction vs with
  | nil => simp [arrTail]
  | cons v vs ih => simp [arrTail]; omega

theorem parseStrArray_tail (vs : List Bytes) (tail : Bytes) (hv : ∀ v ∈ vs, validUTF8 v = true) :
    ∀ fuel acc, vs.length < fuel →
      parseStrArray fuel ⟨arrTail vs tail, 44, false⟩ acc = .ok (acc.reverse ++ vs, ⟨tail, 0, false⟩) := by
  induction vs with
  | nil =>
    intro fuel acc hf
    cases fuel with
    | zero => omega
    | succ f =>
      simp only [parseStrArray, arrTail, next_close 93 tail 44 false (Or.inr rfl) (Or.inr rfl), ok_bind,
        if_true, pure_eq_ok, List.append_nil]
  | cons v vs ih =>
    intro fuel acc hf
    cases fuel with
    | zero => omega
    | succ f =>
      have hv1 := hv v (by simp)
      have ih' := ih (fun x hx => hv x (by simp [hx])) f (v :: acc) (by simp at hf; omega)
      have hne : ¬ (Tok.str (jsonEscape v) = Tok.delim 93) := by intro h; cases h
      simp only [parseStrArray, arrTail, next_comma, next_jsonString, ok_bind, hne, if_false,
        lexString, unescape_jsonEscape v hv1, Lex.wantComma, ih']
      simp

/-- `[` has been read: the whole non-empty array -/
theorem parseStrArray_first (v : Bytes) (vs : List Bytes) (tail : Bytes)
    (hv : ∀ x ∈ v :: vs, validUTF8 x = true) (fuel : Nat) (hf : vs.length + 1 < fuel) :
    parseStrArray fuel ⟨jsonString v ++ arrTail vs tail, 0, true⟩ [] = .ok (v :: vs, ⟨tail, 0, false⟩) := by
  cases fuel with
  | zero => omega
  | succ f =>
    have hv1 := hv v (by simp)
    have ih' := parseStrArray_tail vs tail (fun x hx => hv x (by simp [hx])) f [v] (by omega)
    have hne : ¬ (Tok.str (jsonEscape v) = Tok.delim 93) := by intro h; cases h
    simp only [parseStrArray, next_jsonString, ok_bind, hne, if_false,
      lexString, unescape_jsonEscape v hv1, Lex.wantComma, ih']
    simp

/-! ### the header object -/

/-- the value part of a header entry -/
def hdrValue (vs : List Bytes) : Bytes :=
  if vs.isEmpty then [110, 117, 108, 108] else 91 :: (commaJoin (vs.map jsonString) ++ [93])

theorem jsonHeaderEntry_append (kv : Bytes × List Bytes) (T : Bytes) :
    jsonHeaderEntry kv ++ T = jsonString kv.1 ++ 58 :: (hdrValue kv.2 ++ T) := by
  simp [jsonHeaderEntry, hdrValue]

/-- what is left of a written object after an entry: `,entry` per further entry, then `}` -/
def objTail : Header → Bytes → Bytes
  | [], tail => 125 :: tail
  | kv :: h, tail => 44 :: (jsonHeaderEntry kv ++ objTail h tail)

theorem commaJoin_obj (kv : Bytes × List Bytes) (h : Header) (tail : Bytes) :
    commaJoin ((kv :: h).map jsonHeaderEntry) ++ 125 :: tail = jsonHeaderEntry kv ++ objTail h tail := by
  induction h generalizing kv with
  | nil => simp [commaJoin, objTail]
  | cons w ws ih =>
    have := ih w
    simp only [List.map_cons] at this ⊢
    simp only [commaJoin, objTail, List.append_assoc, List.cons_append, this]

theorem objTail_length (h : Header) (tail : Bytes) : h.length + 1 ≤ (objTail h tail).length := by
  induction h with
  | nil => simp [objTail]
  | cons v vs ih => simp [objTail]; omega

theorem objTail_head (h : Header) (tail : Bytes) :
    ∃ c T, objTail h tail = c :: T ∧ (c = 44 ∨ c = 125) := by
  cases h with
  | nil => exact ⟨125, tail, rfl, Or.inr rfl⟩
  | cons kv h => exact ⟨44, _, rfl, Or.inl rfl⟩

theorem headerSet_new (k : Bytes) (vs : List Bytes) (m : Header) (h : k ∉ m.map (·.1)) :
    headerSet k vs m = m ++ [(k, vs)] := by
  induction m with
  | nil => rfl
  | cons x xs ih =>
    simp only [List.map_cons, List.mem_cons, not_or] at h
    have hx : ¬ x.1 = k := fun e => h.1 e.symm
    simp only [headerSet, hx, if_false, ih h.2, List.cons_append]

/-- one entry of the header object, from the state `l` whose next token is the written key -/
theorem parseHeaderObj_entry (l : Lex) (k : Bytes) (vs : List Bytes) (c : Nat) (T : Bytes) (fe' : Bool)
    (m : Header) (f : Nat) (hc : c = 44 ∨ c = 125)
    (hkv : validUTF8 k = true) (hvs : ∀ v ∈ vs, validUTF8 v = true)
    (hk : l.next = .ok (.str (jsonEscape k), ⟨58 :: (hdrValue vs ++ c :: T), 0, fe'⟩)) :
    parseHeaderObj (f + 1) l m = parseHeaderObj f ⟨c :: T, 44, false⟩ (headerSet k vs m) := by
  have hne : ¬ (Tok.str (jsonEscape k) = Tok.delim 125) := by intro h; cases h
  have hte : isTokenEnd c = true := by rcases hc with rfl | rfl <;> decide
  cases vs with
  | nil =>
    simp only [parseHeaderObj, hk, ok_bind, hne, if_false, lexString, unescape_jsonEscape k hkv,
      Lex.wantColon, next_colon, hdrValue, List.isEmpty_nil, if_true, List.cons_append, List.nil_append,
      next_null c T false hte, Lex.wantComma]
  | cons v vs =>
    have e : hdrValue (v :: vs) ++ c :: T = 91 :: (jsonString v ++ arrTail vs (c :: T)) := by
      rw [← commaJoin_arr]
      simp [hdrValue]
    have hn2 : ¬ (Tok.delim 91 = Tok.null) := by intro h; cases h
    have hfuel : vs.length + 1 < (jsonString v ++ arrTail vs (c :: T)).length + 1 := by
      have := arrTail_length vs (c :: T)
      simp only [List.length_append]; omega
    simp only [parseHeaderObj, hk, ok_bind, hne, if_false, lexString, unescape_jsonEscape k hkv,
      Lex.wantColon, next_colon, e, next_open 91 _ false (Or.inr rfl), hn2, lexDelim,
      if_true, parseStrArray_first v vs (c :: T) hvs _ hfuel, Lex.wantComma]

theorem parseHeaderObj_tail (h : Header) (tail : Bytes)
    (hv : ∀ kv ∈ h, validUTF8 kv.1 = true ∧ ∀ v ∈ kv.2, validUTF8 v = true) :
    ∀ fuel m, h.length < fuel → ((m ++ h).map (·.1)).Nodup →
      parseHeaderObj fuel ⟨objTail h tail, 44, false⟩ m = .ok (m ++ h, ⟨tail, 0, false⟩) := by
  induction h with
  | nil =>
    intro fuel m hf _
    cases fuel with
    | zero => omega
    | succ f =>
      simp only [parseHeaderObj, objTail, next_close 125 tail 44 false (Or.inl rfl) (Or.inr rfl), ok_bind,
        if_true, pure_eq_ok, List.append_nil]
  | cons kv h ih =>
    intro fuel m hf hnd
    cases fuel with
    | zero => omega
    | succ f =>
      obtain ⟨c, T, eT, hc⟩ := objTail_head h tail
      have hkv := hv kv (by simp)
      have hk : Lex.next ⟨objTail (kv :: h) tail, 44, false⟩ =
          .ok (.str (jsonEscape kv.1), ⟨58 :: (hdrValue kv.2 ++ c :: T), 0, false⟩) := by
        simp only [objTail, next_comma, jsonHeaderEntry_append, next_jsonString, eT]
      rw [parseHeaderObj_entry _ kv.1 kv.2 c T false m f hc hkv.1 hkv.2 hk, ← eT]
      have hnew : kv.1 ∉ m.map (·.1) := by
        intro hmem
        simp only [List.map_append, List.map_cons] at hnd
        have := (List.nodup_append.1 hnd).2.2 _ hmem _ (List.mem_cons_self)
        exact this rfl
      rw [headerSet_new _ _ _ hnew]
      have := ih (fun x hx => hv x (by simp [hx])) f (m ++ [kv]) (by simp at hf; omega)
        (by simpa [List.append_assoc] using hnd)
      simpa [List.append_assoc] using this

/-- `{` has been read: the whole object -/
theorem parseHeaderObj_all (h : Header) (tail : Bytes)
    (hv : ∀ kv ∈ h, validUTF8 kv.1 = true ∧ ∀ v ∈ kv.2, validUTF8 v = true)
    (hnd : (h.map (·.1)).Nodup) :
    ∃ fe, parseHeaderObj ((commaJoin (h.map jsonHeaderEntry) ++ 125 :: tail).length + 1)
      ⟨commaJoin (h.map jsonHeaderEntry) ++ 125 :: tail, 0, true⟩ [] = .ok (h, ⟨tail, 0, fe⟩) := by
  cases h with
  | nil =>
    refine ⟨true, ?_⟩
    simp only [List.map_nil, commaJoin, List.nil_append, parseHeaderObj,
      next_close 125 tail 0 true (Or.inl rfl) (Or.inl rfl), ok_bind, if_true, pure_eq_ok]
  | cons kv h =>
    refine ⟨false, ?_⟩
    rw [commaJoin_obj]
    obtain ⟨c, T, eT, hc⟩ := objTail_head h tail
    have hkv := hv kv (by simp)
    have hk : Lex.next ⟨jsonHeaderEntry kv ++ objTail h tail, 0, true⟩ =
        .ok (.str (jsonEscape kv.1), ⟨58 :: (hdrValue kv.2 ++ c :: T), 0, true⟩) := by
      simp only [jsonHeaderEntry_append, next_jsonString, eT]
    rw [parseHeaderObj_entry _ kv.1 kv.2 c T true [] _ hc hkv.1 hkv.2 hk, ← eT]
    have hlen := objTail_length h tail
    have := parseHeaderObj_tail h tail (fun x hx => hv x (by simp [hx]))
      ((jsonHeaderEntry kv ++ objTail h tail).length) [kv]
      (by simp only [List.length_append]; omega) (by simpa using hnd)
    simpa [headerSet] using this

/-! ### one turn of the member loop -/

/-- a quoted member name and its colon -/
def K (n : Bytes) : Bytes := 34 :: (n ++ [34, 58])

theorem next_K (n rest : Bytes) (fe : Bool) (hn : ∀ c ∈ n, c ≠ 34 ∧ c ≠ 92) :
    Lex.next ⟨K n ++ rest, 0, fe⟩ = .ok (.str n, ⟨58 :: rest, 0, fe⟩) := by
  have e : K n ++ rest = 34 :: (n ++ 34 :: 58 :: rest) := by simp [K]
  rw [e, next_str_plain n _ fe hn]

theorem next_cK (n rest : Bytes) (hn : ∀ c ∈ n, c ≠ 34 ∧ c ≠ 92) :
    Lex.next ⟨44 :: (K n ++ rest), 44, false⟩ = .ok (.str n, ⟨58 :: rest, 0, false⟩) := by
  rw [next_comma, next_K n rest false hn]

/-- a member whose value is not `null`: key, colon, value, and on to the next turn -/
theorem members_step (f : Nat) (l : Lex) (r : Result) (n vt : Bytes) (fe' : Bool)
    (hn : ∀ c ∈ n, c ≠ 34 ∧ c ≠ 92)
    (hk : l.next = .ok (.str n, ⟨58 :: vt, 0, fe'⟩))
    (t2 : Tok) (l3 : Lex) (hv : Lex.next ⟨vt, 0, false⟩ = .ok (t2, l3)) (hnn : ¬ t2 = .null)
    (r' : Result) (tail : Bytes) (fe2 : Bool)
    (hm : parseMember n ⟨58 :: vt, 58, false⟩ r = .ok (r', ⟨tail, 0, fe2⟩)) :
    parseMembers (f + 1) l r = parseMembers f ⟨tail, 44, false⟩ r' := by
  have hne : ¬ (Tok.str n = Tok.delim 125) := by intro h; cases h
  simp only [parseMembers, hk, ok_bind, hne, if_false, lexString, unescape_plain n (plain_of_no_bs hn),
    Lex.wantColon, next_colon, hv, hnn, hm, Lex.wantComma]

/-- a member whose value is `null` is left as it is -/
theorem members_step_null (f : Nat) (l : Lex) (r : Result) (n tail : Bytes) (c : Nat) (fe' : Bool)
    (hn : ∀ c ∈ n, c ≠ 34 ∧ c ≠ 92) (hc : isTokenEnd c = true)
    (hk : l.next = .ok (.str n, ⟨58 :: 110 :: 117 :: 108 :: 108 :: c :: tail, 0, fe'⟩)) :
    parseMembers (f + 1) l r = parseMembers f ⟨c :: tail, 44, false⟩ r := by
  have hne : ¬ (Tok.str n = Tok.delim 125) := by intro h; cases h
  simp only [parseMembers, hk, ok_bind, hne, if_false, lexString, unescape_plain n (plain_of_no_bs hn),
    Lex.wantColon, next_colon, next_null c tail false hc, if_true, Lex.wantComma]

theorem members_end (f : Nat) (rest : Bytes) (r : Result) :
    parseMembers (f + 1) ⟨125 :: rest, 44, false⟩ r = .ok (r, ⟨rest, 0, false⟩) := by
  simp only [parseMembers, next_close 125 rest 44 false (Or.inl rfl) (Or.inr rfl), ok_bind, if_true, pure_eq_ok]

/-! ### the value of each member, dispatched on its name -/

theorem lexUint_colon (bits : Nat) (s : Bytes) (fe : Bool) :
    lexUint bits ⟨58 :: s, 58, fe⟩ = lexUint bits ⟨s, 0, fe⟩ := by
  simp only [lexUint, lexNumber_colon]

theorem lexInt_colon (bits : Nat) (s : Bytes) (fe : Bool) :
    lexInt bits ⟨58 :: s, 58, fe⟩ = lexInt bits ⟨s, 0, fe⟩ := by
  simp only [lexInt, lexNumber_colon]

theorem lexBytes_colon (s : Bytes) (fe : Bool) :
    lexBytes ⟨58 :: s, 58, fe⟩ = lexBytes ⟨s, 0, fe⟩ := by
  simp only [lexBytes, lexString_colon]

theorem plain_nAttack : ∀ c ∈ nAttack, c ≠ 34 ∧ c ≠ 92 := by decide
theorem plain_nSeq : ∀ c ∈ nSeq, c ≠ 34 ∧ c ≠ 92 := by decide
theorem plain_nCode : ∀ c ∈ nCode, c ≠ 34 ∧ c ≠ 92 := by decide
theorem plain_nTimestamp : ∀ c ∈ nTimestamp, c ≠ 34 ∧ c ≠ 92 := by decide
theorem plain_nLatency : ∀ c ∈ nLatency, c ≠ 34 ∧ c ≠ 92 := by decide
theorem plain_nBytesOut : ∀ c ∈ nBytesOut, c ≠ 34 ∧ c ≠ 92 := by decide
theorem plain_nBytesIn : ∀ c ∈ nBytesIn, c ≠ 34 ∧ c ≠ 92 := by decide
theorem plain_nError : ∀ c ∈ nError, c ≠ 34 ∧ c ≠ 92 := by decide
theorem plain_nBody : ∀ c ∈ nBody, c ≠ 34 ∧ c ≠ 92 := by decide
theorem plain_nMethod : ∀ c ∈ nMethod, c ≠ 34 ∧ c ≠ 92 := by decide
theorem plain_nURL : ∀ c ∈ nURL, c ≠ 34 ∧ c ≠ 92 := by decide
theorem plain_nHeaders : ∀ c ∈ nHeaders, c ≠ 34 ∧ c ≠ 92 := by decide

theorem pm_attack (s tail : Bytes) (hs : validUTF8 s = true) (r : Result) :
    parseMember nAttack ⟨58 :: (jsonString s ++ tail), 58, false⟩ r =
      .ok ({ r with attack := s }, ⟨tail, 0, false⟩) := by
  simp only [parseMember, if_true, lexString_colon, lexString_jsonString s tail false hs, ok_bind, pure_eq_ok]

theorem pm_seq (n : Nat) (t : Bytes) (h : n < 2 ^ 64) (r : Result) :
    parseMember nSeq ⟨58 :: (fmtNat n ++ 44 :: t), 58, false⟩ r =
      .ok ({ r with seq := n }, ⟨44 :: t, 0, false⟩) := by
  simp only [parseMember, show ¬ nSeq = nAttack by decide, if_false, if_true, lexUint_colon, lexUint_fmtNat 64 n t false (by decide) h, ok_bind, pure_eq_ok]

theorem pm_code (n : Nat) (t : Bytes) (h : n < 65536) (r : Result) :
    parseMember nCode ⟨58 :: (fmtNat n ++ 44 :: t), 58, false⟩ r =
      .ok ({ r with code := n }, ⟨44 :: t, 0, false⟩) := by
  simp only [parseMember, show ¬ nCode = nAttack by decide, show ¬ nCode = nSeq by decide, if_false, if_true, lexUint_colon, lexUint_fmtNat 16 n t false (by decide) h, ok_bind, pure_eq_ok]

theorem pm_timestamp (b tail : Bytes) (ts : Int) (hb : ∀ c ∈ b, c ≠ 34 ∧ c ≠ 92)
    (ht : timeUnmarshalJSON (34 :: (b ++ [34])) = .ok ts) (r : Result) :
    parseMember nTimestamp ⟨58 :: (34 :: (b ++ [34]) ++ tail), 58, false⟩ r =
      .ok ({ r with timestamp := ts }, ⟨tail, 0, false⟩) := by
  simp only [parseMember, show ¬ nTimestamp = nAttack by decide, show ¬ nTimestamp = nSeq by decide, show ¬ nTimestamp = nCode by decide, if_false, if_true, lexRawString_colon, lexRawString_plain b tail false hb, ht, ok_bind, pure_eq_ok]

theorem pm_latency (i : Int) (t : Bytes) (h : inS64 i) (r : Result) :
    parseMember nLatency ⟨58 :: (fmtInt i ++ 44 :: t), 58, false⟩ r =
      .ok ({ r with latency := i }, ⟨44 :: t, 0, false⟩) := by
  simp only [parseMember, show ¬ nLatency = nAttack by decide, show ¬ nLatency = nSeq by decide, show ¬ nLatency = nCode by decide, show ¬ nLatency = nTimestamp by decide, if_false, if_true, lexInt_colon, lexInt_fmtInt i t false h, ok_bind, pure_eq_ok]

theorem pm_bytesOut (n : Nat) (t : Bytes) (h : n < 2 ^ 64) (r : Result) :
    parseMember nBytesOut ⟨58 :: (fmtNat n ++ 44 :: t), 58, false⟩ r =
      .ok ({ r with bytesOut := n }, ⟨44 :: t, 0, false⟩) := by
  simp only [parseMember, show ¬ nBytesOut = nAttack by decide, show ¬ nBytesOut = nSeq by decide, show ¬ nBytesOut = nCode by decide, show ¬ nBytesOut = nTimestamp by decide, show ¬ nBytesOut = nLatency by decide, if_false, if_true, lexUint_colon, lexUint_fmtNat 64 n t false (by decide) h, ok_bind, pure_eq_ok]

theorem pm_bytesIn (n : Nat) (t : Bytes) (h : n < 2 ^ 64) (r : Result) :
    parseMember nBytesIn ⟨58 :: (fmtNat n ++ 44 :: t), 58, false⟩ r =
      .ok ({ r with bytesIn := n }, ⟨44 :: t, 0, false⟩) := by
  simp only [parseMember, show ¬ nBytesIn = nAttack by decide, show ¬ nBytesIn = nSeq by decide, show ¬ nBytesIn = nCode by decide, show ¬ nBytesIn = nTimestamp by decide, show ¬ nBytesIn = nLatency by decide, show ¬ nBytesIn = nBytesOut by decide, if_false, if_true, lexUint_colon, lexUint_fmtNat 64 n t false (by decide) h, ok_bind, pure_eq_ok]

theorem pm_error (s tail : Bytes) (hs : validUTF8 s = true) (r : Result) :
    parseMember nError ⟨58 :: (jsonString s ++ tail), 58, false⟩ r =
      .ok ({ r with error := s }, ⟨tail, 0, false⟩) := by
  simp only [parseMember, show ¬ nError = nAttack by decide, show ¬ nError = nSeq by decide, show ¬ nError = nCode by decide, show ¬ nError = nTimestamp by decide, show ¬ nError = nLatency by decide, show ¬ nError = nBytesOut by decide, show ¬ nError = nBytesIn by decide, if_false, if_true, lexString_colon, lexString_jsonString s tail false hs, ok_bind, pure_eq_ok]

theorem pm_body (b tail : Bytes) (h : ∀ x ∈ b, x < 256) (r : Result) :
    parseMember nBody ⟨58 :: (jsonBody (some b) ++ tail), 58, false⟩ r =
      .ok ({ r with body := some b }, ⟨tail, 0, false⟩) := by
  simp only [parseMember, show ¬ nBody = nAttack by decide, show ¬ nBody = nSeq by decide, show ¬ nBody = nCode by decide, show ¬ nBody = nTimestamp by decide, show ¬ nBody = nLatency by decide, show ¬ nBody = nBytesOut by decide, show ¬ nBody = nBytesIn by decide, show ¬ nBody = nError by decide, if_false, if_true, lexBytes_colon, lexBytes_body b tail false h, ok_bind, pure_eq_ok]

theorem pm_method (s tail : Bytes) (hs : validUTF8 s = true) (r : Result) :
    parseMember nMethod ⟨58 :: (jsonString s ++ tail), 58, false⟩ r =
      .ok ({ r with method := s }, ⟨tail, 0, false⟩) := by
  simp only [parseMember, show ¬ nMethod = nAttack by decide, show ¬ nMethod = nSeq by decide, show ¬ nMethod = nCode by decide, show ¬ nMethod = nTimestamp by decide, show ¬ nMethod = nLatency by decide, show ¬ nMethod = nBytesOut by decide, show ¬ nMethod = nBytesIn by decide, show ¬ nMethod = nError by decide, show ¬ nMethod = nBody by decide, if_false, if_true, lexString_colon, lexString_jsonString s tail false hs, ok_bind, pure_eq_ok]

theorem pm_url (s tail : Bytes) (hs : validUTF8 s = true) (r : Result) :
    parseMember nURL ⟨58 :: (jsonString s ++ tail), 58, false⟩ r =
      .ok ({ r with url := s }, ⟨tail, 0, false⟩) := by
  simp only [parseMember, show ¬ nURL = nAttack by decide, show ¬ nURL = nSeq by decide, show ¬ nURL = nCode by decide, show ¬ nURL = nTimestamp by decide, show ¬ nURL = nLatency by decide, show ¬ nURL = nBytesOut by decide, show ¬ nURL = nBytesIn by decide, show ¬ nURL = nError by decide, show ¬ nURL = nBody by decide, show ¬ nURL = nMethod by decide, if_false, if_true, lexString_colon, lexString_jsonString s tail false hs, ok_bind, pure_eq_ok]

theorem pm_headers (h : Header) (tail : Bytes) (r : Result)
    (hv : ∀ kv ∈ h, validUTF8 kv.1 = true ∧ ∀ v ∈ kv.2, validUTF8 v = true)
    (hnd : (h.map (·.1)).Nodup) :
    ∃ fe, parseMember nHeaders ⟨58 :: (jsonHeaders (some h) ++ tail), 58, false⟩ r =
      .ok ({ r with headers := some h }, ⟨tail, 0, fe⟩) := by
  obtain ⟨fe, hfe⟩ := parseHeaderObj_all h tail hv hnd
  refine ⟨fe, ?_⟩
  have e : jsonHeaders (some h) ++ tail = 123 :: (commaJoin (h.map jsonHeaderEntry) ++ 125 :: tail) := by
    simp [jsonHeaders]
  simp only [parseMember, show ¬ nHeaders = nAttack by decide, show ¬ nHeaders = nSeq by decide, show ¬ nHeaders = nCode by decide, show ¬ nHeaders = nTimestamp by decide, show ¬ nHeaders = nLatency by decide, show ¬ nHeaders = nBytesOut by decide, show ¬ nHeaders = nBytesIn by decide, show ¬ nHeaders = nError by decide, show ¬ nHeaders = nBody by decide, show ¬ nHeaders = nMethod by decide, show ¬ nHeaders = nURL by decide, if_false, if_true, e, lexDelim, next_colon,
    next_open 123 _ false (Or.inl rfl), ok_bind, hfe, pure_eq_ok]

/-! ### the twelve turns -/

theorem tok_str_ne_null (x : Bytes) : ¬ Tok.str x = Tok.null := by intro h; cases h
theorem tok_num_ne_null (x : Bytes) : ¬ Tok.num x = Tok.null := by intro h; cases h
theorem tok_delim_ne_null (c : Nat) : ¬ Tok.delim c = Tok.null := by intro h; cases h

theorem step_attack (f : Nat) (s tail : Bytes) (r : Result) (hs : validUTF8 s = true) :
    parseMembers (f + 1) ⟨K nAttack ++ (jsonString s ++ tail), 0, true⟩ r =
      parseMembers f ⟨tail, 44, false⟩ { r with attack := s } :=
  members_step f _ r nAttack _ true plain_nAttack (next_K nAttack _ true plain_nAttack) _ _
    (next_jsonString s tail false) (tok_str_ne_null _) _ tail false (pm_attack s tail hs r)

theorem step_seq (f n : Nat) (t : Bytes) (r : Result) (h : n < 2 ^ 64) :
    parseMembers (f + 1) ⟨44 :: (K nSeq ++ (fmtNat n ++ 44 :: t)), 44, false⟩ r =
      parseMembers f ⟨44 :: t, 44, false⟩ { r with seq := n } :=
  members_step f _ r nSeq _ false plain_nSeq (next_cK nSeq _ plain_nSeq) _ _
    (next_fmtNat n t false) (tok_num_ne_null _) _ _ false (pm_seq n t h r)

theorem step_code (f n : Nat) (t : Bytes) (r : Result) (h : n < 65536) :
    parseMembers (f + 1) ⟨44 :: (K nCode ++ (fmtNat n ++ 44 :: t)), 44, false⟩ r =
      parseMembers f ⟨44 :: t, 44, false⟩ { r with code := n } :=
  members_step f _ r nCode _ false plain_nCode (next_cK nCode _ plain_nCode) _ _
    (next_fmtNat n t false) (tok_num_ne_null _) _ _ false (pm_code n t h r)

theorem step_timestamp (f : Nat) (b tail : Bytes) (ts : Int) (r : Result) (hb : ∀ c ∈ b, c ≠ 34 ∧ c ≠ 92)
    (ht : timeUnmarshalJSON (34 :: (b ++ [34])) = .ok ts) :
    parseMembers (f + 1) ⟨44 :: (K nTimestamp ++ (34 :: (b ++ [34]) ++ tail)), 44, false⟩ r =
      parseMembers f ⟨tail, 44, false⟩ { r with timestamp := ts } := by
  have e : 34 :: (b ++ [34]) ++ tail = 34 :: (b ++ 34 :: tail) := by simp
  exact members_step f _ r nTimestamp _ false plain_nTimestamp (next_cK nTimestamp _ plain_nTimestamp)
    (.str b) ⟨tail, 0, false⟩ (by rw [e]; exact next_str_plain b tail false hb) (tok_str_ne_null _) _ tail false
    (pm_timestamp b tail ts hb ht r)

theorem step_latency (f : Nat) (i : Int) (t : Bytes) (r : Result) (h : inS64 i) :
    parseMembers (f + 1) ⟨44 :: (K nLatency ++ (fmtInt i ++ 44 :: t)), 44, false⟩ r =
      parseMembers f ⟨44 :: t, 44, false⟩ { r with latency := i } :=
  members_step f _ r nLatency _ false plain_nLatency (next_cK nLatency _ plain_nLatency) _ _
    (next_fmtInt i t false) (tok_num_ne_null _) _ _ false (pm_latency i t h r)

theorem step_bytesOut (f n : Nat) (t : Bytes) (r : Result) (h : n < 2 ^ 64) :
    parseMembers (f + 1) ⟨44 :: (K nBytesOut ++ (fmtNat n ++ 44 :: t)), 44, false⟩ r =
      parseMembers f ⟨44 :: t, 44, false⟩ { r with bytesOut := n } :=
  members_step f _ r nBytesOut _ false plain_nBytesOut (next_cK nBytesOut _ plain_nBytesOut) _ _
    (next_fmtNat n t false) (tok_num_ne_null _) _ _ false (pm_bytesOut n t h r)

theorem step_bytesIn (f n : Nat) (t : Bytes) (r : Result) (h : n < 2 ^ 64) :
    parseMembers (f + 1) ⟨44 :: (K nBytesIn ++ (fmtNat n ++ 44 :: t)), 44, false⟩ r =
      parseMembers f ⟨44 :: t, 44, false⟩ { r with bytesIn := n } :=
  members_step f _ r nBytesIn _ false plain_nBytesIn (next_cK nBytesIn _ plain_nBytesIn) _ _
    (next_fmtNat n t false) (tok_num_ne_null _) _ _ false (pm_bytesIn n t h r)

theorem step_error (f : Nat) (s tail : Bytes) (r : Result) (hs : validUTF8 s = true) :
    parseMembers (f + 1) ⟨44 :: (K nError ++ (jsonString s ++ tail)), 44, false⟩ r =
      parseMembers f ⟨tail, 44, false⟩ { r with error := s } :=
  members_step f _ r nError _ false plain_nError (next_cK nError _ plain_nError) _ _
    (next_jsonString s tail false) (tok_str_ne_null _) _ tail false (pm_error s tail hs r)

/-- the `body` member: `null` leaves the field as it is -/
def withBody (ob : Option Bytes) (r : Result) : Result :=
  match ob with
  | none => r
  | some b => { r with body := some b }

theorem step_body (f : Nat) (ob : Option Bytes) (t : Bytes) (r : Result)
    (h : ∀ b, ob = some b → ∀ x ∈ b, x < 256) :
    parseMembers (f + 1) ⟨44 :: (K nBody ++ (jsonBody ob ++ 44 :: t)), 44, false⟩ r =
      parseMembers f ⟨44 :: t, 44, false⟩ (withBody ob r) := by
  cases ob with
  | none =>
    exact members_step_null f _ r nBody t 44 false plain_nBody (by decide) (next_cK nBody _ plain_nBody)
  | some b =>
    have hp : ∀ c ∈ b64Encode b, c ≠ 34 ∧ c ≠ 92 := fun c hc =>
      ⟨(b64Encode_safe b c hc).2.2.1, (b64Encode_safe b c hc).2.2.2.2.1⟩
    have e : jsonBody (some b) ++ 44 :: t = 34 :: (b64Encode b ++ 34 :: 44 :: t) := by simp [jsonBody]
    exact members_step f _ r nBody _ false plain_nBody (next_cK nBody _ plain_nBody)
      (.str (b64Encode b)) ⟨44 :: t, 0, false⟩ (by rw [e]; exact next_str_plain _ _ false hp) (tok_str_ne_null _)
      _ _ false (pm_body b (44 :: t) (h b rfl) r)

theorem step_method (f : Nat) (s tail : Bytes) (r : Result) (hs : validUTF8 s = true) :
    parseMembers (f + 1) ⟨44 :: (K nMethod ++ (jsonString s ++ tail)), 44, false⟩ r =
      parseMembers f ⟨tail, 44, false⟩ { r with method := s } :=
  members_step f _ r nMethod _ false plain_nMethod (next_cK nMethod _ plain_nMethod) _ _
    (next_jsonString s tail false) (tok_str_ne_null _) _ tail false (pm_method s tail hs r)

theorem step_url (f : Nat) (s tail : Bytes) (r : Result) (hs : validUTF8 s = true) :
    parseMembers (f + 1) ⟨44 :: (K nURL ++ (jsonString s ++ tail)), 44, false⟩ r =
      parseMembers f ⟨tail, 44, false⟩ { r with url := s } :=
  members_step f _ r nURL _ false plain_nURL (next_cK nURL _ plain_nURL) _ _
    (next_jsonString s tail false) (tok_str_ne_null _) _ tail false (pm_url s tail hs r)

/-- the `headers` member: `null` leaves the field as it is -/
def withHeaders (oh : Option Header) (r : Result) : Result :=
  match oh with
  | none => r
  | some h => { r with headers := some h }

theorem step_headers (f : Nat) (oh : Option Header) (t : Bytes) (r : Result)
    (hh : ∀ h, oh = some h → (h.map (·.1)).Nodup ∧
      ∀ kv ∈ h, validUTF8 kv.1 = true ∧ ∀ v ∈ kv.2, validUTF8 v = true) :
    parseMembers (f + 1) ⟨44 :: (K nHeaders ++ (jsonHeaders oh ++ 125 :: t)), 44, false⟩ r =
      parseMembers f ⟨125 :: t, 44, false⟩ (withHeaders oh r) := by
  cases oh with
  | none =>
    exact members_step_null f _ r nHeaders t 125 false plain_nHeaders (by decide) (next_cK nHeaders _ plain_nHeaders)
  | some h =>
    obtain ⟨fe, hfe⟩ := pm_headers h (125 :: t) r (hh h rfl).2 (hh h rfl).1
    have e : jsonHeaders (some h) ++ 125 :: t = 123 :: (commaJoin (h.map jsonHeaderEntry) ++ 125 :: 125 :: t) := by
      simp [jsonHeaders]
    exact members_step f _ r nHeaders _ false plain_nHeaders (next_cK nHeaders _ plain_nHeaders)
      (.delim 123) _ (by rw [e]; exact next_open 123 _ false (Or.inl rfl)) (tok_delim_ne_null _)
      _ _ fe hfe

/-! ### the whole line -/

/-- the members of the written object in right-nested form, `ts` being the written timestamp -/
def lineBody (r : Result) (ts : Bytes) : Bytes :=
  K nAttack ++ (jsonString r.attack ++ (44 :: (K nSeq ++ (fmtNat r.seq ++ (44 :: (K nCode ++ (fmtNat r.code ++
  (44 :: (K nTimestamp ++ (ts ++ (44 :: (K nLatency ++ (fmtInt r.latency ++ (44 :: (K nBytesOut ++
  (fmtNat r.bytesOut ++ (44 :: (K nBytesIn ++ (fmtNat r.bytesIn ++ (44 :: (K nError ++ (jsonString r.error ++
  (44 :: (K nBody ++ (jsonBody r.body ++ (44 :: (K nMethod ++ (jsonString r.method ++ (44 :: (K nURL ++
  (jsonString r.url ++ (44 :: (K nHeaders ++ (jsonHeaders r.headers ++ [125, 10]
  ))))))))))))))))))))))))))))))))))

theorem encodeJSON_shape (offMin : Int) (r : Result) (ts : Bytes)
    (h : timeMarshalJSON r.timestamp offMin = some ts) :
    encodeJSON offMin r = some (123 :: lineBody r ts) := by
  have e1 : kAttack = K nAttack := rfl
  have e2 : kSeq = 44 :: K nSeq := rfl
  have e3 : kCode = 44 :: K nCode := rfl
  have e4 : kTimestamp = 44 :: K nTimestamp := rfl
  have e5 : kLatency = 44 :: K nLatency := rfl
  have e6 : kBytesOut = 44 :: K nBytesOut := rfl
  have e7 : kBytesIn = 44 :: K nBytesIn := rfl
  have e8 : kError = 44 :: K nError := rfl
  have e9 : kBody = 44 :: K nBody := rfl
  have e10 : kMethod = 44 :: K nMethod := rfl
  have e11 : kURL = 44 :: K nURL := rfl
  have e12 : kHeaders = 44 :: K nHeaders := rfl
  simp only [encodeJSON, h, lineBody, e1, e2, e3, e4, e5, e6, e7, e8, e9, e10, e11, e12,
    List.append_assoc, List.cons_append]

theorem lineBody_length (r : Result) (ts : Bytes) : 12 ≤ (123 :: lineBody r ts).length := by
  simp only [lineBody, List.length_cons, List.length_append]
  omega

/-- the member loop on a written object rebuilds the record -/
theorem parseMembers_lineBody (r : Result) (hr : ReprJSONResult r) (b : Bytes)
    (hb : ∀ c ∈ b, c ≠ 34 ∧ c ≠ 92) (ht : timeUnmarshalJSON (34 :: (b ++ [34])) = .ok r.timestamp) (k : Nat) :
    parseMembers (k + 13) ⟨lineBody r (34 :: (b ++ [34])), 0, true⟩ {} = .ok (r, ⟨[10], 0, false⟩) := by
  unfold lineBody
  rw [step_attack _ _ _ _ hr.attack, step_seq _ _ _ _ hr.num.seq, step_code _ _ _ _ hr.num.code,
    step_timestamp _ _ _ _ _ hb ht, step_latency _ _ _ _ hr.num.latency,
    step_bytesOut _ _ _ _ hr.num.bytesOut, step_bytesIn _ _ _ _ hr.num.bytesIn,
    step_error _ _ _ _ hr.error, step_body _ _ _ _ hr.body, step_method _ _ _ _ hr.method,
    step_url _ _ _ _ hr.url, step_headers _ _ _ _ hr.headers, members_end]
  rcases r with ⟨a, s, c, t, l, bo, bi, e, body, m, u, hd⟩
  cases body <;> cases hd <;> rfl

/-- **JSON round trip of one record**: for every result of the JSON domain, in any zone, the encoder
produces a line and the decoder (into a zero `Result`) returns exactly the result -/
theorem decodeJSONLine_encodeJSON (offMin : Int) (r : Result) (hr : ReprJSONResult r)
    (ht : TimeOK r.timestamp offMin) :
    ∃ b, encodeJSON offMin r = some b ∧ decodeJSONLine b = .ok r := by
  obtain ⟨b, hm, hu, hb⟩ := ht
  refine ⟨_, encodeJSON_shape offMin r _ hm, ?_⟩
  obtain ⟨k, hk⟩ : ∃ k, (123 :: lineBody r (34 :: (b ++ [34]))).length + 1 = k + 13 :=
    ⟨(123 :: lineBody r (34 :: (b ++ [34]))).length - 12, by have := lineBody_length r (34 :: (b ++ [34])); omega⟩
  have hp := parseMembers_lineBody r hr b (fun c hc => ⟨(hb c hc).2.2.1, (hb c hc).2.2.2⟩) hu k
  simp only [decodeJSONLine, next_open 123 _ false (Or.inl rfl), ok_bind, tok_delim_ne_null, if_false, lexDelim,
    if_true, hk, hp]
  rfl

/-! ### sanity checks -/

/-- attack `a"\n<é`, body `[1,2,3]`, url `http://a/?q=&`, headers `{"X-A":["1","b c"],"K":null}`;
in zone +01:00 the line is
`{"attack":"a\"\n<é","seq":7,"code":200,"timestamp":"2023-11-14T23:13:20.123456789+01:00","latency":1500000,`
`"bytes_out":3,"bytes_in":42,"error":"","body":"AQID","method":"GET","url":"http://a/?q=&",`
`"headers":{"X-A":["1","b c"],"K":null}}` and a newline -/
def jsonExampleResult : Result :=
  { attack := [97, 34, 10, 60, 0xC3, 0xA9], seq := 7, code := 200, timestamp := 1700000000123456789,
    latency := 1500000, bytesOut := 3, bytesIn := 42, error := [], body := some [1, 2, 3],
    method := [71, 69, 84], url := [104, 116, 116, 112, 58, 47, 47, 97, 47, 63, 113, 61, 38],
    headers := some [([88, 45, 65], [[49], [98, 32, 99]]), ([75], [])] }

theorem jsonExampleResult_repr : ReprJSONResult jsonExampleResult where
  num := { seq := by decide, code := by decide, ts0 := by decide, ts1 := by decide, latency := by decide,
           bytesOut := by decide, bytesIn := by decide }
  attack := by decide
  error := by decide
  method := by decide
  url := by decide
  body := by intro b hb; cases hb; decide
  headers := by intro h hh; cases hh; decide

-- the timestamp hypothesis holds for it in zone +01:00 (`2023-11-14T23:13:20.123456789+01:00`)
theorem jsonExampleResult_time : TimeOK jsonExampleResult.timestamp 60 :=
  ⟨[50, 48, 50, 51, 45, 49, 49, 45, 49, 52, 84, 50, 51, 58, 49, 51, 58, 50, 48, 46, 49, 50, 51, 52, 53, 54, 55,
    56, 57, 43, 48, 49, 58, 48, 48], by decide, by decide, by decide⟩

-- the theorem applies …
example : ∃ b, encodeJSON 60 jsonExampleResult = some b ∧ decodeJSONLine b = .ok jsonExampleResult :=
  decodeJSONLine_encodeJSON 60 jsonExampleResult jsonExampleResult_repr jsonExampleResult_time

-- … and agrees with running the model
set_option maxRecDepth 100000 in
example : (encodeJSON 60 jsonExampleResult).map decodeJSONLine = some (.ok jsonExampleResult) := by decide

-- the zero `Result` (nil body, nil headers: both written as `null` and skipped by the decoder), in UTC
set_option maxRecDepth 100000 in
example : (encodeJSON 0 {}).map decodeJSONLine = some (.ok {}) := by decide

-- an empty, non-nil header map is written as `{}` and comes back as an empty non-nil map
set_option maxRecDepth 100000 in
example : (encodeJSON 0 { headers := some [] }).map decodeJSONLine = some (.ok { headers := some [] }) := by
  decide

-- outside the domain: a duplicate key collapses (the later value wins), so the line does not round-trip
set_option maxRecDepth 100000 in
example : (encodeJSON 0 { headers := some [([75], [[49]]), ([75], [[50]])] }).map decodeJSONLine =
    some (.ok { headers := some [([75], [[50]])] }) := by decide

-- outside the domain: invalid UTF-8 in a text comes back as U+FFFD
set_option maxRecDepth 100000 in
example : (encodeJSON 0 { error := [0xFF] }).map decodeJSONLine = some (.ok { error := [0xEF, 0xBF, 0xBD] }) := by
  decide

end Vegeta.Proofs.Codec
