/-
C16 — No input makes a parser crash or hang.

`*_never_panics`: for every byte string, the vegeta-owned parsing logic modelled here (every
index / slice expression carries Go's run-time check as an explicit `panic` outcome) returns a
value or an error. Termination on every input is what Lean's acceptance of the definitions
means: all of them are structural recursions on the remaining input (or on a fuel bounded by
its length), none is `partial`. `*_consumes_or_stops`: the skip loops either stop or consume.

NOT covered (parameters of the model, see tools/props/C16.json): the robustness of the library
parsers themselves — encoding/gob, encoding/csv, jlexer/easyjson, url.ParseRequestURI,
net/textproto, encoding/base64, bufio; `time.ParseDuration`, `net.SplitHostPort`,
`net.ParseIP`, `strconv` and `datasize` are covered only as hand models of their Go sources.
-/
import Vegeta.Model.ParserGuards
import Vegeta.Props.C19
import Vegeta.Proofs.TargeterLaws
import Vegeta.Model.CodecResult
import Vegeta.Model.DecoderFor
import Vegeta.Model.RoundRobin
import Vegeta.Extracted.Facts
namespace Vegeta.Props.C16
open Vegeta.Go Vegeta.Model.ParserGuards Vegeta.Model.Flags
open Vegeta.Model.Histogram (trimSpace splitOn unmarshalParts unmarshalText eBadBuckets)


/-! ### Buckets.UnmarshalText -/

theorem aux_unmarshalParts_never_panics (vs : List Bytes) : ∀ (first : Bool) (acc : List Int),
    unmarshalParts vs first acc ≠ .panic := by
  induction vs with
  | nil => intro f a; simp [unmarshalParts]
  | cons v r ih =>
    intro f a
    unfold unmarshalParts
    cases hp : Duration.parse (trimSpace v) with
    | ok d => exact ih _ _
    | error e => simp
    | panic => exact absurd hp (Vegeta.Proofs.DurationRoundTrip.parse_never_panics _)

/-- **`Buckets.UnmarshalText` never panics**, whatever the bytes (the model shared with C12). -/
theorem buckets_never_panics (value : Bytes) : unmarshalText value ≠ .panic := by
  unfold unmarshalText
  split
  · simp
  · split
    · cases hp : unmarshalParts (splitOn 44 _) true [] with
      | ok bs => simp only []; split <;> simp
      | error e => simp
      | panic => exact absurd hp (aux_unmarshalParts_never_panics _ _ _)
    · simp

/-- The same function written with its index expressions `value[0]`, `value[len(value)-1]`,
`value[1:len(value)-1]` and their run-time checks computes the same thing: behind
`len(value) < 2` none of the checks can fail. -/
theorem buckets_index_guards (value : Bytes) : unmarshalTextIdx value = unmarshalText value := by
  unfold unmarshalTextIdx unmarshalText
  by_cases hlen : value.length < 2
  · simp [hlen]
  · simp only [hlen, ↓reduceIte]
    cases value with
    | nil => simp at hlen
    | cons c0 rest =>
      have hrne : rest ≠ [] := by intro e; subst e; simp at hlen
      have hlast : ∃ x, (c0 :: rest).getLast? = some x ∧ elemAt (c0 :: rest) ((c0 :: rest).length - 1) = .ok x := by
        cases hg : (c0 :: rest).getLast? with
        | none => simp [List.getLast?_eq_none_iff] at hg
        | some x =>
          refine ⟨x, rfl, ?_⟩
          unfold elemAt
          rw [← List.getLast?_eq_getElem?, hg]
      have hslice : slice (c0 :: rest) 1 (((c0 :: rest).length : Int) - 1) = .ok rest.dropLast := by
        unfold slice
        have hl : 1 ≤ rest.length := by
          cases rest with
          | nil => contradiction
          | cons _ _ => simp
        have h1 : (0 : Int) ≤ ((c0 :: rest).length : Int) - 1 ∧ ((1 : Nat) : Int) ≤ ((c0 :: rest).length : Int) - 1 ∧
            ((c0 :: rest).length : Int) - 1 ≤ ((c0 :: rest).length : Nat) := by
          simp only [List.length_cons]; omega
        rw [if_pos h1]
        have h2 : (((c0 :: rest).length : Int) - 1).toNat = (c0 :: rest).length - 1 := by
          simp only [List.length_cons]; omega
        rw [h2, ← List.dropLast_eq_take, List.dropLast_cons_of_ne_nil hrne]
        simp
      simp only [elemAt, List.getElem?_cons_zero]
      by_cases h91 : c0 = 91
      · subst h91
        simp only [ne_eq, not_true_eq_false, ↓reduceIte]
        obtain ⟨x, hgl, hel⟩ := hlast
        have hel' := hel
        simp only [elemAt] at hel'
        rw [hel', hgl]
        simp only []
        by_cases h93 : x = 93
        · subst h93
          simp only [not_true_eq_false, ↓reduceIte, hslice]
          rfl
        · simp only [h93, not_false_eq_true, ↓reduceIte]
          split
          · rename_i heq; simp at heq; exact absurd heq h93
          · rfl
      · simp only [ne_eq, h91, not_false_eq_true, ↓reduceIte]
        split
        · rename_i heq _; injection heq with hh _; exact absurd hh h91
        · rfl

theorem buckets_index_guards_never_panic (value : Bytes) : unmarshalTextIdx value ≠ .panic := by
  rw [buckets_index_guards]; exact buckets_never_panics value


/-! ### CSV record → Result -/

theorem aux_bind_np {α β} (x : Outcome α) (f : α → Outcome β) (hx : x ≠ .panic) (hf : ∀ a, f a ≠ .panic) :
    x.bind f ≠ .panic := by
  cases x with
  | ok a => exact hf a
  | error e => simp [Outcome.bind]
  | panic => contradiction

theorem aux_bind_np' {α β} (x : Outcome α) (f : α → Outcome β) (hx : x ≠ .panic) (hf : ∀ a, f a ≠ .panic) :
    (x >>= f) ≠ .panic := aux_bind_np x f hx hf

theorem aux_elemAt_np {α} (s : List α) (i : Nat) (h : i < s.length) : elemAt s i ≠ .panic := by
  simp [elemAt, List.getElem?_eq_getElem h]

theorem aux_ofParse_np {α} (p : α × Option Nat) : ofParse p ≠ .panic := by
  obtain ⟨v, e⟩ := p; cases e <;> simp [ofParse]

theorem aux_ofOption_np {α} (e : Nat) (o : Option α) : ofOption e o ≠ .panic := by
  cases o <;> simp [ofOption]

/-- **The CSV record → Result conversion never panics on a record of 12 fields** — whatever the
fields contain and whatever the base64 / MIME-header library functions answer: every
`rec[i]` it evaluates has `i < 12`. (`encoding/csv` delivers only records of exactly
`FieldsPerRecord` = 12 fields: `facts_csv`.) -/
theorem csv_record_never_panics {H : Type} (b64 : Bytes → Option Bytes) (mime : Bytes → Option H)
    (fields : List Bytes) (h : fields.length = 12) : csvToResult b64 mime fields ≠ .panic := by
  unfold csvToResult
  have hi : ∀ i, i < 12 → elemAt fields i ≠ .panic := fun i hi => aux_elemAt_np fields i (by omega)
  refine aux_bind_np' _ _ (aux_bind_np _ _ (hi 0 (by omega)) fun _ => aux_ofParse_np _) fun _ => ?_
  refine aux_bind_np' _ _ (aux_bind_np _ _ (hi 1 (by omega)) fun _ => aux_ofParse_np _) fun _ => ?_
  refine aux_bind_np' _ _ (aux_bind_np _ _ (hi 2 (by omega)) fun _ => aux_ofParse_np _) fun _ => ?_
  refine aux_bind_np' _ _ (aux_bind_np _ _ (hi 3 (by omega)) fun _ => aux_ofParse_np _) fun _ => ?_
  refine aux_bind_np' _ _ (aux_bind_np _ _ (hi 4 (by omega)) fun _ => aux_ofParse_np _) fun _ => ?_
  refine aux_bind_np' _ _ (hi 5 (by omega)) fun _ => ?_
  refine aux_bind_np' _ _ (aux_bind_np _ _ (hi 6 (by omega)) fun _ => aux_ofOption_np _ _) fun _ => ?_
  refine aux_bind_np' _ _ (hi 7 (by omega)) fun _ => ?_
  refine aux_bind_np' _ _ (aux_bind_np _ _ (hi 8 (by omega)) fun _ => aux_ofParse_np _) fun _ => ?_
  refine aux_bind_np' _ _ (hi 9 (by omega)) fun _ => ?_
  refine aux_bind_np' _ _ (hi 10 (by omega)) fun _ => ?_
  refine aux_bind_np' _ _ ?_ fun _ => by show Outcome.ok _ ≠ _; simp
  unfold csvHeaders
  refine aux_bind_np _ _ (hi 11 (by omega)) fun h11 => ?_
  split
  · exact aux_bind_np _ _ (hi 11 (by omega)) fun _ => aux_bind_np _ _ (aux_ofOption_np _ _) fun _ => by simp
  · simp

/-- a shorter record would panic: the guard is really the field count -/
example : (csvToResult (H := Unit) (fun b => some b) (fun _ => some ()) (List.replicate 11 [48])).isPanic = true := by decide

/-- the regenerated source facts: `FieldsPerRecord = 12`, every index into the record is a
constant, the constants are the ones modelled, and all of them are below the field count -/
theorem facts_csv : Vegeta.Extracted.c16CsvFieldsPerRecord = 12 ∧ Vegeta.Extracted.c16CsvNonConstantIndices = 0 ∧
    Vegeta.Extracted.c16CsvRecIndices = csvIndicesUsed ∧
    ∀ i ∈ Vegeta.Extracted.c16CsvRecIndices, i < Vegeta.Extracted.c16CsvFieldsPerRecord := by decide

/-! ### report: `--type` -/

theorem aux_sliceFrom_np {α} (s : List α) (n : Nat) (h : n ≤ s.length) : sliceFrom s n = .ok (s.drop n) := by
  simp [sliceFrom, h]

/-- **`report`'s handling of `--type` / `--buckets` never panics**: `typ[4:]` is evaluated only
behind `len(typ) < 4` having returned. -/
theorem report_type_never_panics (typ buckets : Bytes) : reportType typ buckets ≠ .panic := by
  have hu : ∀ (b : Bytes) (f : List Int → ReportKind),
      (match unmarshalTextIdx b with
       | .ok bs => Outcome.ok (f bs)
       | .error e => .error e
       | .panic => .panic) ≠ .panic := by
    intro b f
    cases hb : unmarshalTextIdx b with
    | ok bs => simp
    | error e => simp
    | panic => exact absurd hb (buckets_index_guards_never_panic b)
  unfold reportType
  by_cases h4 : typ.length < 4
  · simp [h4]
  · have hs := aux_sliceFrom_np typ 4 (by omega)
    simp only [h4, ↓reduceIte, hs]
    split
    · simp
    · split
      · simp
      · split
        · split
          · exact hu _ _
          · simp
        · split
          · simp
          · split
            · by_cases hb : buckets = []
              · by_cases h6 : typ.length < 6
                · simp [hb, h6]
                · simp only [hb, h6, ↓reduceIte]; exact hu _ _
              · simp only [hb, ↓reduceIte]; exact hu _ _
            · simp

/-- the regenerated source facts: the first statement of `report` is `if len(typ) < 4 { return … }`,
`typ` is only ever sliced as `typ[4:]`, the inner guard is `len(typ) < 6` -/
theorem facts_report : Vegeta.Extracted.c16ReportFirstGuard = ofAscii "len(typ) < 4" ∧
    Vegeta.Extracted.c16ReportFirstGuardReturns = true ∧
    (∀ lo ∈ Vegeta.Extracted.c16ReportTypSliceLows, lo ≤ 4) ∧
    Vegeta.Extracted.c16ReportInnerGuard = ofAscii "len(typ) < 6" := by decide

/-! ### target files -/

theorem target_line_test_never_panics (line : Bytes) : isTargetLine line ≠ .panic := by
  unfold isTargetLine
  split
  · rename_i h
    have : 0 < line.length := by omega
    simp [elemAt, List.getElem?_eq_getElem this]
  · simp

/-- **The HTTP targeter's skip loop consumes or stops, and never panics**: on any list of
remaining lines it either reports "no targets" having read them all, or returns a line that is
non-empty and not a comment together with strictly fewer remaining lines; everything it skipped
was blank or a comment. (`line[0]` is evaluated only behind `len(line) != 0`.) -/
theorem http_skip_consumes_or_stops (lines : List Bytes) :
    skipLoop lines = .ok none ∨
    ∃ line skipped rest, skipLoop lines = .ok (some (line, rest)) ∧ rest.length < lines.length ∧
      (∃ l, lines = skipped ++ l :: rest ∧ line = trimSpace l) ∧ line ≠ [] ∧ line.head? ≠ some 35 ∧
      ∀ s ∈ skipped, trimSpace s = [] ∨ (trimSpace s).head? = some 35 := by
  induction lines with
  | nil => exact Or.inl rfl
  | cons l rest ih =>
    unfold skipLoop
    simp only []
    cases hl : trimSpace l with
    | nil =>
      have : isTargetLine [] = .ok false := by simp [isTargetLine]
      rw [this]
      simp only []
      rcases ih with h | ⟨line, sk, r, h1, h2, ⟨l', h3, h3'⟩, h4, h5, h6⟩
      · exact Or.inl h
      · refine Or.inr ⟨line, l :: sk, r, h1, by simp; omega, ⟨l', by simp [h3], h3'⟩, h4, h5, ?_⟩
        intro s hs; simp at hs; rcases hs with rfl | hs
        · exact Or.inl hl
        · exact h6 s hs
    | cons c t =>
      have : isTargetLine (c :: t) = .ok (c ≠ 35) := by simp [isTargetLine, elemAt]
      rw [this]
      by_cases hc : c = 35
      · subst hc
        simp only [ne_eq, not_true_eq_false, decide_false]
        rcases ih with h | ⟨line, sk, r, h1, h2, ⟨l', h3, h3'⟩, h4, h5, h6⟩
        · exact Or.inl h
        · refine Or.inr ⟨line, l :: sk, r, h1, by simp; omega, ⟨l', by simp [h3], h3'⟩, h4, h5, ?_⟩
          intro s hs; simp at hs; rcases hs with rfl | hs
          · exact Or.inr (by rw [hl]; rfl)
          · exact h6 s hs
      · simp only [ne_eq, hc, not_false_eq_true, decide_true]
        exact Or.inr ⟨c :: t, [], rest, rfl, by simp, ⟨l, by simp, hl.symm⟩, by simp, by simp [hc], by simp⟩

theorem http_skip_never_panics (lines : List Bytes) : skipLoop lines ≠ .panic := by
  rcases http_skip_consumes_or_stops lines with h | ⟨_, _, _, h, _⟩ <;> rw [h] <;> simp

/-- `line[1:]` behind `strings.HasPrefix(line, "@")` never panics -/
theorem body_ref_never_panics (line : Bytes) : bodyRef line ≠ .panic := by
  unfold bodyRef
  split
  · rename_i h
    have : 1 ≤ line.length := by
      cases line with
      | nil => simp at h
      | cons _ _ => simp
    simp [sliceFrom, this]
  · simp

/-- **The JSON targeter's empty-line loop consumes or stops**: it returns a non-empty trimmed
line with strictly fewer lines left, or runs out of lines. -/
theorem json_skip_consumes_or_stops (lines : List Bytes) :
    jsonSkipLoop lines = none ∨
    ∃ d rest, jsonSkipLoop lines = some (d, rest) ∧ d ≠ [] ∧ rest.length < lines.length := by
  induction lines with
  | nil => exact Or.inl rfl
  | cons l rest ih =>
    unfold jsonSkipLoop
    simp only []
    split
    · rcases ih with h | ⟨d, r, h1, h2, h3⟩
      · exact Or.inl h
      · exact Or.inr ⟨d, r, h1, h2, by simp; omega⟩
    · rename_i hne
      exact Or.inr ⟨_, rest, rfl, by intro e; exact hne (by simp [e]), by simp⟩

/-- the regenerated source facts about the HTTP targeter: the skip condition tests the length
before indexing, `line` is only indexed at 0 and only sliced as `line[1:]` behind the `@` test -/
theorem facts_http_targeter :
    Vegeta.Extracted.c16HTTPSkipCond = ofAscii "len(line) != 0 && line[0] != '#'" ∧
    Vegeta.Extracted.c16HTTPLineIndices = [0] ∧ Vegeta.Extracted.c16HTTPLineSliceLows = [1] ∧
    Vegeta.Extracted.c16HTTPBodyGuard = ofAscii "strings.HasPrefix(line, \"@\")" := by decide

theorem facts_buckets_guard :
    Vegeta.Extracted.c16BucketsGuard = ofAscii "len(value) < 2 || value[0] != '[' || value[len(value)-1] != ']'" := by decide

/-! ### the flag parsers and the resolver addresses (models and proofs of C19) -/

theorem flag_rate_never_panics (r : Rate) (v : Bytes) : (rateSet r v).out ≠ .panic := C19.rate_never_panics r v
theorem flag_header_never_panics (h : Header) (v : Bytes) : (headerSet h v).out ≠ .panic := C19.header_never_panics h v
theorem flag_max_body_never_panics (n : Int) (v : Bytes) : (maxBodySet n v).out ≠ .panic := C19.max_body_never_panics n v
theorem flag_connect_to_never_panics (m : AddrMap) (v : Bytes) : (connectToSet m v).out ≠ .panic := C19.connect_to_never_panics m v
theorem flag_dns_ttl_never_panics (d : Int) (v : Bytes) : (dnsTTLSet d v).out ≠ .panic := C19.dns_ttl_never_panics d v
theorem resolver_addresses_never_panic (as : List Bytes) : normalizeAddrs as ≠ .panic := C19.normalizeAddrs_never_panics as
/-- `-resolvers=<v>`: split at the commas, then normalised -/
theorem flag_resolvers_never_panics (v : Bytes) : normalizeAddrs (cslSet v) ≠ .panic := C19.normalizeAddrs_never_panics _

/-- a whole command line of these flags never panics -/
theorem cmdline_never_panics (args : List FlagArg) : ∀ o : Opts, parseArgs o args ≠ .panic := by
  induction args with
  | nil => intro o; simp [parseArgs]
  | cons a rest ih =>
    intro o
    unfold parseArgs
    split
    · exact ih _
    · simp
    · rename_i o' ha
      exfalso
      cases a with
      | rate v => simp [applyArg] at ha; exact C19.rate_never_panics _ _ ha.2
      | header v => simp [applyArg] at ha; exact C19.header_never_panics _ _ ha.2
      | maxBody v => simp [applyArg] at ha; exact C19.max_body_never_panics _ _ ha.2
      | dnsTTL v => simp [applyArg] at ha; exact C19.dns_ttl_never_panics _ _ ha.2
      | connectTo v => simp [applyArg] at ha; exact C19.connect_to_never_panics _ _ ha.2
      | maxWorkers n => simp only [applyArg] at ha; split at ha <;> simp at ha

/-- the resolver's rotation never panics once `NewResolver` has refused an empty list -/
theorem resolver_rotation_never_panics (addrs : List Bytes) (hne : addrs ≠ []) (n : Nat) : rotation addrs n 0 ≠ .panic := by
  obtain ⟨l, h, _⟩ := C19.resolver_rotation addrs hne n 0
  rw [h]; simp

section others
open Vegeta.Model

/-! ### the target-file parsers over the models of C14 -/

/-- one call of the HTTP targeter model never yields the panic outcome -/
theorem aux_http_call_np (cfg : HTTPTargets.Cfg) (st : HTTPTargets.St) : (HTTPTargets.call cfg st).1 ≠ .panic := by
  obtain ⟨ps', c1, _⟩ := Vegeta.Proofs.HTTPTargetsL.call_refines cfg st
  rw [c1]
  rcases Vegeta.Proofs.TargeterLaws.callL_cases cfg (Vegeta.Proofs.HTTPTargetsL.eff st.ps) st.heap with ⟨h, _⟩ | ⟨_, h, _⟩
  · rw [h]; simp
  · exact h

/-- **The HTTP targeter never panics** (model `Vegeta.Model.HTTPTargets` of builder C14: peeking
scanner, skip rules, request line, peek rule, header loop, `@file` bodies, default merge) — for
arbitrary input bytes `src`, arbitrary defaults (`cfg.body`, `cfg.hdr`), arbitrary behaviour of
the two library/OS parameters `cfg.validURI` (`url.ParseRequestURI`) and `cfg.fs`
(`os.ReadFile`), and any number `n` of calls: every one of the `n` results is a target or an
error. -/
theorem http_targeter_never_panics (cfg : HTTPTargets.Cfg) (src : Bytes) (heap : HTTPTargets.Heap) (n : Nat) :
    ∀ r ∈ (HTTPTargets.calls cfg n { ps := HTTPTargets.PS.init src, heap := heap }).1, r ≠ .panic := by
  generalize ({ ps := HTTPTargets.PS.init src, heap := heap } : HTTPTargets.St) = st
  induction n generalizing st with
  | zero => intro r hr; simp [HTTPTargets.calls] at hr
  | succ n ih =>
    intro r hr
    simp only [HTTPTargets.calls, List.mem_cons] at hr
    rcases hr with rfl | hr
    · exact aux_http_call_np cfg st
    · exact ih _ r hr

/-- **Every call of the HTTP targeter returns `ErrNoTargets` or consumes at least one line**
(`eff` = the lines the peeking scanner will still deliver): it never loops or returns without
consuming input, so `ReadAllTargets` terminates. After `ErrNoTargets` nothing is left. -/
theorem http_targeter_consumes_or_stops (cfg : HTTPTargets.Cfg) (st : HTTPTargets.St) :
    ((HTTPTargets.call cfg st).1 = .error HTTPTargets.eNoTargets ∧
      Vegeta.Proofs.HTTPTargetsL.eff (HTTPTargets.call cfg st).2.ps = []) ∨
    ((HTTPTargets.call cfg st).1 ≠ .error HTTPTargets.eNoTargets ∧
      (Vegeta.Proofs.HTTPTargetsL.eff (HTTPTargets.call cfg st).2.ps).length <
        (Vegeta.Proofs.HTTPTargetsL.eff st.ps).length) := by
  obtain ⟨ps', c1, c2⟩ := Vegeta.Proofs.HTTPTargetsL.call_refines cfg st
  rw [c1]
  simp only [c2]
  rcases Vegeta.Proofs.TargeterLaws.callL_cases cfg (Vegeta.Proofs.HTTPTargetsL.eff st.ps) st.heap with ⟨h, _⟩ | ⟨h1, _, h3⟩
  · left; rw [h]; exact ⟨rfl, rfl⟩
  · right; exact ⟨h1, h3⟩

/-- **The JSON targeter never panics** (model `Vegeta.Model.JSONTargets`): arbitrary input bytes,
arbitrary defaults, arbitrary behaviour of the line decoder `cfg.dec` (the easyjson lexer, a
parameter), any number of calls. -/
theorem json_targeter_never_panics (cfg : JSONTargets.Cfg) (src : Bytes) (n : Nat) :
    ∀ r ∈ (JSONTargets.calls cfg n src).1, r ≠ .panic := by
  have hcall : ∀ s, (JSONTargets.call cfg s).1 ≠ .panic := by
    intro s
    unfold JSONTargets.call
    split
    · simp
    · simp only [JSONTargets.finish]
      split
      · simp
      · split
        · simp
        · split <;> simp
  induction n generalizing src with
  | zero => intro r hr; simp [JSONTargets.calls] at hr
  | succ n ih =>
    intro r hr
    simp only [JSONTargets.calls, List.mem_cons] at hr
    rcases hr with rfl | hr
    · exact hcall src
    · exact ih _ r hr

/-- **Every call of the JSON targeter returns `ErrNoTargets` (with nothing left to read) or
consumes at least one byte** — the empty-line loop cannot spin. -/
theorem json_targeter_consumes_or_stops (cfg : JSONTargets.Cfg) (src : Bytes) :
    ((JSONTargets.call cfg src).1 = .error JSONTargets.eNoTargets ∧ (JSONTargets.call cfg src).2 = []) ∨
    (JSONTargets.call cfg src).2.length < src.length := by
  unfold JSONTargets.call
  cases hp : JSONTargets.popLine (src.length + 1) src with
  | mk o rest =>
    cases o with
    | none =>
      left
      have := Vegeta.Proofs.TargeterLaws.popLine_none (src.length + 1) src (by omega) (by rw [hp])
      rw [hp] at this
      exact ⟨rfl, this⟩
    | some d =>
      right
      exact Vegeta.Proofs.TargeterLaws.popLine_length _ _ _ _ hp

/-! ### the result decoders over the models of C07 (`Vegeta.Model.Codec`) -/

theorem aux_pure_np {α} (a : α) : (pure a : Outcome α) ≠ .panic := by
  show Outcome.ok a ≠ _; simp

theorem aux_c_parseUintLoop_np (maxVal : Nat) (s : Bytes) : ∀ n, Codec.parseUintLoop maxVal s n ≠ .panic := by
  induction s with
  | nil => intro n; simp [Codec.parseUintLoop]
  | cons c r ih =>
    intro n
    unfold Codec.parseUintLoop
    repeat' (first | exact ih _ | split | simp)

theorem aux_c_parseUint_np (bits : Nat) (s : Bytes) : Codec.parseUint bits s ≠ .panic := by
  unfold Codec.parseUint
  split
  · simp
  · exact aux_c_parseUintLoop_np _ _ _

theorem aux_c_parseInt_np (bits : Nat) (s : Bytes) : Codec.parseInt bits s ≠ .panic := by
  unfold Codec.parseInt
  split
  · simp
  · simp only []
    split
    · repeat' (first | split | simp)
    · simp
    · rename_i h; exact absurd h (aux_c_parseUint_np _ _)

theorem aux_c_b64DecodeQ_np (s : Bytes) : Codec.b64DecodeQ s ≠ .panic := by
  fun_induction Codec.b64DecodeQ s <;> simp_all

theorem aux_c_b64Decode_np (s : Bytes) : Codec.b64Decode s ≠ .panic := aux_c_b64DecodeQ_np _

theorem aux_c_readHeaderLoop_np (fuel : Nat) : ∀ (s : Bytes) (m : Codec.Header), Codec.readHeaderLoop fuel s m ≠ .panic := by
  induction fuel with
  | zero => intro s m; simp [Codec.readHeaderLoop]
  | succ f ih =>
    intro s m
    unfold Codec.readHeaderLoop
    repeat' (first | exact ih _ _ | split | simp)

theorem aux_c_readMIMEHeader_np (s : Bytes) : Codec.readMIMEHeader s ≠ .panic := by
  unfold Codec.readMIMEHeader
  repeat' (first | exact aux_c_readHeaderLoop_np _ _ _ | split | simp)

/-- **The CSV record → Result conversion of C07's model never panics**, for a record of ANY
shape (the model reads missing columns as empty, `getField`; the index side — every `rec[i]` is
below `FieldsPerRecord` = 12 — is `csv_record_never_panics` / `facts_csv` above). Covers the
vegeta-owned calls in the decoder closure: `strconv.ParseInt/ParseUint`, base64
`DecodeString`, `textproto.ReadMIMEHeader` as modelled by C07 from their sources. -/
theorem csv_record_conversion_never_panics (fields : List Bytes) : Codec.resultOfRecord fields ≠ .panic := by
  unfold Codec.resultOfRecord
  refine aux_bind_np' _ _ (aux_c_parseInt_np _ _) fun _ => ?_
  refine aux_bind_np' _ _ (aux_c_parseUint_np _ _) fun _ => ?_
  refine aux_bind_np' _ _ (aux_c_parseInt_np _ _) fun _ => ?_
  refine aux_bind_np' _ _ (aux_c_parseUint_np _ _) fun _ => ?_
  refine aux_bind_np' _ _ (aux_c_parseUint_np _ _) fun _ => ?_
  refine aux_bind_np' _ _ (aux_c_b64Decode_np _) fun _ => ?_
  refine aux_bind_np' _ _ (aux_c_parseUint_np _ _) fun _ => ?_
  refine aux_bind_np' _ _ ?_ fun _ => aux_pure_np _
  split
  · exact aux_pure_np _
  · refine aux_bind_np' _ _ (aux_c_b64Decode_np _) fun _ => ?_
    exact aux_bind_np' _ _ (aux_c_readMIMEHeader_np _) fun _ => aux_pure_np _

/-! #### the JSON record lexer and decoder -/

theorem aux_c_fetchToken_np (s : Bytes) (ws : Nat) (fe : Bool) : Codec.fetchToken s ws fe ≠ .panic := by
  fun_induction Codec.fetchToken s ws fe <;> simp_all

theorem aux_c_next_np (l : Codec.Lex) : l.next ≠ .panic := aux_c_fetchToken_np _ _ _

theorem aux_c_lexString_np (l : Codec.Lex) : Codec.lexString l ≠ .panic := by
  unfold Codec.lexString
  have := aux_c_next_np l
  repeat' (first | contradiction | split | simp)

theorem aux_c_lexNumber_np (l : Codec.Lex) : Codec.lexNumber l ≠ .panic := by
  unfold Codec.lexNumber
  have := aux_c_next_np l
  repeat' (first | contradiction | split | simp)

theorem aux_c_lexDelim_np (c : Nat) (l : Codec.Lex) : Codec.lexDelim c l ≠ .panic := by
  unfold Codec.lexDelim
  have := aux_c_next_np l
  repeat' (first | contradiction | split | simp)

theorem aux_c_lexRawString_np (l : Codec.Lex) : Codec.lexRawString l ≠ .panic := by
  unfold Codec.lexRawString
  have := aux_c_next_np l
  repeat' (first | contradiction | split | simp)

theorem aux_c_lexSkip_np (l : Codec.Lex) : Codec.lexSkip l ≠ .panic := by
  unfold Codec.lexSkip
  have := aux_c_next_np l
  repeat' (first | contradiction | split | simp)

theorem aux_c_timeUnmarshal_np (d : Bytes) : Codec.timeUnmarshalJSON d ≠ .panic := by
  unfold Codec.timeUnmarshalJSON
  repeat' (first | split | simp)

theorem aux_ite_np {α} (c : Prop) [Decidable c] (a b : Outcome α) (ha : a ≠ .panic) (hb : b ≠ .panic) :
    (if c then a else b) ≠ .panic := by
  split <;> assumption

/-- one step of a never-panics proof over a `do` block of `Outcome` -/
macro "np1" : tactic => `(tactic| first
  | exact aux_pure_np _
  | exact aux_c_next_np _
  | exact aux_c_lexString_np _
  | exact aux_c_lexNumber_np _
  | exact aux_c_lexDelim_np _ _
  | exact aux_c_lexRawString_np _
  | exact aux_c_lexSkip_np _
  | exact aux_c_parseUint_np _ _
  | exact aux_c_parseInt_np _ _
  | exact aux_c_b64Decode_np _
  | exact aux_c_timeUnmarshal_np _
  | (refine aux_bind_np' _ _ ?_ fun _ => ?_)
  | (refine aux_ite_np _ _ _ ?_ ?_)
  | split
  | (simp; done))

theorem aux_c_lexUint_np (bits : Nat) (l : Codec.Lex) : Codec.lexUint bits l ≠ .panic := by
  unfold Codec.lexUint
  repeat' np1

theorem aux_c_lexInt_np (bits : Nat) (l : Codec.Lex) : Codec.lexInt bits l ≠ .panic := by
  unfold Codec.lexInt
  repeat' np1

theorem aux_c_lexBytes_np (l : Codec.Lex) : Codec.lexBytes l ≠ .panic := by
  unfold Codec.lexBytes
  repeat' np1

theorem aux_c_parseStrArray_np (fuel : Nat) : ∀ (l : Codec.Lex) (acc : List Bytes), Codec.parseStrArray fuel l acc ≠ .panic := by
  induction fuel with
  | zero => intro l acc; simp [Codec.parseStrArray]
  | succ f ih =>
    intro l acc
    unfold Codec.parseStrArray
    repeat' (first | exact ih _ _ | np1)

theorem aux_c_parseHeaderObj_np (fuel : Nat) : ∀ (l : Codec.Lex) (m : Codec.Header), Codec.parseHeaderObj fuel l m ≠ .panic := by
  induction fuel with
  | zero => intro l m; simp [Codec.parseHeaderObj]
  | succ f ih =>
    intro l m
    unfold Codec.parseHeaderObj
    repeat' (first | exact ih _ _ | exact aux_c_parseStrArray_np _ _ _ | np1)

theorem aux_c_parseMember_np (key : Bytes) (l : Codec.Lex) (r : Codec.Result) : Codec.parseMember key l r ≠ .panic := by
  unfold Codec.parseMember
  repeat' (first | exact aux_c_lexUint_np _ _ | exact aux_c_lexInt_np _ _ | exact aux_c_lexBytes_np _ | exact aux_c_parseHeaderObj_np _ _ _ | np1)

theorem aux_c_parseMembers_np (fuel : Nat) : ∀ (l : Codec.Lex) (r : Codec.Result), Codec.parseMembers fuel l r ≠ .panic := by
  induction fuel with
  | zero => intro l r; simp [Codec.parseMembers]
  | succ f ih =>
    intro l r
    unfold Codec.parseMembers
    repeat' (first | exact ih _ _ | exact aux_c_parseMember_np _ _ _ | np1)

/-- **The JSON line decoder of C07's model never panics** on any line: the jlexer token scanner
(`fetchToken`, string/number/keyword scans, `SkipRecursive`), string unescaping, the generated
member dispatch of `UnmarshalEasyJSON` for `Result` incl. the `headers` object and its string
arrays, `strconv`, base64 and `Time.UnmarshalJSON` — all as modelled by C07 from the sources
(the real easyjson/jlexer code itself stays a library, see tools/props/C16.json). -/
theorem json_line_decoder_never_panics (line : Bytes) : Codec.decodeJSONLine line ≠ .panic := by
  unfold Codec.decodeJSONLine
  repeat' (first | exact aux_c_parseMembers_np _ _ _ | np1)

/-! #### the CSV reader and decode loop: consumption and termination -/

theorem aux_c_trimLeadF_len (f : Nat) : ∀ s : Bytes, (Codec.trimLeadF f s).length ≤ s.length := by
  induction f with
  | zero => intro s; simp [Codec.trimLeadF]
  | succ f ih =>
    intro s
    unfold Codec.trimLeadF
    split
    · simp
    · rename_i c r
      split
      · simp
      · simp only []
        split
        · simp
        · have := ih (r.drop (Codec.spaceRuneLen (c :: r) - 1))
          have h2 : (r.drop (Codec.spaceRuneLen (c :: r) - 1)).length ≤ r.length := by simp
          simp only [List.length_cons]; omega

theorem aux_c_trimLead_len (s : Bytes) : (Codec.trimLead s).length ≤ s.length := aux_c_trimLeadF_len _ _

theorem aux_c_scanUnquoted_len (s : Bytes) : (Codec.scanUnquoted s).2.length ≤ s.length := by
  induction s with
  | nil => simp [Codec.scanUnquoted]
  | cons c r ih =>
    unfold Codec.scanUnquoted
    split
    · simp
    · simp only [List.length_cons]; omega

theorem aux_c_scanQuoted_len (s : Bytes) : ∀ fld after, Codec.scanQuoted s = some (fld, after) → after.length < s.length := by
  fun_induction Codec.scanQuoted s <;> intro fld after h
  all_goals (try (simp only [Option.map_eq_some_iff] at h))
  all_goals first
    | (simp at h; done)
    | (obtain ⟨p, hp, he⟩ := h
       obtain ⟨pf, pa⟩ := p
       simp at he
       rename_i ih
       have := ih pf pa hp
       rw [← he.2]; simp only [List.length_cons]; omega)
    | (simp at h; rw [← h.2]; simp)

theorem aux_c_dropNL_len (s : Bytes) : (Codec.dropNL s).length ≤ s.length := by
  induction s with
  | nil => simp [Codec.dropNL]
  | cons c r ih => unfold Codec.dropNL; split <;> simp <;> omega

/-- a record delivered by the field loop leaves strictly less input (for non-empty input) -/
theorem aux_c_parseFields_len (fuel : Nat) : ∀ (t : Bytes) (acc fs : List Bytes) (rest : Bytes),
    Codec.parseFields fuel t acc = .record fs rest → rest.length ≤ t.length ∧ (t ≠ [] → rest.length < t.length) := by
  induction fuel with
  | zero => intro t acc fs rest h; simp [Codec.parseFields] at h
  | succ f ih =>
    intro t acc fs rest h
    have htl := aux_c_trimLead_len t
    have hne : t = [] → Codec.trimLead t = [] := by intro e; subst e; rfl
    unfold Codec.parseFields at h
    split at h
    · rename_i r htr
      rw [htr] at htl
      have htne : t ≠ [] := by intro e; have := hne e; rw [htr] at this; cases this
      split at h
      · cases h
      · rename_i fld after hq
        have hal := aux_c_scanQuoted_len r fld after hq
        split at h
        · injection h with h1 h2; subst h2
          simp only [List.length_cons] at htl
          exact ⟨by simp, fun _ => by simp; omega⟩
        · rename_i d r'
          simp only [List.length_cons] at hal htl
          split at h
          · have := (ih r' _ fs rest h).1
            exact ⟨by omega, fun _ => by omega⟩
          · split at h
            · injection h with h1 h2; subst h2
              exact ⟨by omega, fun _ => by omega⟩
            · cases h
    · rename_i tl hnot
      have hul := aux_c_scanUnquoted_len (Codec.trimLead t)
      simp only [] at h
      split at h
      · cases h
      · split at h
        · injection h with h1 h2; subst h2
          refine ⟨by simp, fun hn => ?_⟩
          cases t with
          | nil => contradiction
          | cons a b => simp
        · rename_i d r' hsu
          rw [hsu] at hul
          simp only [List.length_cons] at hul
          split at h
          · have := (ih r' _ fs rest h).1
            exact ⟨by omega, fun _ => by omega⟩
          · injection h with h1 h2; subst h2
            exact ⟨by omega, fun _ => by omega⟩

/-- the field loop's result does not depend on its fuel once it exceeds the input length -/
theorem aux_c_parseFields_fuel (n : Nat) : ∀ (t : Bytes) (acc : List Bytes) (f1 f2 : Nat), t.length ≤ n → t.length < f1 → t.length < f2 →
    Codec.parseFields f1 t acc = Codec.parseFields f2 t acc := by
  induction n with
  | zero =>
    intro t acc f1 f2 hn h1 h2
    have : t = [] := List.length_eq_zero_iff.mp (by omega)
    subst this
    cases f1 with
    | zero => omega
    | succ a => cases f2 with
      | zero => omega
      | succ b => simp [Codec.parseFields, Codec.trimLead, Codec.trimLeadF, Codec.scanUnquoted]
  | succ n ih =>
    intro t acc f1 f2 hn h1 h2
    cases f1 with
    | zero => omega
    | succ a =>
      cases f2 with
      | zero => omega
      | succ b =>
        have htl := aux_c_trimLead_len t
        unfold Codec.parseFields
        split
        · rename_i r htr
          rw [htr] at htl
          simp only [List.length_cons] at htl
          split
          · rfl
          · rename_i fld after hq
            have hal := aux_c_scanQuoted_len r fld after hq
            split
            · rfl
            · rename_i d r'
              simp only [List.length_cons] at hal
              split
              · exact ih r' _ a b (by omega) (by omega) (by omega)
              · rfl
        · have hul := aux_c_scanUnquoted_len (Codec.trimLead t)
          simp only []
          split
          · rfl
          · split
            · rfl
            · rename_i d r' hsu
              rw [hsu] at hul
              simp only [List.length_cons] at hul
              split
              · exact ih r' _ a b (by omega) (by omega) (by omega)
              · rfl

/-- **A record returned by the CSV reader model consumed input**: `Read` never returns a record
without advancing (so a decode loop cannot spin). -/
theorem csv_reader_consumes (s : Bytes) (fs : List Bytes) (rest : Bytes) (h : Codec.readRecord s = .record fs rest) :
    rest.length < s.length := by
  unfold Codec.readRecord at h
  have hd := aux_c_dropNL_len s
  split at h
  · cases h
  · rename_i t hne
    have := (aux_c_parseFields_len _ _ _ _ _ h).2 (by intro e; exact hne e)
    omega

/-- the decode loop's result does not depend on the fuel once it exceeds the input length:
the bound `len + 1` the model uses is never what ends decoding -/
theorem aux_c_decodeCSVF_fuel (n : Nat) : ∀ (s : Bytes) (f1 f2 : Nat), s.length ≤ n → s.length < f1 → s.length < f2 →
    Codec.decodeCSVF f1 s = Codec.decodeCSVF f2 s := by
  induction n with
  | zero =>
    intro s f1 f2 hn h1 h2
    have : s = [] := List.length_eq_zero_iff.mp (by omega)
    subst this
    cases f1 with
    | zero => omega
    | succ a => cases f2 with
      | zero => omega
      | succ b => simp [Codec.decodeCSVF, Codec.readRecord, Codec.dropNL]
  | succ n ih =>
    intro s f1 f2 hn h1 h2
    cases f1 with
    | zero => omega
    | succ a =>
      cases f2 with
      | zero => omega
      | succ b =>
        unfold Codec.decodeCSVF
        cases hr : Codec.readRecord s with
        | eof => rfl
        | err => rfl
        | record fs rest =>
          have hlt := csv_reader_consumes s fs rest hr
          simp only []
          split
          · rfl
          · split
            · rw [ih rest a b (by omega) (by omega) (by omega)]
            · rfl
            · rfl

/-- **The CSV decoder model is total, never panics and terminates for every byte string**:
(1) converting a record never panics; (2) every record the reader returns consumed input;
(3) the result of decoding a whole stream is the same for every fuel above the input length —
the model's fuel bound is never what ends decoding, the loop ends by end of input or an error;
(4) likewise for the field loop inside one `Read`. (`encoding/csv` itself remains a library: this
is C07's model of it.) -/
theorem csv_decoder_never_panics (s : Bytes) :
    (∀ fields, Codec.resultOfRecord fields ≠ .panic) ∧
    (∀ t fs rest, Codec.readRecord t = .record fs rest → rest.length < t.length) ∧
    (∀ fuel, (Codec.normCRLF s).length < fuel → Codec.decodeCSVF fuel (Codec.normCRLF s) = Codec.decodeCSV s) ∧
    (∀ t acc fuel, t.length < fuel → Codec.parseFields fuel t acc = Codec.parseFields (t.length + 1) t acc) := by
  refine ⟨csv_record_conversion_never_panics, csv_reader_consumes, ?_, ?_⟩
  · intro fuel hf
    unfold Codec.decodeCSV
    exact aux_c_decodeCSVF_fuel _ _ _ _ (Nat.le_refl _) hf (by omega)
  · intro t acc fuel hf
    exact aux_c_parseFields_fuel _ _ _ _ _ (Nat.le_refl _) hf (by omega)

/-! #### the JSON decode loop and lexer: consumption and termination -/

theorem aux_c_splitLine_len (s : Bytes) : ∀ line rest, Codec.splitLine s = some (line, rest) → rest.length < s.length := by
  induction s with
  | nil => intro l r h; simp [Codec.splitLine] at h
  | cons c r ih =>
    intro line rest h
    unfold Codec.splitLine at h
    split at h
    · simp at h; rw [← h.2]; simp
    · simp only [Option.map_eq_some_iff] at h
      obtain ⟨p, hp, he⟩ := h
      obtain ⟨a, b⟩ := p
      simp at he
      have := ih a b hp
      rw [← he.2]; simp only [List.length_cons]; omega

theorem aux_c_decodeJSONF_fuel (n : Nat) : ∀ (s : Bytes) (f1 f2 : Nat), s.length ≤ n → s.length < f1 → s.length < f2 →
    Codec.decodeJSONF f1 s = Codec.decodeJSONF f2 s := by
  induction n with
  | zero =>
    intro s f1 f2 hn h1 h2
    have : s = [] := List.length_eq_zero_iff.mp (by omega)
    subst this
    cases f1 with
    | zero => omega
    | succ a => cases f2 with
      | zero => omega
      | succ b => simp [Codec.decodeJSONF]
  | succ n ih =>
    intro s f1 f2 hn h1 h2
    cases f1 with
    | zero => omega
    | succ a =>
      cases f2 with
      | zero => omega
      | succ b =>
        unfold Codec.decodeJSONF
        split
        · rfl
        · cases hs : Codec.splitLine s with
          | none => rfl
          | some p =>
            obtain ⟨line, rest⟩ := p
            have hlt := aux_c_splitLine_len s line rest hs
            simp only []
            split
            · rw [ih rest a b (by omega) (by omega) (by omega)]
            · rfl
            · rfl

theorem aux_c_fetchStringP_len (s : Bytes) : ∀ odd raw rest, Codec.fetchStringP odd s = some (raw, rest) → rest.length < s.length := by
  induction s with
  | nil => intro o raw rest h; simp [Codec.fetchStringP] at h
  | cons c r ih =>
    intro odd raw rest h
    unfold Codec.fetchStringP at h
    split at h
    · simp at h; rw [← h.2]; simp
    · simp only [Option.map_eq_some_iff] at h
      obtain ⟨p, hp, he⟩ := h
      obtain ⟨a, b⟩ := p
      simp at he
      have := ih _ a b hp
      rw [← he.2]; simp only [List.length_cons]; omega

theorem aux_c_fetchNumberP_len (s : Bytes) : ∀ a b c raw rest, Codec.fetchNumberP a b c s = some (raw, rest) → rest.length ≤ s.length := by
  induction s with
  | nil => intro a b c raw rest h; simp [Codec.fetchNumberP] at h; rw [← h.2]; simp
  | cons x r ih =>
    intro a b c raw rest h
    unfold Codec.fetchNumberP at h
    repeat' (first
      | (simp only [Option.map_eq_some_iff] at h
         obtain ⟨p, hp, he⟩ := h
         obtain ⟨u, v⟩ := p
         simp at he
         have := ih _ _ _ u v hp
         rw [← he.2]; simp only [List.length_cons]; omega)
      | (simp at h; rw [← h.2]; simp; done)
      | (simp at h; done)
      | split at h)

theorem aux_c_fetchKeyword_len (kw s : Bytes) : ∀ rest, Codec.fetchKeyword kw s = some rest → rest.length ≤ s.length := by
  intro rest h
  unfold Codec.fetchKeyword at h
  split at h
  · split at h
    · simp at h; subst h; simp
    · rename_i c r hd
      split at h
      · simp at h; rw [← h, ← hd]; simp
      · simp at h
  · simp at h

/-- **Every token the lexer model returns consumed at least one byte.** -/
theorem json_lexer_consumes (s : Bytes) (ws : Nat) (fe : Bool) : ∀ t l', Codec.fetchToken s ws fe = .ok (t, l') →
    l'.rest.length < s.length := by
  fun_induction Codec.fetchToken s ws fe <;> intro t l' h
  all_goals (try simp only [Codec.fetchString] at *)
  all_goals first
    | (simp at h; done)
    | (rename_i ih; have := ih t l' h; simp only [List.length_cons]; omega)
    | (simp at h; rw [← h.2]; simp; done)
    | (simp at h; rw [← h.2]; simp
       first
         | (have := aux_c_fetchStringP_len _ _ _ _ (by assumption); omega)
         | (have := aux_c_fetchNumberP_len _ _ _ _ _ _ (by assumption); omega)
         | (have := aux_c_fetchKeyword_len _ _ _ (by assumption); omega))

@[simp] theorem aux_ok_bind {α β} (a : α) (f : α → Outcome β) : (Outcome.ok a >>= f) = f a := rfl
@[simp] theorem aux_err_bind {α β} (e : Nat) (f : α → Outcome β) : (Outcome.error e >>= f) = .error e := rfl
@[simp] theorem aux_panic_bind {α β} (f : α → Outcome β) : (Outcome.panic >>= f) = .panic := rfl
@[simp] theorem aux_pure_ok {α} (a : α) : (pure a : Outcome α) = .ok a := rfl

theorem aux_bind_ok {α β} (x : Outcome α) (f : α → Outcome β) (b : β) (h : (x >>= f) = .ok b) :
    ∃ a, x = .ok a ∧ f a = .ok b := by
  cases x with
  | ok a => exact ⟨a, rfl, h⟩
  | error e => simp at h
  | panic => simp at h

theorem aux_c_next_len (l : Codec.Lex) (t : Codec.Tok) (l' : Codec.Lex) (h : l.next = .ok (t, l')) :
    l'.rest.length < l.rest.length := json_lexer_consumes _ _ _ t l' h

theorem aux_c_lexString_len (l : Codec.Lex) (s : Bytes) (l' : Codec.Lex) (h : Codec.lexString l = .ok (s, l')) :
    l'.rest.length < l.rest.length := by
  unfold Codec.lexString at h
  split at h
  · rename_i raw l1 hn
    split at h
    · simp at h; rw [← h.2]; exact aux_c_next_len l _ _ hn
    · simp at h
  all_goals simp at h

theorem aux_c_lexNumber_len (l : Codec.Lex) (s : Bytes) (l' : Codec.Lex) (h : Codec.lexNumber l = .ok (s, l')) :
    l'.rest.length < l.rest.length := by
  unfold Codec.lexNumber at h
  split at h
  · rename_i raw l1 hn
    simp at h; rw [← h.2]; exact aux_c_next_len l _ _ hn
  all_goals simp at h

theorem aux_c_lexDelim_len (c : Nat) (l l' : Codec.Lex) (h : Codec.lexDelim c l = .ok l') :
    l'.rest.length < l.rest.length := by
  unfold Codec.lexDelim at h
  split at h
  · rename_i d l1 hn
    split at h
    · simp at h; rw [← h]; exact aux_c_next_len l _ _ hn
    · simp at h
  all_goals simp at h

theorem aux_c_lexRawString_len (l : Codec.Lex) (s : Bytes) (l' : Codec.Lex) (h : Codec.lexRawString l = .ok (s, l')) :
    l'.rest.length < l.rest.length := by
  unfold Codec.lexRawString at h
  split at h
  · rename_i raw l1 hn
    simp at h; rw [← h.2]; exact aux_c_next_len l _ _ hn
  all_goals simp at h

theorem aux_c_skipNested_len (a b : Nat) (s : Bytes) : ∀ lvl q e r, Codec.skipNested a b lvl q e s = some r → r.length < s.length := by
  induction s with
  | nil => intro lvl q e r h; simp [Codec.skipNested] at h
  | cons c t ih =>
    intro lvl q e r h
    unfold Codec.skipNested at h
    repeat' (first
      | (have := ih _ _ _ _ h; simp only [List.length_cons]; omega)
      | (simp at h; rw [← h]; simp; done)
      | split at h)

theorem aux_c_lexSkip_len (l l' : Codec.Lex) (h : Codec.lexSkip l = .ok l') : l'.rest.length < l.rest.length := by
  unfold Codec.lexSkip at h
  split at h
  · rename_i l1 hn
    have h1 := aux_c_next_len l _ _ hn
    split at h
    · rename_i r hs
      have := aux_c_skipNested_len _ _ _ _ _ _ _ hs
      simp at h; rw [← h]; simp; omega
    · simp at h
  · rename_i l1 hn
    have h1 := aux_c_next_len l _ _ hn
    split at h
    · rename_i r hs
      have := aux_c_skipNested_len _ _ _ _ _ _ _ hs
      simp at h; rw [← h]; simp; omega
    · simp at h
  · rename_i tk l1 _ _ hn
    simp at h; rw [← h]; exact aux_c_next_len l _ _ hn
  all_goals simp at h

theorem aux_c_lexUint_len (bits : Nat) (l : Codec.Lex) (n : Nat) (l' : Codec.Lex) (h : Codec.lexUint bits l = .ok (n, l')) :
    l'.rest.length < l.rest.length := by
  unfold Codec.lexUint at h
  obtain ⟨⟨raw, l1⟩, h1, h2⟩ := aux_bind_ok _ _ _ h
  obtain ⟨m, _, h4⟩ := aux_bind_ok _ _ _ h2
  simp at h4; rw [← h4.2]; exact aux_c_lexNumber_len l _ _ h1

theorem aux_c_lexInt_len (bits : Nat) (l : Codec.Lex) (n : Int) (l' : Codec.Lex) (h : Codec.lexInt bits l = .ok (n, l')) :
    l'.rest.length < l.rest.length := by
  unfold Codec.lexInt at h
  obtain ⟨⟨raw, l1⟩, h1, h2⟩ := aux_bind_ok _ _ _ h
  obtain ⟨m, _, h4⟩ := aux_bind_ok _ _ _ h2
  simp at h4; rw [← h4.2]; exact aux_c_lexNumber_len l _ _ h1

theorem aux_c_lexBytes_len (l : Codec.Lex) (b : Bytes) (l' : Codec.Lex) (h : Codec.lexBytes l = .ok (b, l')) :
    l'.rest.length < l.rest.length := by
  unfold Codec.lexBytes at h
  obtain ⟨⟨raw, l1⟩, h1, h2⟩ := aux_bind_ok _ _ _ h
  obtain ⟨m, _, h4⟩ := aux_bind_ok _ _ _ h2
  simp at h4; rw [← h4.2]; exact aux_c_lexString_len l _ _ h1

theorem aux_c_parseStrArray_len (fuel : Nat) : ∀ (l : Codec.Lex) (acc vs : List Bytes) (l' : Codec.Lex),
    Codec.parseStrArray fuel l acc = .ok (vs, l') → l'.rest.length < l.rest.length := by
  induction fuel with
  | zero => intro l acc vs l' h; simp [Codec.parseStrArray] at h
  | succ f ih =>
    intro l acc vs l' h
    unfold Codec.parseStrArray at h
    obtain ⟨⟨t, l1⟩, h1, h2⟩ := aux_bind_ok _ _ _ h
    simp only [] at h2
    split at h2
    · simp at h2; rw [← h2.2]; exact aux_c_next_len l _ _ h1
    · obtain ⟨⟨s, l2⟩, h3, h4⟩ := aux_bind_ok _ _ _ h2
      have := aux_c_lexString_len l _ _ h3
      have := ih _ _ _ _ h4
      simp [Codec.Lex.wantComma] at this; omega

theorem aux_c_parseHeaderObj_len (fuel : Nat) : ∀ (l : Codec.Lex) (m m' : Codec.Header) (l' : Codec.Lex),
    Codec.parseHeaderObj fuel l m = .ok (m', l') → l'.rest.length < l.rest.length := by
  induction fuel with
  | zero => intro l m m' l' h; simp [Codec.parseHeaderObj] at h
  | succ f ih =>
    intro l m m' l' h
    unfold Codec.parseHeaderObj at h
    obtain ⟨⟨t, l1⟩, h1, h2⟩ := aux_bind_ok _ _ _ h
    simp only [] at h2
    split at h2
    · simp at h2; rw [← h2.2]; exact aux_c_next_len l _ _ h1
    · obtain ⟨⟨key, lk⟩, h3, h4⟩ := aux_bind_ok _ _ _ h2
      have hk := aux_c_lexString_len l _ _ h3
      simp only [] at h4
      obtain ⟨⟨t2, l3⟩, h5, h6⟩ := aux_bind_ok _ _ _ h4
      have h3l := aux_c_next_len _ _ _ h5
      simp only [Codec.Lex.wantColon] at h3l
      simp only [] at h6
      split at h6
      · have := ih _ _ _ _ h6
        simp [Codec.Lex.wantComma] at this; omega
      · obtain ⟨l4, h7, h8⟩ := aux_bind_ok _ _ _ h6
        have h4l := aux_c_lexDelim_len _ _ _ h7
        simp only [Codec.Lex.wantColon] at h4l
        obtain ⟨⟨vs, l5⟩, h9, h10⟩ := aux_bind_ok _ _ _ h8
        have h5l := aux_c_parseStrArray_len _ _ _ _ _ h9
        have := ih _ _ _ _ h10
        simp [Codec.Lex.wantComma] at this; omega

theorem aux_ite_ok {α} (c : Prop) [Decidable c] (a b : Outcome α) (x : α) (h : (if c then a else b) = .ok x) :
    a = .ok x ∨ b = .ok x := by
  split at h
  · exact Or.inl h
  · exact Or.inr h

theorem aux_c_parseMember_len (key : Bytes) (l : Codec.Lex) (r r' : Codec.Result) (l' : Codec.Lex)
    (h : Codec.parseMember key l r = .ok (r', l')) : l'.rest.length < l.rest.length := by
  unfold Codec.parseMember at h
  repeat' (first
    | (obtain ⟨⟨x, l1⟩, h1, h2⟩ := aux_bind_ok _ _ _ h
       first
         | (simp at h2; rw [← h2.2]
            first
              | exact aux_c_lexString_len l _ _ h1
              | exact aux_c_lexUint_len _ l _ _ h1
              | exact aux_c_lexInt_len _ l _ _ h1
              | exact aux_c_lexBytes_len l _ _ h1)
         | (obtain ⟨t, _, h4⟩ := aux_bind_ok _ _ _ h2
            simp at h4; rw [← h4.2]; exact aux_c_lexRawString_len l _ _ h1))
    | (obtain ⟨l1, h1, h2⟩ := aux_bind_ok _ _ _ h
       first
         | (simp at h2; rw [← h2.2]; exact aux_c_lexSkip_len l _ h1)
         | (obtain ⟨⟨hh, l2⟩, h3, h4⟩ := aux_bind_ok _ _ _ h2
            have a1 := aux_c_lexDelim_len _ _ _ h1
            have a2 := aux_c_parseHeaderObj_len _ _ _ _ _ h3
            simp at h4; rw [← h4.2]; omega))
    | (rcases aux_ite_ok _ _ _ _ h with h | h))

theorem aux_c_parseStrArray_fuel (n : Nat) : ∀ (l : Codec.Lex) (acc : List Bytes) (f1 f2 : Nat),
    l.rest.length ≤ n → l.rest.length < f1 → l.rest.length < f2 →
    Codec.parseStrArray f1 l acc = Codec.parseStrArray f2 l acc := by
  induction n with
  | zero =>
    intro l acc f1 f2 hn h1 h2
    cases f1 with
    | zero => omega
    | succ a => cases f2 with
      | zero => omega
      | succ b =>
        have : l.rest = [] := List.length_eq_zero_iff.mp (by omega)
        simp [Codec.parseStrArray, Codec.Lex.next, this, Codec.fetchToken]
  | succ n ih =>
    intro l acc f1 f2 hn h1 h2
    cases f1 with
    | zero => omega
    | succ a =>
      cases f2 with
      | zero => omega
      | succ b =>
        unfold Codec.parseStrArray
        cases hx : l.next with
        | error e => rfl
        | panic => rfl
        | ok p =>
          obtain ⟨t, l1⟩ := p
          simp only [aux_ok_bind]
          split
          · rfl
          · cases hs : Codec.lexString l with
            | error e => rfl
            | panic => rfl
            | ok q =>
              obtain ⟨s, l2⟩ := q
              have := aux_c_lexString_len l _ _ hs
              simp only [aux_ok_bind]
              exact ih _ _ a b (by simp [Codec.Lex.wantComma]; omega) (by simp [Codec.Lex.wantComma]; omega)
                (by simp [Codec.Lex.wantComma]; omega)

theorem aux_c_parseHeaderObj_fuel (n : Nat) : ∀ (l : Codec.Lex) (m : Codec.Header) (f1 f2 : Nat),
    l.rest.length ≤ n → l.rest.length < f1 → l.rest.length < f2 →
    Codec.parseHeaderObj f1 l m = Codec.parseHeaderObj f2 l m := by
  induction n with
  | zero =>
    intro l m f1 f2 hn h1 h2
    cases f1 with
    | zero => omega
    | succ a => cases f2 with
      | zero => omega
      | succ b =>
        have : l.rest = [] := List.length_eq_zero_iff.mp (by omega)
        simp [Codec.parseHeaderObj, Codec.Lex.next, this, Codec.fetchToken]
  | succ n ih =>
    intro l m f1 f2 hn h1 h2
    cases f1 with
    | zero => omega
    | succ a =>
      cases f2 with
      | zero => omega
      | succ b =>
        unfold Codec.parseHeaderObj
        cases hx : l.next with
        | error e => rfl
        | panic => rfl
        | ok p =>
          obtain ⟨t, l1⟩ := p
          simp only [aux_ok_bind]
          split
          · rfl
          · cases hs : Codec.lexString l with
            | error e => rfl
            | panic => rfl
            | ok q =>
              obtain ⟨key, lk⟩ := q
              have hk := aux_c_lexString_len l _ _ hs
              simp only [aux_ok_bind]
              cases h2n : lk.wantColon.next with
              | error e => rfl
              | panic => rfl
              | ok q2 =>
                obtain ⟨t2, l3⟩ := q2
                have h3l := aux_c_next_len _ _ _ h2n
                simp only [Codec.Lex.wantColon] at h3l
                simp only [aux_ok_bind]
                split
                · exact ih _ _ a b (by simp [Codec.Lex.wantComma]; omega) (by simp [Codec.Lex.wantComma]; omega)
                    (by simp [Codec.Lex.wantComma]; omega)
                · cases hd : Codec.lexDelim 91 lk.wantColon with
                  | error e => rfl
                  | panic => rfl
                  | ok l4 =>
                    have h4l := aux_c_lexDelim_len _ _ _ hd
                    simp only [Codec.Lex.wantColon] at h4l
                    simp only [aux_ok_bind]
                    cases hsa : Codec.parseStrArray (l4.rest.length + 1) l4 [] with
                    | error e => rfl
                    | panic => rfl
                    | ok q5 =>
                      obtain ⟨vs, l5⟩ := q5
                      have h5l := aux_c_parseStrArray_len _ _ _ _ _ hsa
                      simp only [aux_ok_bind]
                      exact ih _ _ a b (by simp [Codec.Lex.wantComma]; omega) (by simp [Codec.Lex.wantComma]; omega)
                        (by simp [Codec.Lex.wantComma]; omega)

theorem aux_c_parseMembers_fuel (n : Nat) : ∀ (l : Codec.Lex) (r : Codec.Result) (f1 f2 : Nat),
    l.rest.length ≤ n → l.rest.length < f1 → l.rest.length < f2 →
    Codec.parseMembers f1 l r = Codec.parseMembers f2 l r := by
  induction n with
  | zero =>
    intro l r f1 f2 hn h1 h2
    cases f1 with
    | zero => omega
    | succ a => cases f2 with
      | zero => omega
      | succ b =>
        have : l.rest = [] := List.length_eq_zero_iff.mp (by omega)
        simp [Codec.parseMembers, Codec.Lex.next, this, Codec.fetchToken]
  | succ n ih =>
    intro l r f1 f2 hn h1 h2
    cases f1 with
    | zero => omega
    | succ a =>
      cases f2 with
      | zero => omega
      | succ b =>
        unfold Codec.parseMembers
        cases hx : l.next with
        | error e => rfl
        | panic => rfl
        | ok p =>
          obtain ⟨t, l1⟩ := p
          simp only [aux_ok_bind]
          split
          · rfl
          · cases hs : Codec.lexString l with
            | error e => rfl
            | panic => rfl
            | ok q =>
              obtain ⟨key, lk⟩ := q
              have hk := aux_c_lexString_len l _ _ hs
              simp only [aux_ok_bind]
              cases h2n : lk.wantColon.next with
              | error e => rfl
              | panic => rfl
              | ok q2 =>
                obtain ⟨t2, l3⟩ := q2
                have h3l := aux_c_next_len _ _ _ h2n
                simp only [Codec.Lex.wantColon] at h3l
                simp only [aux_ok_bind]
                split
                · exact ih _ _ a b (by simp [Codec.Lex.wantComma]; omega) (by simp [Codec.Lex.wantComma]; omega)
                    (by simp [Codec.Lex.wantComma]; omega)
                · cases hm : Codec.parseMember key lk.wantColon r with
                  | error e => rfl
                  | panic => rfl
                  | ok q4 =>
                    obtain ⟨r', l4⟩ := q4
                    have h4l := aux_c_parseMember_len _ _ _ _ _ hm
                    simp only [Codec.Lex.wantColon] at h4l
                    simp only [aux_ok_bind]
                    exact ih _ _ a b (by simp [Codec.Lex.wantComma]; omega) (by simp [Codec.Lex.wantComma]; omega)
                      (by simp [Codec.Lex.wantComma]; omega)

theorem aux_c_unescapeF_fuel (n : Nat) : ∀ (s : Bytes) (f1 f2 : Nat), s.length ≤ n → s.length < f1 → s.length < f2 →
    Codec.unescapeF f1 s = Codec.unescapeF f2 s := by
  induction n with
  | zero =>
    intro s f1 f2 hn h1 h2
    have : s = [] := List.length_eq_zero_iff.mp (by omega)
    subst this
    cases f1 with
    | zero => omega
    | succ a => cases f2 with
      | zero => omega
      | succ b => simp [Codec.unescapeF]
  | succ n ih =>
    intro s f1 f2 hn h1 h2
    cases f1 with
    | zero => omega
    | succ a =>
      cases f2 with
      | zero => omega
      | succ b =>
        cases s with
        | nil => simp [Codec.unescapeF]
        | cons c r =>
          simp only [List.length_cons] at hn h1 h2
          unfold Codec.unescapeF
          split
          · split
            · rfl
            · rename_i rune k _
              have hd : (r.drop (k - 1)).length ≤ r.length := by simp
              rw [ih (r.drop (k - 1)) a b (by omega) (by omega) (by omega)]
          · rw [ih r a b (by omega) (by omega) (by omega)]

/-- **The JSON decoder model is total, never panics and terminates for every byte string**:
(1) decoding a line never panics; (2) every line taken from the stream consumes input and every
token the lexer returns consumes input; (3) the result of decoding a whole stream is the same
for every fuel above the input length — the model's fuel is never what ends decoding; (4) the
same for the member loop, the `headers` object loop, the string-array loop and string unescaping
inside a line.
(jlexer/easyjson themselves remain a library: this is C07's model of the token scanner and of
the generated `UnmarshalEasyJSON`.) -/
theorem json_decoder_never_panics (s : Bytes) :
    (∀ line, Codec.decodeJSONLine line ≠ .panic) ∧
    (∀ t line rest, Codec.splitLine t = some (line, rest) → rest.length < t.length) ∧
    (∀ (l : Codec.Lex) tk l', l.next = .ok (tk, l') → l'.rest.length < l.rest.length) ∧
    (∀ fuel, s.length < fuel → Codec.decodeJSONF fuel s = Codec.decodeJSON s) ∧
    (∀ (l : Codec.Lex) r fuel, l.rest.length < fuel → Codec.parseMembers fuel l r = Codec.parseMembers (l.rest.length + 1) l r) ∧
    (∀ (l : Codec.Lex) m fuel, l.rest.length < fuel → Codec.parseHeaderObj fuel l m = Codec.parseHeaderObj (l.rest.length + 1) l m) ∧
    (∀ (l : Codec.Lex) acc fuel, l.rest.length < fuel → Codec.parseStrArray fuel l acc = Codec.parseStrArray (l.rest.length + 1) l acc) ∧
    (∀ raw fuel, raw.length < fuel → Codec.unescapeF fuel raw = Codec.unescape raw) := by
  refine ⟨json_line_decoder_never_panics, aux_c_splitLine_len, aux_c_next_len, ?_, ?_, ?_, ?_, ?_⟩
  · intro fuel hf
    unfold Codec.decodeJSON
    exact aux_c_decodeJSONF_fuel _ _ _ _ (Nat.le_refl _) hf (by omega)
  · intro l r fuel hf
    exact aux_c_parseMembers_fuel _ _ _ _ _ (Nat.le_refl _) hf (by omega)
  · intro l m fuel hf
    exact aux_c_parseHeaderObj_fuel _ _ _ _ _ (Nat.le_refl _) hf (by omega)
  · intro l acc fuel hf
    exact aux_c_parseStrArray_fuel _ _ _ _ _ (Nat.le_refl _) hf (by omega)
  · intro raw fuel hf
    unfold Codec.unescape
    exact aux_c_unescapeF_fuel _ _ _ _ (Nat.le_refl _) hf (by omega)

/-! ### DecoderFor (model of C08) and the round-robin decoder (model of C13) -/

/-- a `Read(p)` of the sniffing reader never returns more than `len(p)` bytes: the copy into
`p` cannot overrun, whatever chunk sizes the underlying reader chooses -/
theorem decoder_for_read_within_buffer (t : DecoderFor.Trial) (q : DecoderFor.ReadReq) :
    (t.read q).1.length ≤ q.n := by
  unfold DecoderFor.Trial.read
  split
  · simp
  · split
    · simp [DecoderFor.readMem]; omega
    · simp only [DecoderFor.readUnder, DecoderFor.chunk, List.length_take]
      split <;> (try split) <;> omega

/-- **`DecoderFor` terminates and never panics for any behaviour of the trial decoders** (their
read scripts — any sizes, any over-reading — and their verdicts are arbitrary parameters): the
model has no failing operation (`sniffFrom` is a structural recursion over the list of
factories, there is no index or slice expression of vegeta's own in `DecoderFor`); it runs the
trials in order, stops at the first accepting one, and answers either `nil` after having run all
of them or the index of an existing factory after having run exactly the trials up to it. -/
theorem decoder_for_never_panics (orig : Bytes) (trials : List DecoderFor.TrialDec) :
    match (DecoderFor.decoderFor orig trials).1 with
    | none => (DecoderFor.decoderFor orig trials).2.length = trials.length ∧ ∀ d ∈ trials, d.accept = false
    | some (i, _) => i < trials.length ∧ (DecoderFor.decoderFor orig trials).2.length = i + 1 ∧
        (trials[i]?).map (·.accept) = some true := by
  unfold DecoderFor.decoderFor
  have key : ∀ (ds : List DecoderFor.TrialDec) (i0 : Nat) (s : DecoderFor.Sniff),
      match (DecoderFor.sniffFrom i0 s ds).1 with
      | none => (DecoderFor.sniffFrom i0 s ds).2.length = ds.length ∧ ∀ d ∈ ds, d.accept = false
      | some (i, _) => i0 ≤ i ∧ i - i0 < ds.length ∧ (DecoderFor.sniffFrom i0 s ds).2.length = i - i0 + 1 ∧
          (ds[i - i0]?).map (·.accept) = some true := by
    intro ds
    induction ds with
    | nil => intro i0 s; simp [DecoderFor.sniffFrom]
    | cons d ds ih =>
      intro i0 s
      unfold DecoderFor.sniffFrom
      simp only []
      by_cases ha : d.accept = true
      · simp [ha]
      · simp only [ha, Bool.false_eq_true, ↓reduceIte]
        have := ih (i0 + 1) ((DecoderFor.Trial.start s).run d.script).2.st
        cases hr : (DecoderFor.sniffFrom (i0 + 1) ((DecoderFor.Trial.start s).run d.script).2.st ds).1 with
        | none =>
          rw [hr] at this
          simp only [] at this ⊢
          refine ⟨by simp [this.1], ?_⟩
          intro x hx; simp at hx; rcases hx with rfl | hx
          · simpa using ha
          · exact this.2 x hx
        | some p =>
          obtain ⟨i, st⟩ := p
          rw [hr] at this
          simp only [] at this ⊢
          obtain ⟨h1, h2, h3, h4⟩ := this
          refine ⟨by omega, by simp; omega, by simp [h3]; omega, ?_⟩
          have : i - i0 = (i - (i0 + 1)) + 1 := by omega
          rw [this]; simpa using h4
  have := key trials 0 { buf := [], under := orig }
  cases hr : (DecoderFor.sniffFrom 0 { buf := [], under := orig } trials).1 with
  | none => rw [hr] at this; exact this
  | some p =>
    obtain ⟨i, st⟩ := p
    rw [hr] at this
    simp only [Nat.sub_zero] at this
    exact ⟨this.2.1, this.2.2.1, this.2.2.2⟩

/-! #### round robin, with the run-time checks written out -/

/-- The `for range dec` loop of `NewRoundRobinDecoder` with Go's run-time checks as outcomes:
`seq % uint64(len(dec))` panics on zero decoders, `dec[robin]` on an index out of range. -/
def rrLoopChecked {α} : Nat → List (RoundRobin.Dec α) → Nat → Option Nat →
    Outcome (RoundRobin.Step α × List (RoundRobin.Dec α) × Nat)
  | 0, decs, seq, last =>
    .ok (match last with
         | some e => .err e
         | none => .nothing, decs, seq)
  | fuel+1, decs, seq, _ =>
    if decs.length = 0 then .panic                      -- integer divide by zero
    else
      let robin := seq % decs.length
      let seq' := RoundRobin.incSeq seq
      match decs[robin]? with
      | none => .panic                                   -- index out of range
      | some d =>
        match RoundRobin.pop d with
        | (.ok a, d') => .ok (.got robin a, decs.set robin d', seq')
        | (.error e, d') => rrLoopChecked fuel (decs.set robin d') seq' (some e)

/-- **With at least one decoder the round-robin loop never panics**: none of its run-time
checks can fail and it computes exactly what C13's model `rrLoop` computes — for any decoders
(scripts), any sequence counter and any number of iterations. -/
theorem round_robin_never_panics {α} (fuel : Nat) : ∀ (decs : List (RoundRobin.Dec α)) (seq : Nat) (last : Option Nat),
    decs ≠ [] → rrLoopChecked fuel decs seq last = .ok (RoundRobin.rrLoop fuel decs seq last) := by
  induction fuel with
  | zero => intro decs seq last _; rfl
  | succ f ih =>
    intro decs seq last hne
    have hlen : 0 < decs.length := List.length_pos_iff.mpr hne
    have hlt : seq % decs.length < decs.length := Nat.mod_lt _ hlen
    unfold rrLoopChecked RoundRobin.rrLoop
    have h0 : ¬ decs.length = 0 := by omega
    simp only [h0, ↓reduceIte, List.getElem?_eq_getElem hlt]
    have hgd : decs.getD (seq % decs.length) [] = decs[seq % decs.length] := by
      simp [List.getD, List.getElem?_eq_getElem hlt]
    rw [hgd]
    cases hp : RoundRobin.pop decs[seq % decs.length] with
    | mk res d' =>
      cases res with
      | ok a => rfl
      | error e =>
        simp only []
        apply ih
        intro hnil
        have : (decs.set (seq % decs.length) d').length = decs.length := by simp
        rw [hnil] at this; simp at this; omega

/-- `NewRoundRobinDecoder()` with zero decoders is outside the stated quantifier; in the real
code the loop body never runs (`for range dec` over an empty slice), so no division is evaluated
and the call returns a nil error without writing a result: the checked loop with zero iterations
does not panic either, and C13's `rrDecode` answers `nothing`. -/
theorem round_robin_zero_decoders {α} (seq : Nat) :
    rrLoopChecked (α := α) 0 [] seq none = .ok (.nothing, [], seq) ∧
    (RoundRobin.rrDecode (α := α) { decs := [], seq := seq }).1 = .nothing := by
  exact ⟨rfl, rfl⟩

/-- one `Decode` call of the combined decoder never panics with `n ≥ 1` decoders: the single
decoder shortcut or the checked loop with `n` iterations -/
theorem round_robin_decode_never_panics {α} (s : RoundRobin.RR α) (hne : s.decs ≠ []) :
    rrLoopChecked s.decs.length s.decs s.seq none ≠ .panic := by
  rw [round_robin_never_panics _ _ _ _ hne]; simp

/-! ### use after error: the JSON targeter's mutex, exhaustion is final -/

/-- **Every path through a call of the JSON targeter releases the reader's mutex**: a call that finds
the mutex free returns — a target, a decode error or `ErrNoTargets` — with the mutex free again,
and returns exactly what C14's lock-free model `JSONTargets.call` computes. -/
theorem json_targeter_releases_lock (cfg : JSONTargets.Cfg) (st : JT) (h : st.locked = false) :
    jtCall cfg st = .returns (JSONTargets.call cfg st.src).1 { src := (JSONTargets.call cfg st.src).2, locked := false } := by
  unfold jtCall JSONTargets.call
  simp only [h, Bool.false_eq_true, ↓reduceIte]
  cases hp : JSONTargets.popLine (st.src.length + 1) st.src with
  | mk o rest => cases o <;> rfl

/-- **The JSON targeter can be called again after any result and never blocks**: any number of
calls on the shared reader all return (none waits for the mutex), with the results of
`JSONTargets.calls`, and the mutex is free afterwards. -/
theorem json_targeter_never_blocks (cfg : JSONTargets.Cfg) (n : Nat) : ∀ src : Bytes,
    jtCalls (jtCall cfg) n { src := src, locked := false } =
      some ((JSONTargets.calls cfg n src).1, { src := (JSONTargets.calls cfg n src).2, locked := false }) := by
  induction n with
  | zero => intro src; rfl
  | succ n ih =>
    intro src
    simp only [jtCalls, JSONTargets.calls]
    rw [json_targeter_releases_lock cfg _ rfl]
    simp only [ih]

/-- the decode step never answers `ErrNoTargets` (it answers eJSON / eNoMethod / eNoURL or a target):
so `ErrNoTargets` always means that the reader is exhausted -/
theorem aux_finish_not_notargets (cfg : JSONTargets.Cfg) (l : Bytes) : JSONTargets.finish cfg l ≠ .error JSONTargets.eNoTargets := by
  unfold JSONTargets.finish
  repeat' (first | split | simp [JSONTargets.eNoTargets, JSONTargets.eJSON, JSONTargets.eNoMethod, JSONTargets.eNoURL])

/-- **Once it reported `ErrNoTargets`, it reports `ErrNoTargets` on every later call** (and returns
at once: nothing is left to read). -/
theorem json_targeter_error_again (cfg : JSONTargets.Cfg) (src : Bytes)
    (h : (JSONTargets.call cfg src).1 = .error JSONTargets.eNoTargets) :
    ∀ n, ∀ r ∈ (JSONTargets.calls cfg n (JSONTargets.call cfg src).2).1, r = .error JSONTargets.eNoTargets := by
  have hfin := aux_finish_not_notargets cfg
  have hrest : (JSONTargets.call cfg src).2 = [] := by
    unfold JSONTargets.call at h ⊢
    cases hp : JSONTargets.popLine (src.length + 1) src with
    | mk o rest =>
      rw [hp] at h
      cases o with
      | none =>
        have := Vegeta.Proofs.TargeterLaws.popLine_none (src.length + 1) src (by omega) (by rw [hp])
        rw [hp] at this; exact this
      | some l => simp only [] at h; exact absurd h (hfin l)
  rw [hrest]
  have hnil : JSONTargets.call cfg [] = (.error JSONTargets.eNoTargets, []) := by
    simp [JSONTargets.call, JSONTargets.popLine, JSONTargets.readLine]
  intro n
  induction n with
  | zero => intro r hr; simp [JSONTargets.calls] at hr
  | succ n ih =>
    intro r hr
    simp only [JSONTargets.calls, hnil, List.mem_cons] at hr
    rcases hr with rfl | hr
    · rfl
    · exact ih r hr

/-- **What the lock discipline excludes** (the change of seeds c16g / c02i): if end of input returned
from inside the loop, with the mutex still held, the first call would still answer `ErrNoTargets` —
and the next call would never return. -/
theorem json_targeter_early_return_blocks (cfg : JSONTargets.Cfg) :
    ∃ st1, jtCallEarlyReturn cfg { src := [], locked := false } = .returns (.error JSONTargets.eNoTargets) st1 ∧
      st1.locked = true ∧ jtCalls (jtCallEarlyReturn cfg) 2 { src := [], locked := false } = none := by
  refine ⟨{ src := [], locked := true }, ?_, rfl, ?_⟩
  · simp [jtCallEarlyReturn, JSONTargets.popLine, JSONTargets.readLine]
  · simp [jtCalls, jtCallEarlyReturn, JSONTargets.popLine, JSONTargets.readLine]

/-- source facts: in `NewJSONTargeter` nothing returns between `rd.Lock()` and `rd.Unlock()`; the HTTP
targeter's closure starts with `mu.Lock(); defer mu.Unlock()` (released on every path by `defer`) -/
theorem facts_targeter_locks :
    Vegeta.Extracted.c16JSONTargeterLockOrder = [ofAscii "rd.Lock()", ofAscii "<stmt>", ofAscii "rd.Unlock()"] ∧
    Vegeta.Extracted.c16JSONTargeterReturnsWhileLocked = 0 ∧
    Vegeta.Extracted.c16HTTPTargeterHead = [ofAscii "mu.Lock()", ofAscii "defer mu.Unlock()"] := by decide

/-- **The HTTP targeter, once exhausted, stays exhausted**: after `ErrNoTargets` every later call
answers `ErrNoTargets` again (C14's model; restated from `TargeterLaws.http_stable`). -/
theorem http_targeter_error_again (cfg : HTTPTargets.Cfg) (st : HTTPTargets.St)
    (h : (HTTPTargets.call cfg st).1 = .error HTTPTargets.eNoTargets) :
    (HTTPTargets.call cfg (HTTPTargets.call cfg st).2).1 = .error HTTPTargets.eNoTargets := by
  have hs := Vegeta.Proofs.TargeterLaws.http_stable cfg st (HTTPTargets.call cfg st).2
  simp only [TargeterConc.httpSys] at hs
  cases hc : HTTPTargets.call cfg st with
  | mk o st' =>
    rw [hc] at h hs
    simp only [] at h; subst h
    simp only [↓reduceIte, true_implies] at hs
    cases hc2 : HTTPTargets.call cfg st' with
    | mk o2 st2 =>
      rw [hc2] at hs
      simp only []
      cases o2 with
      | ok t => simp at hs
      | panic => simp at hs
      | error e =>
        simp only [] at hs
        split at hs
        · rename_i he; rw [he]
        · simp at hs

/-! ### `startsWithHTTPMethod` is the language of `^[A-Z]+\s` -/

theorem aux_afterUpper (t : Bytes) : HTTPTargets.afterUpper t = true ↔
    ∃ m c rest, t = m ++ c :: rest ∧ (∀ x ∈ m, HTTPTargets.isUpper x = true) ∧ HTTPTargets.isReSpace c = true := by
  induction t with
  | nil =>
    simp only [HTTPTargets.afterUpper, Bool.false_eq_true, false_iff]
    intro ⟨m, c, rest, h, _⟩
    cases m <;> simp at h
  | cons a r ih =>
    unfold HTTPTargets.afterUpper
    by_cases ha : HTTPTargets.isUpper a = true
    · simp only [ha, ↓reduceIte]
      rw [ih]
      constructor
      · intro ⟨m, c, rest, h, hm, hc⟩
        exact ⟨a :: m, c, rest, by simp [h], by intro x hx; simp at hx; rcases hx with rfl | hx; exact ha; exact hm x hx, hc⟩
      · intro ⟨m, c, rest, h, hm, hc⟩
        cases m with
        | nil =>
          simp at h; obtain ⟨rfl, rfl⟩ := h
          -- an upper-case letter is not a space
          exfalso
          simp [HTTPTargets.isUpper, HTTPTargets.isReSpace] at ha hc
          omega
        | cons b m' =>
          simp at h; obtain ⟨rfl, rfl⟩ := h
          exact ⟨m', c, rest, rfl, fun x hx => hm x (by simp [hx]), hc⟩
    · simp only [ha, Bool.false_eq_true, ↓reduceIte]
      constructor
      · intro hc; exact ⟨[], a, r, rfl, by simp, hc⟩
      · intro ⟨m, c, rest, h, hm, hc⟩
        cases m with
        | nil => simp at h; obtain ⟨rfl, rfl⟩ := h; exact hc
        | cons b m' =>
          simp at h; obtain ⟨rfl, rfl⟩ := h
          exact absurd (hm a (by simp)) ha

/-- **`startsWithHTTPMethod` (C14's model) accepts exactly the language of the regexp `^[A-Z]+\s`**:
one or more upper-case ASCII letters followed by one of `\t \n \f \r space` — for every byte
string, with no index ever taken past the end: an empty line, a line of upper-case letters only
(`GET`) and a line that starts with anything else are simply not matches. -/
theorem starts_with_method_language (t : Bytes) : HTTPTargets.startsWithHTTPMethod t = true ↔
    ∃ m c rest, t = m ++ c :: rest ∧ m ≠ [] ∧ (∀ x ∈ m, HTTPTargets.isUpper x = true) ∧ HTTPTargets.isReSpace c = true := by
  cases t with
  | nil =>
    simp only [HTTPTargets.startsWithHTTPMethod, Bool.false_eq_true, false_iff]
    intro ⟨m, c, rest, h, _⟩
    cases m <;> simp at h
  | cons a r =>
    simp only [HTTPTargets.startsWithHTTPMethod, Bool.and_eq_true]
    rw [aux_afterUpper]
    constructor
    · intro ⟨ha, m, c, rest, h, hm, hc⟩
      exact ⟨a :: m, c, rest, by simp [h], by simp, by intro x hx; simp at hx; rcases hx with rfl | hx; exact ha; exact hm x hx, hc⟩
    · intro ⟨m, c, rest, h, hne, hm, hc⟩
      cases m with
      | nil => contradiction
      | cons b m' =>
        simp at h; obtain ⟨rfl, rfl⟩ := h
        exact ⟨hm a (by simp), m', c, rest, rfl, fun x hx => hm x (by simp [hx]), hc⟩

example : HTTPTargets.startsWithHTTPMethod [71, 69, 84] = false ∧ HTTPTargets.startsWithHTTPMethod [] = false ∧
    HTTPTargets.startsWithHTTPMethod [71, 69, 84, 32, 47] = true ∧ HTTPTargets.startsWithHTTPMethod [71, 69, 84, 9] = true := by decide

/-! ### the bucket parser takes its brackets at the very ends -/

/-- **An accepted bucket specification starts with `[` and ends with `]` — byte 0 and the last byte,
no white space trimmed around the list** (so ` [0,1ms]`, `[0,1ms] `, a value of blanks only, are
errors, not panics: `value[0]` / `value[len-1]` are the only indices taken, behind `len ≥ 2`). -/
theorem buckets_brackets_at_the_ends (value : Bytes) (bs : List Int) (h : unmarshalText value = .ok bs) :
    value.head? = some 91 ∧ value.getLast? = some 93 ∧ 2 ≤ value.length := by
  unfold unmarshalText at h
  split at h
  · simp at h
  · rename_i hlen
    split at h
    · rename_i rest hl
      exact ⟨rfl, hl, by omega⟩
    · simp at h

example : unmarshalText [32, 32] = .error eBadBuckets ∧ unmarshalText [32, 91, 48, 93] = .error eBadBuckets ∧
    unmarshalText [91, 48, 93, 32] = .error eBadBuckets ∧ unmarshalText [9, 10, 32, 13] = .error eBadBuckets := by decide

/-! ### resolver addresses: total, one output per input -/

/-- **Resolver address normalisation is total and keeps the list's shape**: for every list of byte
strings it returns an error or exactly one normalised address per input, in order, each of them the
input itself or the input with `:53` appended — nothing is rebuilt from host and port. (The
definition is a plain structural recursion over the list, `normalizeAddr` has no loop at all: that is
the termination proof.) -/
theorem resolver_normalisation_total (as : List Bytes) :
    (∃ e, normalizeAddrs as = .error e) ∨
    (∃ out, normalizeAddrs as = .ok out ∧ out.length = as.length ∧
      ∀ (i : Nat) (a : Bytes), as[i]? = some a → out[i]? = some (if a.contains 58 then a else a ++ [58, 53, 51])) := by
  cases h : normalizeAddrs as with
  | error e => exact Or.inl ⟨e, rfl⟩
  | panic => exact absurd h (C19.normalizeAddrs_never_panics as)
  | ok out =>
    refine Or.inr ⟨out, rfl, ?_⟩
    have hall := (C19.resolver_list as out).mp h
    clear h
    induction hall with
    | nil => exact ⟨rfl, by intro i a h; simp at h⟩
    | @cons a a' as' out' ha _ ih =>
      obtain ⟨il, ig⟩ := ih
      have hn := (C19.resolver_normalisation a a' ha).1
      refine ⟨by simp only [List.length_cons, il], ?_⟩
      intro i x hx
      cases i with
      | zero =>
        simp only [List.getElem?_cons_zero, Option.some.injEq] at hx ⊢
        subst hx; exact hn
      | succ j =>
        simp only [List.getElem?_cons_succ] at hx ⊢
        exact ig j x hx

example : normalizeAddrs [[49, 46, 50, 46, 51, 46, 52], [91, 58, 58, 49, 93, 58, 53, 51]] =
    .ok [[49, 46, 50, 46, 51, 46, 52, 58, 53, 51], [91, 58, 58, 49, 93, 58, 53, 51]] := by decide

end others


/-! ## The commands never hand zero decoders to the round-robin combiner (round m) -/

section commands
open Vegeta.Model

/-- `decoder(files)`: a successful assembly has exactly one decoder per file -/
theorem command_decoders_one_per_file {δ : Type} (detect : Bytes → Option δ) :
    ∀ (fs : List Bytes) (ds : List δ), assemble detect fs = some ds → ds.length = fs.length := by
  intro fs
  induction fs with
  | nil => intro ds h; simp [assemble] at h; subst h; rfl
  | cons f t ih =>
    intro ds h
    unfold assemble at h
    split at h
    · simp at h
    · split at h
      · simp at h
      · rename_i ds' hds
        simp only [Option.some.injEq] at h
        subst h
        simp [ih ds' hds]

/-- a file whose encoding is not detected (e.g. an input without a single byte) is never left out: the
assembly fails as a whole -/
theorem command_undetected_file_fails {δ : Type} (detect : Bytes → Option δ) (pre post : List Bytes) (f : Bytes)
    (hf : detect f = none) : assemble detect (pre ++ f :: post) = none := by
  induction pre with
  | nil => simp [assemble, hf]
  | cons g t ih =>
    simp only [List.cons_append]
    unfold assemble
    split
    · rfl
    · rw [ih]

/-- **Whatever the command line and whatever the inputs hold, a command that gets a decoder at all gets
one built from at least one input decoder** (no file argument means `stdin`; every file contributes
one decoder or fails the command). -/
theorem command_never_zero_decoders {δ : Type} (detect : Bytes → Option δ) (args : List Bytes) (ds : List δ)
    (h : commandDecoders detect args = some ds) : ds ≠ [] ∧ ds.length = (commandFiles args).length := by
  have hl := command_decoders_one_per_file detect _ _ h
  refine ⟨?_, hl⟩
  intro hnil
  subst hnil
  unfold commandFiles at hl
  split at hl
  · simp at hl
  · rename_i hne
    cases args with
    | nil => simp at hne
    | cons a t => simp at hl

private theorem aux_rrLoop_last {α} : ∀ (fuel : Nat) (decs : List (RoundRobin.Dec α)) (seq e : Nat),
    (RoundRobin.rrLoop fuel decs seq (some e)).1 ≠ .nothing := by
  intro fuel
  induction fuel with
  | zero => intro decs seq e; simp [RoundRobin.rrLoop]
  | succ n ih =>
    intro decs seq e
    unfold RoundRobin.rrLoop
    simp only
    split
    · simp
    · exact ih _ _ _

/-- **Every call of the combined decoder over at least one decoder returns a record or an error** — the
"`nil` although nothing was decoded" answer (`Step.nothing`, which a read loop would repeat for ever)
exists with zero decoders only (`round_robin_zero_decoders`). -/
theorem round_robin_call_value_or_error {α} (s : RoundRobin.RR α) (hne : s.decs ≠ []) :
    (RoundRobin.rrDecode s).1 ≠ .nothing := by
  unfold RoundRobin.rrDecode
  split
  · split <;> simp
  · rename_i hnot
    simp only
    cases hd : s.decs with
    | nil => exact absurd hd hne
    | cons d t =>
      simp only [List.length_cons]
      unfold RoundRobin.rrLoop
      simp only
      split
      · simp
      · exact aux_rrLoop_last _ _ _ _

/-- the two together: the decoder a command reads from answers every call with a record or an error -/
theorem command_decode_value_or_error {α} (detect : Bytes → Option (RoundRobin.Dec α)) (args : List Bytes)
    (ds : List (RoundRobin.Dec α)) (h : commandDecoders detect args = some ds) (seq : Nat) :
    (RoundRobin.rrDecode { decs := ds, seq := seq }).1 ≠ .nothing :=
  round_robin_call_value_or_error _ (command_never_zero_decoders detect args ds h).1

/-- and the excluded situation, for contrast: with zero decoders every call answers `nil` without a record -/
theorem round_robin_zero_decoders_nothing {α} (seq : Nat) :
    (RoundRobin.rrDecode ({ decs := [], seq := seq } : RoundRobin.RR α)).1 = .nothing := by
  simp [RoundRobin.rrDecode, RoundRobin.rrLoop]

/-- source facts: the loop of `decoder(files)` has exactly these statements (open — fail — detect — fail —
append — append), no `continue` / `break` / `goto` anywhere in the function, it returns the round-robin
combination of `decs`, and each of the three commands replaces an empty argument list by `stdin` -/
theorem facts_command_decoder_assembly :
    Vegeta.Extracted.c16FileDecoderLoop = [ofAscii "rc, err := file(f, false)", ofAscii "if err != nil return",
      ofAscii "dec := vegeta.DecoderFor(rc)", ofAscii "if dec == nil return", ofAscii "decs = append(decs, dec)",
      ofAscii "closer = append(closer, rc)"] ∧
    Vegeta.Extracted.c16FileDecoderJumps = 0 ∧
    Vegeta.Extracted.c16FileDecoderReturns = ofAscii "vegeta.NewRoundRobinDecoder(decs...)" ∧
    Vegeta.Extracted.c16CommandsDefaultInput = [ofAscii "files = append(files, \"stdin\")", ofAscii "files = append(files, \"stdin\")",
      ofAscii "files = append(files, \"stdin\")"] := by decide

-- non-vacuity: an empty first input fails the command; two detected inputs give two decoders; no argument reads stdin
example : commandDecoders (fun f => if f.isEmpty then none else some f) [[], [49]] = none := by decide
example : commandDecoders (fun f => if f.isEmpty then none else some f) [[49], [50]] = some [[49], [50]] := by decide
example : commandDecoders (fun f => some f) [] = some [stdinWord] := by decide

end commands

end Vegeta.Props.C16
