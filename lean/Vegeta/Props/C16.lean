/-
C16 — No input makes a parser crash or hang.

`*_never_panics`: for every byte string, the vegeta-owned parsing logic modelled here (every
index / slice expression carries Go's run-time check as an explicit `panic` outcome) returns a
value or an error. Termination on every input is what Lean's acceptance of the definitions
means: all of them are structural recursions on the remaining input (or on a fuel bounded by
its length), none is `partial`. `*_consumes_or_stops`: the skip loops either stop or consume.

NOT covered (parameters of the model, see tools/props/C16.json): the robustness of the library
parsers themselves — encoding/gob, encoding/csv, jlexer/easyjson, url.ParseRequestURI,
net/textproto, encoding/base64, bufio; `time.ParseDuration`, `net.SplitHostPort`,
`net.ParseIP`, `strconv` and `datasize` are covered only as hand models of their Go sources.
-/
import Vegeta.Model.ParserGuards
import Vegeta.Props.C19
import Vegeta.Extracted.Facts
namespace Vegeta.Props.C16
open Vegeta.Go Vegeta.Model.ParserGuards Vegeta.Model.Flags
open Vegeta.Model.Histogram (trimSpace splitOn unmarshalParts unmarshalText eBadBuckets)


/-! ### Buckets.UnmarshalText -/

theorem aux_unmarshalParts_never_panics (vs : List Bytes) : ∀ (first : Bool) (acc : List Int),
    unmarshalParts vs first acc ≠ .panic := by
  induction vs with
  | nil => intro f a; simp [unmarshalParts]
  | cons v r ih =>
    intro f a
    unfold unmarshalParts
    cases hp : Duration.parse (trimSpace v) with
    | ok d => exact ih _ _
    | error e => simp
    | panic => exact absurd hp (Vegeta.Proofs.DurationRoundTrip.parse_never_panics _)

/-- **`Buckets.UnmarshalText` never panics**, whatever the bytes (the model shared with C12). -/
theorem buckets_never_panics (value : Bytes) : unmarshalText value ≠ .panic := by
  unfold unmarshalText
  split
  · simp
  · split
    · cases hp : unmarshalParts (splitOn 44 _) true [] with
      | ok bs => simp only []; split <;> simp
      | error e => simp
      | panic => exact absurd hp (aux_unmarshalParts_never_panics _ _ _)
    · simp

/-- The same function written with its index expressions `value[0]`, `value[len(value)-1]`,
`value[1:len(value)-1]` and their run-time checks computes the same thing: behind
`len(value) < 2` none of the checks can fail. -/
theorem buckets_index_guards (value : Bytes) : unmarshalTextIdx value = unmarshalText value := by
  unfold unmarshalTextIdx unmarshalText
  by_cases hlen : value.length < 2
  · simp [hlen]
  · simp only [hlen, ↓reduceIte]
    cases value with
    | nil => simp at hlen
    | cons c0 rest =>
      have hrne : rest ≠ [] := by intro e; subst e; simp at hlen
      have hlast : ∃ x, (c0 :: rest).getLast? = some x ∧ elemAt (c0 :: rest) ((c0 :: rest).length - 1) = .ok x := by
        cases hg : (c0 :: rest).getLast? with
        | none => simp [List.getLast?_eq_none_iff] at hg
        | some x =>
          refine ⟨x, rfl, ?_⟩
          unfold elemAt
          rw [← List.getLast?_eq_getElem?, hg]
      have hslice : slice (c0 :: rest) 1 (((c0 :: rest).length : Int) - 1) = .ok rest.dropLast := by
        unfold slice
        have hl : 1 ≤ rest.length := by
          cases rest with
          | nil => contradiction
          | cons _ _ => simp
        have h1 : (0 : Int) ≤ ((c0 :: rest).length : Int) - 1 ∧ ((1 : Nat) : Int) ≤ ((c0 :: rest).length : Int) - 1 ∧
            ((c0 :: rest).length : Int) - 1 ≤ ((c0 :: rest).length : Nat) := by
          simp only [List.length_cons]; omega
        rw [if_pos h1]
        have h2 : (((c0 :: rest).length : Int) - 1).toNat = (c0 :: rest).length - 1 := by
          simp only [List.length_cons]; omega
        rw [h2, ← List.dropLast_eq_take, List.dropLast_cons_of_ne_nil hrne]
        simp
      simp only [elemAt, List.getElem?_cons_zero]
      by_cases h91 : c0 = 91
      · subst h91
        simp only [ne_eq, not_true_eq_false, ↓reduceIte]
        obtain ⟨x, hgl, hel⟩ := hlast
        have hel' := hel
        simp only [elemAt] at hel'
        rw [hel', hgl]
        simp only []
        by_cases h93 : x = 93
        · subst h93
          simp only [not_true_eq_false, ↓reduceIte, hslice]
          rfl
        · simp only [h93, not_false_eq_true, ↓reduceIte]
          split
          · rename_i heq; simp at heq; exact absurd heq h93
          · rfl
      · simp only [ne_eq, h91, not_false_eq_true, ↓reduceIte]
        split
        · rename_i heq _; injection heq with hh _; exact absurd hh h91
        · rfl

theorem buckets_index_guards_never_panic (value : Bytes) : unmarshalTextIdx value ≠ .panic := by
  rw [buckets_index_guards]; exact buckets_never_panics value


/-! ### CSV record → Result -/

theorem aux_bind_np {α β} (x : Outcome α) (f : α → Outcome β) (hx : x ≠ .panic) (hf : ∀ a, f a ≠ .panic) :
    x.bind f ≠ .panic := by
  cases x with
  | ok a => exact hf a
  | error e => simp [Outcome.bind]
  | panic => contradiction

theorem aux_bind_np' {α β} (x : Outcome α) (f : α → Outcome β) (hx : x ≠ .panic) (hf : ∀ a, f a ≠ .panic) :
    (x >>= f) ≠ .panic := aux_bind_np x f hx hf

theorem aux_elemAt_np {α} (s : List α) (i : Nat) (h : i < s.length) : elemAt s i ≠ .panic := by
  simp [elemAt, List.getElem?_eq_getElem h]

theorem aux_ofParse_np {α} (p : α × Option Nat) : ofParse p ≠ .panic := by
  obtain ⟨v, e⟩ := p; cases e <;> simp [ofParse]

theorem aux_ofOption_np {α} (e : Nat) (o : Option α) : ofOption e o ≠ .panic := by
  cases o <;> simp [ofOption]

/-- **The CSV record → Result conversion never panics on a record of 12 fields** — whatever the
fields contain and whatever the base64 / MIME-header library functions answer: every
`rec[i]` it evaluates has `i < 12`. (`encoding/csv` delivers only records of exactly
`FieldsPerRecord` = 12 fields: `facts_csv`.) -/
theorem csv_record_never_panics {H : Type} (b64 : Bytes → Option Bytes) (mime : Bytes → Option H)
    (fields : List Bytes) (h : fields.length = 12) : csvToResult b64 mime fields ≠ .panic := by
  unfold csvToResult
  have hi : ∀ i, i < 12 → elemAt fields i ≠ .panic := fun i hi => aux_elemAt_np fields i (by omega)
  refine aux_bind_np' _ _ (aux_bind_np _ _ (hi 0 (by omega)) fun _ => aux_ofParse_np _) fun _ => ?_
  refine aux_bind_np' _ _ (aux_bind_np _ _ (hi 1 (by omega)) fun _ => aux_ofParse_np _) fun _ => ?_
  refine aux_bind_np' _ _ (aux_bind_np _ _ (hi 2 (by omega)) fun _ => aux_ofParse_np _) fun _ => ?_
  refine aux_bind_np' _ _ (aux_bind_np _ _ (hi 3 (by omega)) fun _ => aux_ofParse_np _) fun _ => ?_
  refine aux_bind_np' _ _ (aux_bind_np _ _ (hi 4 (by omega)) fun _ => aux_ofParse_np _) fun _ => ?_
  refine aux_bind_np' _ _ (hi 5 (by omega)) fun _ => ?_
  refine aux_bind_np' _ _ (aux_bind_np _ _ (hi 6 (by omega)) fun _ => aux_ofOption_np _ _) fun _ => ?_
  refine aux_bind_np' _ _ (hi 7 (by omega)) fun _ => ?_
  refine aux_bind_np' _ _ (aux_bind_np _ _ (hi 8 (by omega)) fun _ => aux_ofParse_np _) fun _ => ?_
  refine aux_bind_np' _ _ (hi 9 (by omega)) fun _ => ?_
  refine aux_bind_np' _ _ (hi 10 (by omega)) fun _ => ?_
  refine aux_bind_np' _ _ ?_ fun _ => by show Outcome.ok _ ≠ _; simp
  unfold csvHeaders
  refine aux_bind_np _ _ (hi 11 (by omega)) fun h11 => ?_
  split
  · exact aux_bind_np _ _ (hi 11 (by omega)) fun _ => aux_bind_np _ _ (aux_ofOption_np _ _) fun _ => by simp
  · simp

/-- a shorter record would panic: the guard is really the field count -/
example : (csvToResult (H := Unit) (fun b => some b) (fun _ => some ()) (List.replicate 11 [48])).isPanic = true := by decide

/-- the regenerated source facts: `FieldsPerRecord = 12`, every index into the record is a
constant, the constants are the ones modelled, and all of them are below the field count -/
theorem facts_csv : Vegeta.Extracted.c16CsvFieldsPerRecord = 12 ∧ Vegeta.Extracted.c16CsvNonConstantIndices = 0 ∧
    Vegeta.Extracted.c16CsvRecIndices = csvIndicesUsed ∧
    ∀ i ∈ Vegeta.Extracted.c16CsvRecIndices, i < Vegeta.Extracted.c16CsvFieldsPerRecord := by decide

/-! ### report: `--type` -/

theorem aux_sliceFrom_np {α} (s : List α) (n : Nat) (h : n ≤ s.length) : sliceFrom s n = .ok (s.drop n) := by
  simp [sliceFrom, h]

/-- **`report`'s handling of `--type` / `--buckets` never panics**: `typ[4:]` is evaluated only
behind `len(typ) < 4` having returned. -/
theorem report_type_never_panics (typ buckets : Bytes) : reportType typ buckets ≠ .panic := by
  have hu : ∀ (b : Bytes) (f : List Int → ReportKind),
      (match unmarshalTextIdx b with
       | .ok bs => Outcome.ok (f bs)
       | .error e => .error e
       | .panic => .panic) ≠ .panic := by
    intro b f
    cases hb : unmarshalTextIdx b with
    | ok bs => simp
    | error e => simp
    | panic => exact absurd hb (buckets_index_guards_never_panic b)
  unfold reportType
  by_cases h4 : typ.length < 4
  · simp [h4]
  · have hs := aux_sliceFrom_np typ 4 (by omega)
    simp only [h4, ↓reduceIte, hs]
    split
    · simp
    · split
      · simp
      · split
        · split
          · exact hu _ _
          · simp
        · split
          · simp
          · split
            · by_cases hb : buckets = []
              · by_cases h6 : typ.length < 6
                · simp [hb, h6]
                · simp only [hb, h6, ↓reduceIte]; exact hu _ _
              · simp only [hb, ↓reduceIte]; exact hu _ _
            · simp

/-- the regenerated source facts: the first statement of `report` is `if len(typ) < 4 { return … }`,
`typ` is only ever sliced as `typ[4:]`, the inner guard is `len(typ) < 6` -/
theorem facts_report : Vegeta.Extracted.c16ReportFirstGuard = ofAscii "len(typ) < 4" ∧
    Vegeta.Extracted.c16ReportFirstGuardReturns = true ∧
    (∀ lo ∈ Vegeta.Extracted.c16ReportTypSliceLows, lo ≤ 4) ∧
    Vegeta.Extracted.c16ReportInnerGuard = ofAscii "len(typ) < 6" := by decide

/-! ### target files -/

theorem target_line_test_never_panics (line : Bytes) : isTargetLine line ≠ .panic := by
  unfold isTargetLine
  split
  · rename_i h
    have : 0 < line.length := by omega
    simp [elemAt, List.getElem?_eq_getElem this]
  · simp

/-- **The HTTP targeter's skip loop consumes or stops, and never panics**: on any list of
remaining lines it either reports "no targets" having read them all, or returns a line that is
non-empty and not a comment together with strictly fewer remaining lines; everything it skipped
was blank or a comment. (`line[0]` is evaluated only behind `len(line) != 0`.) -/
theorem http_skip_consumes_or_stops (lines : List Bytes) :
    skipLoop lines = .ok none ∨
    ∃ line skipped rest, skipLoop lines = .ok (some (line, rest)) ∧ rest.length < lines.length ∧
      (∃ l, lines = skipped ++ l :: rest ∧ line = trimSpace l) ∧ line ≠ [] ∧ line.head? ≠ some 35 ∧
      ∀ s ∈ skipped, trimSpace s = [] ∨ (trimSpace s).head? = some 35 := by
  induction lines with
  | nil => exact Or.inl rfl
  | cons l rest ih =>
    unfold skipLoop
    simp only []
    cases hl : trimSpace l with
    | nil =>
      have : isTargetLine [] = .ok false := by simp [isTargetLine]
      rw [this]
      simp only []
      rcases ih with h | ⟨line, sk, r, h1, h2, ⟨l', h3, h3'⟩, h4, h5, h6⟩
      · exact Or.inl h
      · refine Or.inr ⟨line, l :: sk, r, h1, by simp; omega, ⟨l', by simp [h3], h3'⟩, h4, h5, ?_⟩
        intro s hs; simp at hs; rcases hs with rfl | hs
        · exact Or.inl hl
        · exact h6 s hs
    | cons c t =>
      have : isTargetLine (c :: t) = .ok (c ≠ 35) := by simp [isTargetLine, elemAt]
      rw [this]
      by_cases hc : c = 35
      · subst hc
        simp only [ne_eq, not_true_eq_false, decide_false]
        rcases ih with h | ⟨line, sk, r, h1, h2, ⟨l', h3, h3'⟩, h4, h5, h6⟩
        · exact Or.inl h
        · refine Or.inr ⟨line, l :: sk, r, h1, by simp; omega, ⟨l', by simp [h3], h3'⟩, h4, h5, ?_⟩
          intro s hs; simp at hs; rcases hs with rfl | hs
          · exact Or.inr (by rw [hl]; rfl)
          · exact h6 s hs
      · simp only [ne_eq, hc, not_false_eq_true, decide_true]
        exact Or.inr ⟨c :: t, [], rest, rfl, by simp, ⟨l, by simp, hl.symm⟩, by simp, by simp [hc], by simp⟩

theorem http_skip_never_panics (lines : List Bytes) : skipLoop lines ≠ .panic := by
  rcases http_skip_consumes_or_stops lines with h | ⟨_, _, _, h, _⟩ <;> rw [h] <;> simp

/-- `line[1:]` behind `strings.HasPrefix(line, "@")` never panics -/
theorem body_ref_never_panics (line : Bytes) : bodyRef line ≠ .panic := by
  unfold bodyRef
  split
  · rename_i h
    have : 1 ≤ line.length := by
      cases line with
      | nil => simp at h
      | cons _ _ => simp
    simp [sliceFrom, this]
  · simp

/-- **The JSON targeter's empty-line loop consumes or stops**: it returns a non-empty trimmed
line with strictly fewer lines left, or runs out of lines. -/
theorem json_skip_consumes_or_stops (lines : List Bytes) :
    jsonSkipLoop lines = none ∨
    ∃ d rest, jsonSkipLoop lines = some (d, rest) ∧ d ≠ [] ∧ rest.length < lines.length := by
  induction lines with
  | nil => exact Or.inl rfl
  | cons l rest ih =>
    unfold jsonSkipLoop
    simp only []
    split
    · rcases ih with h | ⟨d, r, h1, h2, h3⟩
      · exact Or.inl h
      · exact Or.inr ⟨d, r, h1, h2, by simp; omega⟩
    · rename_i hne
      exact Or.inr ⟨_, rest, rfl, by intro e; exact hne (by simp [e]), by simp⟩

/-- the regenerated source facts about the HTTP targeter: the skip condition tests the length
before indexing, `line` is only indexed at 0 and only sliced as `line[1:]` behind the `@` test -/
theorem facts_http_targeter :
    Vegeta.Extracted.c16HTTPSkipCond = ofAscii "len(line) != 0 && line[0] != '#'" ∧
    Vegeta.Extracted.c16HTTPLineIndices = [0] ∧ Vegeta.Extracted.c16HTTPLineSliceLows = [1] ∧
    Vegeta.Extracted.c16HTTPBodyGuard = ofAscii "strings.HasPrefix(line, \"@\")" := by decide

theorem facts_buckets_guard :
    Vegeta.Extracted.c16BucketsGuard = ofAscii "len(value) < 2 || value[0] != '[' || value[len(value)-1] != ']'" := by decide

/-! ### the flag parsers and the resolver addresses (models and proofs of C19) -/

theorem flag_rate_never_panics (r : Rate) (v : Bytes) : (rateSet r v).out ≠ .panic := C19.rate_never_panics r v
theorem flag_header_never_panics (h : Header) (v : Bytes) : (headerSet h v).out ≠ .panic := C19.header_never_panics h v
theorem flag_max_body_never_panics (n : Int) (v : Bytes) : (maxBodySet n v).out ≠ .panic := C19.max_body_never_panics n v
theorem flag_connect_to_never_panics (m : AddrMap) (v : Bytes) : (connectToSet m v).out ≠ .panic := C19.connect_to_never_panics m v
theorem flag_dns_ttl_never_panics (d : Int) (v : Bytes) : (dnsTTLSet d v).out ≠ .panic := C19.dns_ttl_never_panics d v
theorem resolver_addresses_never_panic (as : List Bytes) : normalizeAddrs as ≠ .panic := C19.normalizeAddrs_never_panics as
/-- `-resolvers=<v>`: split at the commas, then normalised -/
theorem flag_resolvers_never_panics (v : Bytes) : normalizeAddrs (cslSet v) ≠ .panic := C19.normalizeAddrs_never_panics _

/-- a whole command line of these flags never panics -/
theorem cmdline_never_panics (args : List FlagArg) : ∀ o : Opts, parseArgs o args ≠ .panic := by
  induction args with
  | nil => intro o; simp [parseArgs]
  | cons a rest ih =>
    intro o
    unfold parseArgs
    split
    · exact ih _
    · simp
    · rename_i o' ha
      exfalso
      cases a with
      | rate v => simp [applyArg] at ha; exact C19.rate_never_panics _ _ ha.2
      | header v => simp [applyArg] at ha; exact C19.header_never_panics _ _ ha.2
      | maxBody v => simp [applyArg] at ha; exact C19.max_body_never_panics _ _ ha.2
      | dnsTTL v => simp [applyArg] at ha; exact C19.dns_ttl_never_panics _ _ ha.2
      | connectTo v => simp [applyArg] at ha; exact C19.connect_to_never_panics _ _ ha.2
      | maxWorkers n => simp only [applyArg] at ha; split at ha <;> simp at ha

/-- the resolver's rotation never panics once `NewResolver` has refused an empty list -/
theorem resolver_rotation_never_panics (addrs : List Bytes) (hne : addrs ≠ []) (n : Nat) : rotation addrs n 0 ≠ .panic := by
  obtain ⟨l, h, _⟩ := C19.resolver_rotation addrs hne n 0
  rw [h]; simp

end Vegeta.Props.C16
