/-
C12 — Histogram buckets partition the results.
Property theorems only (helper lemmas are local and marked `private`/`theorem aux_…`).
-/
import Vegeta.Model.Histogram
namespace Vegeta.Props.C12
open Vegeta.Go Vegeta.Model.Histogram

/-- strictly increasing list of bounds -/
def Increasing : List Int → Prop
  | [] => True
  | [_] => True
  | a :: b :: r => a < b ∧ Increasing (b :: r)

/-- `i` is *the* bucket of `lat`: lower bound ≤ lat, and lat < next bound unless `i` is last. -/
def InBucket (bs : List Int) (i : Nat) (lat : Int) : Prop :=
  ∃ lo, bs[i]? = some lo ∧ lo ≤ lat ∧ ∀ hi, bs[i+1]? = some hi → lat < hi

theorem bucket_lt_length (bs : List Int) (lat : Int) (h : bs ≠ []) :
    bucketIndex bs lat < bs.length := by
  induction bs with
  | nil => contradiction
  | cons b0 rest ih =>
    cases rest with
    | nil => simp [bucketIndex]
    | cons b1 r =>
      unfold bucketIndex
      split
      · simp
      · have := ih (by simp); simp only [List.length_cons] at *; omega

/-- The scan picks a bucket that contains the latency (for increasing bounds and
latencies not below the first bound). -/
theorem bucket_contains (bs : List Int) (lat : Int) (hinc : Increasing bs)
    (h0 : ∀ b, bs.head? = some b → b ≤ lat) (hne : bs ≠ []) :
    InBucket bs (bucketIndex bs lat) lat := by
  induction bs with
  | nil => contradiction
  | cons b0 rest ih =>
    cases rest with
    | nil =>
      refine ⟨b0, by simp [bucketIndex], h0 b0 (by simp), ?_⟩
      intro hi h; simp [bucketIndex] at h
    | cons b1 r =>
      unfold bucketIndex
      split
      · rename_i hc
        refine ⟨b0, by simp, hc.1, ?_⟩
        intro hi h; simp at h; omega
      · rename_i hc
        have hb0 : b0 ≤ lat := h0 b0 (by simp)
        have hb1 : b1 ≤ lat := by omega
        have := ih hinc.2 (by intro b hb; simp at hb; omega) (by simp)
        obtain ⟨lo, h1, h2, h3⟩ := this
        refine ⟨lo, ?_, h2, ?_⟩
        · rw [Nat.add_comm]; simpa using h1
        · intro hi hh
          apply h3 hi
          have : 1 + bucketIndex (b1 :: r) lat + 1 = (bucketIndex (b1 :: r) lat + 1) + 1 := by omega
          rw [this] at hh; simpa using hh

theorem aux_increasing_le : ∀ (bs : List Int) (i j : Nat) (x y : Int), Increasing bs → i < j →
    bs[i]? = some x → bs[j]? = some y → x < y := by
  intro bs
  induction bs with
  | nil => intro i j x y _ _ h; simp at h
  | cons b0 rest ih =>
    intro i j x y hinc hij hi hj
    cases rest with
    | nil =>
      cases j with
      | zero => omega
      | succ j => simp at hj
    | cons b1 r =>
      cases j with
      | zero => omega
      | succ j =>
        cases i with
        | zero =>
          simp at hi; subst hi
          cases j with
          | zero => simp at hj; subst hj; exact hinc.1
          | succ j =>
            have := ih 0 (j+1) b1 y hinc.2 (by omega) (by simp) (by simpa using hj)
            have := hinc.1; omega
        | succ i =>
          exact ih i j x y hinc.2 (by omega) (by simpa using hi) (by simpa using hj)

/-- A latency lies in at most one bucket: the buckets are disjoint. -/
theorem bucket_unique (bs : List Int) (lat : Int) (hinc : Increasing bs) (i j : Nat)
    (hi : InBucket bs i lat) (hj : InBucket bs j lat) : i = j := by
  obtain ⟨lo1, a1, a2, a3⟩ := hi
  obtain ⟨lo2, b1, b2, b3⟩ := hj
  rcases Nat.lt_trichotomy i j with h | h | h
  · exfalso
    -- i+1 ≤ j, so bs[i+1] ≤ bs[j] ≤ lat, contradicting lat < bs[i+1]
    have hlen : j < bs.length := by
      rcases Nat.lt_or_ge j bs.length with h | h
      · exact h
      · rw [List.getElem?_eq_none h] at b1; cases b1
    have : i + 1 < bs.length := by omega
    have hget : bs[i+1]? = some bs[i+1] := List.getElem?_eq_getElem this
    have hlt := a3 _ hget
    rcases Nat.lt_or_ge (i+1) j with h' | h'
    · have := aux_increasing_le bs (i+1) j _ _ hinc h' hget b1; omega
    · have : i + 1 = j := by omega
      subst this; rw [hget] at b1; cases b1; omega
  · exact h
  · exfalso
    have hlen : i < bs.length := by
      rcases Nat.lt_or_ge i bs.length with h | h
      · exact h
      · rw [List.getElem?_eq_none h] at a1; cases a1
    have : j + 1 < bs.length := by omega
    have hget : bs[j+1]? = some bs[j+1] := List.getElem?_eq_getElem this
    have hlt := b3 _ hget
    rcases Nat.lt_or_ge (j+1) i with h' | h'
    · have := aux_increasing_le bs (j+1) i _ _ hinc h' hget a1; omega
    · have : j + 1 = i := by omega
      subst this; rw [hget] at a1; cases a1; omega

/-- Exactly one bucket: the one the scan returns. -/
theorem bucket_exactly_one (bs : List Int) (lat : Int) (hinc : Increasing bs) (hne : bs ≠ [])
    (h0 : ∀ b, bs.head? = some b → b ≤ lat) (j : Nat) :
    InBucket bs j lat ↔ j = bucketIndex bs lat := by
  constructor
  · intro hj; exact bucket_unique bs lat hinc _ _ hj (bucket_contains bs lat hinc h0 hne)
  · intro hj; subst hj; exact bucket_contains bs lat hinc h0 hne

/-! ### counts -/

theorem aux_bump_length (xs : List Nat) (i : Nat) : (bump xs i).length = xs.length := by
  induction xs generalizing i with
  | nil => simp [bump]
  | cons x xs ih => cases i <;> simp [bump, ih]

theorem aux_bump_sum (xs : List Nat) (i : Nat) (h : i < xs.length) : (bump xs i).sum = xs.sum + 1 := by
  induction xs generalizing i with
  | nil => simp at h
  | cons x xs ih =>
    cases i with
    | zero => simp [bump]; omega
    | succ i => simp [bump, ih i (by simpa using h)]; omega

theorem aux_bump_get (xs : List Nat) (i j : Nat) :
    (bump xs i)[j]? = if i = j then xs[j]?.map (· + 1) else xs[j]? := by
  induction xs generalizing i j with
  | nil => simp [bump]
  | cons x xs ih =>
    cases i with
    | zero => cases j <;> simp [bump]
    | succ i =>
      cases j with
      | zero => simp [bump]
      | succ j => simp [bump, ih]

/-- State invariant of a histogram that has seen the latencies `seen`. -/
def Counted (bs : List Int) (seen : List Int) (h : Hist) : Prop :=
  h.buckets = bs ∧ h.total = seen.length ∧
  (seen = [] ∨ h.counts.length = bs.length) ∧
  (seen = [] → h.counts = []) ∧
  (seen ≠ [] → ∀ i, i < bs.length → h.counts[i]? = some (seen.filter (fun l => bucketIndex bs l == i)).length)

theorem aux_add_ok (bs : List Int) (hne : bs ≠ []) (seen : List Int) (h : Hist) (lat : Int)
    (hc : Counted bs seen h) : ∃ h', add h lat = .ok h' ∧ Counted bs (seen ++ [lat]) h' := by
  obtain ⟨hb, ht, hl, hnil, hcnt⟩ := hc
  have hidx := bucket_lt_length bs lat hne
  unfold add
  simp only [hb]
  by_cases hs : seen = []
  · subst hs
    have hcn := hnil rfl
    have hlen : bs.length ≠ 0 := by intro h0; exact hne (List.length_eq_zero_iff.mp h0)
    simp only [hcn, List.length_nil, ne_eq]
    have : (0 ≠ bs.length) := by omega
    simp only [this, not_false_eq_true, ↓reduceIte, List.length_replicate, hidx]
    refine ⟨_, rfl, rfl, by simp [ht], Or.inr (by simp [aux_bump_length]), by simp, ?_⟩
    intro _ i hi
    rw [aux_bump_get]
    simp only [List.nil_append, List.filter_cons, List.filter_nil]
    by_cases he : bucketIndex bs lat = i
    · simp [he, hi]
    · simp [he, hi]
  · have hlen : h.counts.length = bs.length := by
      rcases hl with h | h
      · exact absurd h hs
      · exact h
    simp only [hlen, ne_eq, not_true_eq_false, ↓reduceIte, hidx]
    refine ⟨_, rfl, rfl, by simp [ht], Or.inr (by simp [aux_bump_length, hlen]), by simp, ?_⟩
    intro _ i hi
    rw [aux_bump_get, hcnt hs i hi]
    simp only [List.filter_append, List.length_append, List.filter_cons, List.filter_nil]
    by_cases he : bucketIndex bs lat = i
    · simp [he]
    · simp [he]

theorem aux_addAll (bs : List Int) (hne : bs ≠ []) (lats : List Int) : ∀ (seen : List Int) (h : Hist),
    Counted bs seen h → ∃ h', addAll h lats = .ok h' ∧ Counted bs (seen ++ lats) h' := by
  induction lats with
  | nil => intro seen h hc; exact ⟨h, rfl, by simpa using hc⟩
  | cons l ls ih =>
    intro seen h hc
    obtain ⟨h1, e1, c1⟩ := aux_add_ok bs hne seen h l hc
    obtain ⟨h2, e2, c2⟩ := ih (seen ++ [l]) h1 c1
    refine ⟨h2, ?_, by simpa using c2⟩
    simp [addAll, e1, e2]

/-- **Adding never panics** when there is at least one bucket, for any latencies whatsoever. -/
theorem add_never_panics (bs : List Int) (hne : bs ≠ []) (lats : List Int) :
    addAll (Hist.new bs) lats ≠ .panic := by
  obtain ⟨h', e, _⟩ := aux_addAll bs hne lats [] (Hist.new bs) ⟨rfl, rfl, Or.inl rfl, fun _ => rfl, fun h => absurd rfl h⟩
  rw [e]; intro h; cases h

/-- **Every result is counted in exactly its bucket**: after adding any list of latencies,
bucket `i` holds the number of latencies whose (unique, by `bucket_exactly_one`) bucket is `i`. -/
theorem counts_are_partition (bs : List Int) (hne : bs ≠ []) (lats : List Int) (hl : lats ≠ []) :
    ∃ h, addAll (Hist.new bs) lats = .ok h ∧ h.total = lats.length ∧ h.counts.length = bs.length ∧
      ∀ i, i < bs.length → h.counts[i]? = some (lats.filter (fun l => bucketIndex bs l == i)).length := by
  obtain ⟨h', e, c⟩ := aux_addAll bs hne lats [] (Hist.new bs) ⟨rfl, rfl, Or.inl rfl, fun _ => rfl, fun h => absurd rfl h⟩
  simp only [List.nil_append] at c
  obtain ⟨_, ht, hlen, _, hcnt⟩ := c
  refine ⟨h', e, ht, ?_, hcnt hl⟩
  rcases hlen with h | h
  · exact absurd h hl
  · exact h

theorem aux_addAll_sum (bs : List Int) (hne : bs ≠ []) (lats : List Int) : ∀ (h : Hist),
    h.buckets = bs → (h.counts = [] ∧ h.total = 0 ∨ h.counts.length = bs.length) →
    ∃ h', addAll h lats = .ok h' ∧ h'.buckets = bs ∧
      (if h.counts.length = bs.length then h'.counts.sum = h.counts.sum + lats.length
       else h'.counts.sum = lats.length) ∧ h'.total = h.total + lats.length ∧
      (lats ≠ [] → h'.counts.length = bs.length) := by
  induction lats with
  | nil => intro h hb _; exact ⟨h, rfl, hb, by split <;> simp_all, by simp, by simp⟩
  | cons l ls ih =>
    intro h hb hc
    have hidx := bucket_lt_length bs l hne
    have hlen0 : bs.length ≠ 0 := by intro h0; exact hne (List.length_eq_zero_iff.mp h0)
    by_cases hlen : h.counts.length = bs.length
    · have e1 : add h l = .ok { h with counts := bump h.counts (bucketIndex bs l), total := h.total + 1 } := by
        unfold add; simp [hb, hlen, hidx]
      obtain ⟨h2, e2, b2, s2, t2, l2⟩ := ih { h with counts := bump h.counts (bucketIndex bs l), total := h.total + 1 } hb
        (Or.inr (by simp [aux_bump_length, hlen]))
      refine ⟨h2, by simp [addAll, e1, e2], b2, ?_, ?_, ?_⟩
      · simp only [aux_bump_length, hlen, ↓reduceIte] at s2 ⊢
        rw [s2, aux_bump_sum _ _ (by omega)]; simp; omega
      · simp at t2 ⊢; omega
      · intro _
        cases ls with
        | nil => simp [addAll] at e2; subst e2; simp [aux_bump_length, hlen]
        | cons a b => exact l2 (by simp)
    · have hcn : h.counts = [] ∧ h.total = 0 := by
        rcases hc with h | h
        · exact h
        · exact absurd h hlen
      have e1 : add h l = .ok { h with counts := bump (List.replicate bs.length 0) (bucketIndex bs l), total := h.total + 1 } := by
        unfold add; simp [hb, hlen, hidx]
      obtain ⟨h2, e2, b2, s2, t2, l2⟩ := ih { h with counts := bump (List.replicate bs.length 0) (bucketIndex bs l), total := h.total + 1 } hb
        (Or.inr (by simp [aux_bump_length]))
      refine ⟨h2, by simp [addAll, e1, e2], b2, ?_, ?_, ?_⟩
      · simp only [aux_bump_length, List.length_replicate, ↓reduceIte, hlen] at s2 ⊢
        rw [s2, aux_bump_sum _ _ (by simpa using hidx)]; simp; omega
      · simp at t2 ⊢; omega
      · intro _
        cases ls with
        | nil => simp [addAll] at e2; subst e2; simp [aux_bump_length]
        | cons a b => exact l2 (by simp)

/-- **The bucket counts sum to the number of results**, and so does `Total`. -/
theorem counts_sum_eq_total (bs : List Int) (hne : bs ≠ []) (lats : List Int) :
    ∃ h, addAll (Hist.new bs) lats = .ok h ∧ h.counts.sum = lats.length ∧ h.total = lats.length := by
  obtain ⟨h', e, _, s, t, _⟩ := aux_addAll_sum bs hne lats (Hist.new bs) rfl (Or.inl ⟨rfl, rfl⟩)
  refine ⟨h', e, ?_, by simpa [Hist.new] using t⟩
  simp only [Hist.new, List.length_nil] at s
  by_cases h0 : 0 = bs.length
  · exact absurd (List.length_eq_zero_iff.mp h0.symm) hne
  · simpa [h0] using s

/-! ### bucket specifications -/

theorem aux_parts_head (vs : List Bytes) : ∀ (first : Bool) (acc out : List Int),
    unmarshalParts vs first acc = .ok out →
    (acc ≠ [] → out.head? = acc.head?) ∧ (acc = [] → first = true → vs ≠ [] → ∃ b, out.head? = some b ∧ b ≤ 0) := by
  induction vs with
  | nil => intro first acc out h; simp [unmarshalParts] at h; subst h; simp
  | cons v vs ih =>
    intro first acc out h
    unfold unmarshalParts at h
    split at h
    · rename_i d hd
      simp only [] at h
      have := ih false _ out h
      constructor
      · intro hacc
        have h1 := this.1 (by split <;> simp)
        rw [h1]; split <;> simp [List.head?_append, hacc] <;> cases acc <;> simp_all
      · intro hacc hf _
        subst hacc; subst hf
        have h1 := this.1 (by split <;> simp)
        rw [h1]
        by_cases hd0 : d > 0
        · simp [hd0]
        · simp [hd0]; omega
    · cases h
    · cases h

/-- **A bucket specification always covers every non-negative latency**: the parsed bounds are
non-empty and start at or below zero. -/
theorem unmarshal_covers (value : Bytes) (bs : List Int) (h : unmarshalText value = .ok bs) :
    ∃ b, bs.head? = some b ∧ b ≤ 0 := by
  unfold unmarshalText at h
  split at h
  · cases h
  · split at h
    · rename_i rest _ _
      split at h
      · rename_i bs' hp
        split at h
        · cases h
        · cases h
          have hne : splitOn 44 rest.dropLast ≠ [] := by
            generalize rest.dropLast = r
            cases r with
            | nil => simp [splitOn]
            | cons c r => unfold splitOn; split <;> (try simp) ; split <;> simp
          exact (aux_parts_head _ true [] _ hp).2 rfl rfl hne
      · rename_i o hno
        exact absurd h (hno bs)
    · cases h

/-- The parsed durations of the parts, in order (what "preserves the given bounds" refers to). -/
def partDurations : List Bytes → Option (List Int)
  | [] => some []
  | v :: vs => match Duration.parse (trimSpace v), partDurations vs with
    | .ok d, some ds => some (d :: ds)
    | _, _ => none

theorem aux_parts_preserve (vs : List Bytes) : ∀ (first : Bool) (acc out : List Int),
    unmarshalParts vs first acc = .ok out →
    ∃ ds, partDurations vs = some ds ∧
      out = acc ++ (match ds with
        | d :: _ => if first && decide (d > 0) then 0 :: ds else ds
        | [] => ds) := by
  induction vs with
  | nil => intro first acc out h; simp [unmarshalParts] at h; subst h; exact ⟨[], rfl, by simp⟩
  | cons v vs ih =>
    intro first acc out h
    unfold unmarshalParts at h
    split at h
    · rename_i d hd
      simp only [] at h
      obtain ⟨ds, hds, hout⟩ := ih false _ out h
      refine ⟨d :: ds, by simp [partDurations, hd, hds], ?_⟩
      rw [hout]
      cases ds <;> by_cases hf : (first && decide (d > 0)) = true <;> simp [hf]
    · cases h
    · cases h

/-- **A bucket specification preserves the given bounds**: the result is exactly the list of the
parts' durations, with a zero bound prepended when (and only when) the first one is positive. -/
theorem unmarshal_preserves (value : Bytes) (bs : List Int) (h : unmarshalText value = .ok bs) :
    ∃ inner ds, value = 91 :: inner ∧ partDurations (splitOn 44 inner.dropLast) = some ds ∧
      ∃ d0 rest, ds = d0 :: rest ∧ bs = if d0 > 0 then 0 :: ds else ds := by
  unfold unmarshalText at h
  split at h
  · cases h
  · split at h
    · rename_i rest _ _
      split at h
      · rename_i bs' hp
        split at h
        · cases h
        · cases h
          obtain ⟨ds, hds, hout⟩ := aux_parts_preserve _ true [] _ hp
          refine ⟨rest, ds, rfl, hds, ?_⟩
          cases ds with
          | nil =>
            exfalso
            generalize rest.dropLast = r at hds
            cases r with
            | nil => simp [splitOn, partDurations] at hds; split at hds <;> simp at hds
            | cons c r =>
              unfold splitOn at hds
              split at hds
              · simp [partDurations] at hds; split at hds <;> simp at hds
              · split at hds <;> (simp [partDurations] at hds; split at hds <;> simp at hds)
          | cons d0 r =>
            refine ⟨d0, r, rfl, ?_⟩
            simp at hout
            rw [hout]
      · rename_i o hno
        exact absurd h (hno bs)
    · cases h

/-! ### renderings -/

theorem aux_jsonPairs_length (h : Hist) (bs : List Int) (i : Nat) : (jsonPairsFrom h bs i).length = bs.length := by
  induction bs generalizing i with
  | nil => simp [jsonPairsFrom]
  | cons b bs ih => simp [jsonPairsFrom, ih]

theorem aux_jsonPairs_get (h : Hist) (bs : List Int) (i k : Nat) :
    (jsonPairsFrom h bs i)[k]? = bs[k]?.map (fun b => (b, countAt h (i + k))) := by
  induction bs generalizing i k with
  | nil => simp [jsonPairsFrom]
  | cons b bs ih =>
    cases k with
    | zero => simp [jsonPairsFrom]
    | succ k =>
      have : i + 1 + k = i + (k + 1) := by omega
      simp [jsonPairsFrom, ih, this]

/-- **The JSON rendering shows exactly the bucket counts**, one pair per bucket in order —
also when no result was added (all counts zero) — and never panics. -/
theorem json_shows_counts (h : Hist) : ∃ ps : List (Int × Nat), jsonPairs h = .ok ps ∧ ps.length = h.buckets.length ∧
    ∀ k : Nat, ps[k]? = h.buckets[k]?.map (fun b => (b, (h.counts[k]?).getD 0)) := by
  refine ⟨_, rfl, aux_jsonPairs_length _ _ _, ?_⟩
  intro k; rw [aux_jsonPairs_get]; simp [countAt]

theorem json_no_results (bs : List Int) : ∃ ps, jsonPairs (Hist.new bs) = .ok ps ∧ ps = bs.map (fun b => (b, 0)) := by
  refine ⟨_, rfl, ?_⟩
  apply List.ext_getElem?
  intro k; rw [aux_jsonPairs_get]; simp [countAt, Hist.new]

theorem aux_nth_ok (bs : List Int) (i : Nat) (hi : i < bs.length) : ∃ lo hi', nth bs i = .ok (lo, hi') := by
  unfold nth
  rw [List.getElem?_eq_getElem hi]
  simp only []
  split
  · exact ⟨_, _, rfl⟩
  · rename_i hlt
    have : i + 1 < bs.length := by omega
    rw [List.getElem?_eq_getElem this]
    exact ⟨_, _, rfl⟩

theorem aux_textRows (h : Hist) : ∀ (n i : Nat), i + n = h.buckets.length →
    ∃ rs, textRowsFrom h n i = .ok rs ∧ rs.length = n ∧ ∀ k, k < n → ∃ lo hi, rs[k]? = some (lo, hi, countAt h (i + k)) := by
  intro n
  induction n with
  | zero => intro i _; exact ⟨[], rfl, rfl, by intro k hk; omega⟩
  | succ n ih =>
    intro i hlen
    obtain ⟨lo, hi, hn⟩ := aux_nth_ok h.buckets i (by omega)
    obtain ⟨rs, hrs, hl, hk⟩ := ih (i+1) (by omega)
    refine ⟨(lo, hi, countAt h i) :: rs, by simp [textRowsFrom, hn, hrs], by simp [hl], ?_⟩
    intro k hkn
    cases k with
    | zero => exact ⟨lo, hi, by simp⟩
    | succ k =>
      obtain ⟨lo', hi', hh⟩ := hk k (by omega)
      refine ⟨lo', hi', ?_⟩
      have e : i + 1 + k = i + (k + 1) := by omega
      simp only [List.getElem?_cons_succ, hh, e]

/-- **The text rendering has one row per bucket carrying that bucket's count**, also when no
result was added, and never panics. -/
theorem text_shows_counts (h : Hist) : ∃ rs, textRows h = .ok rs ∧ rs.length = h.buckets.length ∧
    ∀ k, k < h.buckets.length → ∃ lo hi, rs[k]? = some (lo, hi, (h.counts[k]?).getD 0) := by
  obtain ⟨rs, h1, h2, h3⟩ := aux_textRows h h.buckets.length 0 (by simp)
  refine ⟨rs, h1, h2, ?_⟩
  intro k hk
  obtain ⟨lo, hi, hh⟩ := h3 k hk
  exact ⟨lo, hi, by simpa [countAt] using hh⟩

/-! ### non-vacuity -/

example : Increasing [0, 10, 20] ∧ ([0, 10, 20] : List Int) ≠ [] ∧ (∀ b, ([0, 10, 20] : List Int).head? = some b → b ≤ 10) := by
  refine ⟨⟨by decide, by decide, trivial⟩, by decide, ?_⟩
  intro b h; simp at h; omega

example : addAll (Hist.new [0, 10, 20]) [0, 10, 25, 19] = .ok ⟨[0, 10, 20], [1, 2, 1], 4⟩ := by decide

example : unmarshalText [91, 49, 109, 115, 44, 32, 53, 109, 115, 93] = .ok [0, 1000000, 5000000] := by decide

end Vegeta.Props.C12
