/-
C06 — Each result faithfully describes its HTTP exchange.
Property theorems about the model `Vegeta.Model.Hit` (helper lemmas are named `aux_*`).
-/
import Vegeta.Model.Hit
import Vegeta.Extracted.Facts
namespace Vegeta.Props.C06
open Vegeta.Go Vegeta.Model.Hit

/-! ### the reader algebra: what `pump` does, for every chunk-size oracle -/

/-- Invariant of a body state: the log is `reads* terminal^k`, the delivered bytes plus the
pending ones make `total`, and once a terminal event was reported nothing is pending. -/
def Shape (total : Nat) (s : BodySt) (k : Nat) : Prop :=
  ∃ ns : List Nat, s.log = ns.map Ev.read ++ List.replicate k (termEv s.fails) ∧
    ns.sum + s.data.length = total ∧ (∀ n ∈ ns, 1 ≤ n) ∧ (1 ≤ k → s.data = [])

theorem aux_read (total : Nat) (s : BodySt) (want : Option Nat) (hw : want ≠ some 0) (k : Nat)
    (hs : Shape total s k) :
    ∃ m k', (s.read want).1.1 = s.data.take m ∧ (s.read want).2.data = s.data.drop m ∧
      m ≤ s.data.length ∧ (∀ w, want = some w → m ≤ w) ∧
      Shape total (s.read want).2 k' ∧ k ≤ k' ∧
      (s.read want).2.fails = s.fails ∧ (s.read want).2.endWithData = s.endWithData ∧
      (∀ e, (s.read want).1.2 = some e → e = s.fails ∧ 1 ≤ k' ∧ m = s.data.length) ∧
      ((s.read want).1.2 = none → 1 ≤ m ∧ k' = k) := by
  obtain ⟨ns, hlog, hsum, hpos, hk⟩ := hs
  unfold BodySt.read
  by_cases hd : s.data.length = 0
  · -- nothing pending: the terminal event is reported (again)
    have hnil : s.data = [] := List.eq_nil_of_length_eq_zero hd
    rw [if_pos hd]
    refine ⟨0, k + 1, by simp, by simp [hnil], by omega, by intro w _; omega, ?_, by omega, rfl, rfl, ?_, ?_⟩
    · refine ⟨ns, ?_, by simpa using hsum, hpos, fun _ => hnil⟩
      show s.log ++ [termEv s.fails] = _
      rw [hlog, List.append_assoc, List.replicate_succ']
    · intro e he
      have : some s.fails = some e := he
      exact ⟨by injection this with h; exact h.symm, by omega, by omega⟩
    · intro h; cases h
  · -- pending bytes: no terminal event so far
    have hk0 : k = 0 := by
      rcases Nat.eq_zero_or_pos k with h | h
      · exact h
      · have := hk h; simp [this] at hd
    subst hk0
    rw [if_neg hd]
    -- the number of bytes this call delivers
    have hc1 : 1 ≤ s.chunk := by
      unfold BodySt.chunk; split
      · omega
      · split <;> omega
    have hn1 : 1 ≤ s.readLen want ∧ s.readLen want ≤ s.data.length ∧ (∀ w, want = some w → s.readLen want ≤ w) := by
      unfold BodySt.readLen
      cases want with
      | none => simp; omega
      | some w =>
        have : w ≠ 0 := by intro h; apply hw; simp [h]
        simp; omega
    generalize s.readLen want = n at *
    have hlog0 : s.log = ns.map Ev.read := by simpa using hlog
    by_cases hlast : n = s.data.length ∧ s.endWithData = true
    · rw [if_pos hlast]
      have hn' := hlast.1
      refine ⟨n, 1, by simp [hn'], by simp [hn'], by omega, hn1.2.2, ?_, by omega, rfl, rfl, ?_, ?_⟩
      · refine ⟨ns ++ [n], ?_, ?_, ?_, fun _ => rfl⟩
        · show s.log ++ [Ev.read n, termEv s.fails] = _
          rw [hlog0]; simp
        · show (ns ++ [n]).sum + ([] : Bytes).length = total
          simp; omega
        · intro x hx; simp at hx; rcases hx with hx | hx
          · exact hpos x hx
          · omega
      · intro e he
        have : some s.fails = some e := he
        exact ⟨by injection this with h; exact h.symm, by omega, hn'⟩
      · intro h; cases h
    · rw [if_neg hlast]
      refine ⟨n, 0, rfl, rfl, hn1.2.1, hn1.2.2, ?_, by omega, rfl, rfl, ?_, fun _ => ⟨hn1.1, rfl⟩⟩
      · refine ⟨ns ++ [n], ?_, ?_, ?_, by omega⟩
        · show s.log ++ [Ev.read n] = _
          rw [hlog0]; simp
        · show (ns ++ [n]).sum + (s.data.drop n).length = total
          simp; omega
        · intro x hx; simp at hx; rcases hx with hx | hx
          · exact hpos x hx
          · omega
      · intro e he; cases he

/-- how many bytes a `pump` with limit `lim` takes from `len` pending bytes -/
def takeLim (lim : Option Nat) (len : Nat) : Nat :=
  match lim with
  | none => len
  | some n => min n len

theorem aux_pump (total : Nat) : ∀ (fuel : Nat) (lim : Option Nat) (s : BodySt) (acc : Bytes) (k : Nat),
    s.data.length < fuel → Shape total s k →
    ∃ k', (pump fuel lim s acc).1.1 = acc ++ s.data.take (takeLim lim s.data.length) ∧
      (pump fuel lim s acc).2.data = s.data.drop (takeLim lim s.data.length) ∧
      Shape total (pump fuel lim s acc).2 k' ∧ k ≤ k' ∧
      (pump fuel lim s acc).2.fails = s.fails ∧
      (pump fuel lim s acc).2.endWithData = s.endWithData ∧
      ((pump fuel lim s acc).1.2 = true → s.fails = true ∧ 1 ≤ k') ∧
      (lim = none → 1 ≤ k' ∧ (pump fuel lim s acc).1.2 = s.fails) := by
  intro fuel
  induction fuel with
  | zero => intro lim s acc k h; omega
  | succ fuel ih =>
    intro lim s acc k hf hs
    unfold pump
    by_cases h0 : lim = some 0
    · subst h0
      refine ⟨k, ?_⟩
      simp [takeLim, hs]
    · simp only [h0, if_false]
      obtain ⟨m, k1, hbs, hdata, hmle, hmw, hshape, hkk, hfails, hewd, hsome, hnone⟩ := aux_read total s lim h0 k hs
      generalize hr : s.read lim = r at *
      obtain ⟨⟨bs, t⟩, s'⟩ := r
      simp only at hbs hdata hshape hfails hewd hsome hnone
      cases t with
      | some e =>
        obtain ⟨he, hk1, hm⟩ := hsome e rfl
        simp only
        refine ⟨k1, ?_, ?_, hshape, hkk, hfails, hewd, ?_, ?_⟩
        · -- all pending bytes were delivered, and the limit allowed them
          have : takeLim lim s.data.length = s.data.length := by
            unfold takeLim; cases lim with
            | none => rfl
            | some w => have := hmw w rfl; simp; omega
          rw [this, hbs, hm]
        · have : takeLim lim s.data.length = s.data.length := by
            unfold takeLim; cases lim with
            | none => rfl
            | some w => have := hmw w rfl; simp; omega
          rw [this, hdata, hm]
        · intro h; exact ⟨by rw [← he]; exact h, hk1⟩
        · intro _; exact ⟨hk1, he⟩
      | none =>
        obtain ⟨hm1, hk1⟩ := hnone rfl
        rw [hk1] at hshape
        simp only
        have hlen' : s'.data.length < fuel := by rw [hdata]; simp; omega
        obtain ⟨k2, h1, h2, h3, h4, h5, h6, h7, h8⟩ := ih (lim.map (· - bs.length)) s' (acc ++ bs) k hlen' hshape
        have hbl : bs.length = m := by rw [hbs]; simp; omega
        have htl : m + takeLim (lim.map (· - bs.length)) s'.data.length = takeLim lim s.data.length := by
          unfold takeLim
          cases lim with
          | none => simp [hdata]; omega
          | some w => have := hmw w rfl; simp [hdata, hbl]; omega
        have hnone' : lim = none → lim.map (· - bs.length) = none := by intro h; subst h; rfl
        generalize takeLim (lim.map (· - bs.length)) s'.data.length = t' at *
        refine ⟨k2, ?_, ?_, h3, h4, by rw [h5, hfails], by rw [h6, hewd], ?_, ?_⟩
        · rw [h1, ← htl, hdata, hbs, List.append_assoc, List.take_add]
        · rw [h2, ← htl, hdata, List.drop_drop]
        · intro h; have := h7 h; rw [hfails] at this; exact this
        · intro hl
          have := h8 (hnone' hl)
          rw [hfails] at this; exact this

/-! ### what `consume` (the part of `hit` after `client.Do` returned a response) does -/

/-- the bytes the response body can deliver before it ends (EOF or read error) -/
def avail (r : Resp) : Bytes :=
  match r.failAfter with
  | some k => r.body.take k
  | none => r.body

/-- the `max-body` prefix -/
def capture (maxBody : Int) (b : Bytes) : Bytes :=
  if maxBody ≥ 0 then b.take maxBody.toNat else b

/-- The log of a body that was read to its end and closed: reads of at least one byte each that
deliver `total` bytes, then the terminal event (`t`) reported at least once, then `Close`. -/
def DrainedAndClosed (total : Nat) (t : Ev) (log : List Ev) : Prop :=
  ∃ (ns : List Nat) (k : Nat), 1 ≤ k ∧ log = ns.map Ev.read ++ List.replicate k t ++ [Ev.close] ∧
    ns.sum = total ∧ ∀ n ∈ ns, 1 ≤ n

theorem aux_ofResp_shape (r : Resp) (chunks : List Nat) :
    Shape (avail r).length (BodySt.ofResp r chunks) 0 ∧ (BodySt.ofResp r chunks).data = avail r ∧
    (BodySt.ofResp r chunks).fails = r.failAfter.isSome := by
  unfold BodySt.ofResp avail
  cases r.failAfter with
  | none => exact ⟨⟨[], by simp, by simp, by simp, by omega⟩, rfl, rfl⟩
  | some k => exact ⟨⟨[], by simp, by simp, by simp, by omega⟩, rfl, rfl⟩

/-- what `consume` returns, in closed form -/
def ConsumeSpec (cfg : Cfg) (res0 : Result) (req : RequestSeen) (r : Resp) (o : Out) : Prop :=
    o.req = some req ∧ o.obtained = true ∧ o.stopped = false ∧
    o.res.body = capture cfg.maxBody (avail r) ∧
    DrainedAndClosed (avail r).length (termEv r.failAfter.isSome) o.bodyLog ∧
    o.res.attack = res0.attack ∧ o.res.seq = res0.seq ∧ o.res.method = res0.method ∧ o.res.url = res0.url ∧
    o.res.bytesIn = (capture cfg.maxBody (avail r)).length ∧
    o.res.bytesOut = (if req.contentLength ≠ -1 then (wrapU64 req.contentLength).toNat else res0.bytesOut) ∧
    (r.failAfter.isSome = true →
      o.res.error = r.readErr ∧ o.res.code = res0.code ∧ o.res.headers = res0.headers) ∧
    (r.failAfter.isSome = false →
      o.res.code = toUint16 r.status ∧ o.res.headers = some r.header ∧
      o.res.error = (if toUint16 r.status < 200 ∨ toUint16 r.status ≥ 400 then r.statusText else []))

/-- `consume`, in closed form, for every chunk oracle. -/
theorem aux_consume (cfg : Cfg) (res0 : Result) (req : RequestSeen) (r : Resp) (chunks : List Nat) :
    ConsumeSpec cfg res0 req r (consume cfg res0 req r chunks) := by
  obtain ⟨hsh0, hd0, hf0⟩ := aux_ofResp_shape r chunks
  have hcap : ∀ (lim : Option Nat), lim = (if cfg.maxBody ≥ 0 then some cfg.maxBody.toNat else none) →
      (avail r).take (takeLim lim (avail r).length) = capture cfg.maxBody (avail r) := by
    intro lim hl
    unfold capture takeLim
    by_cases h : cfg.maxBody ≥ 0
    · simp only [h, if_true] at hl ⊢; subst hl
      exact (List.take_eq_take_min ..).symm
    · simp only [h, if_false] at hl ⊢; subst hl; simp
  -- first pump (capture), then the drain
  generalize hlim : (if cfg.maxBody ≥ 0 then some cfg.maxBody.toNat else none : Option Nat) = lim at hcap
  have hfuel : (BodySt.ofResp r chunks).data.length < (BodySt.ofResp r chunks).data.length + 1 := by omega
  obtain ⟨k1, a1, a2, a3, a4, a5, a6, a7, a8⟩ :=
    aux_pump (avail r).length _ lim (BodySt.ofResp r chunks) [] 0 hfuel hsh0
  have hfuel2 : (pump ((BodySt.ofResp r chunks).data.length + 1) lim (BodySt.ofResp r chunks) []).2.data.length <
      (BodySt.ofResp r chunks).data.length + 1 := by
    rw [a2]; simp; omega
  obtain ⟨k2, b1, b2, b3, b4, b5, b6, b7, b8⟩ :=
    aux_pump (avail r).length _ none _ [] k1 hfuel2 a3
  have hclosed : ∀ (s : BodySt) (k : Nat), Shape (avail r).length s k → 1 ≤ k → s.fails = r.failAfter.isSome →
      DrainedAndClosed (avail r).length (termEv r.failAfter.isSome) (s.log ++ [Ev.close]) := by
    intro s k ⟨ns, hlog, hsum, hpos, hk⟩ hk1 hfl
    refine ⟨ns, k, hk1, by rw [hlog, hfl], ?_, hpos⟩
    have := hk hk1; rw [this] at hsum; simpa using hsum
  have hbody : (pump ((BodySt.ofResp r chunks).data.length + 1) lim (BodySt.ofResp r chunks) []).1.1 =
      capture cfg.maxBody (avail r) := by
    rw [a1, hd0]; simpa using hcap lim rfl
  obtain ⟨hk2, he2⟩ := b8 rfl
  unfold consume
  simp only [hlim]
  generalize pump ((BodySt.ofResp r chunks).data.length + 1) lim (BodySt.ofResp r chunks) [] = p1 at *
  obtain ⟨⟨body, e1⟩, s1⟩ := p1
  cases e1 with
  | true =>
    obtain ⟨hfl, hk1⟩ := a7 rfl
    have hfa : r.failAfter.isSome = true := by rw [← hf0]; exact hfl
    refine ⟨rfl, rfl, rfl, hbody, hclosed s1 k1 a3 hk1 (by rw [← hf0]; exact a5), rfl, rfl, rfl, rfl,
      by rw [← hbody], rfl, ?_, ?_⟩
    · intro _; exact ⟨rfl, rfl, rfl⟩
    · intro h; rw [hfa] at h; cases h
  | false =>
    dsimp only at *
    generalize pump ((BodySt.ofResp r chunks).data.length + 1) none s1 [] = p2 at *
    obtain ⟨⟨body2, e2⟩, s2⟩ := p2
    have hfl2 : s2.fails = r.failAfter.isSome := by rw [← hf0]; exact b5.trans a5
    cases e2 with
    | true =>
      have hfa : r.failAfter.isSome = true := by rw [← hf0]; exact (he2.trans a5).symm
      dsimp only at *
      refine ⟨rfl, rfl, rfl, hbody, hclosed s2 k2 b3 hk2 hfl2, rfl, rfl, rfl, rfl, by rw [← hbody], rfl, ?_, ?_⟩
      · intro _; exact ⟨rfl, rfl, rfl⟩
      · intro h; rw [hfa] at h; cases h
    | false =>
      have hfa : r.failAfter.isSome = false := by rw [← hf0]; exact (he2.trans a5).symm
      dsimp only at *
      refine ⟨rfl, rfl, rfl, hbody, hclosed s2 k2 b3 hk2 hfl2, rfl, rfl, rfl, rfl, by rw [← hbody], rfl, ?_, ?_⟩
      · intro h; rw [hfa] at h; cases h
      · intro _; exact ⟨rfl, rfl, rfl⟩

/-! ### `hit` path by path -/

/-- the request `hit` hands to `client.Do`: the target's request plus the injected headers -/
def inject (cfg : Cfg) (seq : Nat) (req0 : RequestSeen) : RequestSeen :=
  { req0 with
    header := hSet (if cfg.name ≠ [] then hSet req0.header keyAttack cfg.name else req0.header) keySeq (Duration.fmtNat seq),
    transferEncoding := if cfg.chunked then req0.transferEncoding ++ [teChunked] else req0.transferEncoding }

/-- the result before anything happened: attack name, sequence number, target method and URL -/
def base (t : Target) (cfg : Cfg) (seq : Nat) : Result :=
  { (Result.zero cfg.name seq) with method := t.method, url := t.url }

theorem aux_hit_req_error (t : Target) (u : UrlInfo) (cfg : Cfg) (seq : Nat) (ex : Exchange) (e : Bytes)
    (h : request t u = .error e) :
    hit t u cfg seq ex =
      { res := { base t cfg seq with error := e }, req := none, obtained := false, bodyLog := [], stopped := false } := by
  unfold hit; rw [h]; rfl

theorem aux_hit_do_error (t : Target) (u : UrlInfo) (cfg : Cfg) (seq : Nat) (ex : Exchange) (req0 : RequestSeen)
    (text : Bytes) (h : request t u = .ok req0) (hd : clientDo cfg.redirects 1 ex.hops ex.final = .err text) :
    hit t u cfg seq ex =
      { res := { base t cfg seq with error := text }, req := some (inject cfg seq req0), obtained := false,
        bodyLog := [], stopped := false } := by
  unfold hit; rw [h]; simp only; rw [hd]; rfl

theorem aux_hit_resp (t : Target) (u : UrlInfo) (cfg : Cfg) (seq : Nat) (ex : Exchange) (req0 : RequestSeen)
    (r : Resp) (h : request t u = .ok req0) (hd : clientDo cfg.redirects 1 ex.hops ex.final = .resp r) :
    hit t u cfg seq ex = consume cfg (base t cfg seq) (inject cfg seq req0) r ex.chunks := by
  unfold hit; rw [h]; simp only; rw [hd]; rfl

/-- the three ways an exchange can go, as `hit` sees it -/
inductive Path (t : Target) (u : UrlInfo) (cfg : Cfg) (ex : Exchange) : Type where
  | reqError (e : Bytes) (h : request t u = .error e)
  | doError (req0 : RequestSeen) (text : Bytes) (h : request t u = .ok req0)
      (hd : clientDo cfg.redirects 1 ex.hops ex.final = .err text)
  | response (req0 : RequestSeen) (r : Resp) (h : request t u = .ok req0)
      (hd : clientDo cfg.redirects 1 ex.hops ex.final = .resp r)

def pathOf (t : Target) (u : UrlInfo) (cfg : Cfg) (ex : Exchange) : Path t u cfg ex :=
  match h : request t u with
  | .error e => .reqError e h
  | .ok req0 =>
    match hd : clientDo cfg.redirects 1 ex.hops ex.final with
    | .err text => .doError req0 text h hd
    | .resp r => .response req0 r h hd

/-! ### the exchange as the outside world scripts it -/

/-- `r` is one of the responses of the exchange -/
def Obtainable (ex : Exchange) (r : Resp) : Prop :=
  ex.final = .response r ∨ ∃ h ∈ ex.hops, h.resp = r

/-- Texts supplied by the outside world are non-empty: the `http.NewRequest` error, the
`*url.Error` of a transport failure, the status line text of every response (a real
transport always includes the three status digits) and the body read error. -/
def WF (u : UrlInfo) (ex : Exchange) : Prop :=
  u.errText ≠ [] ∧ (∀ t, ex.final = .transportErr t → t ≠ []) ∧
  (∀ r, Obtainable ex r → r.statusText ≠ [] ∧ r.readErr ≠ [])

/-- The exchange completed: the request could be built, `client.Do` returned the response `r`
and its body ended with EOF. -/
def Completed (t : Target) (u : UrlInfo) (cfg : Cfg) (ex : Exchange) (r : Resp) : Prop :=
  (∃ req0, request t u = .ok req0) ∧ clientDo cfg.redirects 1 ex.hops ex.final = .resp r ∧ r.failAfter = none

/-- The exchange failed: request construction, transport error / redirect policy, or body read error. -/
def Failed (t : Target) (u : UrlInfo) (cfg : Cfg) (ex : Exchange) : Prop :=
  (∃ e, request t u = .error e) ∨
  (∃ text, clientDo cfg.redirects 1 ex.hops ex.final = .err text) ∨
  (∃ r, clientDo cfg.redirects 1 ex.hops ex.final = .resp r ∧ r.failAfter.isSome = true)

theorem aux_stopped_ne_nil (p : Bytes) (n : Int) : p ++ stoppedText n ≠ [] := by
  unfold stoppedText; simp

theorem aux_clientDo (policy : Option Int) : ∀ (hops : List Hop) (via : Nat) (fin : Final),
    (∀ r, clientDo policy via hops fin = .resp r → fin = .response r ∨ ∃ h ∈ hops, h.resp = r) ∧
    (∀ text, clientDo policy via hops fin = .err text → fin = .transportErr text ∨ ∃ p n, text = p ++ stoppedText n) := by
  intro hops
  induction hops with
  | nil =>
    intro via fin
    cases fin with
    | transportErr t => simp [clientDo]
    | response r => simp [clientDo]
  | cons h hs ih =>
    intro via fin
    unfold clientDo
    simp only
    split
    · -- useLast
      constructor
      · intro r hr; right; refine ⟨h, by simp, ?_⟩; injection hr
      · intro text hr; cases hr
    · constructor
      · intro r hr; cases hr
      · intro text hr; right; injection hr with hr
        cases policy <;> exact ⟨_, _, hr.symm⟩
    · obtain ⟨i1, i2⟩ := ih (via + 1) fin
      constructor
      · intro r hr
        rcases i1 r hr with h' | ⟨h', hm, he⟩
        · exact Or.inl h'
        · exact Or.inr ⟨h', by simp [hm], he⟩
      · exact i2

theorem aux_request_error (t : Target) (u : UrlInfo) (e : Bytes) (h : request t u = .error e) : e = u.errText := by
  unfold request at h
  simp only at h
  generalize (if t.method.isEmpty = true then methodGet else t.method) = m at h
  by_cases h1 : (!validMethod m) = true
  · rw [if_pos h1] at h; injection h with h; exact h.symm
  · rw [if_neg h1] at h
    by_cases h2 : (!u.ok) = true
    · rw [if_pos h2] at h; injection h with h; exact h.symm
    · rw [if_neg h2] at h; cases h

theorem aux_do_err_ne_nil (u : UrlInfo) (cfg : Cfg) (ex : Exchange) (hwf : WF u ex) (text : Bytes)
    (hd : clientDo cfg.redirects 1 ex.hops ex.final = .err text) : text ≠ [] := by
  rcases (aux_clientDo cfg.redirects ex.hops 1 ex.final).2 text hd with h | ⟨p, n, h⟩
  · exact hwf.2.1 text h
  · rw [h]; exact aux_stopped_ne_nil p n

theorem aux_do_resp_obtainable (cfg : Cfg) (ex : Exchange) (r : Resp)
    (hd : clientDo cfg.redirects 1 ex.hops ex.final = .resp r) : Obtainable ex r :=
  (aux_clientDo cfg.redirects ex.hops 1 ex.final).1 r hd

/-! ### property theorems -/

/-- "an error text that is empty exactly when the exchange completed with a status in [200,400)" -/
theorem err_empty_iff_completed_2xx_3xx (t : Target) (u : UrlInfo) (cfg : Cfg) (seq : Nat) (ex : Exchange)
    (hwf : WF u ex) :
    (hit t u cfg seq ex).res.error = [] ↔
      ∃ r, Completed t u cfg ex r ∧ 200 ≤ toUint16 r.status ∧ toUint16 r.status < 400 := by
  cases pathOf t u cfg ex with
  | reqError e h =>
    rw [aux_hit_req_error t u cfg seq ex e h]
    have he := aux_request_error t u e h
    constructor
    · intro h'; exact absurd (he ▸ h') hwf.1
    · rintro ⟨r, ⟨⟨req0, hr⟩, _⟩, _⟩; rw [h] at hr; cases hr
  | doError req0 text h hd =>
    rw [aux_hit_do_error t u cfg seq ex req0 text h hd]
    constructor
    · intro h'; exact absurd h' (aux_do_err_ne_nil u cfg ex hwf text hd)
    · rintro ⟨r, ⟨_, hr, _⟩, _⟩; rw [hd] at hr; cases hr
  | response req0 r h hd =>
    rw [aux_hit_resp t u cfg seq ex req0 r h hd]
    obtain ⟨_, _, _, _, _, _, _, _, _, _, _, hfail, hok⟩ := aux_consume cfg (base t cfg seq) (inject cfg seq req0) r ex.chunks
    obtain ⟨hst, hre⟩ := hwf.2.2 r (aux_do_resp_obtainable cfg ex r hd)
    cases hfa : r.failAfter.isSome with
    | true =>
      rw [(hfail hfa).1]
      constructor
      · intro h'; exact absurd h' hre
      · rintro ⟨r', ⟨_, hr, hn⟩, _⟩
        rw [hd] at hr; injection hr with hr; subst hr; rw [hn] at hfa; cases hfa
    | false =>
      rw [(hok hfa).2.2]
      have hnone : r.failAfter = none := by cases h' : r.failAfter with
        | none => rfl
        | some k => rw [h'] at hfa; cases hfa
      constructor
      · intro h'
        refine ⟨r, ⟨⟨req0, h⟩, hd, hnone⟩, ?_⟩
        by_cases hc : toUint16 r.status < 200 ∨ toUint16 r.status ≥ 400
        · rw [if_pos hc] at h'; exact absurd h' hst
        · omega
      · rintro ⟨r', ⟨_, hr, _⟩, h1, h2⟩
        rw [hd] at hr; injection hr with hr; subst hr
        rw [if_neg (by omega)]

/-- "an exchange that failed (transport error, redirect limit, body read error) always has a
non-empty error and never a success status" -/
theorem failed_has_error_and_no_success_code (t : Target) (u : UrlInfo) (cfg : Cfg) (seq : Nat) (ex : Exchange)
    (hwf : WF u ex) (hf : Failed t u cfg ex) :
    (hit t u cfg seq ex).res.error ≠ [] ∧
    ¬ (200 ≤ (hit t u cfg seq ex).res.code ∧ (hit t u cfg seq ex).res.code < 400) := by
  cases pathOf t u cfg ex with
  | reqError e h =>
    rw [aux_hit_req_error t u cfg seq ex e h]
    have he := aux_request_error t u e h
    exact ⟨by rw [he]; exact hwf.1, by simp [base, Result.zero]⟩
  | doError req0 text h hd =>
    rw [aux_hit_do_error t u cfg seq ex req0 text h hd]
    exact ⟨aux_do_err_ne_nil u cfg ex hwf text hd, by simp [base, Result.zero]⟩
  | response req0 r h hd =>
    rw [aux_hit_resp t u cfg seq ex req0 r h hd]
    obtain ⟨_, _, _, _, _, _, _, _, _, _, _, hfail, _⟩ := aux_consume cfg (base t cfg seq) (inject cfg seq req0) r ex.chunks
    have hfa : r.failAfter.isSome = true := by
      rcases hf with ⟨e, he⟩ | ⟨text, ht⟩ | ⟨r', hr, hfa⟩
      · rw [h] at he; cases he
      · rw [hd] at ht; cases ht
      · rw [hd] at hr; injection hr with hr; subst hr; exact hfa
    obtain ⟨he, hc, _⟩ := hfail hfa
    rw [he, hc]
    exact ⟨(hwf.2.2 r (aux_do_resp_obtainable cfg ex r hd)).2, by simp [base, Result.zero]⟩

/-- "the result carries the target's method and URL" (on every path), and the attack name and
sequence number it was started with -/
theorem result_carries_method_url (t : Target) (u : UrlInfo) (cfg : Cfg) (seq : Nat) (ex : Exchange) :
    (hit t u cfg seq ex).res.method = t.method ∧ (hit t u cfg seq ex).res.url = t.url ∧
    (hit t u cfg seq ex).res.attack = cfg.name ∧ (hit t u cfg seq ex).res.seq = seq := by
  cases pathOf t u cfg ex with
  | reqError e h => rw [aux_hit_req_error t u cfg seq ex e h]; exact ⟨rfl, rfl, rfl, rfl⟩
  | doError req0 text h hd => rw [aux_hit_do_error t u cfg seq ex req0 text h hd]; exact ⟨rfl, rfl, rfl, rfl⟩
  | response req0 r h hd =>
    rw [aux_hit_resp t u cfg seq ex req0 r h hd]
    obtain ⟨_, _, _, _, _, h1, h2, h3, h4, _, _⟩ := aux_consume cfg (base t cfg seq) (inject cfg seq req0) r ex.chunks
    exact ⟨h3, h4, h1, h2⟩

/-- "the final status code, the response headers": a completed exchange carries the status
(as `uint16`) and the header map of the response `client.Do` returned. -/
theorem completed_carries_code_and_headers (t : Target) (u : UrlInfo) (cfg : Cfg) (seq : Nat) (ex : Exchange)
    (r : Resp) (hc : Completed t u cfg ex r) :
    (hit t u cfg seq ex).res.code = toUint16 r.status ∧ (hit t u cfg seq ex).res.headers = some r.header := by
  obtain ⟨⟨req0, h⟩, hd, hn⟩ := hc
  rw [aux_hit_resp t u cfg seq ex req0 r h hd]
  obtain ⟨_, _, _, _, _, _, _, _, _, _, _, _, hok⟩ := aux_consume cfg (base t cfg seq) (inject cfg seq req0) r ex.chunks
  have := hok (by rw [hn]; rfl)
  exact ⟨this.1, this.2.1⟩

/-- for statuses a server can send the conversion to `uint16` is the identity -/
theorem status_in_range_unchanged (st : Int) (h : 0 ≤ st ∧ st < 65536) : (toUint16 st : Int) = st := by
  unfold toUint16; omega

/-- "the first max-body bytes of the body (all of it when unlimited)": whenever `client.Do`
returned a response, also when reading it failed midway, the captured body is exactly the
`max-body` prefix of the bytes the body delivered. -/
theorem body_is_prefix (t : Target) (u : UrlInfo) (cfg : Cfg) (seq : Nat) (ex : Exchange) (req0 : RequestSeen) (r : Resp)
    (h : request t u = .ok req0) (hd : clientDo cfg.redirects 1 ex.hops ex.final = .resp r) :
    (hit t u cfg seq ex).res.body = capture cfg.maxBody (avail r) ∧
    (cfg.maxBody < 0 → (hit t u cfg seq ex).res.body = avail r) ∧
    (0 ≤ cfg.maxBody → (hit t u cfg seq ex).res.body = (avail r).take cfg.maxBody.toNat) ∧
    (r.failAfter = none → avail r = r.body) ∧
    (hit t u cfg seq ex).res.body <+: r.body := by
  rw [aux_hit_resp t u cfg seq ex req0 r h hd]
  obtain ⟨_, _, _, hb, _⟩ := aux_consume cfg (base t cfg seq) (inject cfg seq req0) r ex.chunks
  rw [hb]
  refine ⟨rfl, ?_, ?_, ?_, ?_⟩
  · intro hm; unfold capture; rw [if_neg (by omega)]
  · intro hm; unfold capture; rw [if_pos (by omega)]
  · intro hn; unfold avail; rw [hn]
  · have h1 : capture cfg.maxBody (avail r) <+: avail r := by
      unfold capture; split
      · exact List.take_prefix _ _
      · exact List.prefix_refl _
    have h2 : avail r <+: r.body := by
      unfold avail; split
      · exact List.take_prefix _ _
      · exact List.prefix_refl _
    exact h1.trans h2

/-! ### byte counts

"bytes-in equal to the captured length and bytes-out equal to the request body length", for
every response — at full strength since fix bc20399 (DESIGN §8 #7): `BytesOut` is assigned
before the body is read and `BytesIn` right after `io.ReadAll`, before the early returns. -/

theorem aux_content_length (t : Target) (u : UrlInfo) (req0 : RequestSeen) (cfg : Cfg) (seq : Nat)
    (h : request t u = .ok req0) : (inject cfg seq req0).contentLength = t.body.length := by
  unfold request at h
  simp only at h
  generalize (if t.method.isEmpty = true then methodGet else t.method) = m at h
  by_cases h1 : (!validMethod m) = true
  · rw [if_pos h1] at h; cases h
  · rw [if_neg h1] at h
    by_cases h2 : (!u.ok) = true
    · rw [if_pos h2] at h; cases h
    · rw [if_neg h2] at h; injection h with h; subst h; rfl

/-- bytes-in equals the captured length on EVERY path: completed exchanges, body read errors
(in `ReadAll` or in the drain, after any number of captured bytes), and the paths without a
response (both are 0). -/
theorem bytes_in_eq_len_body (t : Target) (u : UrlInfo) (cfg : Cfg) (seq : Nat) (ex : Exchange) :
    (hit t u cfg seq ex).res.bytesIn = (hit t u cfg seq ex).res.body.length := by
  cases pathOf t u cfg ex with
  | reqError e h => rw [aux_hit_req_error t u cfg seq ex e h]; rfl
  | doError req0 text h hd => rw [aux_hit_do_error t u cfg seq ex req0 text h hd]; rfl
  | response req0 r h hd =>
    rw [aux_hit_resp t u cfg seq ex req0 r h hd]
    obtain ⟨_, _, _, hb, _, _, _, _, _, hbi, _⟩ := aux_consume cfg (base t cfg seq) (inject cfg seq req0) r ex.chunks
    rw [hb, hbi]

/-- bytes-out equals the request body length on every path after a response was obtained —
completed, read error, drain error (the request body is shorter than 2^64 bytes). -/
theorem bytes_out_eq_len_request_body (t : Target) (u : UrlInfo) (cfg : Cfg) (seq : Nat) (ex : Exchange)
    (req0 : RequestSeen) (r : Resp) (h : request t u = .ok req0)
    (hd : clientDo cfg.redirects 1 ex.hops ex.final = .resp r) (hlen : t.body.length < two64) :
    (hit t u cfg seq ex).res.bytesOut = t.body.length := by
  rw [aux_hit_resp t u cfg seq ex req0 r h hd]
  obtain ⟨_, _, _, _, _, _, _, _, _, _, hbo, _⟩ := aux_consume cfg (base t cfg seq) (inject cfg seq req0) r ex.chunks
  rw [hbo, aux_content_length t u req0 cfg seq h, if_pos (by omega)]
  have : wrapU64 (t.body.length : Int) = t.body.length := wrapU64_id ⟨by omega, by unfold two64 at *; omega⟩
  rw [this]; simp

/-- a response whose 11-byte body fails after 5 bytes, for a POST with a 3-byte body: the
former defect witness, now with the right counts -/
def witnessTarget : Target := { method := [80, 79, 83, 84], url := [104, 116, 116, 112, 58, 47, 47, 97, 47], body := [1, 2, 3], header := [] }
def witnessUrl : UrlInfo := { ok := true, str := [104, 116, 116, 112, 58, 47, 47, 97, 47], host := [97], errText := [101] }
def witnessCfg : Cfg := { maxBody := -1, chunked := false, redirects := some 10, name := [] }
def witnessExchange : Exchange :=
  { hops := [], chunks := [4],
    final := .response { status := 200, statusText := [50, 48, 48, 32, 79, 75], header := [],
                         body := [104, 101, 108, 108, 111, 32, 119, 111, 114, 108, 100],
                         failAfter := some 5, readErr := [114, 101, 115, 101, 116], endWithData := false } }

example : (hit witnessTarget witnessUrl witnessCfg 0 witnessExchange).res.body.length = 5 ∧
    (hit witnessTarget witnessUrl witnessCfg 0 witnessExchange).res.bytesIn = 5 ∧
    (hit witnessTarget witnessUrl witnessCfg 0 witnessExchange).res.bytesOut = 3 := by decide

-- a read error that only shows in the drain (max-body 2 < failure point 5)
example : (hit witnessTarget witnessUrl { witnessCfg with maxBody := 2 } 0 witnessExchange).res.body.length = 2 ∧
    (hit witnessTarget witnessUrl { witnessCfg with maxBody := 2 } 0 witnessExchange).res.bytesIn = 2 ∧
    (hit witnessTarget witnessUrl { witnessCfg with maxBody := 2 } 0 witnessExchange).res.bytesOut = 3 ∧
    (hit witnessTarget witnessUrl { witnessCfg with maxBody := 2 } 0 witnessExchange).res.error = [114, 101, 115, 101, 116] := by decide

/-! ### the request that reaches the transport -/

theorem aux_lookup_set_same (h : Header) (k v : Bytes) : hLookup (hSet h k v) k = some [v] := by
  induction h with
  | nil => simp [hSet, hLookup]
  | cons e r ih =>
    obtain ⟨k', vs⟩ := e
    unfold hSet
    by_cases hk : k' = k
    · rw [if_pos hk]; simp [hLookup]
    · rw [if_neg hk]; unfold hLookup; rw [if_neg hk]; exact ih

theorem aux_lookup_set_other (h : Header) (k k2 v : Bytes) (hne : k2 ≠ k) : hLookup (hSet h k v) k2 = hLookup h k2 := by
  induction h with
  | nil => simp [hSet, hLookup, Ne.symm hne]
  | cons e r ih =>
    obtain ⟨k', vs⟩ := e
    unfold hSet
    by_cases hk : k' = k
    · rw [if_pos hk]; subst hk
      unfold hLookup; rw [if_neg (Ne.symm hne), if_neg (Ne.symm hne)]
    · rw [if_neg hk]; unfold hLookup
      by_cases hk2 : k' = k2
      · rw [if_pos hk2, if_pos hk2]
      · rw [if_neg hk2, if_neg hk2]; exact ih

theorem aux_mem_set (h : Header) (k v : Bytes) (e : Bytes × List Bytes) :
    (e ∈ h → e.1 ≠ k → e ∈ hSet h k v) ∧ (e ∈ hSet h k v → e ∈ h ∨ e = (k, [v])) := by
  induction h with
  | nil => simp [hSet]
  | cons a r ih =>
    obtain ⟨k', vs⟩ := a
    unfold hSet
    by_cases hk : k' = k
    · rw [if_pos hk]
      constructor
      · intro hm hne
        rcases List.mem_cons.mp hm with h1 | h1
        · subst h1; exact absurd hk hne
        · exact List.mem_cons_of_mem _ h1
      · intro hm
        rcases List.mem_cons.mp hm with h1 | h1
        · exact Or.inr h1
        · exact Or.inl (List.mem_cons_of_mem _ h1)
    · rw [if_neg hk]
      constructor
      · intro hm hne
        rcases List.mem_cons.mp hm with h1 | h1
        · subst h1; exact List.mem_cons_self
        · exact List.mem_cons_of_mem _ (ih.1 h1 hne)
      · intro hm
        rcases List.mem_cons.mp hm with h1 | h1
        · subst h1; exact Or.inl List.mem_cons_self
        · rcases ih.2 h1 with h2 | h2
          · exact Or.inl (List.mem_cons_of_mem _ h2)
          · exact Or.inr h2

theorem aux_request_ok (t : Target) (u : UrlInfo) (req0 : RequestSeen) (h : request t u = .ok req0) :
    req0.method = (if t.method.isEmpty then methodGet else t.method) ∧ req0.url = u.str ∧
    req0.host = (if hGet t.header keyHost ≠ [] then hGet t.header keyHost else u.host) ∧
    req0.body = (if t.body.length ≠ 0 then some t.body else none) ∧
    req0.contentLength = t.body.length ∧ req0.transferEncoding = [] ∧ req0.header = t.header := by
  unfold request at h
  simp only at h
  have hmap : List.map (fun (x : Bytes × List Bytes) => (x.fst, x.snd)) t.header = t.header := by
    induction t.header with
    | nil => rfl
    | cons a r ih => simp
  rw [hmap] at h
  by_cases h1 : (!validMethod (if t.method.isEmpty = true then methodGet else t.method)) = true
  · rw [if_pos h1] at h; cases h
  · rw [if_neg h1] at h
    by_cases h2 : (!u.ok) = true
    · rw [if_pos h2] at h; cases h
    · rw [if_neg h2] at h; injection h with h; subst h
      exact ⟨rfl, rfl, rfl, rfl, rfl, rfl, rfl⟩

theorem aux_req_seen (t : Target) (u : UrlInfo) (cfg : Cfg) (seq : Nat) (ex : Exchange) (rq : RequestSeen)
    (hrq : (hit t u cfg seq ex).req = some rq) : ∃ req0, request t u = .ok req0 ∧ rq = inject cfg seq req0 := by
  cases pathOf t u cfg ex with
  | reqError e h => rw [aux_hit_req_error t u cfg seq ex e h] at hrq; cases hrq
  | doError req0 text h hd =>
    rw [aux_hit_do_error t u cfg seq ex req0 text h hd] at hrq
    injection hrq with hrq; exact ⟨req0, h, hrq.symm⟩
  | response req0 r h hd =>
    rw [aux_hit_resp t u cfg seq ex req0 r h hd] at hrq
    obtain ⟨hq, _⟩ := aux_consume cfg (base t cfg seq) (inject cfg seq req0) r ex.chunks
    rw [hq] at hrq; injection hrq with hrq; exact ⟨req0, h, hrq.symm⟩

/-- "The request that reaches the transport has the target's method, URL, body and headers
with their original letter case (a Host header also sets the request host)":
whenever a request reaches the transport it has the target's method (GET for the empty
method), the URL as parsed, the target's body (no body at all when it is empty, and the
content length is its length), every header entry of the target byte for byte (key case and
all values, except entries under the two injected names), nothing else besides the two
injected entries, and the first value of the exact key `Host`, when non-empty, as host. -/
theorem request_preserves_target (t : Target) (u : UrlInfo) (cfg : Cfg) (seq : Nat) (ex : Exchange) (rq : RequestSeen)
    (hrq : (hit t u cfg seq ex).req = some rq) :
    rq.method = (if t.method.isEmpty then methodGet else t.method) ∧
    rq.url = u.str ∧
    rq.body = (if t.body.length ≠ 0 then some t.body else none) ∧
    rq.contentLength = t.body.length ∧
    rq.host = (if hGet t.header keyHost ≠ [] then hGet t.header keyHost else u.host) ∧
    (∀ e ∈ t.header, e.1 ≠ keySeq → (e.1 ≠ keyAttack ∨ cfg.name = []) → e ∈ rq.header) ∧
    (∀ e ∈ rq.header, e ∈ t.header ∨ e = (keySeq, [Duration.fmtNat seq]) ∨ (cfg.name ≠ [] ∧ e = (keyAttack, [cfg.name]))) ∧
    (∀ k, k ≠ keySeq → (k ≠ keyAttack ∨ cfg.name = []) → hLookup rq.header k = hLookup t.header k) ∧
    rq.transferEncoding = (if cfg.chunked then [teChunked] else []) := by
  obtain ⟨req0, h, hrq'⟩ := aux_req_seen t u cfg seq ex rq hrq
  obtain ⟨h1, h2, h3, h4, h5, h6, h7⟩ := aux_request_ok t u req0 h
  subst hrq'
  refine ⟨h1, h2, h4, h5, h3, ?_, ?_, ?_, ?_⟩
  · intro e he hs ha
    show e ∈ hSet _ keySeq _
    refine (aux_mem_set _ keySeq _ e).1 ?_ hs
    by_cases hn : cfg.name ≠ []
    · rw [if_pos hn]
      rcases ha with ha | ha
      · exact (aux_mem_set _ keyAttack _ e).1 (h7 ▸ he) ha
      · exact absurd ha hn
    · rw [if_neg hn]; exact h7 ▸ he
  · intro e he
    have he' : e ∈ hSet (if cfg.name ≠ [] then hSet req0.header keyAttack cfg.name else req0.header) keySeq (Duration.fmtNat seq) := he
    rcases (aux_mem_set _ keySeq _ e).2 he' with h' | h'
    · by_cases hn : cfg.name ≠ []
      · rw [if_pos hn] at h'
        rcases (aux_mem_set _ keyAttack _ e).2 h' with h'' | h''
        · exact Or.inl (h7 ▸ h'')
        · exact Or.inr (Or.inr ⟨hn, h''⟩)
      · rw [if_neg hn] at h'; exact Or.inl (h7 ▸ h')
    · exact Or.inr (Or.inl h')
  · intro k hs ha
    show hLookup (hSet _ keySeq _) k = _
    rw [aux_lookup_set_other _ keySeq k _ hs]
    by_cases hn : cfg.name ≠ []
    · rw [if_pos hn]
      rcases ha with ha | ha
      · rw [aux_lookup_set_other _ keyAttack k _ ha, h7]
      · exact absurd ha hn
    · rw [if_neg hn, h7]
  · show (if cfg.chunked = true then req0.transferEncoding ++ [teChunked] else req0.transferEncoding) = _
    rw [h6]; rfl

/-- "plus the attack-name and sequence-number headers that match the result": the request
carries `X-Vegeta-Seq` with exactly the decimal rendering of the result's sequence number and,
when the attack has a name, `X-Vegeta-Attack` with exactly the result's attack name. -/
theorem request_has_attack_and_seq_headers (t : Target) (u : UrlInfo) (cfg : Cfg) (seq : Nat) (ex : Exchange) (rq : RequestSeen)
    (hrq : (hit t u cfg seq ex).req = some rq) :
    hLookup rq.header keySeq = some [Duration.fmtNat (hit t u cfg seq ex).res.seq] ∧
    ((hit t u cfg seq ex).res.attack ≠ [] → hLookup rq.header keyAttack = some [(hit t u cfg seq ex).res.attack]) := by
  obtain ⟨_, _, hat, hsq⟩ := result_carries_method_url t u cfg seq ex
  rw [hat, hsq]
  obtain ⟨req0, _, hrq'⟩ := aux_req_seen t u cfg seq ex rq hrq
  subst hrq'
  refine ⟨aux_lookup_set_same _ keySeq _, ?_⟩
  intro hn
  show hLookup (hSet _ keySeq _) keyAttack = _
  rw [aux_lookup_set_other _ keySeq keyAttack _ (by decide), if_pos hn]
  exact aux_lookup_set_same _ keyAttack _

/-! ### the response body -/

/-- "The response body is always read to its end and closed, also when it is truncated by
max-body or fails midway": whenever `client.Do` returned a response — whatever the chunk
sizes, the max-body setting, and whether the stream ends with EOF or an error after k bytes —
the events on its body are: reads that deliver every byte the body has, then the terminal
event (EOF, or the error) at least once, then exactly one `Close`, nothing after it.
When no response was obtained `hit` touches no body. -/
theorem body_drained_and_closed (t : Target) (u : UrlInfo) (cfg : Cfg) (seq : Nat) (ex : Exchange) :
    (∀ req0 r, request t u = .ok req0 → clientDo cfg.redirects 1 ex.hops ex.final = .resp r →
      (hit t u cfg seq ex).obtained = true ∧
      DrainedAndClosed (avail r).length (termEv r.failAfter.isSome) (hit t u cfg seq ex).bodyLog) ∧
    ((hit t u cfg seq ex).obtained = false → (hit t u cfg seq ex).bodyLog = []) := by
  constructor
  · intro req0 r h hd
    rw [aux_hit_resp t u cfg seq ex req0 r h hd]
    obtain ⟨_, ho, _, _, hdc, _⟩ := aux_consume cfg (base t cfg seq) (inject cfg seq req0) r ex.chunks
    exact ⟨ho, hdc⟩
  · cases pathOf t u cfg ex with
    | reqError e h => rw [aux_hit_req_error t u cfg seq ex e h]; intro _; rfl
    | doError req0 text h hd => rw [aux_hit_do_error t u cfg seq ex req0 text h hd]; intro _; rfl
    | response req0 r h hd =>
      rw [aux_hit_resp t u cfg seq ex req0 r h hd]
      obtain ⟨_, ho, _⟩ := aux_consume cfg (base t cfg seq) (inject cfg seq req0) r ex.chunks
      intro h'; rw [ho] at h'; cases h'

/-! ### redirect policy -/

/-- `Redirects(NoFollow)`: the first redirect response is returned as the result of the
exchange ("no-follow marks success": with a 3xx status and a body that ends with EOF the
error text is empty, by `err_empty_iff_completed_2xx_3xx`). -/
theorem redirect_nofollow_returns_first_response (h : Hop) (hs : List Hop) (fin : Final) (via : Nat) :
    clientDo (some noFollow) via (h :: hs) fin = .resp h.resp := by
  unfold clientDo; simp [checkRedirect]

theorem aux_redirect_follow (n : Nat) : ∀ (hops : List Hop) (via : Nat) (fin : Final), 1 ≤ via → via ≤ n + 1 →
    (hops.length ≤ n + 1 - via → clientDo (some (n : Int)) via hops fin = clientDo (some (n : Int)) (via + hops.length) [] fin) ∧
    (∀ h, hops[n + 1 - via]? = some h → clientDo (some (n : Int)) via hops fin = .err (h.stopPrefix ++ stoppedText n)) := by
  intro hops
  induction hops with
  | nil => intro via fin _ _; simp
  | cons a r ih =>
    intro via fin h1 h2
    have hnf : (n : Int) ≠ noFollow := by unfold noFollow; omega
    by_cases hv : via = n + 1
    · -- the policy stops at this hop
      subst hv
      constructor
      · intro hl; simp at hl
      · intro h hh
        simp at hh; subst hh
        unfold clientDo; simp only [checkRedirect, if_neg hnf]
        rw [if_pos (by omega)]
    · have hfollow : checkRedirect (n : Int) via = .follow := by
        unfold checkRedirect; rw [if_neg hnf, if_neg (by omega)]
      obtain ⟨i1, i2⟩ := ih (via + 1) fin (by omega) (by omega)
      have hstep : clientDo (some (n : Int)) via (a :: r) fin = clientDo (some (n : Int)) (via + 1) r fin := by
        rw [clientDo]; simp only [hfollow]
      rw [hstep]
      constructor
      · intro hl
        have hl' : r.length + 1 ≤ n + 1 - via := by simpa using hl
        have hl'' : r.length ≤ n + 1 - (via + 1) := by clear hnf hfollow hl i1 i2 ih hstep; omega
        rw [i1 hl'']
        have : via + 1 + r.length = via + (a :: r).length := by simp; omega
        rw [this]
      · intro h hh
        apply i2 h
        have : n + 1 - via = (n + 1 - (via + 1)) + 1 := by omega
        rw [this] at hh; simpa using hh

/-- `Redirects(n)`, n ≥ 0: up to n redirects are followed and the final answer of the
transport is the outcome; the (n+1)-th redirect response makes `client.Do` fail with
"stopped after n redirects" (prefixed by the client's `url.Error` text). -/
theorem redirect_limit (n : Nat) (hops : List Hop) (fin : Final) :
    (hops.length ≤ n → clientDo (some (n : Int)) 1 hops fin = clientDo (some (n : Int)) 1 [] fin) ∧
    (∀ h, hops[n]? = some h → clientDo (some (n : Int)) 1 hops fin = .err (h.stopPrefix ++ stoppedText n)) := by
  obtain ⟨h1, h2⟩ := aux_redirect_follow n hops 1 fin (by omega) (by omega)
  constructor
  · intro hl
    rw [h1 (by omega)]
    cases fin <;> rfl
  · intro h hh; exact h2 h (by simpa using hh)

/-- a failing targeter: the attack is stopped, the result carries the error, no request is made -/
theorem targeter_error_stops_attack (cfg : Cfg) (seq : Nat) (e : Bytes) :
    (hitNoTarget cfg seq e).stopped = true ∧ (hitNoTarget cfg seq e).res.error = e ∧
    (hitNoTarget cfg seq e).req = none ∧ (hitNoTarget cfg seq e).res.code = 0 := ⟨rfl, rfl, rfl, rfl⟩

/-! ### non-vacuity -/

/-- a well-formed exchange: one redirect hop, then a 404 with a body -/
def sampleExchange : Exchange :=
  { hops := [{ resp := { status := 302, statusText := [51, 48, 50], header := [([76], [[47]])], body := [1, 2],
                         failAfter := none, readErr := [101], endWithData := true },
               stopPrefix := [71, 101, 116, 32] }],
    final := .response { status := 404, statusText := [52, 48, 52], header := [], body := [1, 2, 3, 4, 5],
                         failAfter := none, readErr := [101], endWithData := false },
    chunks := [2, 0, 7] }

example : WF witnessUrl sampleExchange := by
  refine ⟨by decide, ?_, ?_⟩
  · intro t h; cases h
  · intro r h
    rcases h with h | ⟨hp, hm, he⟩
    · injection h with h; subst h; exact ⟨by decide, by decide⟩
    · simp [sampleExchange] at hm; subst hm; subst he; exact ⟨by decide, by decide⟩

example : ∃ r, Completed witnessTarget witnessUrl witnessCfg sampleExchange r ∧ toUint16 r.status = 404 :=
  ⟨_, ⟨⟨_, rfl⟩, rfl, rfl⟩, rfl⟩

example : Failed witnessTarget witnessUrl witnessCfg witnessExchange := Or.inr (Or.inr ⟨_, rfl, rfl⟩)

example : Failed witnessTarget witnessUrl { witnessCfg with redirects := some 0 } sampleExchange :=
  Or.inr (Or.inl ⟨_, rfl⟩)

-- the witness really is a body read error after 5 captured bytes of 11, with max-body unlimited
example : (hit witnessTarget witnessUrl witnessCfg 0 witnessExchange).res.error = [114, 101, 115, 101, 116] ∧
    (hit witnessTarget witnessUrl witnessCfg 0 witnessExchange).res.code = 0 ∧
    (hit witnessTarget witnessUrl witnessCfg 0 witnessExchange).bodyLog = [.read 4, .read 1, .err, .close] := by decide

-- truncation by max-body with an error status: body captured up to the limit, rest drained, closed
example : (hit witnessTarget witnessUrl { witnessCfg with maxBody := 2 } 7 sampleExchange).res.body = [1, 2] ∧
    (hit witnessTarget witnessUrl { witnessCfg with maxBody := 2 } 7 sampleExchange).res.bytesIn = 2 ∧
    (hit witnessTarget witnessUrl { witnessCfg with maxBody := 2 } 7 sampleExchange).res.error = [52, 48, 52] ∧
    (hit witnessTarget witnessUrl { witnessCfg with maxBody := 2 } 7 sampleExchange).bodyLog =
      [.read 2, .read 1, .read 2, .eof, .close] := by decide

/-! ### the redirect policy, for every limit and every chain length -/

/-- what `client.Do` returns when no (further) redirect is in the way -/
def finalResult : Final → DoResult
  | .transportErr t => .err t
  | .response r => .resp r

theorem aux_clientDo_nil (policy : Option Int) (via : Nat) (fin : Final) :
    clientDo policy via [] fin = finalResult fin := by
  cases fin <;> rfl

/-- `Redirects(n)`, for EVERY integer `n` and every chain of redirect responses (net/http calls
`CheckRedirect` with `len(via)` = number of requests made so far, 1 at the first redirect):
* no redirect: the transport's final answer;
* `n = NoFollow` (-1): the first redirect response is the result;
* `n ≥ 0`: a chain of at most `n` redirects is followed to the final answer, a longer one fails at
  its `(n+1)`-th response with "stopped after n redirects";
* `n < -1`: the first redirect already fails (with "stopped after n redirects", n negative). -/
theorem redirect_outcome (n : Int) (hops : List Hop) (fin : Final) :
    (hops = [] → clientDo (some n) 1 hops fin = finalResult fin) ∧
    (n = noFollow → ∀ h hs, hops = h :: hs → clientDo (some n) 1 hops fin = .resp h.resp) ∧
    (0 ≤ n → (hops.length : Int) ≤ n → clientDo (some n) 1 hops fin = finalResult fin) ∧
    (0 ≤ n → ∀ h, hops[n.toNat]? = some h → clientDo (some n) 1 hops fin = .err (h.stopPrefix ++ stoppedText n)) ∧
    (n < noFollow → ∀ h hs, hops = h :: hs → clientDo (some n) 1 hops fin = .err (h.stopPrefix ++ stoppedText n)) := by
  refine ⟨?_, ?_, ?_, ?_, ?_⟩
  · intro h; subst h; exact aux_clientDo_nil _ _ _
  · intro hn h hs hh; subst hn; subst hh; exact redirect_nofollow_returns_first_response h hs fin 1
  · intro h0 hl
    obtain ⟨m, hm⟩ := Int.eq_ofNat_of_zero_le h0
    subst hm
    rw [(redirect_limit m hops fin).1 (by omega)]
    exact aux_clientDo_nil _ _ _
  · intro h0 h hh
    obtain ⟨m, hm⟩ := Int.eq_ofNat_of_zero_le h0
    subst hm
    exact (redirect_limit m hops fin).2 h (by simpa using hh)
  · intro hn h hs hh; subst hh
    unfold clientDo
    have h1 : n ≠ noFollow := by unfold noFollow at *; omega
    have h2 : n < ((1 : Nat) : Int) := by unfold noFollow at hn; omega
    simp only [checkRedirect, if_neg h1, if_pos h2]

theorem aux_default_follow : ∀ (hops : List Hop) (via : Nat) (fin : Final), 1 ≤ via → via ≤ 10 →
    (hops.length ≤ 10 - via → clientDo none via hops fin = finalResult fin) ∧
    (∀ h, hops[10 - via]? = some h → clientDo none via hops fin = .err (h.stopPrefix ++ stoppedText 10)) := by
  intro hops
  induction hops with
  | nil => intro via fin _ _; exact ⟨fun _ => aux_clientDo_nil _ _ _, by simp⟩
  | cons a r ih =>
    intro via fin h1 h2
    by_cases hv : via = 10
    · subst hv
      constructor
      · intro hl; simp at hl
      · intro h hh
        simp at hh; subst hh
        unfold clientDo; simp [defaultCheckRedirect]
    · have hstep : clientDo none via (a :: r) fin = clientDo none (via + 1) r fin := by
        rw [clientDo]
        have : defaultCheckRedirect via = .follow := by unfold defaultCheckRedirect; rw [if_neg (by omega)]
        simp only [this]
      obtain ⟨i1, i2⟩ := ih (via + 1) fin (by omega) (by omega)
      rw [hstep]
      constructor
      · intro hl; exact i1 (by simp at hl; omega)
      · intro h hh
        apply i2 h
        have : 10 - via = (10 - (via + 1)) + 1 := by omega
        rw [this] at hh; simpa using hh

/-- Without the `Redirects` option net/http's own policy applies, which stops when
`len(via) >= 10`: it follows only NINE redirects — one fewer than `Redirects(10)`, although both
fail with the text "stopped after 10 redirects". (The command always applies `Redirects`.) -/
theorem redirect_default_policy (hops : List Hop) (fin : Final) :
    (hops.length ≤ 9 → clientDo none 1 hops fin = finalResult fin) ∧
    (∀ h, hops[9]? = some h → clientDo none 1 hops fin = .err (h.stopPrefix ++ stoppedText 10)) := by
  obtain ⟨h1, h2⟩ := aux_default_follow hops 1 fin (by omega) (by omega)
  exact ⟨fun hl => h1 (by omega), fun h hh => h2 h (by simpa using hh)⟩

/-- the difference in one line: a chain of exactly ten redirects -/
example (hops : List Hop) (fin : Final) (h : hops.length = 10) :
    clientDo (some 10) 1 hops fin = finalResult fin ∧ ∃ t, clientDo none 1 hops fin = .err t := by
  refine ⟨(redirect_outcome 10 hops fin).2.2.1 (by omega) (by omega), ?_⟩
  have hl : 9 < hops.length := by omega
  exact ⟨_, (redirect_default_policy hops fin).2 hops[9] (List.getElem?_eq_getElem hl)⟩

/-- "a chain of at most n redirects ends in the final response": with `Redirects(n)`, `n ≥ 0`, at
most `n` redirect hops, and a final response whose body ends with EOF, the exchange is
`Completed` with that final response — so the result carries its code, headers, max-body prefix
and byte counts, and an empty error iff the code is 2xx/3xx (the theorems above). -/
theorem redirect_chain_within_limit_completes (t : Target) (u : UrlInfo) (cfg : Cfg) (ex : Exchange) (n : Int) (r : Resp)
    (req0 : RequestSeen) (hreq : request t u = .ok req0) (hcfg : cfg.redirects = some n) (h0 : 0 ≤ n)
    (hl : (ex.hops.length : Int) ≤ n) (hfin : ex.final = .response r) (hbody : r.failAfter = none) :
    Completed t u cfg ex r := by
  refine ⟨⟨req0, hreq⟩, ?_, hbody⟩
  rw [hcfg, (redirect_outcome n ex.hops ex.final).2.2.1 h0 hl, hfin]; rfl

/-- "n+1 hops fails": a chain longer than the limit makes the exchange `Failed` (non-empty
error, never a success code, by `failed_has_error_and_no_success_code`), and `hit` never sees
a response body. -/
theorem redirect_chain_beyond_limit_fails (t : Target) (u : UrlInfo) (cfg : Cfg) (seq : Nat) (ex : Exchange) (n : Int)
    (hcfg : cfg.redirects = some n) (h0 : 0 ≤ n) (hl : n < (ex.hops.length : Int)) :
    Failed t u cfg ex ∧ ((hit t u cfg seq ex).obtained = false) := by
  have hlt : n.toNat < ex.hops.length := by omega
  have hdo := (redirect_outcome n ex.hops ex.final).2.2.2.1 h0 ex.hops[n.toNat] (List.getElem?_eq_getElem hlt)
  rw [← hcfg] at hdo
  refine ⟨Or.inr (Or.inl ⟨_, hdo⟩), ?_⟩
  cases pathOf t u cfg ex with
  | reqError e h => rw [aux_hit_req_error t u cfg seq ex e h]
  | doError req0 text h hd => rw [aux_hit_do_error t u cfg seq ex req0 text h hd]
  | response req0 r h hd => rw [hdo] at hd; cases hd

/-- the command's default (`-redirects` not given: `Redirects(10)` IS applied): ten redirects are
followed, the eleventh fails -/
theorem cli_default_follows_ten (f : AttackFlags) (hf : f.redirects = 10) (hops : List Hop) (fin : Final) :
    (hops.length ≤ 10 → clientDo (cmdCfg f).redirects 1 hops fin = finalResult fin) ∧
    (∀ h, hops[10]? = some h → clientDo (cmdCfg f).redirects 1 hops fin = .err (h.stopPrefix ++ stoppedText 10)) := by
  have : (cmdCfg f).redirects = some 10 := by unfold cmdCfg; rw [hf]
  rw [this]
  exact ⟨fun hl => (redirect_outcome 10 hops fin).2.2.1 (by omega) (by omega),
         fun h hh => (redirect_outcome 10 hops fin).2.2.2.1 (by omega) h (by simpa using hh)⟩

example : (cmdCfg {}).redirects = some 10 ∧ (cmdCfg {}).maxBody = -1 ∧ (cmdCfg {}).name = [] := by decide

/-- bytes-out does not depend on how many redirects were followed (or on anything else the
exchange does once a response is obtained): it is the length of the target's body. -/
theorem bytes_out_independent_of_redirects (t : Target) (u : UrlInfo) (cfg : Cfg) (seq seq' : Nat) (ex ex' : Exchange)
    (req0 : RequestSeen) (r r' : Resp) (h : request t u = .ok req0)
    (hd : clientDo cfg.redirects 1 ex.hops ex.final = .resp r)
    (hd' : clientDo cfg.redirects 1 ex'.hops ex'.final = .resp r') (hlen : t.body.length < two64) :
    (hit t u cfg seq ex).res.bytesOut = (hit t u cfg seq' ex').res.bytesOut := by
  rw [bytes_out_eq_len_request_body t u cfg seq ex req0 r h hd hlen,
      bytes_out_eq_len_request_body t u cfg seq' ex' req0 r' h hd' hlen]

/-! ### declared length, HEAD -/

/-- `hit` never looks at `Response.ContentLength`: whatever length the transport declares
(unknown, exact, or — for HEAD — the length of an entity that is not sent), the outcome is the same. -/
theorem result_independent_of_declared_length (cfg : Cfg) (res0 : Result) (req : RequestSeen) (r : Resp) (chunks : List Nat) (d : Int) :
    consume cfg res0 req { r with declared := d } chunks = consume cfg res0 req r chunks := rfl

/-- The answer to a HEAD request (also 204/304): no body is delivered although a length may be
declared. The exchange completes: empty captured body, bytes-in 0, the response's code and
headers, error by the status alone; the body is still read to EOF and closed. -/
theorem bodyless_response_completes (cfg : Cfg) (res0 : Result) (req : RequestSeen) (r : Resp) (chunks : List Nat)
    (hb : r.body = []) (hf : r.failAfter = none) :
    let o := consume cfg res0 req r chunks
    o.res.body = [] ∧ o.res.bytesIn = 0 ∧ o.res.code = toUint16 r.status ∧ o.res.headers = some r.header ∧
    o.res.error = (if toUint16 r.status < 200 ∨ toUint16 r.status ≥ 400 then r.statusText else []) ∧
    DrainedAndClosed 0 Ev.eof o.bodyLog := by
  intro o
  obtain ⟨_, _, _, hbody, hlog, _, _, _, _, hbi, _, _, hok⟩ := aux_consume cfg res0 req r chunks
  have hav : avail r = [] := by unfold avail; rw [hf, hb]
  have hcap : capture cfg.maxBody (avail r) = [] := by rw [hav]; unfold capture; split <;> simp
  have hfa : r.failAfter.isSome = false := by rw [hf]; rfl
  obtain ⟨h1, h2, h3⟩ := hok hfa
  rw [hav, hfa] at hlog
  exact ⟨by rw [hbody, hcap], by rw [hbi, hcap]; rfl, h1, h2, h3, hlog⟩

example : (consume witnessCfg (base witnessTarget witnessCfg 0) (inject witnessCfg 0
      { method := [72, 69, 65, 68], url := [], host := [], body := none, contentLength := 0, transferEncoding := [], header := [] })
    { status := 200, statusText := [50, 48, 48], header := [], body := [], failAfter := none, readErr := [101],
      endWithData := false, declared := 1000 } []).bodyLog = [.eof, .eof, .close] := by decide

/-! ### headers through `Target.Request` -/

/-- "headers with their original letter case": `Target.Request` copies the header map entry by
entry by plain map assignment — same keys byte for byte (no canonicalisation), same values in
the same order; the request's URL, body and length come from the target alone. -/
theorem target_request_copies_headers_verbatim (t : Target) (u : UrlInfo) (req0 : RequestSeen) (h : request t u = .ok req0) :
    req0.header = t.header ∧ req0.transferEncoding = [] ∧ req0.contentLength = t.body.length :=
  let ⟨_, _, _, _, h5, h6, h7⟩ := aux_request_ok t u req0 h
  ⟨h7, h6, h5⟩

/-- only the exact key `Host` sets the request host: a target without that key (it may well have
`host` or `HOST`) keeps the URL's host -/
theorem host_only_from_exact_key (t : Target) (u : UrlInfo) (req0 : RequestSeen) (h : request t u = .ok req0)
    (hk : hLookup t.header keyHost = none) : req0.host = u.host := by
  rw [(aux_request_ok t u req0 h).2.2.1]
  have : hGet t.header keyHost = [] := by unfold hGet; rw [hk]
  rw [this]; simp

example : hLookup [(([104, 111, 115, 116] : Bytes), [[120]])] keyHost = none := by decide   -- "host" is not "Host"

theorem aux_hSet_absent (h : Header) (k v : Bytes) (hk : hLookup h k = none) : hSet h k v = h ++ [(k, [v])] := by
  induction h with
  | nil => rfl
  | cons e r ih =>
    obtain ⟨k', vs⟩ := e
    unfold hLookup at hk
    by_cases hkk : k' = k
    · rw [if_pos hkk] at hk; cases hk
    · rw [if_neg hkk] at hk
      unfold hSet
      rw [if_neg hkk, ih hk]; rfl

/-- the header map handed to the transport, exactly: for an unnamed attack and a target that
does not itself use the sequence header's name, the target's entries untouched, then the one
injected entry -/
theorem request_header_exact (t : Target) (u : UrlInfo) (cfg : Cfg) (seq : Nat) (ex : Exchange) (rq : RequestSeen)
    (hrq : (hit t u cfg seq ex).req = some rq) (hname : cfg.name = []) (hk : hLookup t.header keySeq = none) :
    rq.header = t.header ++ [(keySeq, [Duration.fmtNat seq])] := by
  obtain ⟨req0, h, hrq'⟩ := aux_req_seen t u cfg seq ex rq hrq
  subst hrq'
  have h7 := (aux_request_ok t u req0 h).2.2.2.2.2.2
  show hSet (if cfg.name ≠ [] then hSet req0.header keyAttack cfg.name else req0.header) keySeq (Duration.fmtNat seq) = _
  rw [if_neg (by simp [hname]), h7]
  exact aux_hSet_absent t.header keySeq _ hk

/-! ### successive hits of one attack -/

/-- Calls of `hit` on one attack are independent of each other except for the sequence counter:
the i-th call (from 0) behaves exactly like a single hit with sequence number
`(start + i) mod 2^64` — result, request (incl. its `X-Vegeta-Seq`), body handling. -/
theorem hit_sequence (cfg : Cfg) : ∀ (calls : List Call) (start i : Nat) (c : Call), start < two64 → calls[i]? = some c →
    (hitMany cfg start calls)[i]? = some (callOut cfg ((start + i) % two64) c) ∧
    (hitMany cfg start calls).length = calls.length := by
  intro calls
  induction calls with
  | nil => intro start i c _ h; simp at h
  | cons a r ih =>
    intro start i c hs h
    have hlen : (hitMany cfg start (a :: r)).length = (a :: r).length := by
      simp only [hitMany, List.length_cons]
      cases r with
      | nil => simp [hitMany]
      | cons b r' => exact congrArg (· + 1) (ih ((start + 1) % two64) 0 b (Nat.mod_lt _ (by unfold two64; omega)) (by simp)).2
    refine ⟨?_, hlen⟩
    cases i with
    | zero =>
      simp at h; subst h
      simp [hitMany, Nat.mod_eq_of_lt hs]
    | succ i =>
      have := (ih ((start + 1) % two64) i c (Nat.mod_lt _ (by unfold two64; omega)) (by simpa using h)).1
      simp only [hitMany, List.getElem?_cons_succ, this]
      congr 2
      rw [Nat.mod_add_mod]; congr 1; omega

/-- the sequence number wraps like the `uint64` it is -/
example : ((hitMany witnessCfg (two64 - 1) [.noTarget [101], .noTarget [101]]).map (·.res.seq)) = [two64 - 1, 0] := by decide


/-! ### facts regenerated from the source (go/ast)

The statements the model of `hit`, `Redirects`, `Target.Request` and of the command's wiring was
written from; they break (and force the model to be revisited) when that code changes shape —
e.g. when the read path starts consulting `Response.ContentLength`, or `Redirects` special-cases
a value. -/

/-- the constants and the three cases of the `CheckRedirect` closure; the option does nothing
else than remember `n` and install that closure -/
theorem facts_redirect_policy :
    Vegeta.Extracted.c06DefaultRedirects = [49, 48] ∧ Vegeta.Extracted.c06NoFollow = [45, 49] ∧
    Vegeta.Extracted.c06RedirectsOptionStmts = [ [97, 46, 114, 101, 100, 105, 114, 101, 99, 116, 115, 32, 61, 32, 110], [97, 46, 99, 108, 105, 101, 110, 116, 46, 67, 104, 101, 99, 107, 82, 101, 100, 105, 114, 101, 99, 116, 32, 61, 32, 102, 117, 110, 99] ] ∧
    Vegeta.Extracted.c06RedirectCases =
      [ [110, 32, 61, 61, 32, 78, 111, 70, 111, 108, 108, 111, 119, 32, 61, 62, 32, 114, 101, 116, 117, 114, 110, 32, 104, 116, 116, 112, 46, 69, 114, 114, 85, 115, 101, 76, 97, 115, 116, 82, 101, 115, 112, 111, 110, 115, 101],   -- n == NoFollow => return http.ErrUseLastResponse
        [110, 32, 60, 32, 108, 101, 110, 40, 118, 105, 97, 41, 32, 61, 62, 32, 114, 101, 116, 117, 114, 110, 32, 102, 109, 116, 46, 69, 114, 114, 111, 114, 102, 40, 34, 115, 116, 111, 112, 112, 101, 100, 32, 97, 102, 116, 101, 114, 32, 37, 100, 32, 114, 101, 100, 105, 114, 101, 99, 116, 115, 34, 44, 32, 110, 41],   -- n < len(via) => return fmt.Errorf("stopped after %d redirects", n)
        [100, 101, 102, 97, 117, 108, 116, 32, 61, 62, 32, 114, 101, 116, 117, 114, 110, 32, 110, 105, 108] ]   -- default => return nil
    := by decide

/-- `hit` after `client.Do`: statement by statement what `consume` models, and no mention of the
response's `ContentLength` -/
theorem facts_hit_read_path :
    Vegeta.Extracted.c06HitResponseContentLengthMentions = 0 ∧
    Vegeta.Extracted.c06HitReadPath =
      [ [105, 102, 32, 101, 114, 114, 32, 33, 61, 32, 110, 105, 108, 32, 123, 32, 114, 101, 116, 117, 114, 110, 32, 38, 114, 101, 115, 32, 125],   -- if err != nil { return &res }
        [100, 101, 102, 101, 114, 32, 114, 46, 66, 111, 100, 121, 46, 67, 108, 111, 115, 101, 40, 41],   -- defer r.Body.Close()
        [98, 111, 100, 121, 32, 58, 61, 32, 105, 111, 46, 82, 101, 97, 100, 101, 114, 40, 114, 46, 66, 111, 100, 121, 41],   -- body := io.Reader(r.Body)
        [105, 102, 32, 97, 46, 109, 97, 120, 66, 111, 100, 121, 32, 62, 61, 32, 48, 32, 123, 32, 98, 111, 100, 121, 32, 61, 32, 105, 111, 46, 76, 105, 109, 105, 116, 82, 101, 97, 100, 101, 114, 40, 114, 46, 66, 111, 100, 121, 44, 32, 97, 46, 109, 97, 120, 66, 111, 100, 121, 41, 32, 125],   -- if a.maxBody >= 0 { body = io.LimitReader(r.Body, a.maxBody) }
        [105, 102, 32, 114, 101, 113, 46, 67, 111, 110, 116, 101, 110, 116, 76, 101, 110, 103, 116, 104, 32, 33, 61, 32, 45, 49, 32, 123, 32, 114, 101, 115, 46, 66, 121, 116, 101, 115, 79, 117, 116, 32, 61, 32, 117, 105, 110, 116, 54, 52, 40, 114, 101, 113, 46, 67, 111, 110, 116, 101, 110, 116, 76, 101, 110, 103, 116, 104, 41, 32, 125],   -- if req.ContentLength != -1 { res.BytesOut = uint64(req.ContentLength) }
        [114, 101, 115, 46, 66, 111, 100, 121, 44, 32, 101, 114, 114, 32, 61, 32, 105, 111, 46, 82, 101, 97, 100, 65, 108, 108, 40, 98, 111, 100, 121, 41],   -- res.Body, err = io.ReadAll(body)
        [114, 101, 115, 46, 66, 121, 116, 101, 115, 73, 110, 32, 61, 32, 117, 105, 110, 116, 54, 52, 40, 108, 101, 110, 40, 114, 101, 115, 46, 66, 111, 100, 121, 41, 41],   -- res.BytesIn = uint64(len(res.Body))
        [105, 102, 32, 101, 114, 114, 32, 33, 61, 32, 110, 105, 108, 32, 123, 32, 114, 101, 116, 117, 114, 110, 32, 38, 114, 101, 115, 32, 125, 32, 101, 108, 115, 101, 32, 105, 102, 32, 95, 44, 32, 101, 114, 114, 32, 61, 32, 105, 111, 46, 67, 111, 112, 121, 40, 105, 111, 46, 68, 105, 115, 99, 97, 114, 100, 44, 32, 114, 46, 66, 111, 100, 121, 41, 59, 32, 101, 114, 114, 32, 33, 61, 32, 110, 105, 108, 32, 123, 32, 114, 101, 116, 117, 114, 110, 32, 38, 114, 101, 115, 32, 125],   -- if err != nil { return &res } else if _, err = io.Copy(io.Discard, r.Body); err != nil { return &res }
        [105, 102, 32, 114, 101, 115, 46, 67, 111, 100, 101, 32, 61, 32, 117, 105, 110, 116, 49, 54, 40, 114, 46, 83, 116, 97, 116, 117, 115, 67, 111, 100, 101, 41, 59, 32, 114, 101, 115, 46, 67, 111, 100, 101, 32, 60, 32, 50, 48, 48, 32, 124, 124, 32, 114, 101, 115, 46, 67, 111, 100, 101, 32, 62, 61, 32, 52, 48, 48, 32, 123, 32, 114, 101, 115, 46, 69, 114, 114, 111, 114, 32, 61, 32, 114, 46, 83, 116, 97, 116, 117, 115, 32, 125],   -- if res.Code = uint16(r.StatusCode); res.Code < 200 || res.Code >= 400 { res.Error = r.Status }
        [114, 101, 115, 46, 72, 101, 97, 100, 101, 114, 115, 32, 61, 32, 114, 46, 72, 101, 97, 100, 101, 114],   -- res.Headers = r.Header
        [114, 101, 116, 117, 114, 110, 32, 38, 114, 101, 115] ]   -- return &res
    := by decide

/-- `Target.Request`: nil body for an empty one, header entries copied under their own keys, the
exact key `Host` overriding the host -/
theorem facts_target_request :
    Vegeta.Extracted.c06TargetRequestStmts =
      [ [105, 102, 32, 108, 101, 110, 40, 116, 46, 66, 111, 100, 121, 41, 32, 33, 61, 32, 48, 32, 123, 32, 98, 111, 100, 121, 32, 61, 32, 98, 121, 116, 101, 115, 46, 78, 101, 119, 82, 101, 97, 100, 101, 114, 40, 116, 46, 66, 111, 100, 121, 41, 32, 125],   -- if len(t.Body) != 0 { body = bytes.NewReader(t.Body) }
        [105, 102, 32, 101, 114, 114, 32, 33, 61, 32, 110, 105, 108, 32, 123, 32, 114, 101, 116, 117, 114, 110, 32, 110, 105, 108, 44, 32, 101, 114, 114, 32, 125],   -- if err != nil { return nil, err }
        [114, 97, 110, 103, 101, 32, 116, 46, 72, 101, 97, 100, 101, 114],   -- range t.Header
        [114, 101, 113, 46, 72, 101, 97, 100, 101, 114, 91, 107, 93, 32, 61, 32, 109, 97, 107, 101, 40, 91, 93, 115, 116, 114, 105, 110, 103, 44, 32, 108, 101, 110, 40, 118, 115, 41, 41],   -- req.Header[k] = make([]string, len(vs))
        [99, 111, 112, 121, 40, 114, 101, 113, 46, 72, 101, 97, 100, 101, 114, 91, 107, 93, 44, 32, 118, 115, 41],   -- copy(req.Header[k], vs)
        [105, 102, 32, 104, 111, 115, 116, 32, 58, 61, 32, 114, 101, 113, 46, 72, 101, 97, 100, 101, 114, 46, 71, 101, 116, 40, 34, 72, 111, 115, 116, 34, 41, 59, 32, 104, 111, 115, 116, 32, 33, 61, 32, 34, 34, 32, 123, 32, 114, 101, 113, 46, 72, 111, 115, 116, 32, 61, 32, 104, 111, 115, 116, 32, 125] ]   -- if host := req.Header.Get("Host"); host != "" { req.Host = host }
    := by decide

/-- the command: `Redirects`, `MaxBody`, `ChunkedBody` are always applied with the flag values, the
attack is named by `-name`, and the flags default to 10 redirects, unlimited body, not chunked,
no name (`cmdCfg`, `AttackFlags`) -/
theorem facts_command_wiring :
    Vegeta.Extracted.c06CommandWiring =
      [ [82, 101, 100, 105, 114, 101, 99, 116, 115, 40, 111, 112, 116, 115, 46, 114, 101, 100, 105, 114, 101, 99, 116, 115, 41],   -- Redirects(opts.redirects)
        [77, 97, 120, 66, 111, 100, 121, 40, 111, 112, 116, 115, 46, 109, 97, 120, 66, 111, 100, 121, 41],   -- MaxBody(opts.maxBody)
        [67, 104, 117, 110, 107, 101, 100, 66, 111, 100, 121, 40, 111, 112, 116, 115, 46, 99, 104, 117, 110, 107, 101, 100, 41] ]   -- ChunkedBody(opts.chunked)
    ∧ Vegeta.Extracted.c06CommandAttackName = [111, 112, 116, 115, 46, 110, 97, 109, 101] ∧
    Vegeta.Extracted.c06DefaultMaxBody = [105, 110, 116, 54, 52, 40, 45, 49, 41] ∧
    Vegeta.Extracted.c06CommandFlagDefaults =
      [ [110, 97, 109, 101, 32, 38, 111, 112, 116, 115, 46, 110, 97, 109, 101, 32, 34, 34],   -- name &opts.name ""
        [99, 104, 117, 110, 107, 101, 100, 32, 38, 111, 112, 116, 115, 46, 99, 104, 117, 110, 107, 101, 100, 32, 102, 97, 108, 115, 101],   -- chunked &opts.chunked false
        [114, 101, 100, 105, 114, 101, 99, 116, 115, 32, 38, 111, 112, 116, 115, 46, 114, 101, 100, 105, 114, 101, 99, 116, 115, 32, 118, 101, 103, 101, 116, 97, 46, 68, 101, 102, 97, 117, 108, 116, 82, 101, 100, 105, 114, 101, 99, 116, 115],   -- redirects &opts.redirects vegeta.DefaultRedirects
        [109, 97, 120, 45, 98, 111, 100, 121, 32, 118, 101, 103, 101, 116, 97, 46, 68, 101, 102, 97, 117, 108, 116, 77, 97, 120, 66, 111, 100, 121] ]   -- max-body vegeta.DefaultMaxBody
    := by decide


end Vegeta.Props.C06
