/-
C19 — Command-line values mean what the manual says.
Property theorems over the model `Vegeta.Model.Flags` (flags.go, the guard of `attack`,
`normalizeAddrs`); helper lemmas are named `aux_*`.
-/
import Vegeta.Model.Flags
import Vegeta.Proofs.DurationRoundTrip
import Vegeta.Extracted.Facts
namespace Vegeta.Props.C19
open Vegeta.Go Vegeta.Model.Flags
open Vegeta.Model.Histogram (trimSpace splitOn)

/-! ### decimal integer literals (`strconv.Atoi`) -/

def decFrom (acc : Nat) (ds : Bytes) : Nat := ds.foldl (fun n c => n * 10 + (c - 48)) acc
def decVal (ds : Bytes) : Nat := decFrom 0 ds
def AllDigits (ds : Bytes) : Prop := ∀ c ∈ ds, isDigit c = true
instance (ds : Bytes) : Decidable (AllDigits ds) := by unfold AllDigits; infer_instance

theorem aux_decFrom_ge (ds : Bytes) : ∀ acc, acc ≤ decFrom acc ds := by
  induction ds with
  | nil => intro acc; simp [decFrom]
  | cons c rest ih =>
    intro acc
    have := ih (acc * 10 + (c - 48))
    simp only [decFrom, List.foldl_cons] at this ⊢
    omega

theorem aux_parseUintLoop_ok (maxVal : Nat) (ds : Bytes) : ∀ (acc v : Nat),
    parseUintLoop maxVal ds acc = (v, none) ↔ (AllDigits ds ∧ v = decFrom acc ds ∧ (ds ≠ [] → v ≤ maxVal)) := by
  induction ds with
  | nil => intro acc v; simp [parseUintLoop, AllDigits, decFrom]; exact eq_comm
  | cons c rest ih =>
    intro acc v
    unfold parseUintLoop
    by_cases hc : isDigit c = true
    · simp only [hc, Bool.not_true, Bool.false_eq_true, ↓reduceIte]
      by_cases hov : acc * 10 + (c - 48) > maxVal
      · simp only [hov, ↓reduceIte]
        constructor
        · intro h; simp [eRange] at h
        · intro ⟨_, hv, hle⟩
          have := aux_decFrom_ge rest (acc * 10 + (c - 48))
          have h2 := hle (by simp)
          simp only [decFrom, List.foldl_cons] at hv this
          omega
      · simp only [hov, ↓reduceIte]
        rw [ih]
        constructor
        · intro ⟨h1, h2, h3⟩
          refine ⟨?_, by simpa [decFrom] using h2, ?_⟩
          · intro x hx; simp at hx; rcases hx with rfl | hx; exact hc; exact h1 x hx
          · intro _
            by_cases hr : rest = []
            · subst hr; simp [decFrom] at h2; omega
            · exact h3 hr
        · intro ⟨h1, h2, h3⟩
          refine ⟨fun x hx => h1 x (by simp [hx]), by simpa [decFrom] using h2, fun _ => h3 (by simp)⟩
    · simp only [hc, Bool.not_false, ↓reduceIte]
      constructor
      · intro h; simp [eSyntax] at h
      · intro ⟨h1, _, _⟩; exact absurd (h1 c (by simp)) hc

theorem aux_parseUintLoop_err (maxVal : Nat) (ds : Bytes) : ∀ (acc v e : Nat),
    parseUintLoop maxVal ds acc = (v, some e) → (e = eSyntax ∧ v = 0) ∨ (e = eRange ∧ v = maxVal) := by
  induction ds with
  | nil => intro acc v e h; simp [parseUintLoop] at h
  | cons c rest ih =>
    intro acc v e h
    unfold parseUintLoop at h
    split at h
    · simp at h; exact Or.inl ⟨h.2.symm, h.1.symm⟩
    · split at h
      · simp at h; exact Or.inr ⟨h.2.symm, h.1.symm⟩
      · exact ih _ _ _ h

/-- `s` is a decimal literal of the 64-bit integer `n`: an optional sign and one or more digits. -/
def IntLit (s : Bytes) (n : Int) : Prop :=
  ∃ ds : Bytes, ds ≠ [] ∧ AllDigits ds ∧
    ((s = ds ∧ n = decVal ds ∧ n ≤ maxInt64) ∨ (s = 43 :: ds ∧ n = decVal ds ∧ n ≤ maxInt64) ∨
     (s = 45 :: ds ∧ n = -(decVal ds : Int) ∧ minInt64 ≤ n))

theorem aux_parseUint_ok (s : Bytes) (v : Nat) :
    parseUint maxU64 s = (v, none) ↔ (s ≠ [] ∧ AllDigits s ∧ v = decVal s ∧ v ≤ maxU64) := by
  unfold parseUint
  by_cases hs : s = []
  · simp [hs, eSyntax]
  · simp only [hs, ↓reduceIte, ne_eq, not_false_eq_true, true_and]
    rw [aux_parseUintLoop_ok]
    simp [hs, decVal]

theorem aux_digit_not_sign (ds : Bytes) (h : AllDigits ds) (hne : ds ≠ []) : ∀ c, ds.head? = some c → c ≠ 43 ∧ c ≠ 45 := by
  intro c hc
  cases ds with
  | nil => simp at hc
  | cons d r =>
    simp at hc; subst hc
    have := h d (by simp)
    simp [isDigit, Duration.isDigit] at this
    omega


theorem aux_intCore (neg : Bool) (s1 : Bytes) (n : Int) :
    parseIntCore neg s1 = (n, none) ↔
      (s1 ≠ [] ∧ AllDigits s1 ∧ (if neg then n = -(decVal s1 : Int) ∧ minInt64 ≤ n else n = decVal s1 ∧ n ≤ maxInt64)) := by
  unfold parseIntCore
  generalize hp : parseUint maxU64 s1 = p
  obtain ⟨un, e⟩ := p
  cases e with
  | none =>
    have h := (aux_parseUint_ok s1 un).mp hp
    obtain ⟨h1, h2, h3, h4⟩ := h
    simp only [h1, h2, ne_eq, not_false_eq_true, true_and]
    subst h3
    simp only [maxU64] at h4
    cases neg <;> simp [eSyntax, two63, maxInt64, minInt64, eRange]
    · split
      · simp; omega
      · simp; omega
    · split
      · simp; omega
      · simp; omega
  | some e =>
    have hno : ¬ (s1 ≠ [] ∧ AllDigits s1 ∧ (if neg then n = -(decVal s1 : Int) ∧ minInt64 ≤ n else n = decVal s1 ∧ n ≤ maxInt64)) := by
      intro ⟨h1, h2, h3⟩
      have : parseUint maxU64 s1 = (decVal s1, none) := by
        rw [aux_parseUint_ok]
        refine ⟨h1, h2, rfl, ?_⟩
        cases neg <;> simp [maxInt64, minInt64, maxU64] at h3 ⊢ <;> omega
      rw [this] at hp; simp at hp
    simp only [hno, iff_false]
    unfold parseUint at hp
    split at hp
    · simp at hp; obtain ⟨rfl, rfl⟩ := hp; simp
    · rcases aux_parseUintLoop_err _ _ _ _ _ hp with ⟨rfl, rfl⟩ | ⟨rfl, rfl⟩
      · simp
      · cases neg <;> simp [eRange, eSyntax, maxU64, two63]
theorem atoi_ok_iff (s : Bytes) (n : Int) : atoi s = (n, none) ↔ IntLit s n := by
  unfold atoi parseInt64
  by_cases hs : s = []
  · subst hs
    simp only [↓reduceIte]
    constructor
    · intro h; simp [eSyntax] at h
    · intro ⟨ds, hne, _, h⟩
      rcases h with ⟨h, _⟩ | ⟨h, _⟩ | ⟨h, _⟩
      · exact absurd h.symm hne
      · simp at h
      · simp at h
  · simp only [hs, ↓reduceIte]
    split
    · rename_i t
      rw [aux_intCore]
      simp only [Bool.false_eq_true, ↓reduceIte]
      constructor
      · intro ⟨h1, h2, h3, h4⟩
        exact ⟨t, h1, h2, Or.inr (Or.inl ⟨rfl, h3, h4⟩)⟩
      · intro ⟨ds, hne, hd, h⟩
        rcases h with ⟨h, _⟩ | ⟨h, h3, h4⟩ | ⟨h, _⟩
        · have := (aux_digit_not_sign ds hd hne 43 (by rw [← h]; rfl)).1; contradiction
        · simp at h; subst h; exact ⟨hne, hd, h3, h4⟩
        · simp at h
    · rename_i t
      rw [aux_intCore]
      simp only [↓reduceIte]
      constructor
      · intro ⟨h1, h2, h3, h4⟩
        exact ⟨t, h1, h2, Or.inr (Or.inr ⟨rfl, h3, h4⟩)⟩
      · intro ⟨ds, hne, hd, h⟩
        rcases h with ⟨h, _⟩ | ⟨h, _⟩ | ⟨h, h3, h4⟩
        · have := (aux_digit_not_sign ds hd hne 45 (by rw [← h]; rfl)).2; contradiction
        · simp at h
        · simp at h; subst h; exact ⟨hne, hd, h3, h4⟩
    · rename_i h43 h45
      rw [aux_intCore]
      simp only [Bool.false_eq_true, ↓reduceIte]
      constructor
      · intro ⟨h1, h2, h3, h4⟩
        exact ⟨s, h1, h2, Or.inl ⟨rfl, h3, h4⟩⟩
      · intro ⟨ds, hne, hd, h⟩
        rcases h with ⟨h, h3, h4⟩ | ⟨h, _⟩ | ⟨h, _⟩
        · subst h; exact ⟨hne, hd, h3, h4⟩
        · exact absurd h (h43 ds)
        · exact absurd h (h45 ds)


theorem aux_cut_append (sep : Nat) (a b : Bytes) (h : sep ∉ a) : cut sep (a ++ sep :: b) = some (a, b) := by
  induction a with
  | nil => simp [cut]
  | cons c r ih =>
    have hc : c ≠ sep := by intro e; exact h (by simp [e])
    have := ih (by intro hm; exact h (by simp [hm]))
    simp [cut, hc, this]

theorem aux_cut_none (sep : Nat) (s : Bytes) (h : sep ∉ s) : cut sep s = none := by
  induction s with
  | nil => simp [cut]
  | cons c r ih =>
    have hc : c ≠ sep := by intro e; exact h (by simp [e])
    have := ih (by intro hm; exact h (by simp [hm]))
    simp [cut, hc, this]

theorem aux_cut_some (sep : Nat) (s a b : Bytes) (h : cut sep s = some (a, b)) : s = a ++ sep :: b ∧ sep ∉ a := by
  induction s generalizing a with
  | nil => simp [cut] at h
  | cons c r ih =>
    unfold cut at h
    split at h
    · rename_i hc; simp at hc h; obtain ⟨rfl, rfl⟩ := h; simp [hc]
    · rename_i hc
      split at h
      · rename_i a' b' hcut
        simp at h; obtain ⟨rfl, rfl⟩ := h
        have := ih a' hcut
        simp at hc
        refine ⟨by simp [this.1], ?_⟩
        intro hm; simp at hm; rcases hm with rfl | hm
        · exact hc rfl
        · exact this.2 hm
      · simp at h

theorem aux_cut_none_iff (sep : Nat) (s : Bytes) : cut sep s = none ↔ sep ∉ s := by
  constructor
  · intro h hm
    induction s with
    | nil => simp at hm
    | cons c r ih =>
      unfold cut at h
      split at h
      · simp at h
      · rename_i hc
        split at h
        · simp at h
        · rename_i hn
          simp at hm hc
          rcases hm with rfl | hm
          · exact hc rfl
          · exact ih hn hm
  · exact aux_cut_none sep s


/-! ### `-rate` -/

theorem aux_intlit_chars (s : Bytes) (n : Int) (h : IntLit s n) : ∀ c ∈ s, isDigit c = true ∨ c = 43 ∨ c = 45 := by
  obtain ⟨ds, _, hd, h⟩ := h
  intro c hc
  rcases h with ⟨rfl, _⟩ | ⟨rfl, _⟩ | ⟨rfl, _⟩
  · exact Or.inl (hd c hc)
  · simp at hc; rcases hc with rfl | hc
    · exact Or.inr (Or.inl rfl)
    · exact Or.inl (hd c hc)
  · simp at hc; rcases hc with rfl | hc
    · exact Or.inr (Or.inr rfl)
    · exact Or.inl (hd c hc)

theorem aux_intlit_no_slash (s : Bytes) (n : Int) (h : IntLit s n) : 47 ∉ s := by
  intro hm
  rcases aux_intlit_chars s n h 47 hm with h | h | h
  · simp [isDigit, Duration.isDigit] at h
  · omega
  · omega

theorem aux_intlit_ne_infinity (s : Bytes) (n : Int) (h : IntLit s n) : s ≠ infinityWord := by
  intro e
  have hm : 105 ∈ s := by rw [e]; decide
  rcases aux_intlit_chars s n h 105 hm with h | h | h
  · simp [isDigit, Duration.isDigit] at h
  · omega
  · omega

theorem aux_slash_ne_infinity (a b : Bytes) : a ++ 47 :: b ≠ infinityWord := by
  intro e
  have : 47 ∈ infinityWord := by rw [← e]; simp
  revert this; decide

/-- a bare unit is not itself a duration (so the `"1"` prefix is what makes `N/unit` parse) -/
theorem aux_bare_not_duration : ∀ u ∈ bareUnits, (Duration.parse u).isOk = false := by decide

/-- a bare unit with the `"1"` prefix is one of that unit -/
theorem aux_bare_one : ∀ u ∈ bareUnits, (Duration.unitValue u).map (fun ns => Outcome.ok (ns : Int)) = some (Duration.parse (49 :: u)) := by decide

/-- how `Set` splits a value: at the first `/`; without one the duration part is `"1s"` -/
def RateSplit (v nb db : Bytes) : Prop :=
  (47 ∉ v ∧ nb = v ∧ db = [49, 115]) ∨ (47 ∉ nb ∧ v = nb ++ 47 :: db)

theorem aux_rate_split_exists (v : Bytes) : ∃ nb db, RateSplit v nb db := by
  cases h : cut 47 v with
  | none => exact ⟨v, [49, 115], Or.inl ⟨(aux_cut_none_iff 47 v).mp h, rfl, rfl⟩⟩
  | some p =>
    obtain ⟨a, b⟩ := p
    have := aux_cut_some 47 v a b h
    exact ⟨a, b, Or.inr ⟨this.2, this.1⟩⟩

theorem aux_rate_split_cut (v nb db : Bytes) (h : RateSplit v nb db) : rateParts v = (nb, db) := by
  unfold rateParts
  rcases h with ⟨h1, rfl, rfl⟩ | ⟨h1, rfl⟩
  · rw [aux_cut_none 47 _ h1]
  · rw [aux_cut_append 47 nb db h1]

/-- `rateFlag.Set` on a value other than `infinity`, in terms of its two parts -/
theorem aux_rateSet_parts (r : Rate) (v nb db : Bytes) (hinf : v ≠ infinityWord) (hs : RateSplit v nb db) :
    rateSet r v =
      match atoi nb with
      | (n, some e) => ⟨{ r with freq := n }, .error e⟩
      | (n, none) =>
        if n = 0 then ⟨{ r with freq := n }, .ok ()⟩ else
        match Duration.parse (unitFix db) with
        | .ok d => ⟨⟨n, d⟩, .ok ()⟩
        | .error e => ⟨⟨n, 0⟩, .error e⟩
        | .panic => ⟨⟨n, r.per⟩, .panic⟩ := by
  unfold rateSet
  rw [if_neg hinf, aux_rate_split_cut v nb db hs]
  rfl

theorem aux_contains_false (l : List Bytes) (x : Bytes) (h : x ∉ l) : l.contains x = false := by
  simp [h]

/-- **An accepted `N/D` means exactly N per D**: for a decimal 64-bit integer literal `N ≠ 0`
and a Go duration `D`, `Set` stores `(N, D)` whatever the rate held before. -/
theorem rate_parse (r : Rate) (nb db : Bytes) (n d : Int) (hn : IntLit nb n) (hn0 : n ≠ 0)
    (hd : Duration.parse db = .ok d) : rateSet r (nb ++ 47 :: db) = ⟨⟨n, d⟩, .ok ()⟩ := by
  have hbare : bareUnits.contains db = false := by
    apply aux_contains_false
    intro hm
    have := aux_bare_not_duration db hm
    rw [hd] at this; simp [Outcome.isOk] at this
  rw [aux_rateSet_parts r _ nb db (aux_slash_ne_infinity nb db) (Or.inr ⟨aux_intlit_no_slash nb n hn, rfl⟩)]
  simp only [(atoi_ok_iff nb n).mpr hn, hn0, ↓reduceIte, unitFix, hbare, Bool.false_eq_true, hd]

/-- **No time unit ⇒ one second.** -/
theorem rate_parse_no_unit (r : Rate) (nb : Bytes) (n : Int) (hn : IntLit nb n) (hn0 : n ≠ 0) :
    rateSet r nb = ⟨⟨n, 1000000000⟩, .ok ()⟩ := by
  rw [aux_rateSet_parts r _ nb [49, 115] (aux_intlit_ne_infinity nb n hn) (Or.inl ⟨aux_intlit_no_slash nb n hn, rfl, rfl⟩)]
  simp only [(atoi_ok_iff nb n).mpr hn, hn0, ↓reduceIte]
  rfl

/-- **A bare unit means one of it**: `N/ns`, `N/us`, `N/µs`, `N/ms`, `N/s`, `N/m`, `N/h`. -/
theorem rate_parse_bare_unit (r : Rate) (nb u : Bytes) (n : Int) (hn : IntLit nb n) (hn0 : n ≠ 0) (hu : u ∈ bareUnits) :
    ∃ ns : Nat, Duration.unitValue u = some ns ∧ rateSet r (nb ++ 47 :: u) = ⟨⟨n, ns⟩, .ok ()⟩ := by
  have h1 := aux_bare_one u hu
  cases hv : Duration.unitValue u with
  | none => rw [hv] at h1; simp at h1
  | some ns =>
    rw [hv] at h1; simp at h1
    refine ⟨ns, rfl, ?_⟩
    have hc : bareUnits.contains u = true := by simp [hu]
    rw [aux_rateSet_parts r _ nb u (aux_slash_ne_infinity nb u) (Or.inr ⟨aux_intlit_no_slash nb n hn, rfl⟩)]
    simp only [(atoi_ok_iff nb n).mpr hn, hn0, ↓reduceIte, unitFix, hc, ← h1]

example : IntLit [53, 48] 50 ∧ (50 : Int) ≠ 0 ∧ Duration.parse [49, 48, 109, 115] = .ok 10000000 :=
  ⟨⟨[53, 48], by decide, by decide, Or.inl ⟨rfl, by decide, by decide⟩⟩, by decide, by decide⟩
example : rateSet defaultRate [53, 48, 47, 49, 48, 109, 115] = ⟨⟨50, 10000000⟩, .ok ()⟩ := by decide
example : rateSet defaultRate [55] = ⟨⟨7, 1000000000⟩, .ok ()⟩ := by decide
example : rateSet defaultRate [55, 47, 109] = ⟨⟨7, 60000000000⟩, .ok ()⟩ := by decide

/-- `Set` never panics, whatever the bytes. -/
theorem rate_never_panics (r : Rate) (v : Bytes) : (rateSet r v).out ≠ .panic := by
  by_cases hinf : v = infinityWord
  · simp [rateSet, hinf]
  · obtain ⟨nb, db, hs⟩ := aux_rate_split_exists v
    rw [aux_rateSet_parts r v nb db hinf hs]
    split
    · simp
    · split
      · simp
      · split
        · simp
        · simp
        · rename_i hp; exact absurd hp (Vegeta.Proofs.DurationRoundTrip.parse_never_panics _)

/-- The values `Set` accepts. -/
def AcceptedRate (v : Bytes) : Prop :=
  v = infinityWord ∨
  ∃ nb db n, RateSplit v nb db ∧ IntLit nb n ∧ (n = 0 ∨ ∃ d, Duration.parse (unitFix db) = .ok d)

/-- **Malformed values are rejected** — exactly the following strings are accepted: the word
`infinity`; or `N` or `N/D` (split at the first `/`) where `N` is a decimal literal of a
64-bit integer (optional sign, at least one digit) and either `N = 0` (then `D` is not looked
at) or `D` is a Go duration or one of the bare units ns us µs ms s m h. Every other byte
string yields an error (never a panic: `rate_never_panics`). -/
theorem rate_rejects_malformed (r : Rate) (v : Bytes) : (rateSet r v).out = .ok () ↔ AcceptedRate v := by
  by_cases hinf : v = infinityWord
  · simp [rateSet, hinf, AcceptedRate]
  · obtain ⟨nb, db, hs⟩ := aux_rate_split_exists v
    rw [aux_rateSet_parts r v nb db hinf hs]
    have huniq : ∀ nb' db', RateSplit v nb' db' → nb' = nb ∧ db' = db := by
      intro nb' db' hs'
      have h1 := aux_rate_split_cut v nb db hs
      have h2 := aux_rate_split_cut v nb' db' hs'
      rw [h1] at h2; simp at h2; exact ⟨h2.1.symm, h2.2.symm⟩
    simp only [AcceptedRate, hinf, false_or]
    generalize ha : atoi nb = p
    obtain ⟨n, e⟩ := p
    cases e with
    | some e =>
      simp only []
      constructor
      · intro h; simp at h
      · intro ⟨nb', db', n', hs', hl, _⟩
        obtain ⟨rfl, rfl⟩ := huniq nb' db' hs'
        rw [(atoi_ok_iff _ _).mpr hl] at ha; simp at ha
    | none =>
      have hl := (atoi_ok_iff nb n).mp ha
      simp only []
      by_cases hn : n = 0
      · simp only [hn, ↓reduceIte, true_iff]
        exact ⟨nb, db, 0, hs, hn ▸ hl, Or.inl rfl⟩
      · simp only [hn, ↓reduceIte]
        constructor
        · intro h
          split at h
          · rename_i d hd; exact ⟨nb, db, n, hs, hl, Or.inr ⟨d, hd⟩⟩
          · simp at h
          · simp at h
        · intro ⟨nb', db', n', hs', hl', h⟩
          obtain ⟨rfl, rfl⟩ := huniq nb' db' hs'
          have : n' = n := by
            have := (atoi_ok_iff _ _).mpr hl'; rw [ha] at this; simp at this; exact this.symm
          subst this
          rcases h with h | ⟨d, hd⟩
          · exact absurd h hn
          · rw [hd]

/-- **Accepted ⇒ exactly `(N, D)`**: whatever `Set` accepts other than the word `infinity` (whose
meaning is `rate_infinity_unlimited_and_guarded`) has the form
`N` or `N/D`, and the stored rate is `N` per `D` (`Per` untouched when `N = 0`). -/
theorem rate_accepted_meaning (r r' : Rate) (v : Bytes) (h : rateSet r v = ⟨r', .ok ()⟩) (hinf : v ≠ infinityWord) :
    ∃ nb db n, RateSplit v nb db ∧ IntLit nb n ∧ r'.freq = n ∧
      (n = 0 → r'.per = r.per) ∧ (n ≠ 0 → Duration.parse (unitFix db) = .ok r'.per) := by
  obtain ⟨nb, db, hs⟩ := aux_rate_split_exists v
  rw [aux_rateSet_parts r v nb db hinf hs] at h
  generalize ha : atoi nb = p at h
  obtain ⟨n, e⟩ := p
  cases e with
  | some e => simp at h
  | none =>
    have hl := (atoi_ok_iff nb n).mp ha
    simp only [] at h
    refine ⟨nb, db, n, hs, hl, ?_⟩
    by_cases hn : n = 0
    · simp only [hn, ↓reduceIte] at h
      simp at h; subst h; simp [hn]
    · simp only [hn, ↓reduceIte] at h
      split at h
      · rename_i d hd; simp at h; subst h; simp [hn, hd]
      · simp at h
      · simp at h

example : ¬ AcceptedRate [97, 98, 99] := by
  rw [← rate_rejects_malformed defaultRate]; decide
example : ¬ AcceptedRate [53, 47] := by
  rw [← rate_rejects_malformed defaultRate]; decide
example : AcceptedRate [53, 47, 115] := by
  rw [← rate_rejects_malformed defaultRate]; decide


/-! ### the special values -/

/-- **`-rate=0` (and every accepted value whose integer part is zero: `0/1s`, `00`, `+0`, …)
means an unlimited rate and demands `-max-workers`**: `Set` succeeds and stores `Freq = 0`
whatever the flag held before; the pacer treats that as infinite; the guard of `attack`
fires exactly when `-max-workers` still has its default. -/
theorem rate_zero_unlimited_and_guarded (r : Rate) (v nb db : Bytes) (hs : RateSplit v nb db) (hz : IntLit nb 0) :
    rateSet r v = ⟨⟨0, r.per⟩, .ok ()⟩ ∧ unlimited ⟨0, r.per⟩ = true ∧
      ∀ mw : Nat, attackGuard mw ⟨0, r.per⟩ = true ↔ mw = defaultMaxWorkers := by
  have hinf : v ≠ infinityWord := by
    rcases hs with ⟨_, rfl, _⟩ | ⟨_, rfl⟩
    · exact aux_intlit_ne_infinity _ _ hz
    · exact aux_slash_ne_infinity _ _
  refine ⟨?_, by simp [unlimited], by intro mw; simp [attackGuard]⟩
  rw [aux_rateSet_parts r v nb db hinf hs, (atoi_ok_iff nb 0).mpr hz]
  simp

/-- the literal value `0` -/
theorem rate_zero_literal (r : Rate) :
    rateSet r [48] = ⟨⟨0, r.per⟩, .ok ()⟩ ∧ unlimited (rateSet r [48]).st = true ∧
      attackGuard defaultMaxWorkers (rateSet r [48]).st = true :=
  have h := rate_zero_unlimited_and_guarded r [48] [48] [49, 115] (Or.inl ⟨by decide, rfl, rfl⟩)
    ⟨[48], by decide, by decide, Or.inl ⟨rfl, by decide, by decide⟩⟩
  ⟨h.1, by rw [h.1]; exact h.2.1, by rw [h.1]; exact (h.2.2 _).mpr rfl⟩

/-- The guard fires for an unlimited rate only through `Freq = 0` — and then exactly when
`-max-workers` was left at its default; a limited rate never demands `-max-workers`. -/
theorem guard_iff (mw : Nat) (r : Rate) : attackGuard mw r = true ↔ (mw = defaultMaxWorkers ∧ r.freq = 0) := by
  simp [attackGuard]

/-- **`-rate=infinity` means an unlimited rate and demands `-max-workers`** — for every rate the
flag held before (in particular the attack command's default 50/1s): `Set` succeeds and stores
`Freq = 0` leaving `Per` alone; the pacer treats that as infinite; the guard of `attack` fires
exactly when `-max-workers` still has its default. Same statement as for `-rate=0`
(`rate_zero_unlimited_and_guarded`). -/
theorem rate_infinity_unlimited_and_guarded (r : Rate) :
    rateSet r infinityWord = ⟨⟨0, r.per⟩, .ok ()⟩ ∧ unlimited (rateSet r infinityWord).st = true ∧
      ∀ mw : Nat, attackGuard mw (rateSet r infinityWord).st = true ↔ mw = defaultMaxWorkers := by
  have h : rateSet r infinityWord = ⟨⟨0, r.per⟩, .ok ()⟩ := by simp [rateSet]
  refine ⟨h, by rw [h]; simp [unlimited], ?_⟩
  intro mw; rw [h]; simp [attackGuard]

/-- `0` and `infinity` leave the flag in the same state -/
theorem rate_infinity_same_as_zero (r : Rate) : rateSet r infinityWord = rateSet r [48] := by
  rw [(rate_infinity_unlimited_and_guarded r).1, (rate_zero_literal r).1]

/-- **Defect 13 as it was before the repair** (commit 2df3294 in /repo): with the old `Set`
(`rateSetOld`: `"infinity"` returned nil without touching the rate) the attack command's default
50/1s stayed in place, the pacer was limited and the guard never demanded `-max-workers`. The
regenerated fact `facts_rate_infinity_branch` pins the repaired branch (`f.Freq = 0; return nil`). -/
theorem rate_infinity_old_counterexample :
    rateSetOld defaultRate infinityWord = ⟨⟨50, 1000000000⟩, .ok ()⟩ ∧
    unlimited (rateSetOld defaultRate infinityWord).st = false ∧
    ∀ mw : Nat, attackGuard mw (rateSetOld defaultRate infinityWord).st = false := by
  refine ⟨by decide, by decide, ?_⟩
  intro mw; simp [rateSetOld, attackGuard, defaultRate]

/-! ### printed form -/

theorem aux_decFrom_reverse (l : Bytes) : decFrom 0 l.reverse = l.foldr (fun c n => n * 10 + (c - 48)) 0 := by
  simp [decFrom, List.foldl_reverse]

theorem aux_digitsRev (fuel : Nat) : ∀ n, n < fuel →
    AllDigits (Duration.digitsRev fuel n) ∧ Duration.digitsRev fuel n ≠ [] ∧
    (Duration.digitsRev fuel n).foldr (fun c n => n * 10 + (c - 48)) 0 = n := by
  induction fuel with
  | zero => intro n h; omega
  | succ f ih =>
    intro n h
    unfold Duration.digitsRev
    by_cases h10 : n < 10
    · simp only [h10, ↓reduceIte]
      refine ⟨?_, by simp, by simp⟩
      intro c hc; simp at hc; subst hc
      simp [isDigit, Duration.isDigit]; omega
    · simp only [h10, ↓reduceIte]
      obtain ⟨h1, h2, h3⟩ := ih (n / 10) (by omega)
      refine ⟨?_, by simp, ?_⟩
      · intro c hc; simp at hc
        rcases hc with rfl | hc
        · simp [isDigit, Duration.isDigit]; omega
        · exact h1 c hc
      · simp only [List.foldr_cons, h3]; omega

/-- `%d` of a positive `int` reads back as itself -/
theorem aux_intlit_fmtNat (n : Nat) (h : (n : Int) ≤ maxInt64) : IntLit (Duration.fmtNat n) n := by
  obtain ⟨h1, h2, h3⟩ := aux_digitsRev (n + 1) n (by omega)
  refine ⟨Duration.fmtNat n, ?_, ?_, Or.inl ⟨rfl, ?_, h⟩⟩
  · simp [Duration.fmtNat, h2]
  · intro c hc; simp [Duration.fmtNat] at hc; exact h1 c hc
  · simp only [decVal, Duration.fmtNat, aux_decFrom_reverse, h3]

/-- A rate's printed form parses back to the same rate, for every positive frequency and
every period whose own printed form parses back (hypothesis `hdur`, discharged for all
positive periods in `rate_string_roundtrip`). -/
theorem rate_string_roundtrip_partial (r0 r : Rate) (hf : 0 < r.freq) (hfm : r.freq ≤ maxInt64)
    (hdur : Duration.parse (Duration.toString r.per) = .ok r.per) :
    rateSet r0 (rateString r) = ⟨r, .ok ()⟩ := by
  have hfmt : fmtInt r.freq = Duration.fmtNat r.freq.natAbs := by simp [fmtInt]; omega
  have hnat : (r.freq.natAbs : Int) = r.freq := by omega
  have hl : IntLit (Duration.fmtNat r.freq.natAbs) r.freq := by
    have := aux_intlit_fmtNat r.freq.natAbs (by omega)
    rwa [hnat] at this
  have := rate_parse r0 (Duration.fmtNat r.freq.natAbs) (Duration.toString r.per) r.freq r.per hl (by omega) hdur
  unfold rateString
  rw [hfmt, this]

/-- **A rate's printed form parses back to the same rate**: `Set (String r) = r` for every rate
with positive frequency and positive period (both `int64`), whatever the flag held before.
Rests on `ParseDuration (d.String()) = d` for all positive `d`, proved over the kit's model of
the two functions including the float64 arithmetic of the fraction
(`Vegeta.Proofs.DurationRoundTrip.parse_toString`). -/
theorem rate_string_roundtrip (r0 r : Rate) (hf : 0 < r.freq) (hfm : r.freq ≤ maxInt64)
    (hp : 0 < r.per) (hpm : r.per ≤ maxInt64) : rateSet r0 (rateString r) = ⟨r, .ok ()⟩ :=
  rate_string_roundtrip_partial r0 r hf hfm (Vegeta.Proofs.DurationRoundTrip.parse_toString r.per hp hpm)

example : Duration.parse (Duration.toString 1500000000) = .ok 1500000000 := by decide
example : rateSet ⟨0, 0⟩ (rateString ⟨50, 1500000000⟩) = ⟨⟨50, 1500000000⟩, .ok ()⟩ := by decide


/-! ### maps built by repeated flags (`-header`, `-connect-to`) -/

/-- the values stored under key `k` (`m[k]`, nil when absent) -/
def lookup (m : List (Bytes × List Bytes)) (k : Bytes) : List Bytes :=
  match m with
  | [] => []
  | (k', vs) :: rest => if k' = k then vs else lookup rest k

/-- the keys of the map -/
def keys (m : List (Bytes × List Bytes)) : List Bytes := m.map (·.1)

theorem aux_headerAppend_lookup (m : Header) (k v k' : Bytes) :
    lookup (headerAppend m k v) k' = if k = k' then lookup m k' ++ [v] else lookup m k' := by
  induction m with
  | nil => by_cases h : k = k' <;> simp [headerAppend, lookup, h]
  | cons e rest ih =>
    obtain ⟨k0, vs⟩ := e
    unfold headerAppend
    by_cases h0 : k0 = k
    · subst h0
      by_cases h : k0 = k' <;> simp [lookup, h]
    · simp only [h0, ↓reduceIte, lookup]
      by_cases h1 : k0 = k'
      · subst h1; simp [Ne.symm h0]
      · simp [h1, ih]

theorem aux_headerAppend_keys (m : Header) (k v : Bytes) :
    keys (headerAppend m k v) = if k ∈ keys m then keys m else keys m ++ [k] := by
  induction m with
  | nil => simp [headerAppend, keys]
  | cons e rest ih =>
    obtain ⟨k0, vs⟩ := e
    unfold headerAppend
    by_cases h0 : k0 = k
    · subst h0; simp [keys]
    · simp only [h0, ↓reduceIte]
      simp only [keys, List.map_cons, List.mem_cons] at ih ⊢
      rw [ih]
      have : ¬ k = k0 := fun e => h0 e.symm
      simp only [this, false_or]
      split <;> rename_i hm <;> simp [hm]

theorem aux_headerAppend_nodup (m : Header) (k v : Bytes) (h : (keys m).Nodup) : (keys (headerAppend m k v)).Nodup := by
  rw [aux_headerAppend_keys]
  split
  · exact h
  · rename_i hk
    rw [List.nodup_append]
    exact ⟨h, by simp, by intro a ha b hb; simp at hb; subst hb; intro e; subst e; exact hk ha⟩

/-- what a well-formed `-header` value stands for: the text before the first `:` and the text
after it, both trimmed and both non-empty — byte for byte, no canonicalisation of the key -/
def headerParse (v : Bytes) : Option (Bytes × Bytes) :=
  match cut 58 v with
  | none => none
  | some (a, b) => if trimSpace a = [] ∨ trimSpace b = [] then none else some (trimSpace a, trimSpace b)

theorem aux_headerSet (h : Header) (v : Bytes) :
    headerSet h v = match headerParse v with
      | some (k, x) => ⟨headerAppend h k x, .ok ()⟩
      | none => ⟨h, .error eFormat⟩ := by
  unfold headerSet headerParse
  cases cut 58 v with
  | none => rfl
  | some p =>
    obtain ⟨a, b⟩ := p
    simp only []
    by_cases h1 : trimSpace a = [] <;> by_cases h2 : trimSpace b = [] <;> simp [h1, h2]

/-- values of the accepted settings with key `k`, in command-line order -/
def valuesFor (parse : Bytes → Option (Bytes × Bytes)) (vs : List Bytes) (k : Bytes) : List Bytes :=
  (vs.filterMap parse).filterMap fun (k', x) => if k' = k then some x else none

/-- **Repeated `-header` flags accumulate, key case preserved** — for any sequence of values
(any order, repeats, malformed ones in between): each call is accepted exactly when the value
is well formed; afterwards the values under every key `k` are what was there before followed by
the values of the accepted settings whose key is byte-for-byte `k`, in command-line order; keys
stay distinct. `Content-Type` and `content-type` are different keys. -/
theorem headers_accumulate_case_preserved (h0 : Header) (vs : List Bytes) :
    (setAll headerSet h0 vs).1 = vs.map (fun v => if (headerParse v).isSome then Outcome.ok () else Outcome.error eFormat) ∧
    (∀ k, lookup (setAll headerSet h0 vs).2 k = lookup h0 k ++ valuesFor headerParse vs k) ∧
    ((keys h0).Nodup → (keys (setAll headerSet h0 vs).2).Nodup) := by
  induction vs generalizing h0 with
  | nil => simp [setAll, valuesFor]
  | cons v rest ih =>
    simp only [setAll]
    rw [aux_headerSet]
    cases hp : headerParse v with
    | none =>
      obtain ⟨i1, i2, i3⟩ := ih h0
      simp only [] 
      refine ⟨by simp [i1, hp], ?_, i3⟩
      intro k; rw [i2 k]; simp [valuesFor, hp]
    | some p =>
      obtain ⟨k0, x⟩ := p
      obtain ⟨i1, i2, i3⟩ := ih (headerAppend h0 k0 x)
      simp only []
      refine ⟨by simp [i1, hp], ?_, fun hn => i3 (aux_headerAppend_nodup h0 k0 x hn)⟩
      intro k; rw [i2 k, aux_headerAppend_lookup]
      by_cases hk : k0 = k <;> simp [valuesFor, hp, hk]

example : (setAll headerSet [] [[65, 58, 49], [97, 58, 50], [58], [65, 58, 32, 51, 32]]).2 = [([65], [[49], [51]]), ([97], [[50]])] := by decide


/-! ### `-max-body` -/

theorem aux_decFrom_cons (acc c : Nat) (r : Bytes) : decFrom acc (c :: r) = decFrom (acc * 10 + (c - 48)) r := by
  simp [decFrom]

theorem aux_dsLoop_false (ds rest : Bytes) : ∀ acc : Nat, AllDigits ds →
    (∀ c, rest.head? = some c → isDigit c = false) → decFrom acc ds ≤ maxU64 →
    dsLoop (ds ++ rest) acc false = .ok (decFrom acc ds, rest) := by
  induction ds with
  | nil =>
    intro acc _ hr _
    cases rest with
    | nil => simp [dsLoop, decFrom]
    | cons c r => have := hr c rfl; simp [dsLoop, decFrom, this]
  | cons c r ih =>
    intro acc hd hr hle
    have hc : isDigit c = true := hd c (by simp)
    have hd' : AllDigits r := fun x hx => hd x (by simp [hx])
    rw [aux_decFrom_cons] at hle ⊢
    have hge := aux_decFrom_ge r (acc * 10 + (c - 48))
    simp only [List.cons_append, dsLoop, hc, ↓reduceIte]
    have h1 : ¬ acc > dsCutoff := by simp only [dsCutoff, maxU64] at *; omega
    have h2 : ¬ acc * 10 + (c - 48) ≥ two64 := by simp only [two64, maxU64] at *; omega
    simp only [h1, h2, ↓reduceIte]
    exact ih _ hd' hr hle

theorem aux_dsLoop_true (ds rest : Bytes) (hne : ds ≠ []) (hd : AllDigits ds)
    (hr : ∀ c, rest.head? = some c → isDigit c = false) (hle : decVal ds ≤ maxU64) :
    dsLoop (ds ++ rest) 0 true = .ok (decVal ds, rest) := by
  cases ds with
  | nil => contradiction
  | cons c r =>
    have hc : isDigit c = true := hd c (by simp)
    have := aux_dsLoop_false (c :: r) rest 0 hd hr hle
    simp only [List.cons_append, dsLoop, hc, ↓reduceIte] at this ⊢
    exact this

/-- **`-max-body` accepts the documented size notations** (1024-based): decimal digits, then —
optionally separated and followed by white space — a unit name in any letter case:
nothing / `b` / `byte` (×1); `k` `kb` `kilo` `kilobyte` `kilobytes` (×2¹⁰); likewise mega (×2²⁰),
giga (×2³⁰), tera (×2⁴⁰), peta (×2⁵⁰); `e` `eb` (×2⁶⁰). The stored limit is digits × unit,
provided it fits an `int64`. (`dsUnitShift` is that table, compared with the library source by
`facts_datasize_units`; `Kb Mb Gb Tb Pb Eb` in exactly this spelling are refused as bits.) -/
theorem max_body_notations (n0 : Int) (ds rest : Bytes) (k : Nat) (hne : ds ≠ []) (hd : AllDigits ds)
    (hr : ∀ c, rest.head? = some c → isDigit c = false)
    (hunit : dsUnitShift (toLower (trimSpace rest)) = some k) (hbits : trimSpace rest ∉ bitsUnits)
    (hfit : ((decVal ds * 2 ^ k : Nat) : Int) ≤ maxInt64) :
    maxBodySet n0 (ds ++ rest) = ⟨(decVal ds * 2 ^ k : Nat), .ok ()⟩ := by
  have hpos : 0 < 2 ^ k := Nat.two_pow_pos k
  have hmul : decVal ds ≤ decVal ds * 2 ^ k := Nat.le_mul_of_pos_right _ hpos
  have hle : decVal ds ≤ maxU64 := by simp only [maxU64, maxInt64] at *; omega
  have hm1 : ds ++ rest ≠ minusOne := by
    cases ds with
    | nil => contradiction
    | cons c r =>
      have hc : isDigit c = true := hd c (by simp)
      intro e; simp [minusOne] at e
      rw [e.1] at hc; simp [isDigit, Duration.isDigit] at hc
  have hb : bitsUnits.contains (trimSpace rest) = false := by simp [hbits]
  have hdiv : ¬ decVal ds > maxU64 / 2 ^ k := by
    have : decVal ds * 2 ^ k ≤ maxU64 := by simp only [maxU64, maxInt64] at *; omega
    have := (Nat.le_div_iff_mul_le hpos).mpr this
    omega
  unfold maxBodySet dsUnmarshal
  rw [if_neg hm1, aux_dsLoop_true ds rest hne hd hr hle]
  simp only [hb, Bool.false_eq_true, ↓reduceIte, hunit, hdiv]
  have : ¬ ((decVal ds * 2 ^ k : Nat) : Int) > maxInt64 := by omega
  simp only [this, ↓reduceIte]

/-- `-1` means no limit -/
theorem max_body_minus_one (n0 : Int) : maxBodySet n0 minusOne = ⟨-1, .ok ()⟩ := by
  simp [maxBodySet]

/-- a size beyond `int64` is refused -/
theorem max_body_overflow_rejected (n0 : Int) (v : Bytes) (b : Nat) (h : dsUnmarshal v = .ok b) (hv : v ≠ minusOne)
    (hbig : (b : Int) > maxInt64) : ∃ e, maxBodySet n0 v = ⟨n0, .error e⟩ := by
  unfold maxBodySet
  rw [if_neg hv, h]
  simp only [hbig, ↓reduceIte]
  exact ⟨_, rfl⟩

/-- the manual's own examples, with the printed form the manual shows -/
theorem max_body_documented_examples :
    -- "10 MB" -> 10MB
    (maxBodySet 0 [49, 48, 32, 77, 66] = ⟨10485760, .ok ()⟩ ∧ maxBodyString 10485760 = [49, 48, 77, 66]) ∧
    -- "10240 g" -> 10TB
    (maxBodySet 0 [49, 48, 50, 52, 48, 32, 103] = ⟨10995116277760, .ok ()⟩ ∧ maxBodyString 10995116277760 = [49, 48, 84, 66]) ∧
    -- "2000" -> 2000B
    (maxBodySet 0 [50, 48, 48, 48] = ⟨2000, .ok ()⟩ ∧ maxBodyString 2000 = [50, 48, 48, 48, 66]) ∧
    -- "1tB" -> 1TB
    (maxBodySet 0 [49, 116, 66] = ⟨1099511627776, .ok ()⟩ ∧ maxBodyString 1099511627776 = [49, 84, 66]) ∧
    -- "5 peta" -> 5PB
    (maxBodySet 0 [53, 32, 112, 101, 116, 97] = ⟨5629499534213120, .ok ()⟩ ∧ maxBodyString 5629499534213120 = [53, 80, 66]) ∧
    -- "28 kilobytes" -> 28KB
    (maxBodySet 0 [50, 56, 32, 107, 105, 108, 111, 98, 121, 116, 101, 115] = ⟨28672, .ok ()⟩ ∧ maxBodyString 28672 = [50, 56, 75, 66]) ∧
    -- "1 gigabyte" -> 1GB
    (maxBodySet 0 [49, 32, 103, 105, 103, 97, 98, 121, 116, 101] = ⟨1073741824, .ok ()⟩ ∧ maxBodyString 1073741824 = [49, 71, 66]) := by
  decide

example : maxBodySet 0 ([49, 48] ++ [32, 77, 66]) = ⟨(decVal [49, 48] * 2 ^ 20 : Nat), .ok ()⟩ :=
  max_body_notations 0 [49, 48] [32, 77, 66] 20 (by decide) (by decide) (by decide) (by decide) (by decide) (by decide)


/-! ### `net.SplitHostPort` -/

theorem aux_indexByte_some (c : Nat) (s : Bytes) (k : Nat) (h : indexByte c s = some k) : k < s.length ∧ s[k]? = some c := by
  induction s generalizing k with
  | nil => simp [indexByte] at h
  | cons x r ih =>
    unfold indexByte at h
    split at h
    · rename_i hx; simp at hx h; subst h; simp [hx]
    · cases hr : indexByte c r with
      | none => rw [hr] at h; simp at h
      | some j =>
        rw [hr] at h; simp at h; subst h
        have := ih j hr
        refine ⟨by simp; omega, ?_⟩
        simpa using this.2

theorem aux_indexByte_none (c : Nat) (s : Bytes) (h : c ∉ s) : indexByte c s = none := by
  induction s with
  | nil => rfl
  | cons x r ih =>
    have hx : x ≠ c := by intro e; exact h (by simp [e])
    simp [indexByte, hx, ih (by intro hm; exact h (by simp [hm]))]

theorem aux_indexByte_append (c : Nat) (x y : Bytes) (h : c ∉ x) : indexByte c (x ++ c :: y) = some x.length := by
  induction x with
  | nil => simp [indexByte]
  | cons a r ih =>
    have ha : a ≠ c := by intro e; exact h (by simp [e])
    simp [indexByte, ha, ih (by intro hm; exact h (by simp [hm]))]

theorem aux_lastIndexByte_some (c : Nat) (s : Bytes) (i : Nat) (h : lastIndexByte c s = some i) : s ≠ [] := by
  intro e; subst e; simp [lastIndexByte, indexByte] at h

theorem aux_lastIndexByte_append (c : Nat) (a b : Bytes) (h : c ∉ b) : lastIndexByte c (a ++ c :: b) = some a.length := by
  unfold lastIndexByte
  have : (a ++ c :: b).reverse = b.reverse ++ c :: a.reverse := by simp
  rw [this, aux_indexByte_append c _ _ (by simpa using h)]
  simp

/-- `net.SplitHostPort` (model, every index expression bounds-checked) never panics. -/
theorem splitHostPort_never_panics (hp : Bytes) : splitHostPort hp ≠ .panic := by
  unfold splitHostPort
  split
  · simp
  · rename_i i hi
    have hne := aux_lastIndexByte_some 58 hp i hi
    have h0 : idx hp 0 = .ok (hp.head hne) := by
      cases hp with
      | nil => contradiction
      | cons c r => simp [idx]
    rw [h0]
    simp only []
    split
    · split
      · simp
      · rename_i e he
        have hlt := (aux_indexByte_some 93 hp e he).1
        split
        · simp
        · split
          · split <;> (try split) <;> simp
          · rename_i hne1 _
            have : e + 1 < hp.length := by omega
            have hi : idx hp (e + 1) = .ok hp[e + 1] := by simp [idx, this]
            rw [hi]; simp
    · split
      · simp
      · split <;> (try split) <;> simp

/-- an address `host:port` whose two parts contain none of `:` `[` `]` splits into them -/
theorem aux_splitHostPort_simple (a b : Bytes) (ha : 58 ∉ a ∧ 91 ∉ a ∧ 93 ∉ a) (hb : 58 ∉ b ∧ 91 ∉ b ∧ 93 ∉ b) :
    splitHostPort (a ++ 58 :: b) = .ok (a, b) := by
  have h91 : 91 ∉ a ++ 58 :: b := by simp [ha.2.1, hb.2.1]
  have h93 : 93 ∉ a ++ 58 :: b := by simp [ha.2.2, hb.2.2]
  have hc0 : ∃ c0, idx (a ++ 58 :: b) 0 = .ok c0 ∧ c0 ≠ 91 := by
    cases a with
    | nil => exact ⟨58, by simp [idx], by decide⟩
    | cons c r => exact ⟨c, by simp [idx], by intro e; exact ha.2.1 (by simp [e])⟩
  obtain ⟨c0, hc0, hne⟩ := hc0
  unfold splitHostPort
  rw [aux_lastIndexByte_append 58 a b hb.1, hc0]
  simp only [hne, ↓reduceIte, List.take_left', aux_indexByte_none 58 a ha.1, Option.isSome_none, Bool.false_eq_true,
    List.drop_zero, aux_indexByte_none 91 _ h91, aux_indexByte_none 93 _ h93]
  simp


/-! ### `-connect-to` -/

theorem aux_splitOn_none (sep : Nat) (a : Bytes) (h : sep ∉ a) : splitOn sep a = [a] := by
  induction a with
  | nil => rfl
  | cons c r ih =>
    have hc : c ≠ sep := by intro e; exact h (by simp [e])
    have := ih (by intro hm; exact h (by simp [hm]))
    simp [splitOn, hc, this]

theorem aux_splitOn_append (sep : Nat) (a rest : Bytes) (h : sep ∉ a) : splitOn sep (a ++ sep :: rest) = a :: splitOn sep rest := by
  induction a with
  | nil => simp [splitOn]
  | cons c r ih =>
    have hc : c ≠ sep := by intro e; exact h (by simp [e])
    have := ih (by intro hm; exact h (by simp [hm]))
    simp [splitOn, hc, this]

/-- what a well-formed `-connect-to` value stands for: exactly four `:`-separated parts
`src:port:dst:port`, with `src:port` and `dst:port` acceptable to `net.SplitHostPort` -/
def connectParse (s : Bytes) : Option (Bytes × Bytes) :=
  match splitOn 58 s with
  | [p0, p1, p2, p3] =>
    if (splitHostPort (p0 ++ 58 :: p1)).isOk ∧ (splitHostPort (p2 ++ 58 :: p3)).isOk
    then some (p0 ++ 58 :: p1, p2 ++ 58 :: p3) else none
  | _ => none

theorem aux_connectToSet (m : AddrMap) (s : Bytes) :
    match connectParse s with
    | some (k, x) => connectToSet m s = ⟨headerAppend m k x, .ok ()⟩
    | none => ∃ e, connectToSet m s = ⟨m, .error e⟩ := by
  unfold connectToSet connectParse
  generalize splitOn 58 s = l
  rcases l with _ | ⟨p0, _ | ⟨p1, _ | ⟨p2, _ | ⟨p3, _ | ⟨p4, l⟩⟩⟩⟩⟩
  · exact ⟨_, rfl⟩
  · exact ⟨_, rfl⟩
  · exact ⟨_, rfl⟩
  · exact ⟨_, rfl⟩
  · have n1 := splitHostPort_never_panics (p0 ++ 58 :: p1)
    have n2 := splitHostPort_never_panics (p2 ++ 58 :: p3)
    cases h1 : splitHostPort (p0 ++ 58 :: p1) with
    | panic => exact absurd h1 n1
    | error e => simp only [h1, Outcome.isOk]; exact ⟨_, rfl⟩
    | ok x =>
      cases h2 : splitHostPort (p2 ++ 58 :: p3) with
      | panic => exact absurd h2 n2
      | error e => simp only [h1, h2, Outcome.isOk]; exact ⟨_, rfl⟩
      | ok y => simp [h1, h2, Outcome.isOk]
  · exact ⟨_, rfl⟩

theorem aux_connectToSet_st (m : AddrMap) (s : Bytes) :
    (connectToSet m s).st = match connectParse s with
      | some (k, x) => headerAppend m k x
      | none => m := by
  have := aux_connectToSet m s
  cases hp : connectParse s with
  | none => rw [hp] at this; obtain ⟨e, he⟩ := this; rw [he]
  | some p => obtain ⟨k, x⟩ := p; rw [hp] at this; simp only [] at this; rw [this]

theorem aux_connectToSet_out (m : AddrMap) (s : Bytes) :
    (connectToSet m s).out = .ok () ↔ (connectParse s).isSome = true := by
  have := aux_connectToSet m s
  cases hp : connectParse s with
  | none => rw [hp] at this; obtain ⟨e, he⟩ := this; rw [he]; simp
  | some p => obtain ⟨k, x⟩ := p; rw [hp] at this; simp only [] at this; rw [this]; simp

/-- `Set` never panics. -/
theorem connect_to_never_panics (m : AddrMap) (s : Bytes) : (connectToSet m s).out ≠ .panic := by
  have := aux_connectToSet m s
  cases hp : connectParse s with
  | none => rw [hp] at this; obtain ⟨e, he⟩ := this; rw [he]; simp
  | some p => obtain ⟨k, x⟩ := p; rw [hp] at this; simp only [] at this; rw [this]; simp

theorem aux_accumulate (set : AddrMap → Bytes → Res AddrMap) (parse : Bytes → Option (Bytes × Bytes))
    (hset : ∀ m v, (set m v).st = match parse v with
      | some (k, x) => headerAppend m k x
      | none => m) (vs : List Bytes) : ∀ m0 : AddrMap,
    (∀ k, lookup (setAll set m0 vs).2 k = lookup m0 k ++ valuesFor parse vs k) ∧
    ((keys m0).Nodup → (keys (setAll set m0 vs).2).Nodup) := by
  induction vs with
  | nil => intro m0; simp [setAll, valuesFor]
  | cons v rest ih =>
    intro m0
    simp only [setAll]
    have hs := hset m0 v
    cases hp : parse v with
    | none =>
      rw [hp] at hs; simp only [] at hs
      rw [hs]
      obtain ⟨i2, i3⟩ := ih m0
      refine ⟨?_, i3⟩
      intro k; rw [i2 k]; simp [valuesFor, hp]
    | some p =>
      obtain ⟨k0, x⟩ := p
      rw [hp] at hs; simp only [] at hs
      rw [hs]
      obtain ⟨i2, i3⟩ := ih (headerAppend m0 k0 x)
      refine ⟨?_, fun hn => i3 (aux_headerAppend_nodup m0 k0 x hn)⟩
      intro k; rw [i2 k, aux_headerAppend_lookup]
      by_cases hk : k0 = k <;> simp [valuesFor, hp, hk]

/-- **`-connect-to` builds the documented mapping** — for any sequence of values: a value is
accepted exactly when it is well formed (`connectParse`); afterwards `src:port` maps to the
`dst:port` of every accepted setting with that source, in command-line order (identical sources
accumulate: the round-robin list), sources stay distinct keys. -/
theorem connect_to_mapping (m0 : AddrMap) (vs : List Bytes) :
    (∀ k, lookup (setAll connectToSet m0 vs).2 k = lookup m0 k ++ valuesFor connectParse vs k) ∧
    ((keys m0).Nodup → (keys (setAll connectToSet m0 vs).2).Nodup) ∧
    (∀ m v, ((connectToSet m v).out = .ok () ↔ (connectParse v).isSome = true)) := by
  obtain ⟨h1, h2⟩ := aux_accumulate connectToSet connectParse aux_connectToSet_st vs m0
  exact ⟨h1, h2, aux_connectToSet_out⟩

/-- the documented form `src:port:dst:port` with host names / IPv4 addresses / ports (parts
without `:` `[` `]`) is well formed and stands for `src:port ↦ dst:port` -/
theorem connect_to_tuple (p0 p1 p2 p3 : Bytes)
    (h0 : 58 ∉ p0 ∧ 91 ∉ p0 ∧ 93 ∉ p0) (h1 : 58 ∉ p1 ∧ 91 ∉ p1 ∧ 93 ∉ p1)
    (h2 : 58 ∉ p2 ∧ 91 ∉ p2 ∧ 93 ∉ p2) (h3 : 58 ∉ p3 ∧ 91 ∉ p3 ∧ 93 ∉ p3) :
    connectParse (p0 ++ 58 :: (p1 ++ 58 :: (p2 ++ 58 :: p3))) = some (p0 ++ 58 :: p1, p2 ++ 58 :: p3) := by
  unfold connectParse
  rw [aux_splitOn_append 58 p0 _ h0.1, aux_splitOn_append 58 p1 _ h1.1, aux_splitOn_append 58 p2 _ h2.1,
    aux_splitOn_none 58 p3 h3.1]
  simp [aux_splitHostPort_simple p0 p1 h0 h1, aux_splitHostPort_simple p2 p3 h2 h3, Outcome.isOk]

/-- anything that does not have exactly four `:`-separated parts is refused -/
theorem connect_to_needs_four_parts (s : Bytes) (h : (splitOn 58 s).length ≠ 4) : connectParse s = none := by
  unfold connectParse
  split
  · rename_i heq; rw [heq] at h; simp at h
  · rfl

-- google.com:80:localhost:6060 (the manual's example), twice the same source
example : (setAll connectToSet [] [[103, 58, 56, 48, 58, 108, 58, 54, 48], [97, 58, 49], [103, 58, 56, 48, 58, 109, 58, 55]]).2
    = [([103, 58, 56, 48], [[108, 58, 54, 48], [109, 58, 55]])] := by decide

/-! ### `-dns-ttl` -/

/-- **`-dns-ttl` values map to the documented meanings**: `-1` disables caching (a negative
TTL), a zero duration caches forever, any other accepted value is the Go duration as written
(cached and refreshed every TTL when positive, disabled when negative); everything else is an
error. -/
theorem dns_ttl_meaning (d0 : Int) :
    (dnsTTLSet d0 minusOne = ⟨-1, .ok ()⟩ ∧ dnsMode (-1) = .disabled) ∧
    (dnsTTLSet d0 [48] = ⟨0, .ok ()⟩ ∧ dnsMode 0 = .forever) ∧
    (∀ v x, v ≠ minusOne → (dnsTTLSet d0 v = ⟨x, .ok ()⟩ ↔ Duration.parse v = .ok x)) ∧
    (∀ v, v ≠ minusOne → (∀ x, Duration.parse v ≠ .ok x) → ∃ e, dnsTTLSet d0 v = ⟨0, .error e⟩) ∧
    (∀ x : Int, dnsMode x = if x < 0 then .disabled else if x = 0 then .forever else .refreshEvery x) := by
  refine ⟨⟨by simp [dnsTTLSet], by decide⟩, ⟨by unfold dnsTTLSet; rw [if_neg (by decide)]; rfl, by decide⟩, ?_, ?_, fun x => rfl⟩
  · intro v x hv
    unfold dnsTTLSet
    rw [if_neg hv]
    cases hp : Duration.parse v with
    | ok y => simp
    | error e => simp
    | panic => exact absurd hp (Vegeta.Proofs.DurationRoundTrip.parse_never_panics v)
  · intro v hv hno
    unfold dnsTTLSet
    rw [if_neg hv]
    cases hp : Duration.parse v with
    | ok y => exact absurd hp (hno y)
    | error e => exact ⟨e, rfl⟩
    | panic => exact absurd hp (Vegeta.Proofs.DurationRoundTrip.parse_never_panics v)

theorem dns_ttl_never_panics (d0 : Int) (v : Bytes) : (dnsTTLSet d0 v).out ≠ .panic := by
  unfold dnsTTLSet
  split
  · simp
  · cases hp : Duration.parse v with
    | ok y => simp
    | error e => simp
    | panic => exact absurd hp (Vegeta.Proofs.DurationRoundTrip.parse_never_panics v)


/-! ### `-resolvers` -/

theorem aux_ipv4Loop (s : Bytes) : ∀ (val pos digLen : Nat) (first prevDot : Bool),
    ipv4Loop s val pos digLen first prevDot = true →
    (∀ c ∈ s, isDigit c = true ∨ c = 46) ∧ pos ≤ 3 ∧ (pos < 3 → 46 ∈ s) := by
  induction s with
  | nil => intro v p d f pd h; simp [ipv4Loop] at h; simp [h]
  | cons c r ih =>
    intro v p d f pd h
    unfold ipv4Loop at h
    split at h
    · rename_i hc
      split at h
      · simp at h
      · simp only [] at h
        split at h
        · simp at h
        · obtain ⟨h1, h2, h3⟩ := ih _ _ _ _ _ h
          refine ⟨?_, h2, fun hp => by simp [h3 hp]⟩
          intro x hx; simp at hx; rcases hx with rfl | hx
          · exact Or.inl hc
          · exact h1 x hx
    · split at h
      · rename_i hdot
        split at h
        · simp at h
        · split at h
          · simp at h
          · obtain ⟨h1, h2, h3⟩ := ih _ _ _ _ _ h
            simp at hdot
            refine ⟨?_, by omega, fun _ => by simp [hdot]⟩
            intro x hx; simp at hx; rcases hx with rfl | hx
            · exact Or.inr hdot
            · exact h1 x hx
      · simp at h

theorem aux_firstSep_dot (s : Bytes) (h1 : ∀ c ∈ s, isDigit c = true ∨ c = 46) (h2 : 46 ∈ s) : firstSep s = some 46 := by
  induction s with
  | nil => simp at h2
  | cons c r ih =>
    unfold firstSep
    rcases h1 c (by simp) with hc | hc
    · have hne : c ≠ 46 ∧ c ≠ 58 ∧ c ≠ 37 := by
        simp [isDigit, Duration.isDigit] at hc; omega
      have hf : (c == 46 || c == 58 || c == 37) = false := by simp [hne]
      simp only [hf, Bool.false_eq_true, ↓reduceIte]
      apply ih (fun x hx => h1 x (by simp [hx]))
      simp at h2; rcases h2 with h2 | h2
      · exact absurd h2.symm hne.1
      · exact h2
    · subst hc; simp

/-- a dotted quad consists of digits and dots only -/
theorem aux_validIPv4_chars (s : Bytes) (h : validIPv4 s = true) :
    (∀ c ∈ s, isDigit c = true ∨ c = 46) ∧ validIP s = true := by
  obtain ⟨h1, _, h3⟩ := aux_ipv4Loop s 0 0 0 true false h
  refine ⟨h1, ?_⟩
  unfold validIP
  rw [aux_firstSep_dot s h1 (h3 (by omega))]
  exact h

theorem aux_digit_or_dot_free (s : Bytes) (h : ∀ c ∈ s, isDigit c = true ∨ c = 46) : 58 ∉ s ∧ 91 ∉ s ∧ 93 ∉ s := by
  refine ⟨?_, ?_, ?_⟩ <;> intro hm <;> rcases h _ hm with hc | hc <;> simp [isDigit, Duration.isDigit] at hc

/-- **An IPv4 address without a port gets port 53.** -/
theorem resolver_default_port (a : Bytes) (h : validIPv4 a = true) : normalizeAddr a = .ok (a ++ [58, 53, 51]) := by
  obtain ⟨hch, hip⟩ := aux_validIPv4_chars a h
  have hfree := aux_digit_or_dot_free a hch
  have hc : a.contains 58 = false := by simp [hfree.1]
  have hsp := aux_splitHostPort_simple a [53, 51] hfree (by decide)
  unfold normalizeAddr
  simp only [hc, Bool.false_eq_true, ↓reduceIte, hsp, hip]
  rfl

/-- **Resolver addresses are normalised as documented** (`ip[:port]`, default port 53, an IP
literal is required): whatever `normalizeAddrs` accepts is the address itself when it contains
a `:` and the address with `:53` appended otherwise; it splits into host and port
(`net.SplitHostPort`), the port is a decimal number ≤ 65535 and the host is an IP literal
(`net.ParseIP`: IPv4 dotted quad or IPv6 text, no zone). -/
theorem resolver_normalisation (a a' : Bytes) (h : normalizeAddr a = .ok a') :
    a' = (if a.contains 58 then a else a ++ [58, 53, 51]) ∧
    ∃ host port, splitHostPort a' = .ok (host, port) ∧ validIP host = true ∧
      port ≠ [] ∧ AllDigits port ∧ decVal port ≤ 65535 := by
  unfold normalizeAddr at h
  simp only [] at h
  generalize hadr : (if a.contains 58 = true then a else a ++ [58, 53, 51]) = adr at h
  cases hs : splitHostPort adr with
  | panic => rw [hs] at h; simp at h
  | error e => rw [hs] at h; simp at h
  | ok hp =>
    obtain ⟨host, port⟩ := hp
    rw [hs] at h
    simp only [] at h
    generalize hpu : parseUint maxU16 port = pu at h
    obtain ⟨p, e⟩ := pu
    cases e with
    | some e => simp at h
    | none =>
      simp only [] at h
      split at h
      · rename_i hip
        simp at h; subst h
        refine ⟨rfl, host, port, hs, hip, ?_⟩
        unfold parseUint at hpu
        split at hpu
        · simp at hpu
        · rename_i hne
          obtain ⟨h1, h2, h3⟩ := (aux_parseUintLoop_ok maxU16 port 0 p).mp hpu
          refine ⟨hne, h1, ?_⟩
          have := h3 hne
          simp only [maxU16] at this
          rw [h2] at this; exact this
      · simp at h

/-- a host that is not an IP literal is refused (e.g. a DNS name), as is a port that is not
a 16-bit decimal number; never a panic -/
theorem resolver_rejects (a : Bytes) (h : ∀ a', normalizeAddr a ≠ .ok a') : ∃ e, normalizeAddr a = .error e := by
  cases hn : normalizeAddr a with
  | ok x => exact absurd hn (h x)
  | error e => exact ⟨e, rfl⟩
  | panic =>
    exfalso
    unfold normalizeAddr at hn
    simp only [] at hn
    split at hn
    · rename_i hsp; exact splitHostPort_never_panics _ hsp
    · simp at hn
    · split at hn
      · simp at hn
      · split at hn <;> simp at hn

theorem normalizeAddr_never_panics (a : Bytes) : normalizeAddr a ≠ .panic := by
  intro hn
  unfold normalizeAddr at hn
  simp only [] at hn
  split at hn
  · rename_i hsp; exact splitHostPort_never_panics _ hsp
  · simp at hn
  · split at hn
    · simp at hn
    · split at hn <;> simp at hn

/-- element by element, in order -/
inductive AllNormal : List Bytes → List Bytes → Prop
  | nil : AllNormal [] []
  | cons {a a' : Bytes} {as out : List Bytes} : normalizeAddr a = .ok a' → AllNormal as out → AllNormal (a :: as) (a' :: out)

/-- the whole list: accepted exactly when every address is, element by element in order -/
theorem resolver_list (as out : List Bytes) : normalizeAddrs as = .ok out ↔ AllNormal as out := by
  induction as generalizing out with
  | nil =>
    constructor
    · intro h; simp [normalizeAddrs] at h; subst h; exact .nil
    · intro h; cases h; rfl
  | cons a r ih =>
    unfold normalizeAddrs
    cases ha : normalizeAddr a with
    | panic => simp only []; constructor; (intro h; simp at h); (intro h; cases h; rename_i h _; simp [ha] at h)
    | error e => simp only []; constructor; (intro h; simp at h); (intro h; cases h; rename_i h _; simp [ha] at h)
    | ok a' =>
      simp only []
      cases hr : normalizeAddrs r with
      | panic => simp only []; constructor; (intro h; simp at h); (intro h; cases h; rename_i _ h; rw [← ih] at h; simp [hr] at h)
      | error e => simp only []; constructor; (intro h; simp at h); (intro h; cases h; rename_i _ h; rw [← ih] at h; simp [hr] at h)
      | ok r' =>
        simp only []
        constructor
        · intro h; simp at h; subst h; exact .cons ha ((ih r').mp hr)
        · intro h; cases h; rename_i b l hb hl
          rw [ha] at hb; simp at hb; subst hb
          have := (ih l).mpr hl; rw [hr] at this; simp at this; subst this; rfl

theorem normalizeAddrs_never_panics (as : List Bytes) : normalizeAddrs as ≠ .panic := by
  induction as with
  | nil => simp [normalizeAddrs]
  | cons a r ih =>
    unfold normalizeAddrs
    cases ha : normalizeAddr a with
    | panic => exact absurd ha (normalizeAddr_never_panics a)
    | error e => simp
    | ok a' =>
      simp only []
      cases hr : normalizeAddrs r with
      | panic => exact absurd hr ih
      | error e => simp
      | ok r' => simp

example : normalizeAddrs [[49, 46, 50, 46, 51, 46, 52], [91, 58, 58, 49, 93, 58, 53, 51]] =
    .ok [[49, 46, 50, 46, 51, 46, 52, 58, 53, 51], [91, 58, 58, 49, 93, 58, 53, 51]] := by decide
-- "localhost" is not an IP literal
example : (normalizeAddr [108, 111, 99, 97, 108, 104, 111, 115, 116]).isOk = false := by decide

/-- the resolver hands out its addresses in rotation, starting with the second:
call `i` (counting from 1) uses `addrs[i mod len]`; with at least one address it never panics -/
theorem resolver_rotation (addrs : List Bytes) (hne : addrs ≠ []) : ∀ (n k : Nat),
    ∃ l, rotation addrs n k = .ok l ∧ l.length = n ∧ ∀ i, i < n → l[i]? = addrs[(k + i + 1) % addrs.length]? := by
  have hlen : 0 < addrs.length := List.length_pos_iff.mpr hne
  intro n
  induction n with
  | zero => intro k; exact ⟨[], rfl, rfl, by intro i hi; omega⟩
  | succ n ih =>
    intro k
    obtain ⟨l, h1, h2, h3⟩ := ih (k + 1)
    have hlt : (k + 1) % addrs.length < addrs.length := Nat.mod_lt _ hlen
    refine ⟨addrs[(k + 1) % addrs.length] :: l, ?_, by simp [h2], ?_⟩
    · unfold rotation
      have : ¬ addrs.length = 0 := by omega
      simp only [this, ↓reduceIte, List.getElem?_eq_getElem hlt, h1]
    · intro i hi
      cases i with
      | zero => simp [List.getElem?_eq_getElem hlt]
      | succ j =>
        have := h3 j (by omega)
        simp only [List.getElem?_cons_succ, this]
        congr 2; omega


/-! ### the remaining parsers never panic -/

theorem header_never_panics (h : Header) (v : Bytes) : (headerSet h v).out ≠ .panic := by
  rw [aux_headerSet]
  cases headerParse v with
  | none => simp
  | some p => simp

theorem aux_dsLoop_never_panics (t : Bytes) : ∀ (acc : Nat) (first : Bool), dsLoop t acc first ≠ .panic := by
  induction t with
  | nil => intro acc first; simp [dsLoop]
  | cons c r ih =>
    intro acc first
    unfold dsLoop
    repeat' (first | exact ih _ _ | split | simp)

theorem max_body_never_panics (n0 : Int) (v : Bytes) : (maxBodySet n0 v).out ≠ .panic := by
  unfold maxBodySet
  split
  · simp
  · cases hd : dsUnmarshal v with
    | ok b => simp only []; split <;> simp
    | error e => simp
    | panic =>
      exfalso
      unfold dsUnmarshal at hd
      split at hd
      · simp at hd
      · rename_i hl; exact aux_dsLoop_never_panics _ _ _ hl
      · simp only [] at hd
        repeat' (first | contradiction | split at hd)

/-! ### whole command lines: repeated flags in any order -/

def rateVals : List FlagArg → List Bytes
  | [] => []
  | .rate v :: r => v :: rateVals r
  | _ :: r => rateVals r

def headerVals : List FlagArg → List Bytes
  | [] => []
  | .header v :: r => v :: headerVals r
  | _ :: r => headerVals r

def connectVals : List FlagArg → List Bytes
  | [] => []
  | .connectTo v :: r => v :: connectVals r
  | _ :: r => connectVals r

def maxWorkersVals : List FlagArg → List Nat
  | [] => []
  | .maxWorkers n :: r => n :: maxWorkersVals r
  | _ :: r => maxWorkersVals r

/-- **Flags of different kinds do not interfere, in any order**: when a command line is
accepted, the rate is the result of the `-rate` values alone (in their order), the headers of
the `-header` values alone, the connect-to map of the `-connect-to` values alone, and
`-max-workers` is the last one given — wherever the other flags stand in between. -/
theorem cmdline_flags_independent (args : List FlagArg) : ∀ (o o' : Opts), parseArgs o args = .ok o' →
    o'.rate = (setAll rateSet o.rate (rateVals args)).2 ∧
    o'.headers = (setAll headerSet o.headers (headerVals args)).2 ∧
    o'.connectTo = (setAll connectToSet o.connectTo (connectVals args)).2 ∧
    o'.maxWorkers = ((maxWorkersVals args).getLast?).getD o.maxWorkers := by
  induction args with
  | nil => intro o o' h; simp [parseArgs] at h; subst h; simp [setAll, rateVals, headerVals, connectVals, maxWorkersVals]
  | cons a rest ih =>
    intro o o' h
    unfold parseArgs at h
    split at h
    · rename_i o1 ha
      obtain ⟨i1, i2, i3, i4⟩ := ih o1 o' h
      cases a with
      | rate v =>
        simp [applyArg] at ha
        obtain ⟨rfl, _⟩ := ha
        simp [rateVals, headerVals, connectVals, maxWorkersVals, setAll, i1, i2, i3, i4]
      | header v =>
        simp [applyArg] at ha
        obtain ⟨rfl, _⟩ := ha
        simp [rateVals, headerVals, connectVals, maxWorkersVals, setAll, i1, i2, i3, i4]
      | maxBody v =>
        simp [applyArg] at ha
        obtain ⟨rfl, _⟩ := ha
        simp [rateVals, headerVals, connectVals, maxWorkersVals, i1, i2, i3, i4]
      | dnsTTL v =>
        simp [applyArg] at ha
        obtain ⟨rfl, _⟩ := ha
        simp [rateVals, headerVals, connectVals, maxWorkersVals, i1, i2, i3, i4]
      | connectTo v =>
        simp [applyArg] at ha
        obtain ⟨rfl, _⟩ := ha
        simp [rateVals, headerVals, connectVals, maxWorkersVals, setAll, i1, i2, i3, i4]
      | maxWorkers n =>
        simp only [applyArg] at ha
        split at ha
        · simp at ha; subst ha
          simp only [rateVals, headerVals, connectVals, maxWorkersVals, i1, i2, i3, i4, true_and]
          cases hm : maxWorkersVals rest with
          | nil => simp
          | cons x xs =>
            cases hl : (x :: xs).getLast? with
            | none => simp at hl
            | some y => simp [hl]
        · simp at ha
    · simp at h
    · simp at h

/-- `-rate=0` as the last `-rate` flag of an accepted command line without `-max-workers`
makes the guard of `attack` fire, wherever it stands among the other flags. -/
theorem cmdline_rate_zero_guarded (args : List FlagArg) (o' : Opts) (h : parseArgs defaultOpts args = .ok o')
    (hmw : maxWorkersVals args = []) (pre : List Bytes) (hr : rateVals args = pre ++ [[48]]) :
    attackGuard o'.maxWorkers o'.rate = true := by
  obtain ⟨h1, _, _, h4⟩ := cmdline_flags_independent args defaultOpts o' h
  rw [hmw] at h4
  simp [defaultOpts] at h4
  have hlast : ∀ (vs : List Bytes) (r : Rate), ((setAll rateSet r (vs ++ [[48]])).2).freq = 0 := by
    intro vs
    induction vs with
    | nil => intro r; simp [setAll, (rate_zero_literal r).1]
    | cons v vs ih => intro r; simp only [List.cons_append, setAll]; exact ih _
  rw [guard_iff]
  refine ⟨h4, ?_⟩
  rw [h1, hr]
  exact hlast pre _

/-- the same for `-rate=infinity` as the last `-rate` flag -/
theorem cmdline_rate_infinity_guarded (args : List FlagArg) (o' : Opts) (h : parseArgs defaultOpts args = .ok o')
    (hmw : maxWorkersVals args = []) (pre : List Bytes) (hr : rateVals args = pre ++ [infinityWord]) :
    attackGuard o'.maxWorkers o'.rate = true := by
  obtain ⟨h1, _, _, h4⟩ := cmdline_flags_independent args defaultOpts o' h
  rw [hmw] at h4
  simp [defaultOpts] at h4
  have hlast : ∀ (vs : List Bytes) (r : Rate), ((setAll rateSet r (vs ++ [infinityWord])).2).freq = 0 := by
    intro vs
    induction vs with
    | nil => intro r; simp [setAll, (rate_infinity_unlimited_and_guarded r).1]
    | cons v vs ih => intro r; simp only [List.cons_append, setAll]; exact ih _
  rw [guard_iff]
  refine ⟨h4, ?_⟩
  rw [h1, hr]
  exact hlast pre _

/-! ### facts regenerated from the source -/

theorem facts_default_rate : Vegeta.Extracted.c19DefaultRateFound = true ∧
    Vegeta.Extracted.c19DefaultRate = (defaultRate.freq, defaultRate.per) := by decide

theorem facts_default_max_workers : Vegeta.Extracted.c19DefaultMaxWorkers = defaultMaxWorkers ∧
    Vegeta.Extracted.c19DefaultMaxWorkersExpr = ofAscii "math.MaxUint64" := by decide

/-- the guard is the first statement of `attack`, returns an error, and has the modelled shape -/
theorem facts_guard : Vegeta.Extracted.c19GuardIsFirstStatement = true ∧ Vegeta.Extracted.c19GuardReturnsError = true ∧
    Vegeta.Extracted.c19GuardCond = ofAscii "opts.maxWorkers == vegeta.DefaultMaxWorkers && opts.rate.Freq == 0" := by decide

/-- the pacer handed to `Attack` is the parsed rate itself -/
theorem facts_pacer_is_rate : Vegeta.Extracted.c19PacerArg = ofAscii "opts.rate" := by decide

/-- flag name ↔ `flag.Value` type ↔ option field -/
theorem facts_flag_table :
    Vegeta.Extracted.c19FlagTable =
      [(ofAscii "max-workers", ofAscii "Uint64Var", ofAscii "maxWorkers"),
       (ofAscii "max-body", ofAscii "maxBodyFlag", ofAscii "maxBody"),
       (ofAscii "rate", ofAscii "rateFlag", ofAscii "rate"),
       (ofAscii "header", ofAscii "headers", ofAscii "headers"),
       (ofAscii "dns-ttl", ofAscii "dnsTTLFlag", ofAscii "dnsTTL"),
       (ofAscii "connect-to", ofAscii "connectToFlag", ofAscii "connectTo"),
       (ofAscii "resolvers", ofAscii "csl", ofAscii "resolvers")] := by decide

/-- the only special word of `rateFlag.Set` is `infinity`, and its branch is exactly
`f.Freq = 0; return nil` — the repair of defect 13; reverting it breaks this obligation -/
theorem facts_rate_infinity_branch : Vegeta.Extracted.c19RateSpecialWords = [infinityWord] ∧
    Vegeta.Extracted.c19RateSpecialWordBranches = [[ofAscii "f.Freq = 0", ofAscii "return nil"]] := by decide

/-- the literals of `rateFlag.Set` are the model's -/
theorem facts_rate_literals : Vegeta.Extracted.c19RateSpecialWords = [infinityWord] ∧
    Vegeta.Extracted.c19RateBareUnits = bareUnits ∧ Vegeta.Extracted.c19RateDefaultPer = [49, 115] ∧
    Vegeta.Extracted.c19RateSplit = ofAscii "/|2" := by decide

/-- every unit name of `datasize.ByteSize.UnmarshalText` (module version pinned by go.mod),
lower-cased, has the multiplier the model's table gives; the bit-unit spellings agree -/
theorem facts_datasize_units :
    (∀ e ∈ Vegeta.Extracted.c19DatasizeUnits, ∀ nm ∈ e.1, dsUnitShift (toLower nm) = some e.2) ∧
    Vegeta.Extracted.c19DatasizeUnits.length = 7 ∧
    Vegeta.Extracted.c19DatasizeBitsUnits = bitsUnits := by decide

/-- …and the model's table has no unit the library lacks -/
theorem facts_datasize_units_complete (u : Bytes) (k : Nat) (h : dsUnitShift u = some k) :
    ∃ e ∈ Vegeta.Extracted.c19DatasizeUnits, e.2 = k ∧ u ∈ e.1.map toLower := by
  unfold dsUnitShift at h
  split at h
  · next hu => simp at h; subst h; rcases hu with hu | hu | hu <;> subst hu <;> decide
  ·
    split at h
    · next hu => simp at h; subst h; rcases hu with hu | hu | hu | hu | hu <;> subst hu <;> decide
    ·
      split at h
      · next hu => simp at h; subst h; rcases hu with hu | hu | hu | hu | hu <;> subst hu <;> decide
      ·
        split at h
        · next hu => simp at h; subst h; rcases hu with hu | hu | hu | hu | hu <;> subst hu <;> decide
        ·
          split at h
          · next hu => simp at h; subst h; rcases hu with hu | hu | hu | hu | hu <;> subst hu <;> decide
          ·
            split at h
            · next hu => simp at h; subst h; rcases hu with hu | hu | hu | hu | hu <;> subst hu <;> decide
            ·
              split at h
              · next hu => simp at h; subst h; rcases hu with hu | hu <;> subst hu <;> decide
              · simp at h


/-! ### flag values as state machines: arbitrary sequences of `Set` calls -/

/-- the state after a sequence of `Set` calls followed by one more is the state that last call
leaves when started from the state the sequence left -/
theorem aux_setAll_append {σ} (set : σ → Bytes → Res σ) (vs : List Bytes) (v : Bytes) : ∀ s : σ,
    (setAll set s (vs ++ [v])).2 = (set (setAll set s vs).2 v).st := by
  induction vs with
  | nil => intro s; simp [setAll]
  | cons x xs ih => intro s; simp only [List.cons_append, setAll]; exact ih _

/-- **`-rate`: the last `Set` decides, whatever was set before** — for every initial rate, every
earlier sequence of values (accepted or not) and a last value `N/D`, `N/unit` or bare `N` with
`N ≠ 0`: the flag holds exactly `N` per `D` (`D` = 1 s for a bare `N`: the period of an earlier
`-rate=100/m` does not survive a later `-rate=50`). -/
theorem rate_sequence_last_wins (r : Rate) (vs : List Bytes) (nb : Bytes) (n : Int) (hn : IntLit nb n) (hn0 : n ≠ 0) :
    (setAll rateSet r (vs ++ [nb])).2 = ⟨n, 1000000000⟩ ∧
    (∀ db d, Duration.parse db = .ok d → (setAll rateSet r (vs ++ [nb ++ 47 :: db])).2 = ⟨n, d⟩) ∧
    (∀ u ∈ bareUnits, ∃ ns : Nat, Duration.unitValue u = some ns ∧ (setAll rateSet r (vs ++ [nb ++ 47 :: u])).2 = ⟨n, ns⟩) := by
  refine ⟨?_, ?_, ?_⟩
  · rw [aux_setAll_append, rate_parse_no_unit _ nb n hn hn0]
  · intro db d hd
    rw [aux_setAll_append, rate_parse _ nb db n d hn hn0 hd]
  · intro u hu
    obtain ⟨ns, h1, h2⟩ := rate_parse_bare_unit (setAll rateSet r vs).2 nb u n hn hn0 hu
    exact ⟨ns, h1, by rw [aux_setAll_append, h2]⟩

/-- a last `0` (any accepted form with integer part 0) or `infinity` makes the rate unlimited and
leaves the period of the state before it: exactly `⟨0, previous Per⟩` -/
theorem rate_sequence_last_unlimited (r : Rate) (vs : List Bytes) :
    (setAll rateSet r (vs ++ [infinityWord])).2 = ⟨0, (setAll rateSet r vs).2.per⟩ ∧
    (∀ v nb db, RateSplit v nb db → IntLit nb 0 → (setAll rateSet r (vs ++ [v])).2 = ⟨0, (setAll rateSet r vs).2.per⟩) := by
  refine ⟨?_, ?_⟩
  · rw [aux_setAll_append, (rate_infinity_unlimited_and_guarded _).1]
  · intro v nb db hs hz
    rw [aux_setAll_append, (rate_zero_unlimited_and_guarded _ v nb db hs hz).1]

/-- **What a failing `-rate` `Set` leaves behind** (Go assigns `f.Freq` / `f.Per` also on error): after
a refused value the state is the old one with `Freq` replaced by what `Atoi` returned (0 on a
syntax error, ±max on a range error), or — when the integer was fine and the duration was not —
`⟨N, 0⟩`. Nothing else. -/
theorem rate_failed_set_state (r : Rate) (v : Bytes) (e : Nat) (h : (rateSet r v).out = .error e) :
    ∃ nb db, RateSplit v nb db ∧
      (((atoi nb).2 = some e ∧ (rateSet r v).st = ⟨(atoi nb).1, r.per⟩) ∨
       ((atoi nb).2 = none ∧ (rateSet r v).st = ⟨(atoi nb).1, 0⟩)) := by
  have hinf : v ≠ infinityWord := by
    intro hv; rw [hv] at h; simp [rateSet] at h
  obtain ⟨nb, db, hs⟩ := aux_rate_split_exists v
  refine ⟨nb, db, hs, ?_⟩
  rw [aux_rateSet_parts r v nb db hinf hs] at h ⊢
  generalize atoi nb = p at h ⊢
  obtain ⟨n, eo⟩ := p
  cases eo with
  | some e' => simp at h; subst h; left; exact ⟨rfl, rfl⟩
  | none =>
    simp only [] at h ⊢
    split at h
    · simp at h
    · rename_i hn
      simp only [hn, ↓reduceIte]
      split at h
      · simp at h
      · right; exact ⟨trivial, rfl⟩
      · simp at h

example : (setAll rateSet defaultRate [[49, 48, 48, 47, 109], [53, 48]]).2 = ⟨50, 1000000000⟩ := by decide   -- 100/m then 50
example : (rateSet ⟨7, 60000000000⟩ [120]).out = .error eSyntax ∧ (rateSet ⟨7, 60000000000⟩ [120]).st = ⟨0, 60000000000⟩ := by decide

/-- **`-header` / `-connect-to` / `-max-body` / `-dns-ttl`: a refused value leaves the flag's state
exactly as it was** — except `-dns-ttl`, whose `*(f.ttl), err = ParseDuration(v)` stores 0. -/
theorem failed_set_leaves_state (v : Bytes) :
    (∀ h : Header, (headerSet h v).out ≠ .ok () → (headerSet h v).st = h) ∧
    (∀ m : AddrMap, (connectToSet m v).out ≠ .ok () → (connectToSet m v).st = m) ∧
    (∀ n : Int, (maxBodySet n v).out ≠ .ok () → (maxBodySet n v).st = n) ∧
    (∀ d : Int, (dnsTTLSet d v).out ≠ .ok () → (dnsTTLSet d v).st = 0) := by
  refine ⟨?_, ?_, ?_, ?_⟩
  · intro h hne
    rw [aux_headerSet] at hne ⊢
    cases hp : headerParse v with
    | none => rfl
    | some p => rw [hp] at hne; simp at hne
  · intro m hne
    have := aux_connectToSet m v
    cases hp : connectParse v with
    | none => rw [hp] at this; obtain ⟨e, he⟩ := this; rw [he]
    | some p => obtain ⟨k, x⟩ := p; rw [hp] at this; simp only [] at this; rw [this] at hne; simp at hne
  · intro n hne
    unfold maxBodySet at hne ⊢
    split
    · rename_i hv; simp [hv] at hne
    · rename_i hv
      simp only [hv, ↓reduceIte] at hne
      cases hd : dsUnmarshal v with
      | ok b => simp only [hd] at hne ⊢; split <;> simp_all
      | error e => rfl
      | panic => rfl
  · intro d hne
    unfold dnsTTLSet at hne ⊢
    split
    · rename_i hv; simp [hv] at hne
    · rename_i hv
      simp only [hv, ↓reduceIte] at hne
      cases hp : Duration.parse v with
      | ok x => simp [hp] at hne
      | error e => rfl
      | panic => exact absurd hp (Vegeta.Proofs.DurationRoundTrip.parse_never_panics v)

/-- **`-max-body` / `-dns-ttl`: the last accepted `Set` decides**, whatever sequence came before:
the stored value is the one that last text means, taken alone. -/
theorem scalar_flags_last_wins (vs : List Bytes) (v : Bytes) :
    (∀ (n0 n1 x : Int), maxBodySet n1 v = ⟨x, .ok ()⟩ → (setAll maxBodySet n0 (vs ++ [v])).2 = x) ∧
    (∀ (d0 d1 x : Int), dnsTTLSet d1 v = ⟨x, .ok ()⟩ → (setAll dnsTTLSet d0 (vs ++ [v])).2 = x) := by
  refine ⟨?_, ?_⟩
  · intro n0 n1 x h
    rw [aux_setAll_append]
    generalize (setAll maxBodySet n0 vs).2 = s
    unfold maxBodySet at h ⊢
    split
    · rename_i hv; simp [hv] at h; exact h.symm ▸ rfl
    · rename_i hv
      simp only [hv, ↓reduceIte] at h
      cases hd : dsUnmarshal v with
      | ok b => simp only [hd] at h ⊢; split <;> simp_all
      | error e => simp [hd] at h
      | panic => simp [hd] at h
  · intro d0 d1 x h
    rw [aux_setAll_append]
    generalize (setAll dnsTTLSet d0 vs).2 = s
    unfold dnsTTLSet at h ⊢
    split
    · rename_i hv; simp [hv] at h; exact h.symm ▸ rfl
    · rename_i hv
      simp only [hv, ↓reduceIte] at h
      cases hp : Duration.parse v with
      | ok y => simp [hp] at h ⊢; exact h
      | error e => simp [hp] at h
      | panic => simp [hp] at h

/-- **`-dns-ttl` stores the parsed duration itself — no rounding**: whatever `Set` accepts other than
`-1` is exactly `ParseDuration(v)`, in nanoseconds (1.5 s stays 1.5 s, 999 ms does not become 0). -/
theorem dns_ttl_identity (d0 x : Int) (v : Bytes) (hv : v ≠ minusOne) (h : dnsTTLSet d0 v = ⟨x, .ok ()⟩) :
    Duration.parse v = .ok x := ((dns_ttl_meaning d0).2.2.1 v x hv).mp h

example : dnsTTLSet 0 [49, 46, 53, 115] = ⟨1500000000, .ok ()⟩ ∧ dnsTTLSet 0 [57, 57, 57, 109, 115] = ⟨999000000, .ok ()⟩ := by decide

/-- printed forms the flag round-trips although `Duration.String` pads them (`1m0s`, `1h0m10s`) or
ends in `0s` without being padded (`1m10s`): instances of `rate_string_roundtrip` -/
example : rateSet ⟨0, 0⟩ (rateString ⟨50, 60000000000⟩) = ⟨⟨50, 60000000000⟩, .ok ()⟩ ∧
    rateSet ⟨0, 0⟩ (rateString ⟨50, 70000000000⟩) = ⟨⟨50, 70000000000⟩, .ok ()⟩ ∧
    rateSet ⟨0, 0⟩ (rateString ⟨50, 90000000000⟩) = ⟨⟨50, 90000000000⟩, .ok ()⟩ ∧
    rateSet ⟨0, 0⟩ (rateString ⟨50, 3610000000000⟩) = ⟨⟨50, 3610000000000⟩, .ok ()⟩ := by decide


/-! ### from the command line to what `attack` hands on -/

def maxBodyVals : List FlagArg → List Bytes
  | [] => []
  | .maxBody v :: r => v :: maxBodyVals r
  | _ :: r => maxBodyVals r

def dnsTTLVals : List FlagArg → List Bytes
  | [] => []
  | .dnsTTL v :: r => v :: dnsTTLVals r
  | _ :: r => dnsTTLVals r

/-- **`attack` passes every parsed value on unchanged** (when the guard lets it run): the header map
of the `-header` flag is the very map given to the targeter — same keys byte for byte, same values
in the same order, no copy through a canonicalising `Add` —, the rate is the pacer, `-max-body`,
`-dns-ttl` (no rounding), `-connect-to` and `-max-workers` reach the attacker as parsed. The guard
is the only way `attack` refuses these values. (Source tie: `facts_plumbing`.) -/
theorem attack_plumbing_identity (o : Opts) :
    (attackGuard o.maxWorkers o.rate = true → attackPlumbing o = .error eGuard) ∧
    (attackGuard o.maxWorkers o.rate = false → attackPlumbing o =
      .ok { targeterHeader := o.headers, pacer := o.rate, maxWorkers := o.maxWorkers, maxBody := o.maxBody,
            dnsTTL := o.dnsTTL, connectTo := o.connectTo }) := by
  unfold attackPlumbing
  constructor <;> intro h <;> simp [h]

/-- flags that are not given keep the documented defaults through the whole command line -/
theorem aux_unset_keep (args : List FlagArg) : ∀ (o o' : Opts), parseArgs o args = .ok o' →
    (maxBodyVals args = [] → o'.maxBody = o.maxBody) ∧ (dnsTTLVals args = [] → o'.dnsTTL = o.dnsTTL) ∧
    (rateVals args = [] → o'.rate = o.rate) ∧ (maxWorkersVals args = [] → o'.maxWorkers = o.maxWorkers) ∧
    (headerVals args = [] → o'.headers = o.headers) ∧ (connectVals args = [] → o'.connectTo = o.connectTo) := by
  induction args with
  | nil => intro o o' h; simp [parseArgs] at h; subst h; simp
  | cons a rest ih =>
    intro o o' h
    unfold parseArgs at h
    split at h
    · rename_i o1 ha
      obtain ⟨i1, i2, i3, i4, i5, i6⟩ := ih o1 o' h
      cases a with
      | rate v =>
        simp [applyArg] at ha; obtain ⟨rfl, _⟩ := ha
        simp [maxBodyVals, dnsTTLVals, rateVals, maxWorkersVals, headerVals, connectVals] at *
        exact ⟨i1, i2, i4, i5, i6⟩
      | header v =>
        simp [applyArg] at ha; obtain ⟨rfl, _⟩ := ha
        simp [maxBodyVals, dnsTTLVals, rateVals, maxWorkersVals, headerVals, connectVals] at *
        exact ⟨i1, i2, i3, i4, i6⟩
      | maxBody v =>
        simp [applyArg] at ha; obtain ⟨rfl, _⟩ := ha
        simp [maxBodyVals, dnsTTLVals, rateVals, maxWorkersVals, headerVals, connectVals] at *
        exact ⟨i2, i3, i4, i5, i6⟩
      | dnsTTL v =>
        simp [applyArg] at ha; obtain ⟨rfl, _⟩ := ha
        simp [maxBodyVals, dnsTTLVals, rateVals, maxWorkersVals, headerVals, connectVals] at *
        exact ⟨i1, i3, i4, i5, i6⟩
      | connectTo v =>
        simp [applyArg] at ha; obtain ⟨rfl, _⟩ := ha
        simp [maxBodyVals, dnsTTLVals, rateVals, maxWorkersVals, headerVals, connectVals] at *
        exact ⟨i1, i2, i3, i4, i5⟩
      | maxWorkers n =>
        simp only [applyArg] at ha
        split at ha
        · simp at ha; subst ha
          simp [maxBodyVals, dnsTTLVals, rateVals, maxWorkersVals, headerVals, connectVals] at *
          exact ⟨i1, i2, i3, i5, i6⟩
        · simp at ha
    · simp at h
    · simp at h

/-- **Documented defaults**: on an accepted command line every flag that was not given has its
documented default — rate 50/1s, `-max-workers` 18446744073709551615, `-max-body` -1, `-dns-ttl` 0,
no headers, no connect-to mapping (README usage; source tie: `facts_default_rate`,
`facts_default_max_workers`, `facts_defaults`). -/
theorem cmdline_unset_flags_keep_defaults (args : List FlagArg) (o : Opts) (h : parseArgs defaultOpts args = .ok o) :
    (rateVals args = [] → o.rate = ⟨50, 1000000000⟩) ∧
    (maxWorkersVals args = [] → o.maxWorkers = 18446744073709551615) ∧
    (maxBodyVals args = [] → o.maxBody = -1) ∧ (dnsTTLVals args = [] → o.dnsTTL = 0) ∧
    (headerVals args = [] → o.headers = []) ∧ (connectVals args = [] → o.connectTo = []) := by
  obtain ⟨i1, i2, i3, i4, i5, i6⟩ := aux_unset_keep args defaultOpts o h
  exact ⟨i3, i4, i1, i2, i5, i6⟩

/-- the scalar flags: the value `attack` sees is the result of that flag's own values alone -/
theorem aux_scalar_independent (args : List FlagArg) : ∀ (o o' : Opts), parseArgs o args = .ok o' →
    o'.maxBody = (setAll maxBodySet o.maxBody (maxBodyVals args)).2 ∧
    o'.dnsTTL = (setAll dnsTTLSet o.dnsTTL (dnsTTLVals args)).2 := by
  induction args with
  | nil => intro o o' h; simp [parseArgs] at h; subst h; simp [setAll, maxBodyVals, dnsTTLVals]
  | cons a rest ih =>
    intro o o' h
    unfold parseArgs at h
    split at h
    · rename_i o1 ha
      obtain ⟨i1, i2⟩ := ih o1 o' h
      cases a with
      | rate v => simp [applyArg] at ha; obtain ⟨rfl, _⟩ := ha; simp [maxBodyVals, dnsTTLVals, i1, i2]
      | header v => simp [applyArg] at ha; obtain ⟨rfl, _⟩ := ha; simp [maxBodyVals, dnsTTLVals, i1, i2]
      | maxBody v => simp [applyArg] at ha; obtain ⟨rfl, _⟩ := ha; simp [maxBodyVals, dnsTTLVals, setAll, i1, i2]
      | dnsTTL v => simp [applyArg] at ha; obtain ⟨rfl, _⟩ := ha; simp [maxBodyVals, dnsTTLVals, setAll, i1, i2]
      | connectTo v => simp [applyArg] at ha; obtain ⟨rfl, _⟩ := ha; simp [maxBodyVals, dnsTTLVals, i1, i2]
      | maxWorkers n =>
        simp only [applyArg] at ha
        split at ha
        · simp at ha; subst ha; simp [maxBodyVals, dnsTTLVals, i1, i2]
        · simp at ha
    · simp at h
    · simp at h

/-- **End to end, from the words on the command line to what the attack is run with** — for every
command line of these flags that `vegeta attack` accepts (flags of any kinds, any number, any
order) and that passes the guard:
* the targeter's default headers are, under every key `k` compared byte for byte, exactly the
  values of the well-formed `-header` flags with that key, in command-line order — nothing merged
  under another spelling, nothing renamed (the on-the-wire oracle `header_case_on_wire` is this
  statement observed through the targeter and the HTTP client);
* the pacer is the state the `-rate` flags alone leave (so the last one decides,
  `rate_sequence_last_wins`);
* `-max-body` / `-dns-ttl` are what their own flags alone leave (the last accepted one,
  `scalar_flags_last_wins`; `-dns-ttl` unrounded, `dns_ttl_identity`);
* the connect-to map is the fold of the `-connect-to` flags; `-max-workers` is the last one given. -/
theorem attack_command_end_to_end (args : List FlagArg) (p : Plumbed) (h : attackCommand args = .ok p) :
    (∀ k, lookup p.targeterHeader k = valuesFor headerParse (headerVals args) k) ∧
    p.pacer = (setAll rateSet defaultRate (rateVals args)).2 ∧
    p.maxBody = (setAll maxBodySet (-1) (maxBodyVals args)).2 ∧
    p.dnsTTL = (setAll dnsTTLSet 0 (dnsTTLVals args)).2 ∧
    (∀ k, lookup p.connectTo k = valuesFor connectParse (connectVals args) k) ∧
    p.maxWorkers = ((maxWorkersVals args).getLast?).getD defaultMaxWorkers ∧
    attackGuard p.maxWorkers p.pacer = false := by
  unfold attackCommand at h
  cases hp : parseArgs defaultOpts args with
  | error e => rw [hp] at h; simp at h
  | panic => rw [hp] at h; simp at h
  | ok o =>
    rw [hp] at h
    simp only [] at h
    obtain ⟨g1, g2⟩ := attack_plumbing_identity o
    cases hg : attackGuard o.maxWorkers o.rate with
    | true => rw [g1 hg] at h; simp at h
    | false =>
      rw [g2 hg] at h
      simp at h; subst h
      obtain ⟨a1, a2, a3, a4⟩ := cmdline_flags_independent args defaultOpts o hp
      obtain ⟨b1, b2⟩ := aux_scalar_independent args defaultOpts o hp
      have hh := (headers_accumulate_case_preserved [] (headerVals args)).2.1
      have hc := (connect_to_mapping [] (connectVals args)).1
      simp only [defaultOpts] at a1 a2 a3 a4 b1 b2
      refine ⟨?_, a1, b1, b2, ?_, a4, hg⟩
      · intro k; simp only []; rw [a2, hh k]; simp [lookup]
      · intro k; simp only []; rw [a3, hc k]; simp [lookup]

-- -header "x-api-key: 1" -rate 100/m -header "X-API-KEY: 2" -rate 50 -max-workers 3
example : (attackCommand [.header [120, 45, 97, 58, 32, 49], .rate [49, 48, 48, 47, 109], .header [88, 45, 65, 58, 32, 50], .rate [53, 48],
      .maxWorkers 3]).isOk = true := by decide
example : attackCommand [.rate [48]] = .error eGuard := by decide

/-! #### source facts for the plumbing and the defaults -/

/-- `attack()` reads the header maps straight from the flag values, hands `hdr` to both targeters and
passes each option the parsed field itself -/
theorem facts_plumbing :
    Vegeta.Extracted.c19HeaderVars = [ofAscii "hdr = opts.headers.Header", ofAscii "proxyHdr = opts.proxyHeaders.Header"] ∧
    Vegeta.Extracted.c19TargeterHeaderArgs = [ofAscii "NewJSONTargeter(hdr)", ofAscii "NewHTTPTargeter(hdr)"] ∧
    Vegeta.Extracted.c19OptionArgs = [ofAscii "MaxWorkers(opts.maxWorkers)", ofAscii "MaxBody(opts.maxBody)",
      ofAscii "ProxyHeader(proxyHdr)", ofAscii "DNSCaching(opts.dnsTTL)", ofAscii "ConnectTo(opts.connectTo)"] := by decide

/-- the option defaults: `maxBody: vegeta.DefaultMaxBody` = `int64(-1)`; `dnsTTL` and `connectTo` are
not in the literal (zero values: 0 and the nil map) -/
theorem facts_defaults :
    Vegeta.Extracted.c19DefaultMaxBodyExpr = [ofAscii "vegeta.DefaultMaxBody", ofAscii "int64(-1)"] ∧
    ofAscii "dnsTTL" ∉ Vegeta.Extracted.c19OptsLiteralKeys ∧ ofAscii "connectTo" ∉ Vegeta.Extracted.c19OptsLiteralKeys ∧
    ofAscii "maxWorkers" ∉ Vegeta.Extracted.c19OptsLiteralKeys := by decide

end Vegeta.Props.C19
