/-
C08 — Format auto-detection and transcoding never lose, duplicate or alter results.

Theorems about `Vegeta.Model.DecoderFor`: the loop of `DecoderFor` over the reader algebra
(underlying reader with an arbitrary chunk oracle, `bytes.Reader` snapshot, `TeeReader` into `buf`,
`MultiReader`), trial decoders being arbitrary finite read scripts with an arbitrary verdict, and
transcoding chains over an abstract codec family.
-/
import Vegeta.Model.DecoderFor
import Vegeta.Proofs.Sniff
import Vegeta.Proofs.Chain
import Vegeta.Proofs.ChainCodecs
import Vegeta.Proofs.Commands
import Vegeta.Extracted.Facts
namespace Vegeta.Props.C08
open Vegeta.Go Vegeta.Model.DecoderFor

/-! ### the reader algebra, `sniff_preserves_stream`, the final reader, the chosen decoder: Proofs/Sniff.lean;
the command level (`decoder(files)`, the `encode` command, output replacement): Proofs/Commands.lean -/

/-! ### first bytes of encoded records -/

theorem aux_digitsRev (fuel n : Nat) (hf : 0 < fuel) :
    Duration.digitsRev fuel n ≠ [] ∧ ∀ b ∈ Duration.digitsRev fuel n, isDigit b = true := by
  induction fuel generalizing n with
  | zero => omega
  | succ fuel ih =>
    unfold Duration.digitsRev
    split
    · rename_i h
      refine ⟨by simp, ?_⟩
      intro b hb
      simp only [List.mem_singleton] at hb
      subst hb
      simp [isDigit]; omega
    · refine ⟨by simp, ?_⟩
      intro b hb
      rcases List.mem_cons.mp hb with h | h
      · subst h
        have : n % 10 < 10 := Nat.mod_lt _ (by omega)
        simp [isDigit]; omega
      · cases fuel with
        | zero => simp [Duration.digitsRev] at h
        | succ fuel => exact (ih (n / 10) (by omega)).2 b h

theorem aux_fmtNat_head (n : Nat) : ∃ b tl, Duration.fmtNat n = b :: tl ∧ isDigit b = true := by
  obtain ⟨hne, hall⟩ := aux_digitsRev (n + 1) n (by omega)
  unfold Duration.fmtNat
  cases hr : (Duration.digitsRev (n + 1) n).reverse with
  | nil => simp at hr; exact absurd hr hne
  | cons b tl =>
    refine ⟨b, tl, rfl, hall b ?_⟩
    have : b ∈ (Duration.digitsRev (n + 1) n).reverse := by rw [hr]; simp
    simpa using this

/-- **A CSV record written by the encoder starts with a digit or `-`** (its first field is the
decimal Unix-nanosecond timestamp, never quoted). -/
theorem csv_record_first_byte (unixNano : Int) (rest : Bytes) :
    ∃ b tl, csvRecord unixNano rest = b :: tl ∧ (isDigit b = true ∨ b = 45) := by
  unfold csvRecord fmtInt
  split
  · exact ⟨45, _, rfl, Or.inr rfl⟩
  · obtain ⟨b, tl, h, hd⟩ := aux_fmtNat_head unixNano.natAbs
    exact ⟨b, tl ++ 44 :: rest, by rw [h]; rfl, Or.inl hd⟩

/-- **A JSON record written by the encoder starts with `{`.** -/
theorem json_record_first_byte (body : Bytes) : ∃ tl, jsonRecord body = 123 :: tl := ⟨body, rfl⟩

/-- The two text formats cannot be confused by their first byte: no CSV record starts like a JSON
record. -/
theorem csv_json_first_bytes_differ (unixNano : Int) (rest body : Bytes) :
    (csvRecord unixNano rest).head? ≠ (jsonRecord body).head? := by
  obtain ⟨b, tl, h, hb⟩ := csv_record_first_byte unixNano rest
  rw [h]
  simp only [jsonRecord, List.head?_cons, ne_eq, Option.some.injEq]
  rcases hb with hb | hb
  · intro hh; subst hh; simp [isDigit] at hb
  · omega

/-- **The three formats are told apart by the first byte of any non-empty stream of the encoders'
images**: gob `0xFF`, JSON `{` (0x7B), CSV a digit or `-` — pairwise different. -/
theorem formats_first_bytes_differ (z : Vegeta.Model.GobValue.Zone) (r : Vegeta.Model.Codec.Result) (rs : List Vegeta.Model.Codec.Result) (s : Bytes)
    (h : Vegeta.Model.GobValue.encodeGobAll z (r :: rs) = some s) (unixNano : Int) (rest body : Bytes) :
    s.head? ≠ (jsonRecord body).head? ∧ s.head? ≠ (csvRecord unixNano rest).head? ∧
    (csvRecord unixNano rest).head? ≠ (jsonRecord body).head? := by
  obtain ⟨tl, hs⟩ := gob_stream_first_byte z r rs s h
  refine ⟨by rw [hs]; simp [jsonRecord], ?_, csv_json_first_bytes_differ unixNano rest body⟩
  obtain ⟨b, tl', hc, hb⟩ := csv_record_first_byte unixNano rest
  rw [hs, hc]
  simp only [List.head?_cons, ne_eq, Option.some.injEq]
  rcases hb with hb | hb
  · intro hh; subst hh; simp [isDigit] at hb
  · omega

/-! ### transcoding chains

`SeqEq`, `RoundTrips`, `chain_preserves` (abstract codec family): Proofs/Chain.lean.
`chain_preserves_csv_json` (the modelled CSV and JSON codecs of C07, no round-trip hypothesis
left): Proofs/ChainCodecs.lean.  Both are in this namespace and covered by the axiom audit. -/

/-! ### source facts (regenerated from /repo by every check run) -/

/-- `DecoderFor` tries gob, then JSON, then CSV — the order the trial list of the model stands for. -/
theorem facts_factories : Vegeta.Extracted.c08Factories =
    [[78, 101, 119, 68, 101, 99, 111, 100, 101, 114], -- NewDecoder
     [78, 101, 119, 74, 83, 79, 78, 68, 101, 99, 111, 100, 101, 114], -- NewJSONDecoder
     [78, 101, 119, 67, 83, 86, 68, 101, 99, 111, 100, 101, 114]] -- NewCSVDecoder
    := by decide

/-- trial reader: `io.MultiReader(bytes.NewReader(buf.Bytes()), io.TeeReader(r, &buf))` (`Trial.start`, `Trial.read`) -/
theorem facts_trial_reader : Vegeta.Extracted.c08TrialReader =
    [105, 111, 46, 77, 117, 108, 116, 105, 82, 101, 97, 100, 101, 114, 40, 98, 121, 116, 101, 115,
    46, 78, 101, 119, 82, 101, 97, 100, 101, 114, 40, 98, 117, 102, 46, 66, 121, 116, 101, 115, 40,
    41, 41, 44, 32, 105, 111, 46, 84, 101, 101, 82, 101, 97, 100, 101, 114, 40, 114, 44, 32, 38, 98,
    117, 102, 41, 41] := rfl

/-- acceptance: `err := dec(rd).Decode(&Result{}) ; err == nil` -/
theorem facts_accept : Vegeta.Extracted.c08Accept =
    [101, 114, 114, 32, 58, 61, 32, 100, 101, 99, 40, 114, 100, 41, 46, 68, 101, 99, 111, 100, 101,
    40, 38, 82, 101, 115, 117, 108, 116, 123, 125, 41, 32, 59, 32, 101, 114, 114, 32, 61, 61, 32,
    110, 105, 108] := rfl

/-- final reader: `dec(io.MultiReader(&buf, r))` (`finalRead`) -/
theorem facts_final_reader : Vegeta.Extracted.c08FinalReader =
    [100, 101, 99, 40, 105, 111, 46, 77, 117, 108, 116, 105, 82, 101, 97, 100, 101, 114, 40, 38, 98,
    117, 102, 44, 32, 114, 41, 41] := rfl

/-- the whole body of `DecoderFor`, canonically printed, is the text the model was written from:
`{ var buf bytes.Buffer for _, dec := range []DecoderFactory{ NewDecoder, NewJSONDecoder, NewCSVDecoder, } { rd := io.MultiReader(bytes.NewReader(buf.Bytes()), io.TeeReader(r, &buf)) if err := dec(rd).Decode(&Result{}); err == nil { return dec(io.MultiReader(&buf, r)) } } return nil }` -/
theorem facts_decoderFor_body : Vegeta.Extracted.c08DecoderForBody =
    [123, 32, 118, 97, 114, 32, 98, 117, 102, 32, 98, 121, 116, 101, 115, 46, 66, 117, 102, 102,
    101, 114, 32, 102, 111, 114, 32, 95, 44, 32, 100, 101, 99, 32, 58, 61, 32, 114, 97, 110, 103,
    101, 32, 91, 93, 68, 101, 99, 111, 100, 101, 114, 70, 97, 99, 116, 111, 114, 121, 123, 32, 78,
    101, 119, 68, 101, 99, 111, 100, 101, 114, 44, 32, 78, 101, 119, 74, 83, 79, 78, 68, 101, 99,
    111, 100, 101, 114, 44, 32, 78, 101, 119, 67, 83, 86, 68, 101, 99, 111, 100, 101, 114, 44, 32,
    125, 32, 123, 32, 114, 100, 32, 58, 61, 32, 105, 111, 46, 77, 117, 108, 116, 105, 82, 101, 97,
    100, 101, 114, 40, 98, 121, 116, 101, 115, 46, 78, 101, 119, 82, 101, 97, 100, 101, 114, 40, 98,
    117, 102, 46, 66, 121, 116, 101, 115, 40, 41, 41, 44, 32, 105, 111, 46, 84, 101, 101, 82, 101,
    97, 100, 101, 114, 40, 114, 44, 32, 38, 98, 117, 102, 41, 41, 32, 105, 102, 32, 101, 114, 114,
    32, 58, 61, 32, 100, 101, 99, 40, 114, 100, 41, 46, 68, 101, 99, 111, 100, 101, 40, 38, 82, 101,
    115, 117, 108, 116, 123, 125, 41, 59, 32, 101, 114, 114, 32, 61, 61, 32, 110, 105, 108, 32, 123,
    32, 114, 101, 116, 117, 114, 110, 32, 100, 101, 99, 40, 105, 111, 46, 77, 117, 108, 116, 105,
    82, 101, 97, 100, 101, 114, 40, 38, 98, 117, 102, 44, 32, 114, 41, 41, 32, 125, 32, 125, 32,
    114, 101, 116, 117, 114, 110, 32, 110, 105, 108, 32, 125] := rfl

/-! ### non-vacuity -/

/-- a toy codec family satisfying `RoundTrips` (format = a tag byte put in front of the records) -/
def toyCodecs : Codecs Nat Nat (List Nat) where
  enc f rs := f :: rs
  dec f s := match s with
    | g :: rs => if g = f then some rs else none
    | [] => none

example : RoundTrips toyCodecs (· = ·) (fun _ => True) where
  refl _ := rfl
  trans _ _ _ h1 h2 := h1.trans h2
  roundTrip f rs _ := ⟨rs, by simp [toyCodecs], aux_seqEq_refl _ (fun _ => rfl) rs, trivial⟩

example : toyCodecs.runChain 0 (toyCodecs.enc 0 [7, 8, 9]) [1, 2, 1, 0] = some (0, [0, 7, 8, 9]) := by decide

/-- a run of the loop: the gob trial over-reads 5 bytes in chunks of ≤ 2 and rejects, the JSON
trial re-reads them from the snapshot, reads on and accepts; the final reader replays everything. -/
example : decoderFor [1, 2, 3, 4, 5, 6, 7, 8, 9]
      [⟨[⟨3, 2⟩, ⟨3, 9⟩], false⟩, ⟨[⟨4, 1⟩, ⟨4, 1⟩, ⟨2, 0⟩], true⟩, ⟨[], true⟩] =
    (some (1, ⟨[1, 2, 3, 4, 5, 6], [7, 8, 9]⟩), [[[1, 2], [3, 4, 5]], [[1, 2, 3, 4], [5], [6]]]) := by decide

example : (finalRun ⟨[1, 2, 3, 4, 5, 6], [7, 8, 9]⟩ [⟨4, 1⟩, ⟨4, 1⟩, ⟨4, 2⟩, ⟨4, 4⟩, ⟨4, 4⟩]).1 =
    [[1, 2, 3, 4], [5, 6], [7, 8], [9], []] := by decide

example : csvRecord (-1700000000000000000) [50] = 45 :: (Duration.fmtNat 1700000000000000000 ++ [44, 50]) := by decide

end Vegeta.Props.C08
