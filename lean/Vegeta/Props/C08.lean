/-
C08 — Format auto-detection and transcoding never lose, duplicate or alter results.

Theorems about `Vegeta.Model.DecoderFor`: the loop of `DecoderFor` over the reader algebra
(underlying reader with an arbitrary chunk oracle, `bytes.Reader` snapshot, `TeeReader` into `buf`,
`MultiReader`), trial decoders being arbitrary finite read scripts with an arbitrary verdict, and
transcoding chains over an abstract codec family.
-/
import Vegeta.Model.DecoderFor
import Vegeta.Proofs.Chain
import Vegeta.Proofs.ChainCodecs
import Vegeta.Extracted.Facts
namespace Vegeta.Props.C08
open Vegeta.Go Vegeta.Model.DecoderFor

/-! ### the reader algebra -/

theorem aux_readUnder (rest : Bytes) (q : ReadReq) :
    (readUnder rest q).1 ++ (readUnder rest q).2 = rest := by
  simp [readUnder, List.take_append_drop]

theorem aux_readMem (s : Bytes) (n : Nat) : (readMem s n).1 ++ (readMem s n).2 = s := by
  simp [readMem, List.take_append_drop]

theorem aux_chunk_pos (n k remaining : Nat) (hn : 1 ≤ n) (hr : 1 ≤ remaining) :
    1 ≤ chunk n k remaining ∧ chunk n k remaining ≤ min n remaining := by
  unfold chunk
  simp only []
  have : min n remaining ≠ 0 := by omega
  simp only [this, ↓reduceIte]
  split <;> omega

/-- an underlying `Read` never returns more than asked for, and at least one byte unless the
buffer is empty or nothing remains -/
theorem aux_chunk_le (n k remaining : Nat) : chunk n k remaining ≤ min n remaining := by
  unfold chunk
  simp only []
  split
  · omega
  · split <;> omega

/-- Invariant of one trial: what the trial decoder has seen so far, followed by the unread part of
the snapshot, is `buf`; and `buf` followed by the unread part of `r` is the original stream. -/
def TrialInv (orig : Bytes) (seen : Bytes) (t : Trial) : Prop :=
  seen ++ t.snap = t.st.buf ∧ t.st.buf ++ t.st.under = orig

theorem aux_trial_start (orig : Bytes) (s : Sniff) (h : s.stream = orig) :
    TrialInv orig [] (Trial.start s) := by
  exact ⟨rfl, h⟩

theorem aux_trial_read (orig seen : Bytes) (t : Trial) (q : ReadReq) (h : TrialInv orig seen t) :
    TrialInv orig (seen ++ (t.read q).1) (t.read q).2 := by
  obtain ⟨h1, h2⟩ := h
  unfold Trial.read
  split
  · simpa [TrialInv] using ⟨h1, h2⟩
  · split
    · rename_i b bs hs
      simp only [TrialInv]
      refine ⟨?_, h2⟩
      rw [List.append_assoc, aux_readMem, h1]
    · rename_i hs
      simp only [TrialInv]
      rw [hs, List.append_nil] at h1
      refine ⟨by rw [hs, List.append_nil, h1], ?_⟩
      rw [List.append_assoc, aux_readUnder, h2]

theorem aux_trial_run (orig : Bytes) : ∀ (script : Script) (seen : Bytes) (t : Trial),
    TrialInv orig seen t → TrialInv orig (seen ++ (t.run script).1.flatten) (t.run script).2 := by
  intro script
  induction script with
  | nil => intro seen t h; simpa [Trial.run] using h
  | cons q qs ih =>
    intro seen t h
    have h1 := aux_trial_read orig seen t q h
    have h2 := ih _ _ h1
    simpa [Trial.run, List.append_assoc] using h2

/-- One whole trial, whatever its read script and the chunking of the underlying reader: the state
it leaves behind still denotes the original stream, and the bytes the trial decoder saw are the
first bytes of the original stream (nothing skipped, nothing replayed twice). -/
theorem trial_preserves_stream (orig : Bytes) (s : Sniff) (script : Script) (h : s.stream = orig) :
    ((Trial.start s).run script).2.st.stream = orig ∧
    ((Trial.start s).run script).1.flatten <+: orig := by
  have := aux_trial_run orig script [] (Trial.start s) (aux_trial_start orig s h)
  obtain ⟨h1, h2⟩ := this
  refine ⟨h2, ?_⟩
  simp only [List.nil_append] at h1
  rw [← h2, ← h1, List.append_assoc]
  exact List.prefix_append _ _

theorem aux_sniffFrom (orig : Bytes) : ∀ (trials : List TrialDec) (i0 : Nat) (s : Sniff),
    s.stream = orig →
    (∀ i st, (sniffFrom i0 s trials).1 = some (i, st) → st.stream = orig) ∧
    (∀ seen ∈ (sniffFrom i0 s trials).2, seen.flatten <+: orig) := by
  intro trials
  induction trials with
  | nil => intro i0 s _; simp [sniffFrom]
  | cons d ds ih =>
    intro i0 s h
    have ht := trial_preserves_stream orig s d.script h
    unfold sniffFrom
    simp only []
    split
    · refine ⟨?_, ?_⟩
      · intro i st hh
        simp only [Option.some.injEq, Prod.mk.injEq] at hh
        rw [← hh.2]; exact ht.1
      · intro seen hs
        simp only [List.mem_singleton] at hs
        rw [hs]; exact ht.2
    · have := ih (i0 + 1) _ ht.1
      refine ⟨this.1, ?_⟩
      intro seen hs
      rcases List.mem_cons.mp hs with h' | h'
      · rw [h']; exact ht.2
      · exact this.2 seen h'

/-- **"… format detection selects a decoder that yields exactly the encoded sequence from the first
record on (nothing consumed while sniffing is lost or replayed twice)."**  After any number of
failed trials, with any read scripts (over-reading by any amount) and any chunking of the
underlying reader, the reader handed to the chosen decoder, `MultiReader(&buf, r)`, denotes the
original stream from byte 0: `buf ++ rest = original`. -/
theorem sniff_preserves_stream (orig : Bytes) (trials : List TrialDec) (i : Nat) (st : Sniff)
    (h : (decoderFor orig trials).1 = some (i, st)) : st.buf ++ st.under = orig :=
  (aux_sniffFrom orig trials 0 ⟨[], orig⟩ rfl).1 i st h

/-- Every trial decoder, too, is shown the original stream from byte 0. -/
theorem sniff_trials_see_prefix (orig : Bytes) (trials : List TrialDec) :
    ∀ seen ∈ (decoderFor orig trials).2, seen.flatten <+: orig :=
  (aux_sniffFrom orig trials 0 ⟨[], orig⟩ rfl).2

/-! ### the final reader -/

theorem aux_final_read (s : Sniff) (q : ReadReq) :
    (finalRead s q).1 ++ (finalRead s q).2.stream = s.stream := by
  unfold finalRead
  split
  · simp
  · split
    · rename_i b bs hs
      simp only [Sniff.stream]
      rw [← List.append_assoc, aux_readMem]
    · rename_i hs
      simp only [Sniff.stream, hs, List.nil_append]
      exact aux_readUnder _ _

/-- **What the chosen decoder reads is the stream, in order, each byte once**: after any reads on
the final reader, the bytes returned so far followed by what the reader still denotes are the
stream it denoted at the start. -/
theorem final_reader_yields_stream : ∀ (script : Script) (s : Sniff),
    (finalRun s script).1.flatten ++ (finalRun s script).2.stream = s.stream := by
  intro script
  induction script with
  | nil => intro s; simp [finalRun]
  | cons q qs ih =>
    intro s
    have h1 := aux_final_read s q
    have h2 := ih (finalRead s q).2
    simp only [finalRun, List.flatten_cons, List.append_assoc]
    rw [h2, h1]

/-- A `Read` with a non-empty buffer on the final reader returns at least one byte unless the
stream is at its end (so the decoder is never starved and sees EOF only at the real end). -/
theorem final_read_progress (s : Sniff) (q : ReadReq) (hn : 1 ≤ q.n) :
    ((finalRead s q).1 = [] ↔ s.stream = []) := by
  unfold finalRead
  have hn0 : q.n ≠ 0 := by omega
  simp only [hn0, ↓reduceIte]
  split
  · rename_i b bs hs
    simp only [readMem, Sniff.stream, hs]
    constructor
    · intro h
      have : (List.take q.n (b :: bs)).length = 0 := by rw [h]; rfl
      simp at this; omega
    · intro h; simp at h
  · rename_i hs
    simp only [readUnder, Sniff.stream, hs, List.nil_append]
    constructor
    · intro h
      cases hu : s.under with
      | nil => rfl
      | cons c cs =>
        exfalso
        have hp := aux_chunk_pos q.n q.k s.under.length hn (by rw [hu]; simp)
        have : (List.take (chunk q.n q.k s.under.length) s.under).length = 0 := by rw [h]; rfl
        rw [List.length_take] at this
        omega
    · intro h; rw [h]; simp

theorem aux_final_drains : ∀ (script : Script) (s : Sniff), (∀ q ∈ script, 1 ≤ q.n) →
    s.stream.length ≤ script.length → (finalRun s script).1.flatten = s.stream := by
  intro script
  induction script with
  | nil =>
    intro s _ hl
    have : s.stream = [] := List.length_eq_zero_iff.mp (by simpa using hl)
    simp [finalRun, this]
  | cons q qs ih =>
    intro s hq hl
    have h1 := aux_final_read s q
    have hp := final_read_progress s q (hq q (by simp))
    simp only [finalRun, List.flatten_cons]
    by_cases he : s.stream = []
    · have hg : (finalRead s q).1 = [] := hp.mpr he
      have hs : (finalRead s q).2.stream = [] := by rw [hg, he] at h1; simpa using h1
      rw [ih _ (fun q' h' => hq q' (by simp [h'])) (by rw [hs]; simp), hg, hs, he]; rfl
    · have hg : (finalRead s q).1 ≠ [] := fun h => he (hp.mp h)
      have hlen : (finalRead s q).2.stream.length < s.stream.length := by
        have := congrArg List.length h1
        rw [List.length_append] at this
        have : 0 < (finalRead s q).1.length := List.length_pos_iff.mpr hg
        omega
      rw [ih _ (fun q' h' => hq q' (by simp [h'])) (by simp only [List.length_cons] at hl; omega)]
      exact h1

/-- **The chosen decoder can read the whole original stream**: after detection, enough non-empty
reads on the final reader return exactly the original stream from byte 0 to its end. -/
theorem final_reader_drains_original (orig : Bytes) (trials : List TrialDec) (i : Nat) (st : Sniff)
    (h : (decoderFor orig trials).1 = some (i, st)) (script : Script) (hq : ∀ q ∈ script, 1 ≤ q.n)
    (hl : orig.length ≤ script.length) : (finalRun st script).1.flatten = orig := by
  have hs : st.stream = orig := sniff_preserves_stream orig trials i st h
  rw [aux_final_drains script st hq (by rw [hs]; exact hl), hs]

/-! ### which decoder is chosen -/

theorem aux_first_accept : ∀ (trials : List TrialDec) (i0 : Nat) (s : Sniff),
    (∀ i st, (sniffFrom i0 s trials).1 = some (i, st) →
      i0 ≤ i ∧ (trials[i - i0]?.map (·.accept)) = some true ∧
        ∀ j, j < i - i0 → (trials[j]?.map (·.accept)) = some false) ∧
    ((sniffFrom i0 s trials).1 = none ↔ ∀ d ∈ trials, d.accept = false) := by
  intro trials
  induction trials with
  | nil => intro i0 s; simp [sniffFrom]
  | cons d ds ih =>
    intro i0 s
    unfold sniffFrom
    simp only []
    split
    · rename_i hacc
      refine ⟨?_, ?_⟩
      · intro i st hh
        simp only [Option.some.injEq, Prod.mk.injEq] at hh
        obtain ⟨hi, _⟩ := hh
        subst hi
        simp [hacc]
      · simp [hacc]
    · rename_i hacc
      have hacc' : d.accept = false := by simpa using hacc
      obtain ⟨ih1, ih2⟩ := ih (i0 + 1) ((Trial.start s).run d.script).2.st
      refine ⟨?_, ?_⟩
      · intro i st hh
        obtain ⟨hle, hget, hall⟩ := ih1 i st hh
        have e : i - i0 = (i - (i0 + 1)) + 1 := by omega
        refine ⟨by omega, ?_, ?_⟩
        · rw [e]; simpa using hget
        · intro j hj
          cases j with
          | zero => simp [hacc']
          | succ j => simpa using hall j (by omega)
      · rw [ih2]
        simp [hacc']

/-- **`DecoderFor` chooses the first factory whose trial accepts, and returns nil exactly when none
accepts** ("it returns no decoder, rather than a wrong one, for input that is in none of the
formats": a decoder is returned only if that format's own decoder accepted a first record read
from byte 0 of the original stream). -/
theorem detect_first_accepting (orig : Bytes) (trials : List TrialDec) :
    (∀ i st, (decoderFor orig trials).1 = some (i, st) →
      (trials[i]?.map (·.accept)) = some true ∧ ∀ j, j < i → (trials[j]?.map (·.accept)) = some false) ∧
    ((decoderFor orig trials).1 = none ↔ ∀ d ∈ trials, d.accept = false) := by
  obtain ⟨h1, h2⟩ := aux_first_accept trials 0 ⟨[], orig⟩
  refine ⟨?_, h2⟩
  intro i st h
  obtain ⟨_, a, b⟩ := h1 i st h
  exact ⟨by simpa using a, by simpa using b⟩

/-- **Detection of the stream's own format.**  If the trial of format number `f` accepts the
stream and the trials tried before it reject it, `DecoderFor` returns format `f`'s decoder over a
reader that denotes the original stream. -/
theorem detect_selects_own_format (orig : Bytes) (trials : List TrialDec) (f : Nat) (d : TrialDec)
    (hf : trials[f]? = some d) (hown : d.accept = true)
    (hbefore : ∀ j d', j < f → trials[j]? = some d' → d'.accept = false) :
    ∃ st, (decoderFor orig trials).1 = some (f, st) ∧ st.buf ++ st.under = orig := by
  obtain ⟨h1, h2⟩ := detect_first_accepting orig trials
  cases hres : (decoderFor orig trials).1 with
  | none =>
    have := h2.mp hres d (List.mem_of_getElem? hf)
    rw [hown] at this; cases this
  | some p =>
    obtain ⟨i, st⟩ := p
    obtain ⟨ha, hb⟩ := h1 i st hres
    have hif : i = f := by
      rcases Nat.lt_trichotomy i f with hlt | heq | hgt
      · exfalso
        cases hi : trials[i]? with
        | none => rw [hi] at ha; simp at ha
        | some di =>
          rw [hi] at ha
          have := hbefore i di hlt hi
          simp [this] at ha
      · exact heq
      · exfalso
        have := hb f hgt
        rw [hf] at this
        simp [hown] at this
    subst hif
    exact ⟨st, rfl, sniff_preserves_stream orig trials i st hres⟩

/-! ### first bytes of encoded records -/

theorem aux_digitsRev (fuel n : Nat) (hf : 0 < fuel) :
    Duration.digitsRev fuel n ≠ [] ∧ ∀ b ∈ Duration.digitsRev fuel n, isDigit b = true := by
  induction fuel generalizing n with
  | zero => omega
  | succ fuel ih =>
    unfold Duration.digitsRev
    split
    · rename_i h
      refine ⟨by simp, ?_⟩
      intro b hb
      simp only [List.mem_singleton] at hb
      subst hb
      simp [isDigit]; omega
    · refine ⟨by simp, ?_⟩
      intro b hb
      rcases List.mem_cons.mp hb with h | h
      · subst h
        have : n % 10 < 10 := Nat.mod_lt _ (by omega)
        simp [isDigit]; omega
      · cases fuel with
        | zero => simp [Duration.digitsRev] at h
        | succ fuel => exact (ih (n / 10) (by omega)).2 b h

theorem aux_fmtNat_head (n : Nat) : ∃ b tl, Duration.fmtNat n = b :: tl ∧ isDigit b = true := by
  obtain ⟨hne, hall⟩ := aux_digitsRev (n + 1) n (by omega)
  unfold Duration.fmtNat
  cases hr : (Duration.digitsRev (n + 1) n).reverse with
  | nil => simp at hr; exact absurd hr hne
  | cons b tl =>
    refine ⟨b, tl, rfl, hall b ?_⟩
    have : b ∈ (Duration.digitsRev (n + 1) n).reverse := by rw [hr]; simp
    simpa using this

/-- **A CSV record written by the encoder starts with a digit or `-`** (its first field is the
decimal Unix-nanosecond timestamp, never quoted). -/
theorem csv_record_first_byte (unixNano : Int) (rest : Bytes) :
    ∃ b tl, csvRecord unixNano rest = b :: tl ∧ (isDigit b = true ∨ b = 45) := by
  unfold csvRecord fmtInt
  split
  · exact ⟨45, _, rfl, Or.inr rfl⟩
  · obtain ⟨b, tl, h, hd⟩ := aux_fmtNat_head unixNano.natAbs
    exact ⟨b, tl ++ 44 :: rest, by rw [h]; rfl, Or.inl hd⟩

/-- **A JSON record written by the encoder starts with `{`.** -/
theorem json_record_first_byte (body : Bytes) : ∃ tl, jsonRecord body = 123 :: tl := ⟨body, rfl⟩

/-- The two text formats cannot be confused by their first byte: no CSV record starts like a JSON
record. -/
theorem csv_json_first_bytes_differ (unixNano : Int) (rest body : Bytes) :
    (csvRecord unixNano rest).head? ≠ (jsonRecord body).head? := by
  obtain ⟨b, tl, h, hb⟩ := csv_record_first_byte unixNano rest
  rw [h]
  simp only [jsonRecord, List.head?_cons, ne_eq, Option.some.injEq]
  rcases hb with hb | hb
  · intro hh; subst hh; simp [isDigit] at hb
  · omega

/-- **The three formats are told apart by the first byte of any non-empty stream of the encoders'
images**: gob `0xFF`, JSON `{` (0x7B), CSV a digit or `-` — pairwise different. -/
theorem formats_first_bytes_differ (z : Vegeta.Model.GobValue.Zone) (r : Vegeta.Model.Codec.Result) (rs : List Vegeta.Model.Codec.Result) (s : Bytes)
    (h : Vegeta.Model.GobValue.encodeGobAll z (r :: rs) = some s) (unixNano : Int) (rest body : Bytes) :
    s.head? ≠ (jsonRecord body).head? ∧ s.head? ≠ (csvRecord unixNano rest).head? ∧
    (csvRecord unixNano rest).head? ≠ (jsonRecord body).head? := by
  obtain ⟨tl, hs⟩ := gob_stream_first_byte z r rs s h
  refine ⟨by rw [hs]; simp [jsonRecord], ?_, csv_json_first_bytes_differ unixNano rest body⟩
  obtain ⟨b, tl', hc, hb⟩ := csv_record_first_byte unixNano rest
  rw [hs, hc]
  simp only [List.head?_cons, ne_eq, Option.some.injEq]
  rcases hb with hb | hb
  · intro hh; subst hh; simp [isDigit] at hb
  · omega

/-! ### transcoding chains

`SeqEq`, `RoundTrips`, `chain_preserves` (abstract codec family): Proofs/Chain.lean.
`chain_preserves_csv_json` (the modelled CSV and JSON codecs of C07, no round-trip hypothesis
left): Proofs/ChainCodecs.lean.  Both are in this namespace and covered by the axiom audit. -/

/-! ### source facts (regenerated from /repo by every check run) -/

/-- `DecoderFor` tries gob, then JSON, then CSV — the order the trial list of the model stands for. -/
theorem facts_factories : Vegeta.Extracted.c08Factories =
    [[78, 101, 119, 68, 101, 99, 111, 100, 101, 114], -- NewDecoder
     [78, 101, 119, 74, 83, 79, 78, 68, 101, 99, 111, 100, 101, 114], -- NewJSONDecoder
     [78, 101, 119, 67, 83, 86, 68, 101, 99, 111, 100, 101, 114]] -- NewCSVDecoder
    := by decide

/-- trial reader: `io.MultiReader(bytes.NewReader(buf.Bytes()), io.TeeReader(r, &buf))` (`Trial.start`, `Trial.read`) -/
theorem facts_trial_reader : Vegeta.Extracted.c08TrialReader =
    [105, 111, 46, 77, 117, 108, 116, 105, 82, 101, 97, 100, 101, 114, 40, 98, 121, 116, 101, 115,
    46, 78, 101, 119, 82, 101, 97, 100, 101, 114, 40, 98, 117, 102, 46, 66, 121, 116, 101, 115, 40,
    41, 41, 44, 32, 105, 111, 46, 84, 101, 101, 82, 101, 97, 100, 101, 114, 40, 114, 44, 32, 38, 98,
    117, 102, 41, 41] := rfl

/-- acceptance: `err := dec(rd).Decode(&Result{}) ; err == nil` -/
theorem facts_accept : Vegeta.Extracted.c08Accept =
    [101, 114, 114, 32, 58, 61, 32, 100, 101, 99, 40, 114, 100, 41, 46, 68, 101, 99, 111, 100, 101,
    40, 38, 82, 101, 115, 117, 108, 116, 123, 125, 41, 32, 59, 32, 101, 114, 114, 32, 61, 61, 32,
    110, 105, 108] := rfl

/-- final reader: `dec(io.MultiReader(&buf, r))` (`finalRead`) -/
theorem facts_final_reader : Vegeta.Extracted.c08FinalReader =
    [100, 101, 99, 40, 105, 111, 46, 77, 117, 108, 116, 105, 82, 101, 97, 100, 101, 114, 40, 38, 98,
    117, 102, 44, 32, 114, 41, 41] := rfl

/-- the whole body of `DecoderFor`, canonically printed, is the text the model was written from:
`{ var buf bytes.Buffer for _, dec := range []DecoderFactory{ NewDecoder, NewJSONDecoder, NewCSVDecoder, } { rd := io.MultiReader(bytes.NewReader(buf.Bytes()), io.TeeReader(r, &buf)) if err := dec(rd).Decode(&Result{}); err == nil { return dec(io.MultiReader(&buf, r)) } } return nil }` -/
theorem facts_decoderFor_body : Vegeta.Extracted.c08DecoderForBody =
    [123, 32, 118, 97, 114, 32, 98, 117, 102, 32, 98, 121, 116, 101, 115, 46, 66, 117, 102, 102,
    101, 114, 32, 102, 111, 114, 32, 95, 44, 32, 100, 101, 99, 32, 58, 61, 32, 114, 97, 110, 103,
    101, 32, 91, 93, 68, 101, 99, 111, 100, 101, 114, 70, 97, 99, 116, 111, 114, 121, 123, 32, 78,
    101, 119, 68, 101, 99, 111, 100, 101, 114, 44, 32, 78, 101, 119, 74, 83, 79, 78, 68, 101, 99,
    111, 100, 101, 114, 44, 32, 78, 101, 119, 67, 83, 86, 68, 101, 99, 111, 100, 101, 114, 44, 32,
    125, 32, 123, 32, 114, 100, 32, 58, 61, 32, 105, 111, 46, 77, 117, 108, 116, 105, 82, 101, 97,
    100, 101, 114, 40, 98, 121, 116, 101, 115, 46, 78, 101, 119, 82, 101, 97, 100, 101, 114, 40, 98,
    117, 102, 46, 66, 121, 116, 101, 115, 40, 41, 41, 44, 32, 105, 111, 46, 84, 101, 101, 82, 101,
    97, 100, 101, 114, 40, 114, 44, 32, 38, 98, 117, 102, 41, 41, 32, 105, 102, 32, 101, 114, 114,
    32, 58, 61, 32, 100, 101, 99, 40, 114, 100, 41, 46, 68, 101, 99, 111, 100, 101, 40, 38, 82, 101,
    115, 117, 108, 116, 123, 125, 41, 59, 32, 101, 114, 114, 32, 61, 61, 32, 110, 105, 108, 32, 123,
    32, 114, 101, 116, 117, 114, 110, 32, 100, 101, 99, 40, 105, 111, 46, 77, 117, 108, 116, 105,
    82, 101, 97, 100, 101, 114, 40, 38, 98, 117, 102, 44, 32, 114, 41, 41, 32, 125, 32, 125, 32,
    114, 101, 116, 117, 114, 110, 32, 110, 105, 108, 32, 125] := rfl

/-! ### non-vacuity -/

/-- a toy codec family satisfying `RoundTrips` (format = a tag byte put in front of the records) -/
def toyCodecs : Codecs Nat Nat (List Nat) where
  enc f rs := f :: rs
  dec f s := match s with
    | g :: rs => if g = f then some rs else none
    | [] => none

example : RoundTrips toyCodecs (· = ·) (fun _ => True) where
  refl _ := rfl
  trans _ _ _ h1 h2 := h1.trans h2
  roundTrip f rs _ := ⟨rs, by simp [toyCodecs], aux_seqEq_refl _ (fun _ => rfl) rs, trivial⟩

example : toyCodecs.runChain 0 (toyCodecs.enc 0 [7, 8, 9]) [1, 2, 1, 0] = some (0, [0, 7, 8, 9]) := by decide

/-- a run of the loop: the gob trial over-reads 5 bytes in chunks of ≤ 2 and rejects, the JSON
trial re-reads them from the snapshot, reads on and accepts; the final reader replays everything. -/
example : decoderFor [1, 2, 3, 4, 5, 6, 7, 8, 9]
      [⟨[⟨3, 2⟩, ⟨3, 9⟩], false⟩, ⟨[⟨4, 1⟩, ⟨4, 1⟩, ⟨2, 0⟩], true⟩, ⟨[], true⟩] =
    (some (1, ⟨[1, 2, 3, 4, 5, 6], [7, 8, 9]⟩), [[[1, 2], [3, 4, 5]], [[1, 2, 3, 4], [5], [6]]]) := by decide

example : (finalRun ⟨[1, 2, 3, 4, 5, 6], [7, 8, 9]⟩ [⟨4, 1⟩, ⟨4, 1⟩, ⟨4, 2⟩, ⟨4, 4⟩, ⟨4, 4⟩]).1 =
    [[1, 2, 3, 4], [5, 6], [7, 8], [9], []] := by decide

example : csvRecord (-1700000000000000000) [50] = 45 :: (Duration.fmtNat 1700000000000000000 ++ [44, 50]) := by decide

end Vegeta.Props.C08
