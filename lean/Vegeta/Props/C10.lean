/-
C10 — Report metrics equal an exact reference computation, in any order, incrementally.

Property theorems (the rest are helper lemmas `aux_*`):
  metrics_eq_ref              closed metrics = reference computation (`Spec/Metrics.lean`), every field
  ref_perm                    the reference does not depend on the order of the results
  metrics_order_independent   hence neither do the closed metrics
  close_idempotent            Close ∘ Close = Close on every state
  interleaved_close           any placement of intermediate Close calls leaves the same final state
  incremental_report_eq_ref   so every periodic report shows the reference values of the results so far
  instants_set                the model's defensive branch in `close` is unreachable
  empty_report_zero           no results: zeros
  min_sentinel_old_counterexample / min_after_zero_latency   the `Min == 0` defect before / after its fix
Extension (text reporter lib/reporters.go:57-139, report loop report.go:136-166; model `Model/MetricsText.lean`):
  round_within_unit, round_idempotent, round_small   `round`: multiple of the next unit, within half of it, no overflow
  text_report_cells            every cell of the text report is the stated rendering of the stated field; status codes
                               each once, in string order; error lines = error set
  text_report_shows_metrics    the text report of any periodic/final report = text report of the reference
  text_report_order_independent  … and does not depend on the order of the results (errors as a set)
  periodic_reports_are_prefix_reports   every report the command's loop writes is the reference report of a prefix
  final_report_independent_of_ticks / final_report_eq_ref   the final one is the same for every tick placement
  loop_reports_exact           the list of reports written = reference reports over exactly the prefixes read before each
  json_report_layout / json_report_shows_metrics   the JSON report: documented members in order, each the stated field
-/
import Vegeta.Model.Metrics
import Vegeta.Spec.Metrics
import Vegeta.Model.MetricsText
namespace Vegeta.Props.C10
open Vegeta.Go Vegeta.Model.Metrics Vegeta.Spec.Metrics Vegeta.Model.MetricsText

def accAll (a : Acc) (rs : List Result) : Acc := rs.foldl addAcc a

def optMin : Option Int → Option Int → Option Int
  | none, b => b
  | some x, none => some x
  | some x, some y => some (if x ≤ y then x else y)

def optMax : Option Int → Option Int → Option Int
  | none, b => b
  | some x, none => some x
  | some x, some y => some (if y ≤ x then x else y)

theorem aux_stepEarliest (e : Option Int) (ts : Int) : stepEarliest e ts = optMin e (some ts) := by
  cases e with
  | none => rfl
  | some e => simp only [stepEarliest, optMin]; split <;> split <;> first | rfl | (congr 1; omega) | omega

theorem aux_stepLatest (e : Option Int) (ts : Int) : stepLatest e ts = optMax e (some ts) := by
  cases e with
  | none => rfl
  | some e => simp only [stepLatest, optMax]; split <;> split <;> first | rfl | (congr 1; omega) | omega

theorem aux_optMin_assoc (a b c : Option Int) : optMin (optMin a b) c = optMin a (optMin b c) := by
  cases a <;> cases b <;> cases c <;> simp only [optMin] <;> (congr 1; repeat' split) <;> omega

theorem aux_optMax_assoc (a b c : Option Int) : optMax (optMax a b) c = optMax a (optMax b c) := by
  cases a <;> cases b <;> cases c <;> simp only [optMax] <;> (congr 1; repeat' split) <;> omega

theorem aux_optMin_comm (a b : Option Int) : optMin a b = optMin b a := by
  cases a <;> cases b <;> simp only [optMin] <;> (congr 1; repeat' split) <;> omega

theorem aux_optMax_comm (a b : Option Int) : optMax a b = optMax b a := by
  cases a <;> cases b <;> simp only [optMax] <;> (congr 1; repeat' split) <;> omega

theorem aux_minL_cons (x : Int) (xs : List Int) : minL (x :: xs) = optMin (some x) (minL xs) := by
  simp only [minL]; cases minL xs <;> rfl

theorem aux_maxL_cons (x : Int) (xs : List Int) : maxL (x :: xs) = optMax (some x) (maxL xs) := by
  simp only [maxL]; cases maxL xs <;> rfl

theorem aux_earliest (rs : List Result) : ∀ a : Acc,
    (accAll a rs).earliest = optMin a.earliest (minL (rs.map (·.timestamp))) := by
  induction rs with
  | nil => intro a; simp only [accAll, List.foldl_nil, List.map_nil, minL]; cases a.earliest <;> rfl
  | cons r rs ih =>
    intro a
    simp only [accAll, List.foldl_cons, List.map_cons] at ih ⊢
    rw [ih (addAcc a r), aux_minL_cons, ← aux_optMin_assoc]
    simp only [addAcc, aux_stepEarliest]

theorem aux_latest (rs : List Result) : ∀ a : Acc,
    (accAll a rs).latest = optMax a.latest (maxL (rs.map (·.timestamp))) := by
  induction rs with
  | nil => intro a; simp only [accAll, List.foldl_nil, List.map_nil, maxL]; cases a.latest <;> rfl
  | cons r rs ih =>
    intro a
    simp only [accAll, List.foldl_cons, List.map_cons] at ih ⊢
    rw [ih (addAcc a r), aux_maxL_cons, ← aux_optMax_assoc]
    simp only [addAcc, aux_stepLatest]

theorem aux_end (rs : List Result) : ∀ a : Acc,
    (accAll a rs).end_ = optMax a.end_ (maxL (rs.map (fun r => r.timestamp + r.latency))) := by
  induction rs with
  | nil => intro a; simp only [accAll, List.foldl_nil, List.map_nil, maxL]; cases a.end_ <;> rfl
  | cons r rs ih =>
    intro a
    simp only [accAll, List.foldl_cons, List.map_cons] at ih ⊢
    rw [ih (addAcc a r), aux_maxL_cons, ← aux_optMax_assoc]
    simp only [addAcc, aux_stepLatest]

theorem aux_success (rs : List Result) : ∀ a : Acc,
    (accAll a rs).success = a.success + successCount rs := by
  induction rs with
  | nil => intro a; rfl
  | cons r rs ih =>
    intro a
    simp only [accAll, List.foldl_cons] at ih ⊢
    rw [ih (addAcc a r)]
    simp only [addAcc, successCount, List.filter_cons]
    split <;> simp <;> omega

/-- `Latencies.Min` after adding: the smallest latency, whatever the earlier value when no sample had been added. -/
theorem aux_latMin (rs : List Result) : ∀ a : Acc,
    (accAll a rs).latMin = match minL (rs.map (·.latency)) with
      | none => a.latMin
      | some m => if a.estInit = false ∨ m < a.latMin then m else a.latMin := by
  induction rs with
  | nil => intro a; rfl
  | cons r rs ih =>
    intro a
    simp only [accAll, List.foldl_cons, List.map_cons, minL] at ih ⊢
    rw [ih (addAcc a r)]
    simp only [addAcc, minStep]
    cases minL (rs.map (·.latency)) with
    | none => simp only []
    | some m =>
      simp only [Bool.true_eq_false, false_or]
      cases a.estInit <;> simp <;> (repeat' split) <;> omega

theorem aux_estInit (rs : List Result) : ∀ a : Acc, (accAll a rs).estInit = (a.estInit || !rs.isEmpty) := by
  induction rs with
  | nil => intro a; simp [accAll]
  | cons r rs ih =>
    intro a
    simp only [accAll, List.foldl_cons] at ih ⊢
    rw [ih (addAcc a r)]; simp [addAcc]


/-! ### status codes: a finite map as a strictly sorted association list -/

/-- value stored under key `k` (0 when absent) -/
def look (k : Nat) : List (Nat × Nat) → Nat
  | [] => 0
  | (k', v) :: t => if k' = k then v else look k t

/-- keys strictly increasing -/
def SS : List (Nat × Nat) → Prop
  | [] => True
  | (k, _) :: t => (∀ p ∈ t, k < p.1) ∧ SS t

/-- all stored values positive -/
def Pos (l : List (Nat × Nat)) : Prop := ∀ p ∈ l, 0 < p.2

theorem aux_look_absent (k : Nat) (l : List (Nat × Nat)) (h : ∀ p ∈ l, k < p.1) : look k l = 0 := by
  induction l with
  | nil => rfl
  | cons p t ih =>
    obtain ⟨k', v⟩ := p
    have h1 := h (k', v) (by simp)
    simp only [look]
    split
    · omega
    · exact ih (fun p hp => h p (by simp [hp]))

/-- Two canonical maps with the same contents are the same list. -/
theorem aux_ext : ∀ (l1 l2 : List (Nat × Nat)), SS l1 → SS l2 → Pos l1 → Pos l2 →
    (∀ k, look k l1 = look k l2) → l1 = l2 := by
  intro l1
  induction l1 with
  | nil =>
    intro l2 _ _ _ p2 h
    cases l2 with
    | nil => rfl
    | cons p t =>
      obtain ⟨k, v⟩ := p
      have := h k
      have hv := p2 (k, v) (by simp)
      simp [look] at this hv; omega
  | cons p1 t1 ih =>
    intro l2 s1 s2 p1' p2 h
    obtain ⟨k1, v1⟩ := p1
    cases l2 with
    | nil =>
      have := h k1
      have hv := p1' (k1, v1) (by simp)
      simp [look] at this hv; omega
    | cons p2' t2 =>
      obtain ⟨k2, v2⟩ := p2'
      have hv1 := p1' (k1, v1) (by simp)
      have hv2 := p2 (k2, v2) (by simp)
      simp only [] at hv1 hv2
      have a1 := aux_look_absent k1 t1 s1.1
      have a2 := aux_look_absent k2 t2 s2.1
      rcases Nat.lt_trichotomy k1 k2 with hlt | heq | hgt
      · exfalso
        have := h k1
        have hz : look k1 ((k2, v2) :: t2) = 0 :=
          aux_look_absent k1 _ (by
            intro p hp
            rcases List.mem_cons.mp hp with rfl | hp
            · exact hlt
            · have := s2.1 p hp; omega)
        rw [hz] at this
        simp [look] at this; omega
      · subst heq
        have hk := h k1
        simp only [look, ↓reduceIte] at hk
        subst hk
        congr 1
        apply ih t2 s1.2 s2.2 (fun p hp => p1' p (by simp [hp])) (fun p hp => p2 p (by simp [hp]))
        intro k
        have := h k
        simp only [look] at this
        by_cases hk : k1 = k
        · subst hk; rw [a1, a2]
        · simpa [hk] using this
      · exfalso
        have := h k2
        have hz : look k2 ((k1, v1) :: t1) = 0 :=
          aux_look_absent k2 _ (by
            intro p hp
            rcases List.mem_cons.mp hp with rfl | hp
            · exact hgt
            · have := s1.1 p hp; omega)
        rw [hz] at this
        simp [look] at this; omega

theorem aux_bump_mem (c : Nat) (l : List (Nat × Nat)) : ∀ p ∈ bumpCode c l, p.1 = c ∨ ∃ q ∈ l, q.1 = p.1 := by
  induction l with
  | nil => intro p hp; simp [bumpCode] at hp; left; rw [hp]
  | cons q t ih =>
    obtain ⟨k, v⟩ := q
    intro p hp
    simp only [bumpCode] at hp
    split at hp
    · rcases List.mem_cons.mp hp with rfl | hp
      · left; rfl
      · right; exact ⟨p, hp, rfl⟩
    · split at hp
      · rcases List.mem_cons.mp hp with rfl | hp
        · right; exact ⟨(k, v), by simp, rfl⟩
        · right; exact ⟨p, by simp [hp], rfl⟩
      · rcases List.mem_cons.mp hp with rfl | hp
        · right; exact ⟨(k, v), by simp, rfl⟩
        · rcases ih p hp with h | ⟨q, hq, he⟩
          · left; exact h
          · right; exact ⟨q, by simp [hq], he⟩

theorem aux_bump_SS (c : Nat) (l : List (Nat × Nat)) (h : SS l) : SS (bumpCode c l) := by
  induction l with
  | nil => simp [bumpCode, SS]
  | cons q t ih =>
    obtain ⟨k, v⟩ := q
    simp only [bumpCode]
    split
    · rename_i hlt
      refine ⟨?_, h⟩
      intro p hp
      rcases List.mem_cons.mp hp with rfl | hp
      · exact hlt
      · have := h.1 p hp; omega
    · split
      · exact ⟨h.1, h.2⟩
      · rename_i h1 h2
        refine ⟨?_, ih h.2⟩
        intro p hp
        rcases aux_bump_mem c t p hp with he | ⟨q, hq, he⟩
        · omega
        · have := h.1 q hq; omega

theorem aux_bump_Pos (c : Nat) (l : List (Nat × Nat)) (h : Pos l) : Pos (bumpCode c l) := by
  induction l with
  | nil => intro p hp; simp [bumpCode] at hp; rw [hp]; simp
  | cons q t ih =>
    obtain ⟨k, v⟩ := q
    intro p hp
    simp only [bumpCode] at hp
    split at hp
    · rcases List.mem_cons.mp hp with rfl | hp
      · simp
      · exact h p hp
    · split at hp
      · rcases List.mem_cons.mp hp with rfl | hp
        · simp
        · exact h p (by simp [hp])
      · rcases List.mem_cons.mp hp with rfl | hp
        · exact h _ (by simp)
        · exact ih (fun p hp => h p (by simp [hp])) p hp

theorem aux_bump_look (c k : Nat) (l : List (Nat × Nat)) (h : SS l) :
    look k (bumpCode c l) = if k = c then look k l + 1 else look k l := by
  induction l with
  | nil => simp only [bumpCode, look]; split <;> split <;> omega
  | cons q t ih =>
    obtain ⟨k', v⟩ := q
    simp only [bumpCode]
    split
    · rename_i hlt
      simp only [look]
      by_cases hk : k = c
      · subst hk
        have : ¬ k' = k := by omega
        simp only [this, ↓reduceIte]
        rw [aux_look_absent k t (fun p hp => by have := h.1 p hp; omega)]
      · have : ¬ c = k := fun e => hk e.symm
        simp [this, hk]
    · split
      · rename_i h1 h2
        subst h2
        simp only [look]
        by_cases hk : c = k
        · subst hk; simp
        · have : ¬ k = c := fun e => hk e.symm
          simp [hk, this]
      · rename_i h1 h2
        simp only [look]
        by_cases hk : k' = k
        · subst hk
          have : ¬ k' = c := fun e => h2 e.symm
          simp [this]
        · simp only [hk, ↓reduceIte]; exact ih h.2

/-- The status-code map after adding `rs`: canonical, and each count is the number of results. -/
theorem aux_codes (rs : List Result) : ∀ a : Acc, SS a.statusCodes → Pos a.statusCodes →
    SS (accAll a rs).statusCodes ∧ Pos (accAll a rs).statusCodes ∧
    ∀ k, look k (accAll a rs).statusCodes = look k a.statusCodes + countCode k rs := by
  induction rs with
  | nil => intro a h1 h2; exact ⟨h1, h2, fun k => by simp [accAll, countCode]⟩
  | cons r rs ih =>
    intro a h1 h2
    simp only [accAll, List.foldl_cons] at ih ⊢
    obtain ⟨i1, i2, i3⟩ := ih (addAcc a r) (aux_bump_SS _ _ h1) (aux_bump_Pos _ _ h2)
    refine ⟨i1, i2, ?_⟩
    intro k
    rw [i3 k]
    simp only [addAcc, aux_bump_look _ _ _ h1, countCode, List.filter_cons]
    by_cases hk : k = r.code
    · subst hk; simp; omega
    · have : ¬ r.code = k := fun e => hk e.symm
      simp [hk, this]


/-- strictly increasing list of keys -/
def Sorted : List Nat → Prop
  | [] => True
  | k :: t => (∀ x ∈ t, k < x) ∧ Sorted t

theorem aux_mem_insertDedup (c x : Nat) (l : List Nat) : x ∈ insertDedup c l ↔ x = c ∨ x ∈ l := by
  induction l with
  | nil => simp [insertDedup]
  | cons k t ih =>
    simp only [insertDedup]
    split
    · simp
    · split
      · rename_i h; subst h; simp
      · simp only [List.mem_cons, ih]
        constructor
        · rintro (h | h | h) <;> simp [h]
        · rintro (h | h | h) <;> simp [h]

theorem aux_insertDedup_sorted (c : Nat) (l : List Nat) (h : Sorted l) : Sorted (insertDedup c l) := by
  induction l with
  | nil => simp [insertDedup, Sorted]
  | cons k t ih =>
    simp only [insertDedup]
    split
    · rename_i hlt
      refine ⟨?_, h⟩
      intro x hx
      rcases List.mem_cons.mp hx with rfl | hx
      · exact hlt
      · have := h.1 x hx; omega
    · split
      · exact h
      · refine ⟨?_, ih h.2⟩
        intro x hx
        rcases (aux_mem_insertDedup c x t).mp hx with rfl | hx
        · omega
        · exact h.1 x hx

theorem aux_sortDedup (l : List Nat) : Sorted (sortDedup l) ∧ ∀ x, x ∈ sortDedup l ↔ x ∈ l := by
  induction l with
  | nil => simp [sortDedup, Sorted]
  | cons c t ih =>
    refine ⟨aux_insertDedup_sorted _ _ ih.1, ?_⟩
    intro x
    simp only [sortDedup, aux_mem_insertDedup, ih.2, List.mem_cons]

theorem aux_map_SS (g : Nat → Nat) (l : List Nat) (h : Sorted l) : SS (l.map (fun c => (c, g c))) := by
  induction l with
  | nil => trivial
  | cons k t ih =>
    refine ⟨?_, ih h.2⟩
    intro p hp
    simp only [List.mem_map] at hp
    obtain ⟨x, hx, rfl⟩ := hp
    exact h.1 x hx

theorem aux_map_look (g : Nat → Nat) (k : Nat) (l : List Nat) :
    look k (l.map (fun c => (c, g c))) = if k ∈ l then g k else 0 := by
  induction l with
  | nil => simp [look]
  | cons c t ih =>
    simp only [List.map_cons, look, List.mem_cons]
    by_cases h : c = k
    · subst h; simp
    · have : ¬ k = c := fun e => h e.symm
      simp only [h, ↓reduceIte, ih, this, false_or]

theorem aux_countCode_pos (k : Nat) (rs : List Result) : 0 < countCode k rs ↔ k ∈ rs.map (·.code) := by
  induction rs with
  | nil => simp [countCode]
  | cons r rs ih =>
    simp only [countCode, List.filter_cons, List.map_cons, List.mem_cons] at ih ⊢
    by_cases h : r.code = k
    · simp [h]
    · have : ¬ k = r.code := fun e => h e.symm
      simp only [beq_iff_eq, h, ↓reduceIte, this, false_or]
      exact ih

/-- The reference status-code histogram is a canonical map whose value at `k` is the number of results with code `k`. -/
theorem aux_codeHistogram (rs : List Result) :
    SS (codeHistogram rs) ∧ Pos (codeHistogram rs) ∧ ∀ k, look k (codeHistogram rs) = countCode k rs := by
  have hs := aux_sortDedup (rs.map (·.code))
  refine ⟨aux_map_SS _ _ hs.1, ?_, ?_⟩
  · intro p hp
    simp only [codeHistogram, List.mem_map] at hp
    obtain ⟨c, hc, rfl⟩ := hp
    exact (aux_countCode_pos c rs).mpr ((hs.2 c).mp hc)
  · intro k
    simp only [codeHistogram, aux_map_look]
    split
    · rfl
    · rename_i h
      have : ¬ 0 < countCode k rs := fun hp => h ((hs.2 k).mpr ((aux_countCode_pos k rs).mp hp))
      omega

/-! ### the error set -/



theorem aux_errors_fold (es : List Bytes) : ∀ acc : List Bytes,
    es.foldl stepErrors acc = acc ++ (dedupFirst (es.filter (fun e => e ≠ []))).filter (fun x => x ∉ acc) := by
  induction es with
  | nil => intro acc; simp [dedupFirst]
  | cons e t ih =>
    intro acc
    simp only [List.foldl_cons]
    rw [ih]
    by_cases he : e = []
    · subst he; simp [stepErrors]
    · simp only [stepErrors, he, ↓reduceIte, ne_eq, not_false_eq_true, decide_true, List.filter_cons_of_pos, dedupFirst]
      by_cases hm : e ∈ acc
      · simp only [hm, ↓reduceIte, List.filter_cons, not_true_eq_false, decide_false, Bool.false_eq_true, List.filter_filter]
        congr 1
        apply List.filter_congr
        intro x _
        by_cases hx : x ∈ acc
        · simp [hx]
        · have : x ≠ e := fun h => hx (h ▸ hm)
          simp [hx, this]
      · simp only [hm, ↓reduceIte, List.filter_cons, not_false_eq_true, decide_true, List.append_assoc, List.singleton_append, List.filter_filter]
        congr 2
        apply List.filter_congr
        intro x _
        by_cases hx : x = e
        · subst hx; simp
        · simp [hx]

theorem aux_errors (rs : List Result) : ∀ a : Acc,
    (accAll a rs).errors = (rs.map (·.error)).foldl stepErrors a.errors := by
  induction rs with
  | nil => intro a; rfl
  | cons r rs ih =>
    intro a
    simp only [accAll, List.foldl_cons, List.map_cons] at ih ⊢
    rw [ih (addAcc a r)]; rfl



/-! ### sums, request count, maximum -/

theorem aux_addAll (rs : List Result) : ∀ m : Metrics, addAll m rs = { acc := accAll m.acc rs, der := m.der } := by
  induction rs with
  | nil => intro m; rfl
  | cons r rs ih => intro m; simp only [addAll, accAll, List.foldl_cons] at ih ⊢; rw [ih]; rfl

theorem aux_requests (rs : List Result) : ∀ a : Acc, (accAll a rs).requests = a.requests + rs.length := by
  induction rs with
  | nil => intro a; rfl
  | cons r rs ih =>
    intro a
    simp only [accAll, List.foldl_cons, List.length_cons] at ih ⊢
    rw [ih]; simp only [addAcc]; omega

theorem aux_wrap_add (x y : Int) : wrapS64 (wrapS64 x + y) = wrapS64 (x + y) := by
  unfold wrapS64 two64 two63
  simp only []
  split <;> split <;> omega

theorem aux_bytesIn (rs : List Result) : ∀ a : Acc, a.bytesInTotal < two64 →
    (accAll a rs).bytesInTotal = (a.bytesInTotal + sumNat (rs.map (·.bytesIn))) % two64 := by
  induction rs with
  | nil => intro a h; simp only [accAll, List.foldl_nil, List.map_nil, sumNat, two64] at h ⊢; omega
  | cons r rs ih =>
    intro a h
    simp only [accAll, List.foldl_cons, List.map_cons, sumNat] at ih ⊢
    rw [ih (addAcc a r) (by simp only [addAcc, two64]; omega)]
    simp only [addAcc, two64]; omega

theorem aux_bytesOut (rs : List Result) : ∀ a : Acc, a.bytesOutTotal < two64 →
    (accAll a rs).bytesOutTotal = (a.bytesOutTotal + sumNat (rs.map (·.bytesOut))) % two64 := by
  induction rs with
  | nil => intro a h; simp only [accAll, List.foldl_nil, List.map_nil, sumNat, two64] at h ⊢; omega
  | cons r rs ih =>
    intro a h
    simp only [accAll, List.foldl_cons, List.map_cons, sumNat] at ih ⊢
    rw [ih (addAcc a r) (by simp only [addAcc, two64]; omega)]
    simp only [addAcc, two64]; omega

theorem aux_latTotal (rs : List Result) : ∀ a : Acc, inS64 a.latTotal →
    (accAll a rs).latTotal = wrapS64 (a.latTotal + sumInt (rs.map (·.latency))) := by
  induction rs with
  | nil => intro a h; simp only [accAll, List.foldl_nil, List.map_nil, sumInt, Int.add_zero]; exact (wrapS64_id h).symm
  | cons r rs ih =>
    intro a _
    simp only [accAll, List.foldl_cons, List.map_cons, sumInt] at ih ⊢
    rw [ih (addAcc a r) (wrapS64_range _)]
    simp only [addAcc]
    rw [aux_wrap_add]; congr 1; omega

theorem aux_latMax (rs : List Result) : ∀ a : Acc,
    (accAll a rs).latMax = match maxL (rs.map (·.latency)) with
      | none => a.latMax
      | some m => if m ≤ a.latMax then a.latMax else m := by
  induction rs with
  | nil => intro a; rfl
  | cons r rs ih =>
    intro a
    simp only [accAll, List.foldl_cons, List.map_cons, maxL] at ih ⊢
    rw [ih (addAcc a r)]
    simp only [addAcc, maxStep]
    cases maxL (rs.map (·.latency)) with
    | none => simp only []; split <;> split <;> omega
    | some m => simp only []; repeat' split <;> omega

/-! ### extremes -/

theorem aux_minL_spec : ∀ (l : List Int) (m : Int), minL l = some m → m ∈ l ∧ ∀ x ∈ l, m ≤ x := by
  intro l
  induction l with
  | nil => intro m h; simp [minL] at h
  | cons x xs ih =>
    intro m h
    simp only [minL] at h
    cases hm : minL xs with
    | none =>
      rw [hm] at h; simp only [Option.some.injEq] at h; subst h
      cases xs with
      | nil => simp
      | cons y ys => simp only [minL] at hm; split at hm <;> simp at hm
    | some m' =>
      rw [hm] at h; simp only [Option.some.injEq] at h
      obtain ⟨h1, h2⟩ := ih m' hm
      subst h
      constructor
      · split
        · simp
        · simp [h1]
      · intro y hy
        rcases List.mem_cons.mp hy with rfl | hy
        · split <;> omega
        · have := h2 y hy; split <;> omega

theorem aux_maxL_spec : ∀ (l : List Int) (m : Int), maxL l = some m → m ∈ l ∧ ∀ x ∈ l, x ≤ m := by
  intro l
  induction l with
  | nil => intro m h; simp [maxL] at h
  | cons x xs ih =>
    intro m h
    simp only [maxL] at h
    cases hm : maxL xs with
    | none =>
      rw [hm] at h; simp only [Option.some.injEq] at h; subst h
      cases xs with
      | nil => simp
      | cons y ys => simp only [maxL] at hm; split at hm <;> simp at hm
    | some m' =>
      rw [hm] at h; simp only [Option.some.injEq] at h
      obtain ⟨h1, h2⟩ := ih m' hm
      subst h
      constructor
      · split
        · simp
        · simp [h1]
      · intro y hy
        rcases List.mem_cons.mp hy with rfl | hy
        · split <;> omega
        · have := h2 y hy; split <;> omega

theorem aux_minL_some (l : List Int) (h : l ≠ []) : ∃ m, minL l = some m := by
  cases l with
  | nil => contradiction
  | cons x xs => simp only [minL]; cases minL xs <;> simp

theorem aux_maxL_some (l : List Int) (h : l ≠ []) : ∃ m, maxL l = some m := by
  cases l with
  | nil => contradiction
  | cons x xs => simp only [maxL]; cases maxL xs <;> simp

theorem aux_sumInt_nonneg (l : List Int) (h : ∀ x ∈ l, 0 ≤ x) : 0 ≤ sumInt l := by
  induction l with
  | nil => simp [sumInt]
  | cons x xs ih =>
    have := h x (by simp)
    have := ih (fun y hy => h y (by simp [hy]))
    simp only [sumInt]; omega

/-! ### the property -/

/-- The quantifier of the property: timestamps at or after the Unix epoch, non-negative latencies,
every end instant inside the `int64` nanosecond range (before the year 2262), and totals that fit
their Go types (`int64` latency total, `uint64` byte totals). -/
structure Domain (rs : List Result) : Prop where
  ts_nonneg  : ∀ r ∈ rs, 0 ≤ r.timestamp
  lat_nonneg : ∀ r ∈ rs, 0 ≤ r.latency
  end_fits   : ∀ r ∈ rs, r.timestamp + r.latency ≤ maxInt64
  lat_sum    : sumInt (rs.map (·.latency)) ≤ maxInt64
  in_sum     : sumNat (rs.map (·.bytesIn)) < two64
  out_sum    : sumNat (rs.map (·.bytesOut)) < two64

theorem aux_satSub_id (a b : Int) (h1 : 0 ≤ b) (h2 : b ≤ a) (h3 : a ≤ maxInt64) : satSub a b = a - b := by
  unfold satSub maxInt64 minInt64 at *
  simp only []
  split
  · omega
  · split <;> omega

theorem aux_close_some (a : Acc) (d : Derived) (e l n : Int) (h0 : a.requests ≠ 0)
    (he : a.earliest = some e) (hl : a.latest = some l) (hn : a.end_ = some n) :
    close { acc := a, der := d } = { acc := a, der := derive a e l n } := by
  simp only [close, h0, ↓reduceIte, he, hl, hn]

/-- **The closed metrics equal the reference computation** — request count, status-code histogram, byte
totals and means, latency total/mean/min/max, earliest, latest and end instants, duration, wait, rate,
throughput, success ratio and the distinct error texts (in order of first occurrence) — for every list
of results in the domain, of any size. -/
theorem metrics_eq_ref (rs : List Result) (hd : Domain rs) :
    report (close (addAll Metrics.init rs)) = ref rs := by
  rw [aux_addAll]
  show report (close { acc := accAll Acc.init rs, der := Derived.init }) = ref rs
  by_cases hrs : rs = []
  · subst hrs; rfl
  · have hlen : rs.length ≠ 0 := fun h => hrs (List.length_eq_zero_iff.mp h)
    have hreq : (accAll Acc.init rs).requests = rs.length := by rw [aux_requests]; simp [Acc.init]
    -- instants
    obtain ⟨e, he⟩ := aux_minL_some (rs.map (·.timestamp)) (by simpa using hrs)
    obtain ⟨l, hl⟩ := aux_maxL_some (rs.map (·.timestamp)) (by simpa using hrs)
    obtain ⟨n, hn⟩ := aux_maxL_some (rs.map (fun r => r.timestamp + r.latency)) (by simpa using hrs)
    have hE : (accAll Acc.init rs).earliest = some e := by rw [aux_earliest, he]; rfl
    have hL : (accAll Acc.init rs).latest = some l := by rw [aux_latest, hl]; rfl
    have hN : (accAll Acc.init rs).end_ = some n := by rw [aux_end, hn]; rfl
    obtain ⟨e1, e2⟩ := aux_minL_spec _ _ he
    obtain ⟨l1, l2⟩ := aux_maxL_spec _ _ hl
    obtain ⟨n1, n2⟩ := aux_maxL_spec _ _ hn
    have he0 : 0 ≤ e := by
      obtain ⟨r, hr, rfl⟩ := List.mem_map.mp e1; exact hd.ts_nonneg r hr
    have hel : e ≤ l := e2 l l1
    have hln : l ≤ n := by
      obtain ⟨r, hr, rfl⟩ := List.mem_map.mp l1
      have := n2 (r.timestamp + r.latency) (List.mem_map.mpr ⟨r, hr, rfl⟩)
      have := hd.lat_nonneg r hr
      omega
    have hnmax : n ≤ maxInt64 := by
      obtain ⟨r, hr, rfl⟩ := List.mem_map.mp n1; exact hd.end_fits r hr
    have hdur : satSub l e = l - e := aux_satSub_id _ _ he0 hel (by omega)
    have hwait : satSub n l = n - l := aux_satSub_id _ _ (by omega) hln hnmax
    have hwrap : wrapS64 (l - e + (n - l)) = l - e + (n - l) :=
      wrapS64_id (by unfold inS64 minInt64 maxInt64 at *; omega)
    -- totals
    have hin : (accAll Acc.init rs).bytesInTotal = sumNat (rs.map (·.bytesIn)) := by
      rw [aux_bytesIn _ _ (by simp [Acc.init, two64])]
      simp only [Acc.init, Nat.zero_add]; exact Nat.mod_eq_of_lt hd.in_sum
    have hout : (accAll Acc.init rs).bytesOutTotal = sumNat (rs.map (·.bytesOut)) := by
      rw [aux_bytesOut _ _ (by simp [Acc.init, two64])]
      simp only [Acc.init, Nat.zero_add]; exact Nat.mod_eq_of_lt hd.out_sum
    have hlat : (accAll Acc.init rs).latTotal = sumInt (rs.map (·.latency)) := by
      rw [aux_latTotal _ _ (by simp [Acc.init, inS64, minInt64, maxInt64])]
      simp only [Acc.init, Int.zero_add]
      have h0 := aux_sumInt_nonneg (rs.map (·.latency)) (by
        intro x hx; obtain ⟨r, hr, rfl⟩ := List.mem_map.mp hx; exact hd.lat_nonneg r hr)
      have h1 := hd.lat_sum
      exact wrapS64_id (by unfold inS64 minInt64 maxInt64 at *; omega)
    have hsucc : (accAll Acc.init rs).success = successCount rs := by rw [aux_success]; simp [Acc.init]
    -- latency extremes
    obtain ⟨mx, hmx⟩ := aux_maxL_some (rs.map (·.latency)) (by simpa using hrs)
    obtain ⟨mn, hmn⟩ := aux_minL_some (rs.map (·.latency)) (by simpa using hrs)
    have hmax : (accAll Acc.init rs).latMax = mx := by
      rw [aux_latMax, hmx]
      obtain ⟨m1, _⟩ := aux_maxL_spec _ _ hmx
      obtain ⟨r, hr, hrm⟩ := List.mem_map.mp m1
      have := hd.lat_nonneg r hr
      have h0 : (0 : Int) ≤ mx := by omega
      show (if mx ≤ 0 then 0 else mx) = mx
      by_cases hc : mx ≤ 0
      · rw [if_pos hc]; omega
      · rw [if_neg hc]
    have hmin : (accAll Acc.init rs).latMin = mn := by
      rw [aux_latMin, hmn]; simp [Acc.init]
    -- status codes and errors
    have hcodes : (accAll Acc.init rs).statusCodes = codeHistogram rs := by
      obtain ⟨c1, c2, c3⟩ := aux_codes rs Acc.init (by simp [Acc.init, SS]) (by intro p hp; simp [Acc.init] at hp)
      obtain ⟨d1, d2, d3⟩ := aux_codeHistogram rs
      apply aux_ext _ _ c1 d1 c2 d2
      intro k; rw [c3, d3]; simp [Acc.init, look]
    have herr : (accAll Acc.init rs).errors = dedupFirst (errorTexts rs) := by
      rw [aux_errors, aux_errors_fold]; simp [Acc.init, errorTexts]
    rw [aux_close_some _ _ e l n (by rw [hreq]; exact hlen) hE hL hN]
    simp only [report, derive, ref, hlen, ↓reduceIte, hreq, hdur, hwait, hwrap, hin, hout, hlat,
      hsucc, hmax, hmin, hcodes, herr, hE, hL, hN, he, hl, hn, hmx, hmn, Option.getD_some]

/-! ### any order of addition -/

theorem aux_sumInt_perm {l1 l2 : List Int} (h : l1.Perm l2) : sumInt l1 = sumInt l2 := by
  induction h with
  | nil => rfl
  | cons x _ ih => simp only [sumInt, ih]
  | swap x y l => simp only [sumInt]; omega
  | trans _ _ ih1 ih2 => rw [ih1, ih2]

theorem aux_sumNat_perm {l1 l2 : List Nat} (h : l1.Perm l2) : sumNat l1 = sumNat l2 := by
  induction h with
  | nil => rfl
  | cons x _ ih => simp only [sumNat, ih]
  | swap x y l => simp only [sumNat]; omega
  | trans _ _ ih1 ih2 => rw [ih1, ih2]

theorem aux_minL_perm {l1 l2 : List Int} (h : l1.Perm l2) : minL l1 = minL l2 := by
  induction h with
  | nil => rfl
  | cons x _ ih => rw [aux_minL_cons, aux_minL_cons, ih]
  | swap x y l =>
    rw [aux_minL_cons, aux_minL_cons, aux_minL_cons, aux_minL_cons, ← aux_optMin_assoc, ← aux_optMin_assoc,
      aux_optMin_comm (some y) (some x)]
  | trans _ _ ih1 ih2 => rw [ih1, ih2]

theorem aux_maxL_perm {l1 l2 : List Int} (h : l1.Perm l2) : maxL l1 = maxL l2 := by
  induction h with
  | nil => rfl
  | cons x _ ih => rw [aux_maxL_cons, aux_maxL_cons, ih]
  | swap x y l =>
    rw [aux_maxL_cons, aux_maxL_cons, aux_maxL_cons, aux_maxL_cons, ← aux_optMax_assoc, ← aux_optMax_assoc,
      aux_optMax_comm (some y) (some x)]
  | trans _ _ ih1 ih2 => rw [ih1, ih2]

theorem aux_countCode_perm {rs1 rs2 : List Result} (h : rs1.Perm rs2) (k : Nat) : countCode k rs1 = countCode k rs2 :=
  (h.filter _).length_eq

theorem aux_codeHistogram_perm {rs1 rs2 : List Result} (h : rs1.Perm rs2) : codeHistogram rs1 = codeHistogram rs2 := by
  obtain ⟨c1, c2, c3⟩ := aux_codeHistogram rs1
  obtain ⟨d1, d2, d3⟩ := aux_codeHistogram rs2
  apply aux_ext _ _ c1 d1 c2 d2
  intro k; rw [c3, d3, aux_countCode_perm h]

theorem aux_dedupFirst_mem (es : List Bytes) (x : Bytes) : x ∈ dedupFirst es ↔ x ∈ es := by
  induction es with
  | nil => simp [dedupFirst]
  | cons e t ih =>
    simp only [dedupFirst, List.mem_cons, List.mem_filter, ih]
    by_cases hx : x = e
    · simp [hx]
    · simp [hx]

theorem aux_dedupFirst_nodup (es : List Bytes) : (dedupFirst es).Nodup := by
  induction es with
  | nil => simp [dedupFirst]
  | cons e t ih =>
    simp only [dedupFirst, List.nodup_cons]
    refine ⟨?_, List.Nodup.sublist List.filter_sublist ih⟩
    simp [List.mem_filter]

/-- The reference report with the error list blanked: every field but the errors. -/
def withoutErrors (r : Report) : Report := { r with errors := [] }

/-- **The reference does not depend on the order of the results**: any permutation gives the same values
in every field, and the same set of error texts (the two lists are permutations of each other). -/
theorem ref_perm (rs1 rs2 : List Result) (h : rs1.Perm rs2) :
    withoutErrors (ref rs1) = withoutErrors (ref rs2) ∧ (ref rs1).errors.Perm (ref rs2).errors := by
  have hlen := h.length_eq
  have h1 := aux_minL_perm (h.map (·.timestamp))
  have h2 := aux_maxL_perm (h.map (·.timestamp))
  have h3 := aux_maxL_perm (h.map (fun r => r.timestamp + r.latency))
  have h4 := aux_sumNat_perm (h.map (·.bytesIn))
  have h5 := aux_sumNat_perm (h.map (·.bytesOut))
  have h6 := aux_sumInt_perm (h.map (·.latency))
  have h7 := aux_maxL_perm (h.map (·.latency))
  have h8 := aux_minL_perm (h.map (·.latency))
  have h9 : successCount rs1 = successCount rs2 := (h.filter _).length_eq
  have h10 := aux_codeHistogram_perm h
  constructor
  · simp only [ref, withoutErrors, hlen, h1, h2, h3, h4, h5, h6, h7, h8, h9, h10]
    split <;> rfl
  · have he : (dedupFirst (errorTexts rs1)).Perm (dedupFirst (errorTexts rs2)) := by
      rw [List.perm_ext_iff_of_nodup (aux_dedupFirst_nodup _) (aux_dedupFirst_nodup _)]
      intro x
      rw [aux_dedupFirst_mem, aux_dedupFirst_mem]
      exact ((h.map (·.error)).filter _).mem_iff
    simp only [ref, hlen]
    split
    · exact List.Perm.refl _
    · exact he

theorem aux_domain_perm {rs1 rs2 : List Result} (h : rs1.Perm rs2) (hd : Domain rs1) : Domain rs2 :=
  { ts_nonneg := fun r hr => hd.ts_nonneg r (h.mem_iff.mpr hr)
    lat_nonneg := fun r hr => hd.lat_nonneg r (h.mem_iff.mpr hr)
    end_fits := fun r hr => hd.end_fits r (h.mem_iff.mpr hr)
    lat_sum := by rw [← aux_sumInt_perm (h.map (·.latency))]; exact hd.lat_sum
    in_sum := by rw [← aux_sumNat_perm (h.map (·.bytesIn))]; exact hd.in_sum
    out_sum := by rw [← aux_sumNat_perm (h.map (·.bytesOut))]; exact hd.out_sum }

/-- **The closed metrics do not depend on the order in which the results were added**: for any two
orders of the same multiset every reported value is the same; the error texts form the same set. -/
theorem metrics_order_independent (rs1 rs2 : List Result) (hd : Domain rs1) (h : rs1.Perm rs2) :
    withoutErrors (report (close (addAll Metrics.init rs1))) = withoutErrors (report (close (addAll Metrics.init rs2))) ∧
    (report (close (addAll Metrics.init rs1))).errors.Perm (report (close (addAll Metrics.init rs2))).errors := by
  rw [metrics_eq_ref rs1 hd, metrics_eq_ref rs2 (aux_domain_perm h hd)]
  exact ref_perm rs1 rs2 h

/-! ### closing repeatedly and in between -/

/-- the results added by a sequence of calls, in order -/
def adds : List Op → List Result
  | [] => []
  | .add r :: ops => r :: adds ops
  | .close :: ops => adds ops

theorem aux_close_acc (m : Metrics) : (close m).acc = m.acc := by
  unfold close
  split
  · rfl
  · split <;> rfl

theorem aux_run_acc (ops : List Op) : ∀ m : Metrics, (run m ops).acc = accAll m.acc (adds ops) := by
  induction ops with
  | nil => intro m; rfl
  | cons op ops ih =>
    intro m
    simp only [run, List.foldl_cons] at ih ⊢
    rw [ih]
    cases op with
    | add r => rfl
    | close => simp only [step, aux_close_acc, adds]

theorem aux_run_no_adds (ops : List Op) (h : adds ops = []) : run Metrics.init ops = Metrics.init := by
  induction ops with
  | nil => rfl
  | cons op ops ih =>
    cases op with
    | add r => simp [adds] at h
    | close =>
      simp only [adds] at h
      simp only [run, List.foldl_cons, step] at ih ⊢
      have : close Metrics.init = Metrics.init := rfl
      rw [this]; exact ih h

theorem aux_instants (rs : List Result) (h : rs ≠ []) : ∃ e l n, (accAll Acc.init rs).earliest = some e ∧
    (accAll Acc.init rs).latest = some l ∧ (accAll Acc.init rs).end_ = some n := by
  obtain ⟨e, he⟩ := aux_minL_some (rs.map (·.timestamp)) (by simpa using h)
  obtain ⟨l, hl⟩ := aux_maxL_some (rs.map (·.timestamp)) (by simpa using h)
  obtain ⟨n, hn⟩ := aux_maxL_some (rs.map (fun r => r.timestamp + r.latency)) (by simpa using h)
  exact ⟨e, l, n, by rw [aux_earliest, he]; rfl, by rw [aux_latest, hl]; rfl, by rw [aux_end, hn]; rfl⟩

/-- Reachable states with at least one request have their three instants set: the defensive last
branch of the model's `close` is never taken (the real `Close` has no such branch). -/
theorem instants_set (ops : List Op) (h : (run Metrics.init ops).acc.requests ≠ 0) :
    ∃ e l n, (run Metrics.init ops).acc.earliest = some e ∧ (run Metrics.init ops).acc.latest = some l ∧
      (run Metrics.init ops).acc.end_ = some n := by
  rw [aux_run_acc] at h ⊢
  apply aux_instants
  intro he; rw [he] at h; exact h rfl

/-- **Closing in between additions, any number of times and at any positions, does not change the final
values**: whatever sequence of `Add` and `Close` calls was issued, the final `Close` leaves exactly the
state that adding the same results without any intermediate `Close` and closing once leaves. -/
theorem interleaved_close (ops : List Op) :
    close (run Metrics.init ops) = close (addAll Metrics.init (adds ops)) := by
  by_cases h : adds ops = []
  · rw [aux_run_no_adds ops h, h]; rfl
  · obtain ⟨e, l, n, he, hl, hn⟩ := aux_instants (adds ops) h
    have hreq : (accAll Acc.init (adds ops)).requests ≠ 0 := by
      rw [aux_requests]
      have : (adds ops).length ≠ 0 := fun h0 => h (List.length_eq_zero_iff.mp h0)
      simp only [Acc.init]; omega
    have h1 : run Metrics.init ops = { acc := accAll Acc.init (adds ops), der := (run Metrics.init ops).der } := by
      have := aux_run_acc ops Metrics.init
      cases hm : run Metrics.init ops with
      | mk a d => rw [hm] at this; simp only [] at this; rw [this]; rfl
    rw [h1, aux_close_some _ _ e l n hreq he hl hn, aux_addAll]
    exact (aux_close_some _ _ e l n hreq he hl hn).symm

/-- **Periodic reporting shows the reference values**: after any sequence of `Add` and `Close` calls
(in the domain) the closed report equals the reference computation over the results added so far. -/
theorem incremental_report_eq_ref (ops : List Op) (hd : Domain (adds ops)) :
    report (close (run Metrics.init ops)) = ref (adds ops) := by
  rw [interleaved_close, metrics_eq_ref _ hd]

/-- **A report over no results shows zeros** (and `Close` on it changes nothing). -/
theorem empty_report_zero : close Metrics.init = Metrics.init ∧ report (close Metrics.init) = zeroReport :=
  ⟨rfl, rfl⟩

/-- **Closing repeatedly does not change the values**: `Close` is idempotent on every state. -/
theorem close_idempotent (m : Metrics) : close (close m) = close m := by
  unfold close
  split
  · rename_i h; simp
  · rename_i h
    split
    · rename_i e l n he hl hn
      simp [h, he, hl, hn]
    · simp_all

/-! ### the minimum before the fix (DESIGN §8 #8) -/

/-- `LatencyMetrics.Add` as it was before commit "fix: minimum latency is no longer reset…":
`if latency < l.Min || l.Min == 0 { l.Min = latency }` -/
def minStepOld (mn lat : Int) : Int := if lat < mn ∨ mn = 0 then lat else mn

/-- With the old `Min == 0` sentinel the latencies `[0, 5]` reported a minimum of 5 (and `[5, 0]` of 0). -/
theorem min_sentinel_old_counterexample :
    [0, 5].foldl minStepOld 0 = 5 ∧ [5, 0].foldl minStepOld 0 = 0 ∧ minL [0, 5] = some 0 := by decide

/-- The repaired code on the same witness. -/
theorem min_after_zero_latency :
    (report (close (addAll Metrics.init
      [⟨200, 1000, 0, 0, 0, []⟩, ⟨200, 2000, 5, 0, 0, []⟩]))).latMin = 0 := by decide

/-! ### non-vacuity -/

def sample : List Result :=
  [⟨200, 1000000000, 5000000, 10, 20, []⟩, ⟨500, 500000000, 0, 1, 2, [101]⟩, ⟨200, 2500000000, 7000000, 3, 4, [101]⟩]

example : Domain sample :=
  { ts_nonneg := by decide, lat_nonneg := by decide, end_fits := by decide, lat_sum := by decide,
    in_sum := by decide, out_sum := by decide }

example : (ref sample).requests = 3 ∧ (ref sample).statusCodes = [(200, 2), (500, 1)] ∧ (ref sample).latMin = 0 ∧
    (ref sample).duration = 2000000000 ∧ (ref sample).wait = 7000000 ∧ (ref sample).errors = [[101]] := by decide

example : report (close (run Metrics.init [.close, .add ⟨200, 5, 1, 0, 0, []⟩, .close, .close, .add ⟨200, 3, 9, 0, 0, []⟩])) =
    ref [⟨200, 5, 1, 0, 0, []⟩, ⟨200, 3, 9, 0, 0, []⟩] := by decide +kernel


/-! ## Extension: the text reporter (lib/reporters.go) and the report command's loop (report.go) -/

/-! ### `round` -/

theorem aux_tmod_nonneg (d m : Int) (hd : 0 ≤ d) : Int.tmod d m = d % m := by
  rw [Int.tmod_eq_emod]; simp [hd]

/-- `Duration.Round` on a non-negative duration and one of the units of `round`: nearest multiple, halves up;
the multiple above always fits when it is chosen. -/
theorem aux_durRound_unit (d m : Int) (hd : 0 ≤ d) (hd' : d ≤ maxInt64)
    (hm : m = 60000000000 ∨ m = 1000000000 ∨ m = 1000000 ∨ m = 1000 ∨ m = 1)
    (hfit : m = 60000000000 ∨ d + m ≤ maxInt64) :
    durRound d m = if 2 * (d % m) < m then d - d % m else d + m - d % m := by
  unfold maxInt64 at hd' hfit
  rcases hm with rfl | rfl | rfl | rfl | rfl <;>
  · simp only [durRound, aux_tmod_nonneg _ _ hd, lessThanHalf, wrapU64, wrapS64, two64, two63, maxInt64, minInt64]
    simp only [decide_eq_true_eq]
    repeat' split
    all_goals omega

/-- the unit `round` rounds `d` to -/
def roundUnit (d : Int) : Int :=
  if d ≥ 3600000000000 then 60000000000 else if d ≥ 60000000000 then 1000000000 else if d ≥ 1000000000 then 1000000
  else if d ≥ 1000000 then 1000 else 1

theorem aux_round_eq (d : Int) (hd' : d ≤ maxInt64) :
    round d = if d < 1000 then d else
      if 2 * (d % roundUnit d) < roundUnit d then d - d % roundUnit d else d + roundUnit d - d % roundUnit d := by
  unfold maxInt64 at hd'
  simp only [round, durations, roundFrom, roundUnit]
  by_cases h1 : d ≥ 3600000000000
  · rw [if_pos h1, aux_durRound_unit d _ (by omega) (by unfold maxInt64; omega) (by simp) (by simp)]
    simp only [h1, ↓reduceIte]; split <;> first | omega | rfl
  · rw [if_neg h1]
    by_cases h2 : d ≥ 60000000000
    · rw [if_pos h2, aux_durRound_unit d _ (by omega) (by unfold maxInt64; omega) (by simp) (by unfold maxInt64; omega)]
      simp only [h1, h2, ↓reduceIte]; split <;> first | omega | rfl
    · rw [if_neg h2]
      by_cases h3 : d ≥ 1000000000
      · rw [if_pos h3, aux_durRound_unit d _ (by omega) (by unfold maxInt64; omega) (by simp) (by unfold maxInt64; omega)]
        simp only [h1, h2, h3, ↓reduceIte]; split <;> first | omega | rfl
      · rw [if_neg h3]
        by_cases h4 : d ≥ 1000000
        · rw [if_pos h4, aux_durRound_unit d _ (by omega) (by unfold maxInt64; omega) (by simp) (by unfold maxInt64; omega)]
          simp only [h1, h2, h3, h4, ↓reduceIte]; split <;> first | omega | rfl
        · rw [if_neg h4]
          by_cases h5 : d ≥ 1000
          · rw [if_pos h5, aux_durRound_unit d _ (by omega) (by unfold maxInt64; omega) (by simp) (by unfold maxInt64; omega)]
            simp only [h1, h2, h3, h4, ↓reduceIte]; split <;> first | omega | rfl
          · rw [if_neg h5]
            have : d < 1000 := by omega
            simp [this]

/-- **`round` rounds to the next most precise unit**: the result is a multiple of that unit (minutes from one
hour on, seconds from one minute on, … nothing below one microsecond) and differs from `d` by at most half
of it; it never overflows. -/
theorem round_within_unit (d : Int) (hd : d ≤ maxInt64) :
    round d % roundUnit d = 0 ∧ 2 * (round d - d).natAbs ≤ roundUnit d ∧ round d ≤ maxInt64 ∧ (0 ≤ d → 0 ≤ round d) := by
  rw [aux_round_eq d hd]
  unfold maxInt64 at *
  simp only [roundUnit]
  repeat' split
  all_goals omega

/-- durations below one microsecond, zero and negative ones are shown as they are -/
theorem round_small (d : Int) (h : d < 1000) : round d = d := by
  rw [aux_round_eq d (by unfold maxInt64; omega)]; simp [h]

/-- **Rounding twice changes nothing** (a rounded value that reaches the next coarser class, e.g.
59.9996s → 1m0s, is already a multiple of that class's unit). -/
theorem round_idempotent (d : Int) (hd : d ≤ maxInt64) : round (round d) = round d := by
  have h := round_within_unit d hd
  rw [aux_round_eq (round d) h.2.2.1]
  generalize round d = e at h ⊢
  obtain ⟨h1, h2, h3, h4⟩ := h
  unfold maxInt64 at *
  simp only [roundUnit] at h1 h2 ⊢
  repeat' split
  all_goals (repeat' split at h1)
  all_goals omega



/-! ### text report: status codes in string order -/

theorem aux_lexLt_iff : ∀ (a b : Bytes), lexLt a b = true ↔ a < b := by
  intro a
  induction a with
  | nil => intro b; cases b <;> simp [lexLt]
  | cons x xs ih =>
    intro b
    cases b with
    | nil => simp [lexLt]
    | cons y ys =>
      simp only [lexLt, List.cons_lt_cons_iff]
      by_cases h1 : x < y
      · simp [h1]
      · by_cases h2 : y < x
        · simp [h1, h2]; omega
        · have : x = y := by omega
          simp [this, ih]

/-- the key `sort.Strings` compares: the decimal text of the status code -/
def codeText (p : Nat × Nat) : Bytes := Duration.fmtNat p.1

/-- non-decreasing in the byte-wise lexicographic order of the code texts -/
def TextSorted (l : List (Nat × Nat)) : Prop := List.Pairwise (fun p q => codeText p ≤ codeText q) l

theorem aux_insertByText_perm (p : Nat × Nat) (l : List (Nat × Nat)) : (insertByText p l).Perm (p :: l) := by
  induction l with
  | nil => exact List.Perm.refl _
  | cons q t ih =>
    simp only [insertByText]
    split
    · exact (List.Perm.cons q ih).trans (List.Perm.swap p q t)
    · exact List.Perm.refl _

theorem aux_insertByText_sorted (p : Nat × Nat) (l : List (Nat × Nat)) (h : TextSorted l) : TextSorted (insertByText p l) := by
  induction l with
  | nil => simp [insertByText, TextSorted]
  | cons q t ih =>
    simp only [insertByText]
    have hq := List.pairwise_cons.mp h
    split
    · rename_i hlt
      have hlt' : codeText q < codeText p := (aux_lexLt_iff _ _).mp hlt
      refine List.pairwise_cons.mpr ⟨?_, ih hq.2⟩
      intro a ha
      rcases List.mem_cons.mp ((aux_insertByText_perm p t).mem_iff.mp ha) with rfl | ha
      · exact List.le_of_lt hlt'
      · exact hq.1 a ha
    · rename_i hlt
      have hle : codeText p ≤ codeText q := List.not_lt.mp (fun hh => hlt ((aux_lexLt_iff _ _).mpr hh))
      refine List.pairwise_cons.mpr ⟨?_, h⟩
      intro a ha
      rcases List.mem_cons.mp ha with rfl | ha
      · exact hle
      · exact List.le_trans hle (hq.1 a ha)

theorem aux_sortByText (l : List (Nat × Nat)) : (sortByText l).Perm l ∧ TextSorted (sortByText l) := by
  induction l with
  | nil => exact ⟨List.Perm.refl _, List.Pairwise.nil⟩
  | cons p t ih =>
    exact ⟨(aux_insertByText_perm p _).trans (List.Perm.cons p ih.1), aux_insertByText_sorted p _ ih.2⟩

/-! ### text report -/

/-- **The text report shows the metrics.** For the closed metrics `r` (and the percentiles handed in):
seven rows, in order, each cell the stated rendering of the stated field — request count `%d`, rate and
throughput `%.2f`; total, attack and wait duration through `round` and `Duration.String`; minimum, mean,
the four percentiles and maximum latency likewise; byte totals `%d` and means `%.2f`; success ratio
times 100 `%.2f%%`; then the status codes — each code of the histogram exactly once with its count
(`cs` is a permutation of the histogram), in the byte-wise order of their decimal texts, rendered
`code:count␣␣`; and after "Error Set:" exactly the error set, in order of insertion. -/
theorem text_report_cells (r : Report) (p50 p90 p95 p99 : Int) :
    ∃ cs : List (Nat × Nat), cs.Perm r.statusCodes ∧ TextSorted cs ∧
    (textReport r p50 p90 p95 p99).rows =
      [ (lRequests, hRequests, joinSep [Duration.fmtNat r.requests, fmtFixed2 r.rate, fmtFixed2 r.throughput]),
        (lDuration, hDuration, joinSep [Duration.toString (round (wrapS64 (r.duration + r.wait))),
            Duration.toString (round r.duration), Duration.toString (round r.wait)]),
        (lLatencies, hLatencies, joinSep [Duration.toString (round r.latMin), Duration.toString (round r.latMean),
            Duration.toString (round p50), Duration.toString (round p90), Duration.toString (round p95),
            Duration.toString (round p99), Duration.toString (round r.latMax)]),
        (lBytesIn, hBytes, joinSep [Duration.fmtNat r.bytesInTotal, fmtFixed2 r.bytesInMean]),
        (lBytesOut, hBytes, joinSep [Duration.fmtNat r.bytesOutTotal, fmtFixed2 r.bytesOutMean]),
        (lSuccess, hSuccess, fmtFixed2 (F64.mul r.successRatio (F64.ofNat 100)) ++ [37]),
        (lCodes, hCodes, (cs.map codeCell).flatten) ] ∧
    (textReport r p50 p90 p95 p99).errors = r.errors :=
  ⟨sortByText r.statusCodes, (aux_sortByText _).1, (aux_sortByText _).2, rfl, rfl⟩

/-- **The text report of every (periodic or final) report shows the reference values**: after any sequence
of `Add` and `Close` calls in the domain, the text report of the closed metrics is the text report of the
reference computation over the results added so far. -/
theorem text_report_shows_metrics (ops : List Op) (hd : Domain (adds ops)) (p50 p90 p95 p99 : Int) :
    textReport (report (close (run Metrics.init ops))) p50 p90 p95 p99 = textReport (ref (adds ops)) p50 p90 p95 p99 := by
  rw [incremental_report_eq_ref ops hd]

/-- **The text report does not depend on the order of the results**, up to the order of the error lines
(which are the same set of texts). -/
theorem text_report_order_independent (rs1 rs2 : List Result) (h : rs1.Perm rs2) (p50 p90 p95 p99 : Int) :
    (textReport (ref rs1) p50 p90 p95 p99).rows = (textReport (ref rs2) p50 p90 p95 p99).rows ∧
    (textReport (ref rs1) p50 p90 p95 p99).errors.Perm (textReport (ref rs2) p50 p90 p95 p99).errors := by
  obtain ⟨h1, h2⟩ := ref_perm rs1 rs2 h
  refine ⟨?_, h2⟩
  have e1 : (textReport (ref rs1) p50 p90 p95 p99).rows = (textReport (withoutErrors (ref rs1)) p50 p90 p95 p99).rows := rfl
  have e2 : (textReport (ref rs2) p50 p90 p95 p99).rows = (textReport (withoutErrors (ref rs2)) p50 p90 p95 p99).rows := rfl
  rw [e1, e2, h1]

example : fmtFixed2 (F64.ofDecimal 125 (-3)) = [48, 46, 49, 50] ∧ fmtFixed2 (F64.ofDecimal 2675 (-3)) = [50, 46, 54, 55] ∧
    fmtFixed2 (F64.ofDecimal 5 (-3)) = [48, 46, 48, 49] ∧ fmtFixed2 (F64.neg (F64.ofDecimal 1 (-3))) = [45, 48, 46, 48, 48] := by
  decide +kernel

example : round 59999999999 = 60000000000 ∧ round 1500 = 1500 ∧ round 3629999999999 = 3600000000000 ∧
    round 3630000000000 = 3660000000000 ∧ round (-5) = -5 := by decide +kernel

example : sortByText [(200, 3), (1000, 1), (99, 2)] = [(1000, 1), (200, 3), (99, 2)] := by decide +kernel

/-! ### the report command's loop -/

theorem aux_adds_append (a b : List Op) : adds (a ++ b) = adds a ++ adds b := by
  induction a with
  | nil => rfl
  | cons op t ih => cases op <;> simp [adds, ih]

theorem aux_run_snoc (m : Metrics) (ops : List Op) (op : Op) : run m (ops ++ [op]) = step (run m ops) op := by
  simp [run, List.foldl_append]

theorem aux_sumInt_append (a b : List Int) : sumInt (a ++ b) = sumInt a + sumInt b := by
  induction a with
  | nil => simp [sumInt]
  | cons x t ih => simp only [List.cons_append, sumInt, ih]; omega

theorem aux_sumNat_append (a b : List Nat) : sumNat (a ++ b) = sumNat a + sumNat b := by
  induction a with
  | nil => simp [sumNat]
  | cons x t ih => simp only [List.cons_append, sumNat, ih]; omega

/-- the domain is closed under prefixes -/
theorem aux_domain_prefix (p q : List Result) (hd : Domain (p ++ q)) : Domain p :=
  { ts_nonneg := fun r hr => hd.ts_nonneg r (by simp [hr])
    lat_nonneg := fun r hr => hd.lat_nonneg r (by simp [hr])
    end_fits := fun r hr => hd.end_fits r (by simp [hr])
    lat_sum := by
      have h := hd.lat_sum
      rw [List.map_append, aux_sumInt_append] at h
      have := aux_sumInt_nonneg (q.map (·.latency)) (by
        intro x hx; obtain ⟨r, hr, rfl⟩ := List.mem_map.mp hx; exact hd.lat_nonneg r (by simp [hr]))
      omega
    in_sum := by have h := hd.in_sum; rw [List.map_append, aux_sumNat_append] at h; omega
    out_sum := by have h := hd.out_sum; rw [List.map_append, aux_sumNat_append] at h; omega }

/-- loop invariant: the metrics are the result of `Add`/`Close` calls whose added results are exactly the
records decoded so far, and every report written is the reference report of a prefix of the input -/
def LoopInv (rs : List Result) (s : Loop) : Prop :=
  ∃ ops, s.m = run Metrics.init ops ∧ adds ops ++ s.input = rs ∧
    ∀ rep ∈ s.out, ∃ k, k ≤ rs.length ∧ rep = ref (rs.take k)

theorem aux_writeReport_inv (rs : List Result) (hd : Domain rs) (s : Loop) (h : LoopInv rs s) : LoopInv rs (writeReport s) := by
  obtain ⟨ops, hm, hin, hout⟩ := h
  refine ⟨ops ++ [.close], ?_, ?_, ?_⟩
  · simp only [writeReport, aux_run_snoc, step, hm]
  · simp only [writeReport, aux_adds_append, adds, List.append_nil]; exact hin
  · intro rep hrep
    simp only [writeReport, List.mem_append, List.mem_singleton] at hrep
    rcases hrep with hrep | hrep
    · exact hout rep hrep
    · refine ⟨(adds ops).length, ?_, ?_⟩
      · rw [← hin]; simp
      · rw [hrep, hm, incremental_report_eq_ref ops (aux_domain_prefix _ s.input (by rw [hin]; exact hd))]
        congr 1
        rw [← hin, List.take_left]

theorem aux_loopStep_inv (rs : List Result) (hd : Domain rs) (s : Loop) (e : Ev) (h : LoopInv rs s) : LoopInv rs (loopStep s e) := by
  unfold loopStep
  split
  · exact h
  · cases e with
    | interrupt => exact aux_writeReport_inv rs hd s h
    | tick => exact aux_writeReport_inv rs hd s h
    | decode =>
      simp only []
      split
      · exact aux_writeReport_inv rs hd s h
      · rename_i r rest hinput
        obtain ⟨ops, hm, hin, hout⟩ := h
        refine ⟨ops ++ [.add r], ?_, ?_, hout⟩
        · simp only [aux_run_snoc, step, hm]
        · simp only [aux_adds_append, adds, List.append_assoc, List.singleton_append]
          rw [← hinput]; exact hin

theorem aux_loopRun_inv (rs : List Result) (hd : Domain rs) (evs : List Ev) : ∀ s, LoopInv rs s → LoopInv rs (evs.foldl loopStep s) := by
  induction evs with
  | nil => intro s h; exact h
  | cons e t ih => intro s h; exact ih _ (aux_loopStep_inv rs hd s e h)

/-- **Periodic reports are prefix reports**: whatever the interleaving of ticks, decoded records and an
interrupt, every report the loop writes — periodic or final — is the reference report over a prefix of
the input (the records read so far). -/
theorem periodic_reports_are_prefix_reports (rs : List Result) (hd : Domain rs) (evs : List Ev) :
    ∀ rep ∈ (loopRun rs evs).out, ∃ k, k ≤ rs.length ∧ rep = ref (rs.take k) := by
  obtain ⟨_, _, _, h⟩ := aux_loopRun_inv rs hd evs (Loop.start rs)
    ⟨[], rfl, by simp [Loop.start, adds], by intro rep hrep; simp [Loop.start] at hrep⟩
  exact h

/-- invariant for runs without an interrupt: once the loop is done, all input was read and the last report
written is that of the final `Close` -/
def FinalInv (rs : List Result) (s : Loop) : Prop :=
  ∃ ops, adds ops ++ s.input = rs ∧
    (s.done = false → s.m = run Metrics.init ops) ∧
    (s.done = true → s.input = [] ∧ s.m = close (run Metrics.init ops) ∧ s.out.getLast? = some (report s.m))

theorem aux_loopStep_final (rs : List Result) (s : Loop) (e : Ev) (he : e ≠ .interrupt) (h : FinalInv rs s) :
    FinalInv rs (loopStep s e) := by
  unfold loopStep
  split
  · exact h
  · rename_i hdone
    have hdone' : s.done = false := by simpa using hdone
    obtain ⟨ops, hin, hm, _⟩ := h
    have hm' := hm hdone'
    cases e with
    | interrupt => exact absurd rfl he
    | tick =>
      refine ⟨ops ++ [.close], ?_, ?_, ?_⟩
      · simp only [writeReport, aux_adds_append, adds, List.append_nil]; exact hin
      · intro _; simp only [writeReport, aux_run_snoc, step, hm']
      · intro hd; simp [writeReport, hdone'] at hd
    | decode =>
      simp only []
      split
      · rename_i hinput
        refine ⟨ops, ?_, ?_, ?_⟩
        · simp only [writeReport]; exact hin
        · intro hd; simp at hd
        · intro _; exact ⟨by simp only [writeReport]; exact hinput, by simp only [writeReport, hm'], by simp [writeReport]⟩
      · rename_i r rest hinput
        refine ⟨ops ++ [.add r], ?_, ?_, ?_⟩
        · simp only [aux_adds_append, adds, List.append_assoc, List.singleton_append]; rw [← hinput]; exact hin
        · intro _; simp only [aux_run_snoc, step, hm']
        · intro hd; simp [hdone'] at hd

theorem aux_loopRun_final (rs : List Result) (evs : List Ev) (he : ∀ e ∈ evs, e ≠ .interrupt) :
    ∀ s, FinalInv rs s → FinalInv rs (evs.foldl loopStep s) := by
  induction evs with
  | nil => intro s h; exact h
  | cons e t ih =>
    intro s h
    exact ih (fun e' he' => he e' (by simp [he'])) _ (aux_loopStep_final rs s e (he e (by simp)) h)

/-- **The final report does not depend on the ticks**: for every interleaving of ticks and decodes (no
interrupt) that runs to the end of the input, the last report written is the report of adding all
records and closing once — the same for every tick placement; no domain restriction. -/
theorem final_report_independent_of_ticks (rs : List Result) (evs : List Ev) (he : ∀ e ∈ evs, e ≠ .interrupt)
    (hdone : (loopRun rs evs).done = true) :
    (loopRun rs evs).m = close (addAll Metrics.init rs) ∧
    (loopRun rs evs).out.getLast? = some (report (close (addAll Metrics.init rs))) := by
  unfold loopRun at hdone ⊢
  obtain ⟨ops, hin, _, h⟩ := aux_loopRun_final rs evs he (Loop.start rs)
    ⟨[], by simp [Loop.start, adds], by intro _; rfl, by intro h; simp [Loop.start] at h⟩
  obtain ⟨h1, h2, h3⟩ := h hdone
  have hadds : adds ops = rs := by rw [h1] at hin; simpa using hin
  have hm : (List.foldl loopStep (Loop.start rs) evs).m = close (addAll Metrics.init rs) := by
    rw [h2, interleaved_close, hadds]
  exact ⟨hm, by rw [h3, hm]⟩

/-- … and in the domain it is the reference report of the whole input. -/
theorem final_report_eq_ref (rs : List Result) (hd : Domain rs) (evs : List Ev) (he : ∀ e ∈ evs, e ≠ .interrupt)
    (hdone : (loopRun rs evs).done = true) : (loopRun rs evs).out.getLast? = some (ref rs) := by
  rw [(final_report_independent_of_ticks rs evs he hdone).2, metrics_eq_ref rs hd]

/-- The loop does finish: after the records and one more `Decode` (io.EOF), with any ticks in between. -/
example : (loopRun sample [.tick, .decode, .tick, .tick, .decode, .decode, .tick, .decode]).done = true ∧
    (loopRun sample [.tick, .decode, .tick, .tick, .decode, .decode, .tick, .decode]).out.length = 5 := by decide +kernel


/-! ## Extension: the exact sequence of reports of the report command, and the JSON layout -/

/-- For every report the loop writes, the number of records decoded before it: `k` records read so far,
`rem` records left in the input. -/
def reportPoints : Nat → Nat → List Ev → List Nat
  | _, _, [] => []
  | k, rem, .tick :: es => k :: reportPoints k rem es
  | k, _, .interrupt :: _ => [k]
  | k, 0, .decode :: _ => [k]
  | k, rem+1, .decode :: es => reportPoints (k+1) rem es

theorem aux_done_fixed (evs : List Ev) (s : Loop) (h : s.done = true) : evs.foldl loopStep s = s := by
  induction evs with
  | nil => rfl
  | cons e t ih => simp only [List.foldl_cons, loopStep, h, ↓reduceIte]; exact ih

theorem aux_loop_exact (rs : List Result) (hd : Domain rs) (evs : List Ev) : ∀ (s : Loop) (ops : List Op),
    s.done = false → s.m = run Metrics.init ops → adds ops ++ s.input = rs →
    (evs.foldl loopStep s).out = s.out ++ (reportPoints (adds ops).length s.input.length evs).map (fun k => ref (rs.take k)) := by
  induction evs with
  | nil => intro s ops _ _ _; simp [reportPoints]
  | cons e t ih =>
    intro s ops hdone hm hin
    have hrep : report (close s.m) = ref (rs.take (adds ops).length) := by
      rw [hm, incremental_report_eq_ref ops (aux_domain_prefix _ s.input (by rw [hin]; exact hd))]
      congr 1
      rw [← hin, List.take_left]
    have hw : ∀ d, ({ writeReport s with done := d } : Loop).out = s.out ++ [ref (rs.take (adds ops).length)] := by
      intro d; simp [writeReport, hrep]
    simp only [List.foldl_cons]
    cases e with
    | interrupt =>
      have e1 : loopStep s .interrupt = { writeReport s with done := true } := by simp [loopStep, hdone]
      rw [e1, aux_done_fixed t _ rfl, hw]; simp [reportPoints]
    | tick =>
      have e1 : loopStep s .tick = writeReport s := by simp [loopStep, hdone]
      rw [e1, ih (writeReport s) (ops ++ [.close]) (by simp [writeReport, hdone])
        (by simp only [writeReport, aux_run_snoc, step, hm])
        (by simp only [writeReport, aux_adds_append, adds, List.append_nil]; exact hin)]
      simp only [aux_adds_append, adds, List.append_nil, reportPoints, List.map_cons]
      have : (writeReport s).out = s.out ++ [ref (rs.take (adds ops).length)] := by simp [writeReport, hrep]
      rw [this]; simp [writeReport]
    | decode =>
      cases hinput : s.input with
      | nil =>
        have e1 : loopStep s .decode = { writeReport s with done := true } := by simp [loopStep, hdone, hinput]
        rw [e1, aux_done_fixed t _ rfl, hw]; simp [reportPoints]
      | cons r rest =>
        have e1 : loopStep s .decode = { s with m := add s.m r, input := rest } := by simp [loopStep, hdone, hinput]
        rw [e1, ih { s with m := add s.m r, input := rest } (ops ++ [.add r]) (by simpa using hdone)
          (by simp only [aux_run_snoc, step, hm])
          (by simp only [aux_adds_append, adds, List.append_assoc, List.singleton_append]; rw [← hinput]; exact hin)]
        simp [aux_adds_append, adds, reportPoints]

/-- **The reports the command writes, exactly**: for every interleaving of ticks, decodes and an interrupt,
the list of reports written (periodic ones, then the final one) is the list of reference reports over the
prefixes read so far — the `j`-th report is over exactly the records decoded before it (`reportPoints`),
repeated ticks give repeated identical reports, and nothing is written after the final report. -/
theorem loop_reports_exact (rs : List Result) (hd : Domain rs) (evs : List Ev) :
    (loopRun rs evs).out = (reportPoints 0 rs.length evs).map (fun k => ref (rs.take k)) := by
  have := aux_loop_exact rs hd evs (Loop.start rs) [] rfl rfl (by simp [Loop.start, adds])
  simpa [loopRun, Loop.start, adds] using this

example : Domain sample ∧ reportPoints 0 3 [.tick, .decode, .tick, .tick, .decode, .decode, .tick, .decode, .tick] = [0, 1, 1, 3, 3] :=
  ⟨{ ts_nonneg := by decide, lat_nonneg := by decide, end_fits := by decide, lat_sum := by decide,
     in_sum := by decide, out_sum := by decide }, by decide⟩

/-- **The JSON report has the documented layout**: exactly the documented members, in this order, each
carrying the stated field of the closed metrics; the status-code object lists each code of the histogram
once, in the byte-wise order of the decimal texts (as `encoding/json` sorts map keys); `errors` is the error
set in insertion order. -/
theorem json_report_layout (r : Report) (p50 p90 p95 p99 : Int) :
    ∃ cs : List (Nat × Nat), cs.Perm r.statusCodes ∧ TextSorted cs ∧
    (jsonReport r p50 p90 p95 p99).map (·.1) = jsonKeys ∧
    (jsonReport r p50 p90 p95 p99).map (·.2) =
      [ .int r.latTotal, .int r.latMean, .int p50, .int p90, .int p95, .int p99, .int r.latMax, .int r.latMin,
        .nat r.bytesInTotal, .flt r.bytesInMean, .nat r.bytesOutTotal, .flt r.bytesOutMean,
        .time r.earliest, .time r.latest, .time r.end_, .int r.duration, .int r.wait, .nat r.requests,
        .flt r.rate, .flt r.throughput, .flt r.successRatio, .codes cs, .strs r.errors ] :=
  ⟨sortByText r.statusCodes, (aux_sortByText _).1, (aux_sortByText _).2, rfl, rfl⟩

/-- **Every JSON report the command writes shows the reference values** of the prefix read so far. -/
theorem json_report_shows_metrics (ops : List Op) (hd : Domain (adds ops)) (p50 p90 p95 p99 : Int) :
    jsonReport (report (close (run Metrics.init ops))) p50 p90 p95 p99 = jsonReport (ref (adds ops)) p50 p90 p95 p99 := by
  rw [incremental_report_eq_ref ops hd]

end Vegeta.Props.C10
