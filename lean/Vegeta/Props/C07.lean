/-
C07 — Result codecs round-trip every result and follow the documented layout.

Property theorems only; the layer lemmas live in `Vegeta/Proofs/Codec*.lean`
(Decimal, Base64, CSV, MIME, RFC3339, JSONString, CSVResult, JSONResult, SpecJSON) and are
restated here where they are a clause of their own, so that the per-theorem axiom audit sees them.
The gob value encoding of `Result` is modelled in Model/GobValue.lean (type-definition preamble as a
constant checked against the real encoder on every run); gob framing and cuts are C09.
-/
import Vegeta.Proofs.CodecCSVResult
import Vegeta.Proofs.CodecJSONResult
import Vegeta.Proofs.CodecRFC3339
import Vegeta.Proofs.SpecJSON
import Vegeta.Proofs.StreamCut
import Vegeta.Proofs.GobValueResult
import Vegeta.Proofs.EqualLaws
import Vegeta.Proofs.EncodeCmdCut
import Vegeta.Extracted.Facts
namespace Vegeta.Props.C07
open Vegeta.Go Vegeta.Model.Codec Vegeta.Proofs.Codec

/-! ### Layers -/

/-- `strconv.ParseUint(strconv.FormatUint(n, 10), 10, bits) = n` for every value of the type -/
theorem decimal_uint_parse_format (bits n : Nat) (hb : bits ≤ 64) (h : n < 2 ^ bits) :
    parseUint bits (fmtNat n) = .ok n := parseUint_fmtNat bits n hb h

/-- `strconv.ParseInt(strconv.FormatInt(i, 10), 10, 64) = i` for every int64 -/
theorem decimal_int_parse_format (i : Int) (h : inS64 i) : parseInt 64 (fmtInt i) = .ok i :=
  parseInt_fmtInt i h

/-- `base64.StdEncoding`: `DecodeString (EncodeToString b) = b` for every byte string -/
theorem base64_decode_encode (b : Bytes) (h : ∀ x ∈ b, x < 256) : b64Decode (b64Encode b) = .ok b :=
  b64Decode_b64Encode b h

/-- `csv.Reader.Read` after `csv.Writer.Write` returns the written fields and stops exactly at the end
of the record, for every record of at least two fields with arbitrary field contents (quotes, commas,
newlines, leading blanks, …) — on input where `readLine`'s CR/LF normalisation has nothing to do. -/
theorem csv_read_write (fs : List Bytes) (h2 : 2 ≤ fs.length) (rest : Bytes) :
    readRecord (writeRecord fs ++ rest) = .record fs rest := readRecord_writeRecord fs h2 rest

/-- `ReadMIMEHeader` after `Header.Write` (+ blank line) returns the same map, for header maps as
net/http yields them (`ReprHeaders`) -/
theorem mime_read_write (h : Header) (hr : ReprHeaders h) :
    readMIMEHeader (headerWrite h ++ [13, 10]) = .ok (sortKV h) := readMIMEHeader_headerWrite h hr

/-- easyjson: the lexer finds the end of a written string whatever its content, and unescaping gives
the text back when it is valid UTF-8 -/
theorem json_string_roundtrip (s rest : Bytes) (h : validUTF8 s = true) :
    fetchString (jsonEscape s ++ 34 :: rest) = some (jsonEscape s, rest) ∧ unescape (jsonEscape s) = some s :=
  ⟨fetchString_jsonEscape s rest, unescape_jsonEscape s h⟩

/-- `time.Time`: `UnmarshalJSON (MarshalJSON t) = t` for every instant 1970-01-01 … 2200-12-31 at
nanosecond precision, in every zone of whole minutes -/
theorem rfc3339_roundtrip (ns offMin : Int) (h0 : 0 ≤ ns) (h1 : ns < 7289654400000000000)
    (ho : offMin.natAbs < 1440) :
    ∃ b, fmtRFC3339 ns offMin = some b ∧ parseRFC3339 b = some ns ∧
      ∀ c ∈ b, 32 ≤ c ∧ c < 128 ∧ c ≠ 34 ∧ c ≠ 92 := parseRFC3339_fmtRFC3339 ns offMin h0 h1 ho

/-! ### `Result.Equal` -/

/-- what the CSV decoder returns is `Equal` to what was written (nil body ≡ empty body; sorted header
list ≡ the same map) -/
theorem csv_decoded_equal (r : Result) (hr : ReprCSVResult r) :
    (csvDecoded r).equal r = true ∧ r.equal (csvDecoded r) = true := csvDecoded_equal r hr

/-! ### CSV -/

/-- **CSV: decode (encode rs) = rs, then end-of-stream**, for every sequence of results of the CSV
domain `ReprCSVResult` (texts without '\r', full numeric ranges, timestamps 1970–2200, any body,
nil/empty/multi-valued headers with canonical keys and values without control bytes). -/
theorem csv_roundtrip (rs : List Result) (hrs : ∀ r ∈ rs, ReprCSVResult r) :
    ∃ out, decodeCSV (encodeCSVAll rs) = (out, .eof) ∧ equalAll out rs = true :=
  csv_roundtrip_equal rs hrs

/-- the decoded list, explicitly -/
theorem csv_roundtrip_explicit (rs : List Result) (hrs : ∀ r ∈ rs, ReprCSVResult r) :
    decodeCSV (encodeCSVAll rs) = (rs.map csvDecoded, .eof) := decodeCSV_encodeCSVAll rs hrs

/-- **the independent reader of the documented twelve columns agrees with the decoder**, field by field -/
theorem spec_reader_agrees_csv (rs : List Result) (hrs : ∀ r ∈ rs, ReprCSVResult r) :
    Vegeta.Spec.Layout.specReadCSV (encodeCSVAll rs) = decodeCSV (encodeCSVAll rs) := by
  rw [specReadCSV_encodeCSVAll rs hrs, decodeCSV_encodeCSVAll rs hrs]

/-- Why '\r' is kept out of the CSV domain: the writer copies "\r\n" into a quoted field as it is and the
reader's line normalisation turns it into "\n", so a text containing "\r\n" does not survive the round
trip (a limitation of encoding/csv itself, documented there; not counted as a codec defect). Witness:
the record `["a\r\nb", ""]` reads back as `["a\nb", ""]`. -/
theorem csv_crlf_in_text_not_preserved :
    readRecord (normCRLF (writeRecord [[97, 13, 10, 98], []])) = .record [[97, 10, 98], []] [] := by decide

/-! ### JSON -/

/-- the RFC 3339 layer in the form the record-level proofs consume -/
theorem aux_timeOK (ts offMin : Int) (h0 : 0 ≤ ts) (h1 : ts < tsLimit) (ho : offMin.natAbs < 1440) :
    TimeOK ts offMin := by
  obtain ⟨b, hb, hp, hc⟩ := timeUnmarshal_timeMarshal ts offMin h0 (by simpa [tsLimit] using h1) ho
  exact ⟨b, hb, hp, hc⟩

theorem aux_timeText (ts offMin : Int) (h0 : 0 ≤ ts) (h1 : ts < tsLimit) (ho : offMin.natAbs < 1440) :
    TimeText ts offMin := by
  obtain ⟨b, hb, hp, hc⟩ := parseRFC3339_fmtRFC3339 ts offMin h0 (by simpa [tsLimit] using h1) ho
  exact ⟨b, hb, hp, hc⟩

/-- **JSON, one record**: for every result of the JSON domain `ReprJSONResult` (valid UTF-8 texts, full
numeric ranges, timestamps 1970–2200, nil/empty/any body, nil/empty/any header map — in the key order
the map iteration happens to produce, which is the order of the association list) and every zone,
the encoder emits a line and the decoder returns exactly the result. -/
theorem json_roundtrip_record (offMin : Int) (ho : offMin.natAbs < 1440) (r : Result) (hr : ReprJSONResult r) :
    ∃ b, encodeJSON offMin r = some b ∧ decodeJSONLine b = .ok r :=
  decodeJSONLine_encodeJSON offMin r hr (aux_timeOK _ _ hr.num.ts0 hr.num.ts1 ho)

theorem aux_forall₂_length {α β : Type} {R : α → β → Prop} {as : List α} {bs : List β}
    (h : Forall₂ R as bs) : as.length = bs.length := by
  induction h with
  | nil => rfl
  | cons _ _ ih => simp [ih]

theorem aux_take_flatten_le (n : Nat) (ls : List Bytes) : (ls.take n).flatten.length ≤ ls.flatten.length := by
  have : ls.flatten = (ls.take n).flatten ++ (ls.drop n).flatten := by
    rw [← List.flatten_append, List.take_append_drop]
  rw [this, List.length_append]; omega

theorem aux_lines (offMin : Int) (ho : offMin.natAbs < 1440) (rs : List Result)
    (hrs : ∀ r ∈ rs, ReprJSONResult r) :
    ∃ lines, encodeJSONAll offMin rs = some lines.flatten ∧
      Forall₂ (fun l r => IsLine l ∧ decodeJSONLine l = .ok r) lines rs := by
  induction rs with
  | nil => exact ⟨[], rfl, .nil⟩
  | cons r rs ih =>
    obtain ⟨b, hb, hd⟩ := json_roundtrip_record offMin ho r (hrs r (by simp))
    obtain ⟨ls, hls, hf⟩ := ih (fun x hx => hrs x (by simp [hx]))
    refine ⟨b :: ls, ?_, .cons ⟨encodeJSON_single_newline offMin r b hb, hd⟩ hf⟩
    simp [encodeJSONAll, hb, hls]

/-- **JSON: decode (encode rs) = rs, then end-of-stream**, for every sequence of results of the JSON
domain (literally the same results, hence `Equal`). -/
theorem json_roundtrip (offMin : Int) (ho : offMin.natAbs < 1440) (rs : List Result)
    (hrs : ∀ r ∈ rs, ReprJSONResult r) :
    ∃ s, encodeJSONAll offMin rs = some s ∧ decodeJSON s = (rs, .eof) := by
  obtain ⟨lines, hl, hf⟩ := aux_lines offMin ho rs hrs
  refine ⟨lines.flatten, hl, ?_⟩
  have h := decodeJSON_cut lines rs hf lines.flatten.length
  have hlen : lines.length = rs.length := aux_forall₂_length hf
  have hb := linesBefore_spec lines lines.flatten.length
  -- all lines lie before the end of the stream
  have hall : linesBefore lines lines.flatten.length = lines.length := by
    rcases Nat.lt_or_ge (linesBefore lines lines.flatten.length) lines.length with hlt | hge
    · exfalso
      have hget : lines[linesBefore lines lines.flatten.length]? =
          some lines[linesBefore lines lines.flatten.length] := List.getElem?_eq_getElem hlt
      have h3 := hb.2.2 _ hget
      have hsub := aux_take_flatten_le (linesBefore lines lines.flatten.length + 1) lines
      omega
    · have := hb.1; omega
  rw [List.take_length] at h
  rw [h, hall, hlen, List.take_length]

/-- **… for every iteration order of the header map**: Go iterates a map in random order, so the encoder
may emit the header keys in any permutation `h'` of the list `h`; whichever it is, the decoded result is
`Equal` to the original. -/
theorem json_roundtrip_any_key_order (offMin : Int) (ho : offMin.natAbs < 1440) (r : Result)
    (hr : ReprJSONResult r) (h h' : Header) (hh : r.headers = some h) (hp : h'.Perm h) :
    ∃ b out, encodeJSON offMin { r with headers := some h' } = some b ∧ decodeJSONLine b = .ok out ∧
      out.equal r = true := by
  have hn := (hr.headers h hh).1
  have hr' : ReprJSONResult { r with headers := some h' } :=
    { num := ⟨hr.num.seq, hr.num.code, hr.num.ts0, hr.num.ts1, hr.num.latency, hr.num.bytesOut, hr.num.bytesIn⟩
      attack := hr.attack, error := hr.error, method := hr.method, url := hr.url, body := hr.body
      headers := by
        intro x hx
        simp only [Option.some.injEq] at hx
        subst hx
        refine ⟨((hp.map (·.1)).nodup_iff).2 hn, ?_⟩
        intro kv hkv
        exact (hr.headers h hh).2 kv (hp.mem_iff.1 hkv) }
  obtain ⟨b, hb, hd⟩ := json_roundtrip_record offMin ho _ hr'
  refine ⟨b, _, hb, hd, ?_⟩
  simp only [Result.equal, hh, beq_self_eq_true, Bool.true_and, Bool.and_true]
  exact headerEqual_of_perm h' h hp hn

/-- **the independent reader of the documented member names and units agrees**: it reads every encoded
record of the JSON domain back to exactly the written result (so it agrees with the decoder, field by field) -/
theorem spec_reader_agrees_json (offMin : Int) (ho : offMin.natAbs < 1440) (r : Result) (hr : ReprJSONResult r) :
    ∃ b, encodeJSON offMin r = some b ∧ Vegeta.Spec.Layout.specReadJSONLine b = some r ∧ decodeJSONLine b = .ok r := by
  obtain ⟨b, hb, hs⟩ := specReadJSONLine_encodeJSON offMin r hr (aux_timeText _ _ hr.num.ts0 hr.num.ts1 ho)
  obtain ⟨b', hb', hd⟩ := json_roundtrip_record offMin ho r hr
  rw [hb] at hb'; cases hb'
  exact ⟨b, hb, hs, hd⟩

/-! ### gob: the value encoding (Model/GobValue.lean) -/

section Gob
open Vegeta.Model.GobFrame Vegeta.Model.GobValue Vegeta.Proofs.Gob

/-- gob varints, zig-zag integers and length-prefixed strings / []byte round-trip, whatever follows -/
theorem gob_scalar_layers (n : Nat) (hn : n < 2 ^ 64) (i : Int) (hi : inS64 i) (b rest : Bytes)
    (hb : b.length < 2 ^ 64) :
    decUint (encodeUint n ++ rest) = some (n, rest) ∧ decInt (gInt i ++ rest) = some (i, rest) ∧
    decBytes (gBytes b ++ rest) = some (b, rest) :=
  ⟨decUint_encodeUint n hn rest, decInt_gInt i hi rest, decBytes_gBytes b rest hb⟩

/-- `time.Time`: `UnmarshalBinary (MarshalBinary t)` restores the instant in every zone (versions 1 and 2) -/
theorem gob_time_layer (z : Zone) (ts : Int) (b : Bytes)
    (hs : -9223372036854775808 ≤ ts / 1000000000 + unixToInternal ∧ ts / 1000000000 + unixToInternal < 9223372036854775808)
    (h : timeBinary z ts = some b) : decTimeBinary b = some ts := decTimeBinary_timeBinary z ts b hs h

/-- `map[string][]string` with distinct keys round-trips in the iteration order given -/
theorem gob_header_layer (h : Header) (rest : Bytes) (hn : h.length < 2 ^ 64) (hd : (h.map (·.1)).Nodup)
    (hk : ∀ kv ∈ h, kv.1.length < 2 ^ 64 ∧ kv.2.length < 2 ^ 64 ∧ ∀ v ∈ kv.2, v.length < 2 ^ 64) :
    decHeader (gHeader h ++ rest) = some (h, rest) := decHeader_gHeader h rest hn hd hk

/-- one value message decodes (into a zero `Result`) to the written result -/
theorem gob_value_roundtrip (z : Zone) (r : Result) (hz : ZoneOK z) (hr : ReprGobResult z r) :
    ∃ p, valuePayload z r = some p ∧ p.length < tooBig ∧ decValue p = some (gobDecoded r) :=
  decValue_valuePayload z r hz hr

/-- **gob: decode (encode rs) = rs, then end-of-stream**, for every sequence of results of the gob domain
`ReprGobResult` (arbitrary bytes in texts, body and header values; full numeric ranges; timestamps
1970–2200 in UTC or any zone `MarshalBinary` accepts; header maps with distinct keys in any iteration
order = list order; value message below gob's 2^33-byte limit): the stream is the four type-definition
messages followed by one value message per result, and the decoder returns results `Equal` to the
written ones, then io.EOF. -/
theorem gob_roundtrip (z : Zone) (rs : List Result) (hz : ZoneOK z) (hrs : ∀ r ∈ rs, ReprGobResult z r) :
    ∃ s out, encodeGobAll z rs = some s ∧ decodeGob s = (out, .eof) ∧ equalAll out rs = true :=
  gob_roundtrip_equal z rs hz hrs

theorem gob_roundtrip_explicit (z : Zone) (rs : List Result) (hz : ZoneOK z) (hrs : ∀ r ∈ rs, ReprGobResult z r) :
    ∃ s, encodeGobAll z rs = some s ∧ decodeGob s = (rs.map gobDecoded, .eof) :=
  decodeGob_encodeGobAll z rs hz hrs

/-- **… for every iteration order of the header map**: whichever permutation `h'` of the entries the
encoder happens to emit, the decoded result is `Equal` to the original -/
theorem gob_roundtrip_any_key_order (z : Zone) (hz : ZoneOK z) (r : Result) (h h' : Header)
    (hh : r.headers = some h) (hp : h'.Perm h) (hr' : ReprGobResult z { r with headers := some h' }) :
    ∃ p out, valuePayload z { r with headers := some h' } = some p ∧ decValue p = some out ∧ out.equal r = true := by
  obtain ⟨p, hp1, _, hp2⟩ := decValue_valuePayload z _ hz hr'
  refine ⟨p, _, hp1, hp2, ?_⟩
  have hn' : (h'.map (·.1)).Nodup := hr'.headers h' rfl
  have hn : (h.map (·.1)).Nodup := ((hp.map (·.1)).nodup_iff).1 hn'
  have hb : ((if (r.body.getD []).isEmpty = true then none else r.body) : Option Bytes).getD [] = r.body.getD [] := by
    cases hbody : r.body with
    | none => simp
    | some b => cases b <;> simp
  simp only [gobDecoded, Result.equal, hh, beq_self_eq_true, Bool.true_and, Bool.and_true, hb]
  exact headerEqual_of_perm h' h hp hn

end Gob

/-! ### `Result.Equal` / `headerEqual` as a relation (Proofs/EqualLaws.lean) -/

section EqualLaws
open Vegeta.Model.EncodeCmd Vegeta.Proofs.EncodeCmd

/-- **`Equal` looks at every field**: two results are `Equal` iff all scalar fields agree, the bodies are the
same byte string (nil = empty) and `headerEqual` holds; so a difference in any one field makes them unequal -/
theorem equal_field_by_field (a b : Result) : a.equal b = true ↔
    (a.attack = b.attack ∧ a.seq = b.seq ∧ a.code = b.code ∧ a.timestamp = b.timestamp ∧ a.latency = b.latency ∧
     a.bytesIn = b.bytesIn ∧ a.bytesOut = b.bytesOut ∧ a.error = b.error ∧ a.body.getD [] = b.body.getD [] ∧
     a.method = b.method ∧ a.url = b.url ∧ headerEqual a.headers b.headers = true) := equal_iff a b

/-- **value lists are compared element by element**: non-nil maps are equal iff they have the same number of
keys and every key of the first has exactly the same value list in the second -/
theorem header_equal_elementwise (h1 h2 : Header) :
    headerEqual (some h1) (some h2) = true ↔ h1.length = h2.length ∧ ∀ kv ∈ h1, headerGet h2 kv.1 = kv.2 :=
  headerEqual_iff h1 h2

/-- a nil header map equals only a nil one (nil ≠ empty); nil and empty bodies are equal -/
theorem equal_nil_vs_empty (r : Result) (h : HeadersOK r.headers) (hm : Header) :
    headerEqual none none = true ∧ headerEqual none (some hm) = false ∧ headerEqual (some hm) none = false ∧
    ({ r with headers := none } : Result).equal { r with headers := some [] } = false ∧
    ({ r with body := none } : Result).equal { r with body := some [] } = true ∧
    ({ r with body := some [] } : Result).equal { r with body := none } = true :=
  ⟨(headerEqual_nil hm).1, (headerEqual_nil hm).2.1, (headerEqual_nil hm).2.2, (equal_headers_nil_empty r).1,
   (equal_body_nil_empty r h).1, (equal_body_nil_empty r h).2⟩

/-- reflexive on Go maps (distinct keys) -/
theorem equal_reflexive (r : Result) (h : HeadersOK r.headers) : r.equal r = true := equal_refl r h

/-- symmetric on header maps as net/http yields them (distinct keys, every key with at least one value) -/
theorem equal_symmetric (a b : Result) (ha : HeadersOK a.headers) (hb : HeadersOK b.headers)
    (va : ValuesNonEmpty a.headers) (vb : ValuesNonEmpty b.headers) (h : a.equal b = true) : b.equal a = true :=
  equal_symm a b ha hb va vb h

/-- transitive, so chains of conversions compose -/
theorem equal_transitive (a b c : Result) (va : ValuesNonEmpty a.headers) (h1 : a.equal b = true)
    (h2 : b.equal c = true) : a.equal c = true := equal_trans a b c va h1 h2

/-- **oddity of the unchanged `headerEqual`** (modelled as it is): a key with an EMPTY value list reads like a
missing key, so `Equal` is not symmetric there — {A:[x], B:[]} "equals" {A:[x], C:[y]} but not conversely.
Harmless for headers as net/http yields them (every key has a value); the harness's oracle avoids the corner. -/
theorem equal_not_symmetric_with_empty_value_lists :
    ∃ a b : Result, HeadersOK a.headers ∧ HeadersOK b.headers ∧ a.equal b = true ∧ b.equal a = false :=
  equal_not_symmetric_witness

theorem aux_headersOK_csv (r : Result) (h : ReprCSVResult r) : HeadersOK r.headers :=
  fun x hx => ((h.headers x hx).1).1
theorem aux_headersOK_json (r : Result) (h : ReprJSONResult r) : HeadersOK r.headers :=
  fun x hx => (h.headers x hx).1

/-- the JSON round trip restated modulo `Equal` (it returns literally the same results) -/
theorem json_roundtrip_equal (offMin : Int) (ho : offMin.natAbs < 1440) (rs : List Result)
    (hrs : ∀ r ∈ rs, ReprJSONResult r) :
    ∃ s out, encodeJSONAll offMin rs = some s ∧ decodeJSON s = (out, .eof) ∧ equalAll out rs = true := by
  obtain ⟨s, hs, hd⟩ := json_roundtrip offMin ho rs hrs
  refine ⟨s, rs, hs, hd, ?_⟩
  have := equalAll_decodedBy .json .json rs (fun r hr => aux_headersOK_json r (hrs r hr))
  simpa [decodedBy] using this

/-! ### The `encode` command (Model/EncodeCmd.lean): a map of per-record round trips -/

theorem aux_headersOK_for (c : Codec) (z : Vegeta.Model.GobValue.Zone) (r : Result) (h : ReprFor c z r) :
    HeadersOK r.headers := by
  cases c with
  | csv => exact aux_headersOK_csv r h
  | json => exact aux_headersOK_json r h.1
  | gob => exact fun x hx => h.1.headers x hx

/-- **what `vegeta encode` writes decodes to what was read, for every from/to pair and every stream**, however
heterogeneous (a sparse record after a full one, …): the command decodes each record into a fresh `Result` and
encodes it before reading the next, so it is a map over the records — the output decodes to the input's
records passed through the two decoders, which are `Equal` to the originals, then end-of-stream. -/
theorem encode_command_is_map (src dst : Codec) (zs zd : Vegeta.Model.GobValue.Zone) (rs : List Result)
    (hs : ∀ r ∈ rs, ReprFor src zs r) (hd : ∀ r ∈ rs, ReprFor dst zd (decodedBy src r)) :
    ∃ inp out, encodeAllWith src zs rs = some inp ∧ (encodeCmd src dst zd inp).2 = true ∧
      decodeWith dst (encodeCmd src dst zd inp).1 = (out, .eof) ∧
      out = rs.map (decodedBy dst ∘ decodedBy src) ∧ equalAll out rs = true := by
  obtain ⟨inp, h1, h2, h3⟩ := encodeCmd_complete src dst zs zd rs hs hd
  exact ⟨inp, _, h1, h2, h3, rfl, equalAll_decodedBy src dst rs (fun r hr => aux_headersOK_for src zs r (hs r hr))⟩

/-! non-vacuity -/
example : exB.equal exA = true :=
  equal_symmetric exA exB (by intro x hx; cases hx; decide) (by intro x hx; cases hx; decide)
    (by intro x hx; cases hx; decide) (by intro x hx; cases hx; decide) (by decide)
example : ∃ inp out, encodeAllWith .gob .utc [cmdExample] = some inp ∧ (encodeCmd .gob .csv .utc inp).2 = true ∧
    decodeWith .csv (encodeCmd .gob .csv .utc inp).1 = (out, .eof) ∧
    out = [cmdExample].map (decodedBy .csv ∘ decodedBy .gob) ∧ equalAll out [cmdExample] = true :=
  encode_command_is_map .gob .csv .utc .utc [cmdExample]
    (by intro r hr; simp at hr; subst hr; exact ⟨cmdExample_gob, trivial⟩)
    (by intro r hr; simp at hr; subst hr; exact cmdExample_csv)

end EqualLaws

/-! ### Documented layout: obligations on the regenerated source facts

`Vegeta.Extracted.*` is regenerated from /repo by `extract/c07.go` on every check run (go/ast):
the `[]string` literal of `NewCSVEncoder`, the `rec[i] → field` flow of `NewCSVDecoder`, the reader
configuration, the `Result` struct, the member names of the generated JSON code, and the numbered
column lists of the usage text in encode.go and of README.md. -/

/-- the twelve documented CSV columns, in the documented order -/
def docColumns : List Bytes := [
    [85, 110, 105, 120, 32, 116, 105, 109, 101, 115, 116, 97, 109, 112, 32, 105, 110, 32, 110, 97, 110, 111, 115, 101, 99, 111, 110, 100, 115, 32, 115, 105, 110, 99, 101, 32, 101, 112, 111, 99, 104],   -- Unix timestamp in nanoseconds since epoch
    [72, 84, 84, 80, 32, 115, 116, 97, 116, 117, 115, 32, 99, 111, 100, 101],   -- HTTP status code
    [82, 101, 113, 117, 101, 115, 116, 32, 108, 97, 116, 101, 110, 99, 121, 32, 105, 110, 32, 110, 97, 110, 111, 115, 101, 99, 111, 110, 100, 115],   -- Request latency in nanoseconds
    [66, 121, 116, 101, 115, 32, 111, 117, 116],   -- Bytes out
    [66, 121, 116, 101, 115, 32, 105, 110],   -- Bytes in
    [69, 114, 114, 111, 114],   -- Error
    [66, 97, 115, 101, 54, 52, 32, 101, 110, 99, 111, 100, 101, 100, 32, 114, 101, 115, 112, 111, 110, 115, 101, 32, 98, 111, 100, 121],   -- Base64 encoded response body
    [65, 116, 116, 97, 99, 107, 32, 110, 97, 109, 101],   -- Attack name
    [83, 101, 113, 117, 101, 110, 99, 101, 32, 110, 117, 109, 98, 101, 114, 32, 111, 102, 32, 114, 101, 113, 117, 101, 115, 116],   -- Sequence number of request
    [77, 101, 116, 104, 111, 100],   -- Method
    [85, 82, 76],   -- URL
    [66, 97, 115, 101, 54, 52, 32, 101, 110, 99, 111, 100, 101, 100, 32, 114, 101, 115, 112, 111, 110, 115, 101, 32, 104, 101, 97, 100, 101, 114, 115]   -- Base64 encoded response headers
  ]

/-- the `Result` field each documented column stands for, in the documented order -/
def docColumnFields : List Bytes := [
    [84, 105, 109, 101, 115, 116, 97, 109, 112],   -- Timestamp
    [67, 111, 100, 101],   -- Code
    [76, 97, 116, 101, 110, 99, 121],   -- Latency
    [66, 121, 116, 101, 115, 79, 117, 116],   -- BytesOut
    [66, 121, 116, 101, 115, 73, 110],   -- BytesIn
    [69, 114, 114, 111, 114],   -- Error
    [66, 111, 100, 121],   -- Body
    [65, 116, 116, 97, 99, 107],   -- Attack
    [83, 101, 113],   -- Seq
    [77, 101, 116, 104, 111, 100],   -- Method
    [85, 82, 76],   -- URL
    [72, 101, 97, 100, 101, 114, 115]   -- Headers
  ]

/-- conversions applied by the encoder per column (units: `UnixNano`, `Nanoseconds`, base64) -/
def encoderConversions : List (List Bytes) := [
    [[115, 116, 114, 99, 111, 110, 118, 46, 70, 111, 114, 109, 97, 116, 73, 110, 116], [85, 110, 105, 120, 78, 97, 110, 111]],   -- strconv.FormatInt ∘ UnixNano
    [[115, 116, 114, 99, 111, 110, 118, 46, 70, 111, 114, 109, 97, 116, 85, 105, 110, 116], [117, 105, 110, 116, 54, 52]],   -- strconv.FormatUint ∘ uint64
    [[115, 116, 114, 99, 111, 110, 118, 46, 70, 111, 114, 109, 97, 116, 73, 110, 116], [78, 97, 110, 111, 115, 101, 99, 111, 110, 100, 115]],   -- strconv.FormatInt ∘ Nanoseconds
    [[115, 116, 114, 99, 111, 110, 118, 46, 70, 111, 114, 109, 97, 116, 85, 105, 110, 116]],   -- strconv.FormatUint
    [[115, 116, 114, 99, 111, 110, 118, 46, 70, 111, 114, 109, 97, 116, 85, 105, 110, 116]],   -- strconv.FormatUint
    [],   -- (as is)
    [[98, 97, 115, 101, 54, 52, 46, 83, 116, 100, 69, 110, 99, 111, 100, 105, 110, 103, 46, 69, 110, 99, 111, 100, 101, 84, 111, 83, 116, 114, 105, 110, 103]],   -- base64.StdEncoding.EncodeToString
    [],   -- (as is)
    [[115, 116, 114, 99, 111, 110, 118, 46, 70, 111, 114, 109, 97, 116, 85, 105, 110, 116]],   -- strconv.FormatUint
    [],   -- (as is)
    [],   -- (as is)
    [[98, 97, 115, 101, 54, 52, 46, 83, 116, 100, 69, 110, 99, 111, 100, 105, 110, 103, 46, 69, 110, 99, 111, 100, 101, 84, 111, 83, 116, 114, 105, 110, 103], [104, 101, 97, 100, 101, 114, 66, 121, 116, 101, 115]]   -- base64.StdEncoding.EncodeToString ∘ headerBytes
  ]

/-- conversions applied by the decoder per column -/
def decoderConversions : List (List Bytes) := [
    [[115, 116, 114, 99, 111, 110, 118, 46, 80, 97, 114, 115, 101, 73, 110, 116], [116, 105, 109, 101, 46, 85, 110, 105, 120]],   -- strconv.ParseInt ∘ time.Unix
    [[115, 116, 114, 99, 111, 110, 118, 46, 80, 97, 114, 115, 101, 85, 105, 110, 116], [117, 105, 110, 116, 49, 54]],   -- strconv.ParseUint ∘ uint16
    [[115, 116, 114, 99, 111, 110, 118, 46, 80, 97, 114, 115, 101, 73, 110, 116], [116, 105, 109, 101, 46, 68, 117, 114, 97, 116, 105, 111, 110]],   -- strconv.ParseInt ∘ time.Duration
    [[115, 116, 114, 99, 111, 110, 118, 46, 80, 97, 114, 115, 101, 85, 105, 110, 116]],   -- strconv.ParseUint
    [[115, 116, 114, 99, 111, 110, 118, 46, 80, 97, 114, 115, 101, 85, 105, 110, 116]],   -- strconv.ParseUint
    [],   -- (as is)
    [[98, 97, 115, 101, 54, 52, 46, 83, 116, 100, 69, 110, 99, 111, 100, 105, 110, 103, 46, 68, 101, 99, 111, 100, 101, 83, 116, 114, 105, 110, 103]],   -- base64.StdEncoding.DecodeString
    [],   -- (as is)
    [[115, 116, 114, 99, 111, 110, 118, 46, 80, 97, 114, 115, 101, 85, 105, 110, 116]],   -- strconv.ParseUint
    [],   -- (as is)
    [],   -- (as is)
    [[116, 101, 120, 116, 112, 114, 111, 116, 111, 46, 78, 101, 119, 82, 101, 97, 100, 101, 114], [98, 117, 102, 105, 111, 46, 78, 101, 119, 82, 101, 97, 100, 101, 114], [98, 97, 115, 101, 54, 52, 46, 78, 101, 119, 68, 101, 99, 111, 100, 101, 114], [115, 116, 114, 105, 110, 103, 115, 46, 78, 101, 119, 82, 101, 97, 100, 101, 114], [112, 114, 46, 82, 101, 97, 100, 77, 73, 77, 69, 72, 101, 97, 100, 101, 114], [104, 116, 116, 112, 46, 72, 101, 97, 100, 101, 114]]   -- textproto.NewReader ∘ bufio.NewReader ∘ base64.NewDecoder ∘ strings.NewReader ∘ pr.ReadMIMEHeader ∘ http.Header
  ]

/-- the fields of `vegeta.Result` the model, the generators and the spec reader cover -/
def modelledFieldNames : List Bytes := [
    [65, 116, 116, 97, 99, 107],   -- Attack
    [83, 101, 113],   -- Seq
    [67, 111, 100, 101],   -- Code
    [84, 105, 109, 101, 115, 116, 97, 109, 112],   -- Timestamp
    [76, 97, 116, 101, 110, 99, 121],   -- Latency
    [66, 121, 116, 101, 115, 79, 117, 116],   -- BytesOut
    [66, 121, 116, 101, 115, 73, 110],   -- BytesIn
    [69, 114, 114, 111, 114],   -- Error
    [66, 111, 100, 121],   -- Body
    [77, 101, 116, 104, 111, 100],   -- Method
    [85, 82, 76],   -- URL
    [72, 101, 97, 100, 101, 114, 115]   -- Headers
  ]

def modelledFieldTypes : List Bytes := [
    [115, 116, 114, 105, 110, 103],   -- string
    [117, 105, 110, 116, 54, 52],   -- uint64
    [117, 105, 110, 116, 49, 54],   -- uint16
    [116, 105, 109, 101, 46, 84, 105, 109, 101],   -- time.Time
    [116, 105, 109, 101, 46, 68, 117, 114, 97, 116, 105, 111, 110],   -- time.Duration
    [117, 105, 110, 116, 54, 52],   -- uint64
    [117, 105, 110, 116, 54, 52],   -- uint64
    [115, 116, 114, 105, 110, 103],   -- string
    [91, 93, 98, 121, 116, 101],   -- []byte
    [115, 116, 114, 105, 110, 103],   -- string
    [115, 116, 114, 105, 110, 103],   -- string
    [104, 116, 116, 112, 46, 72, 101, 97, 100, 101, 114]   -- http.Header
  ]

/-- **The CSV columns are exactly the twelve documented ones in the documented order**: the column
list of the usage text (encode.go) and of README.md, the encoder's column expressions and the decoder's
`rec[i]` assignments name the same fields in the same order; the reader expects 12 fields per record.
(This is the obligation that catches "two columns swapped on both sides".) -/
theorem columns_match_documentation :
    Vegeta.Extracted.docCSVColumnsUsage = docColumns ∧ Vegeta.Extracted.docCSVColumnsReadme = docColumns ∧
    Vegeta.Extracted.csvEncFields = docColumnFields ∧ Vegeta.Extracted.csvDecFields = docColumnFields ∧
    Vegeta.Extracted.csvDecIndex = [0, 1, 2, 3, 4, 5, 6, 7, 8, 9, 10, 11] ∧
    Vegeta.Extracted.csvFieldsPerRecord = 12 ∧ Vegeta.Extracted.csvTrimLeadingSpace = true := by decide

/-- **… and in the documented units**: timestamp via `UnixNano` / `time.Unix(0, ·)`, latency via
`Nanoseconds` / `time.Duration(·)`, body and headers through base64, numbers in decimal -/
theorem columns_units_match_documentation :
    Vegeta.Extracted.csvEncCalls = encoderConversions ∧ Vegeta.Extracted.csvDecCalls = decoderConversions := by decide

/-- **Every field of `Result` is modelled** (a field added later changes the regenerated list and
breaks this obligation), with the Go types the model assumes -/
theorem result_fields_all_modelled :
    Vegeta.Extracted.resultFieldNames = modelledFieldNames ∧ Vegeta.Extracted.resultFieldTypes = modelledFieldTypes := by decide

/-- **The JSON objects use exactly the documented member names**: the json struct tags, the keys the
generated encoder writes (in this order), the keys the generated decoder accepts, the names in the
model and the names the spec reader looks for are the same twelve -/
theorem json_names_match_documentation :
    Vegeta.Extracted.resultFieldTags = [nAttack, nSeq, nCode, nTimestamp, nLatency, nBytesOut, nBytesIn, nError, nBody, nMethod, nURL, nHeaders] ∧
    Vegeta.Extracted.jsonEncKeys = Vegeta.Extracted.resultFieldTags ∧
    Vegeta.Extracted.jsonDecKeys = Vegeta.Extracted.resultFieldTags ∧
    (open Vegeta.Spec.Layout in [dAttack, dSeq, dCode, dTimestamp, dLatency, dBytesOut, dBytesIn, dError, dBody, dMethod, dURL, dHeaders]) =
      Vegeta.Extracted.resultFieldTags := by decide

/-! ### non-vacuity: concrete results inside the domains -/

example : ReprCSVResult exampleResult := exampleResult_repr
example : ReprJSONResult jsonExampleResult := jsonExampleResult_repr
example : ReprHeaders exampleHeader := by unfold ReprHeaders ReprKey ReprValue exampleHeader; decide
example : ∃ out, decodeCSV (encodeCSVAll [exampleResult, exampleResult]) = (out, .eof) ∧
    equalAll out [exampleResult, exampleResult] = true :=
  csv_roundtrip _ (by intro r hr; simp at hr; subst hr; exact exampleResult_repr)
example : ∃ s, encodeJSONAll 60 [jsonExampleResult] = some s ∧ decodeJSON s = ([jsonExampleResult], .eof) :=
  json_roundtrip 60 (by decide) _ (by intro r hr; simp at hr; subst hr; exact jsonExampleResult_repr)

end Vegeta.Props.C07
