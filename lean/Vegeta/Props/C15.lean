/-
C15 — Targeters hand out each target exactly once under concurrent use.

Model: `Model/TargeterConc.lean` (labelled transition systems with callers as processes);
invariants: `Proofs/TargeterConc.lean`; source laws of the two stream targeters:
`Proofs/TargeterLaws.lean`.  All theorems quantify over every schedule (list of labels) and
every number of callers.  Data-race freedom is not a theorem here: the atomic-step model is tied
to the source by the `facts_*` obligations below (lock / atomic scope) and by the harness, the
race detector runs in the harness only.
-/
import Vegeta.Proofs.TargeterLaws
import Vegeta.Proofs.TargeterLin
import Vegeta.Extracted.Facts
namespace Vegeta.Props.C15
open Vegeta.Go Vegeta.Model
open Vegeta.Model.TargeterConc
open Vegeta.Proofs.TargeterConc Vegeta.Proofs.TargeterLaws Vegeta.Proofs.TargeterLin

/-! ### stream targeters (generic in the source) -/

/-- no caller is between leaving the lock and returning -/
def Quiescent {S R T : Type} (st : St S R T) : Prop := heldOf st.loc = []

/-- **"a stream targeter … delivers every target of its input exactly once — none lost,
duplicated or mixed with another"**, for every stream targeter whose exhaustion is stable, every
number of callers and every interleaving: at any moment the items popped so far (a prefix `taken`
of the input's items, in input order) are, as a multiset, exactly the results already delivered
plus the items callers still hold; the rest is still in the source. -/
theorem stream_exactly_once_any {S R T : Type} (sys : Sys S R T) (stable : Stable sys) (src : S) (all : List R)
    (hall : Drains sys src all) (callers : Nat) (tr : List Label) (st : St S R T)
    (hrun : run sys (init src callers) tr = some st) :
    ∃ taken rest, all = taken ++ rest ∧ Drains sys st.src rest ∧
      (delivered st.log ++ (heldOf st.loc).map sys.dec).Perm (taken.map sys.dec) :=
  inv_run sys stable all tr _ st (inv_init sys src all callers hall) hrun

/-- … and once the source is exhausted and every caller has returned, the multiset of
delivered results is exactly the multiset of the input's items (decoded). -/
theorem stream_exactly_once {S R T : Type} (sys : Sys S R T) (stable : Stable sys) (src : S) (all : List R)
    (hall : Drains sys src all) (callers : Nat) (tr : List Label) (st : St S R T)
    (hrun : run sys (init src callers) tr = some st) (hq : Quiescent st) (hex : (sys.pop st.src).1 = none) :
    (delivered st.log).Perm (all.map sys.dec) := by
  obtain ⟨taken, rest, h1, h2, h3⟩ := stream_exactly_once_any sys stable src all hall callers tr st hrun
  have hrest : rest = [] := by
    cases h2 with
    | done _ => rfl
    | more hp _ => rw [hp] at hex; cases hex
  subst hrest
  simp only [List.append_nil] at h1
  subst h1
  simpa [Quiescent.eq_1, show heldOf st.loc = [] from hq] using h3

/-- **"… and reports exhaustion to every caller afterwards"**: from any state whose source is
exhausted, along every further schedule, the source stays exhausted, every `lock c` step tells
caller `c` `ErrNoTargets` (the callers told so are exactly the lock labels of the schedule, in
order), and no new result appears except those of callers that were already holding an item. -/
theorem exhaustion_reported_to_all {S R T : Type} (sys : Sys S R T) (stable : Stable sys) (st st' : St S R T)
    (tr : List Label) (hex : (sys.pop st.src).1 = none) (hrun : run sys st tr = some st') :
    (sys.pop st'.src).1 = none ∧
    exhaustedCallers st'.log = exhaustedCallers st.log ++ lockCallers tr ∧
    (heldOf st'.loc).length + (delivered st'.log).length = (heldOf st.loc).length + (delivered st.log).length :=
  exhausted_run sys stable tr st st' hex hrun

/-! ### linearisation at the lock -/

/-- **Refinement: every interleaving is equivalent to a sequential order of calls** — for any
stream targeter, any number of callers and any schedule `tr`: run the same calls one after the
other, each to its end, in the order in which they took the lock (`seqTrace (lockCallers tr)`).
That sequential run ends with the same source state, nobody mid-call, and every caller has
received exactly the answers it has received in the interleaved run, in the same order, plus
the answer of the call it is still in the middle of (none once it has returned).  No hypothesis
on the source. -/
theorem linearisation {S R T : Type} (sys : Sys S R T) (src : S) (callers : Nat) (tr : List Label) (st : St S R T)
    (hrun : run sys (init src callers) tr = some st) :
    let sq := runLenient sys (init src callers) (seqTrace (lockCallers tr))
    sq.src = st.src ∧ (∀ c, c < callers → sq.loc[c]? = some .idle) ∧
    ∀ c, eventsOf c sq.log = eventsOf c st.log ++ pendingOf' sys c st.loc := by
  have lin := lin_run sys tr _ st _ (lin_init sys src callers) hrun
  refine ⟨lin.src, ?_, lin.evs⟩
  intro c hc
  apply lin.idle c
  have hlen : st.loc.length = callers := by
    have : ∀ (tr : List Label) (a b : St S R T), run sys a tr = some b → b.loc.length = a.loc.length := by
      intro tr
      induction tr with
      | nil => intro a b h; simp [run] at h; subst h; rfl
      | cons l ls ih =>
        intro a b h
        simp only [run] at h
        split at h
        · rename_i s1 hs
          rw [ih s1 b h]
          cases l with
          | lock c =>
            simp only [step] at hs
            split at hs
            · split at hs <;> (cases hs; simp)
            · cases hs
          | finish c =>
            simp only [step] at hs
            split at hs
            · cases hs; simp
            · cases hs
        · cases h
    rw [this tr _ st hrun]; simp [init]
  rw [lin.len, hlen]; exact hc

/-- … in particular, once every caller has returned, each caller's answers are exactly those of
the sequential run -/
theorem linearisation_quiescent {S R T : Type} (sys : Sys S R T) (src : S) (callers : Nat) (tr : List Label)
    (st : St S R T) (hrun : run sys (init src callers) tr = some st) (hq : ∀ c, pendingOf' sys c st.loc = []) :
    ∀ c, eventsOf c (runLenient sys (init src callers) (seqTrace (lockCallers tr))).log = eventsOf c st.log := by
  intro c
  have := (linearisation sys src callers tr st hrun).2.2 c
  simpa [hq c] using this

/-! ### why the JSON targeter may decode outside its lock -/

/-- **The JSON targeter's two-phase shape (read under the lock, decode outside) is safe because
`ReadBytes` returns a fresh copy**: in the model that makes the reader's buffer part of the
shared state, giving every caller its own copy of the line (`fresh = true`) makes every schedule
step for step a schedule of the two-phase model `jsonSys` (to which all theorems above apply).
The fresh copy is an ASSUMPTION about `bufio.Reader.ReadBytes` (documented by the standard
library, checked at run time by the race detector rounds), not a theorem about it. -/
theorem json_decode_outside_lock_safe (cfg : JSONTargets.Cfg) (src : Bytes) (callers : Nat) (tr : List Label)
    (s : BSt) (h : brun cfg true (binit src callers) tr = some s) :
    run (jsonSys cfg) (init src callers) tr = some (proj s) := by
  have ho : OwnsOnly (binit src callers).loc := by
    intro l hl
    simp only [binit, List.mem_replicate] at hl
    rw [hl.2]; simp
  have := fresh_run cfg tr (binit src callers) s ho h
  have hp : proj (binit src callers) = init src callers := by
    simp [proj, binit, init, projLoc]
  rw [hp] at this
  exact this

/-- the decoder used in the two examples below: a line decodes to a target named after it -/
def echoCfg : JSONTargets.Cfg :=
  { dec := fun l => some { method := l, url := l, body := [], header := [] }, body := [], hdr := [] }

/-- … and WITHOUT the fresh copy it is not: two lines `A`, `B`, two callers, schedule
lock 0, lock 1, finish 0, finish 1 — caller 0 took line `A` but decodes `B` (a window into the
reader's buffer, overwritten by caller 1's read): `B` is delivered twice, `A` never. -/
theorem json_decode_outside_lock_needs_fresh_copy :
    (brun echoCfg false (binit [65, 10, 66, 10] 2) [.lock 0, .lock 1, .finish 0, .finish 1]).map (fun s => s.log) =
      some [.result 0 (.ok { method := [66], url := [66], body := [], header := [] }),
            .result 1 (.ok { method := [66], url := [66], body := [], header := [] })] := by decide

/-- the same schedule with the fresh copy: `A` to caller 0, `B` to caller 1 -/
example : (brun echoCfg true (binit [65, 10, 66, 10] 2) [.lock 0, .lock 1, .finish 0, .finish 1]).map (fun s => s.log) =
      some [.result 0 (.ok { method := [65], url := [65], body := [], header := [] }),
            .result 1 (.ok { method := [66], url := [66], body := [], header := [] })] := by decide

/-- non-vacuity of `linearisation`: an interleaved run of two callers and its sequential counterpart -/
example : (run (jsonSys echoCfg) (init [65, 10, 66, 10] 2) [.lock 1, .lock 0, .finish 0, .finish 1]).map (fun s => s.log) =
      some [.result 0 (.ok { method := [66], url := [66], body := [], header := [] }),
            .result 1 (.ok { method := [65], url := [65], body := [], header := [] })] ∧
    (runLenient (jsonSys echoCfg) (init [65, 10, 66, 10] 2) (seqTrace (lockCallers [.lock 1, .lock 0, .finish 0, .finish 1]))).log =
      [.result 1 (.ok { method := [65], url := [65], body := [], header := [] }),
       .result 0 (.ok { method := [66], url := [66], body := [], header := [] })] := by
  constructor <;> decide

/-! ### the two stream targeters are such sources -/

/-- JSON targeter: exhaustion is stable and every input drains to a finite list of lines. -/
theorem json_source (cfg : JSONTargets.Cfg) (src : Bytes) :
    Stable (jsonSys cfg) ∧ ∃ all, Drains (jsonSys cfg) src all :=
  ⟨json_stable cfg, json_drains cfg src.length src (Nat.le_refl _)⟩

/-- HTTP targeter: likewise (each item is the outcome of one whole decode). -/
theorem http_source (cfg : HTTPTargets.Cfg) (st : HTTPTargets.St) :
    Stable (httpSys cfg) ∧ ∃ all, Drains (httpSys cfg) st all :=
  ⟨http_stable cfg, http_drains cfg _ st (Nat.le_refl _)⟩

/-- JSON targeter, all interleavings: delivered results = the input's lines, each decoded once. -/
theorem json_exactly_once (cfg : JSONTargets.Cfg) (src : Bytes) (callers : Nat) (tr : List Label)
    (st : St Bytes Bytes JSONTargets.JRec) (hrun : run (jsonSys cfg) (init src callers) tr = some st)
    (hq : Quiescent st) (hex : ((jsonSys cfg).pop st.src).1 = none) :
    ∃ all, Drains (jsonSys cfg) src all ∧ (delivered st.log).Perm (all.map (JSONTargets.finish cfg)) := by
  obtain ⟨all, hall⟩ := (json_source cfg src).2
  exact ⟨all, hall, stream_exactly_once (jsonSys cfg) (json_stable cfg) src all hall callers tr st hrun hq hex⟩

/-- HTTP targeter, all interleavings: delivered results = the outcomes of the sequential decode. -/
theorem http_exactly_once (cfg : HTTPTargets.Cfg) (s0 : HTTPTargets.St) (callers : Nat) (tr : List Label)
    (st : St HTTPTargets.St (Outcome HTTPTargets.Target) HTTPTargets.Target)
    (hrun : run (httpSys cfg) (init s0 callers) tr = some st)
    (hq : Quiescent st) (hex : ((httpSys cfg).pop st.src).1 = none) :
    ∃ all, Drains (httpSys cfg) s0 all ∧ (delivered st.log).Perm all := by
  obtain ⟨all, hall⟩ := (http_source cfg s0).2
  refine ⟨all, hall, ?_⟩
  have := stream_exactly_once (httpSys cfg) (http_stable cfg) s0 all hall callers tr st hrun hq hex
  simpa [httpSys] using this

/-! ### static targeter -/

/-- **"a static targeter hands its targets out in strict rotation so that after n draws each of
its k targets has been used ⌊n/k⌋ or ⌈n/k⌉ times"** — for every number of callers and every
interleaving of the atomic adds and the local index reads, once all `n` draws have returned
(`n < 2^63`: the `int64` counter): no draw panicked, there are `n` results, and target `j` was
handed out exactly `⌊n/k⌋` times plus once more when `j < n mod k`. -/
theorem static_rotation (k : Nat) (hk : 0 < k) (callers : Nat) (tr : List SLabel) (s : SSt)
    (hrun : srun k (sinit callers) tr = some s) (hn : addCount tr < two63) (hq : pendingOf s.loc = []) :
    s.log.length = addCount tr ∧ (∀ e ∈ s.log, ∃ j, e.2 = .ok j ∧ j < k) ∧
    ∀ j, j < k → (s.log.filter fun e => e.2 == .ok j).length =
      addCount tr / k + if j < addCount tr % k then 1 else 0 := by
  have inv := sinv_run k tr 0 (sinit callers) s (sinv_init k callers) hrun (by simpa using hn)
  simp only [Nat.zero_add] at inv
  have hp := inv.perm
  simp only [hq, List.map_nil, List.nil_append] at hp
  have hmap : ((List.range (addCount tr)).map fun (i : Nat) => sindex k (i : Int)) =
      (List.range (addCount tr)).map fun i => Outcome.ok (i % k) := by
    apply List.map_congr_left; intro i _; exact sindex_nat k i hk
  rw [hmap] at hp
  refine ⟨by simpa using hp.length_eq, ?_, ?_⟩
  · intro e he
    have : e.2 ∈ s.log.map (·.2) := List.mem_map_of_mem he
    have := hp.mem_iff.mp this
    simp only [List.mem_map, List.mem_range] at this
    obtain ⟨i, _, hi⟩ := this
    exact ⟨i % k, hi.symm, Nat.mod_lt _ hk⟩
  · intro j hj
    have hc := hp.count_eq (Outcome.ok j)
    rw [List.count_eq_length_filter, List.count_eq_length_filter] at hc
    have h1 : (s.log.filter fun e => e.2 == .ok j).length = ((s.log.map (·.2)).filter fun x => x == Outcome.ok j).length := by
      rw [List.filter_map, List.length_map]; rfl
    rw [h1, hc, List.filter_map, List.length_map, ← count_rotation k hk j hj (addCount tr)]
    congr 1
    apply List.filter_congr
    intro i _
    simp only [Function.comp]
    rw [Bool.eq_iff_iff]
    simp only [beq_iff_eq]
    constructor
    · intro h; cases h; rfl
    · intro h; rw [h]

theorem aux_ceil_div (n k : Nat) (hk : 0 < k) : (n + k - 1) / k = n / k + if n % k = 0 then 0 else 1 := by
  have hdm := Nat.div_add_mod n k
  have hlt := Nat.mod_lt n hk
  by_cases h0 : n % k = 0
  · simp only [h0, ↓reduceIte, Nat.add_zero]
    have : n + k - 1 = (k - 1) + k * (n / k) := by omega
    rw [this, Nat.add_mul_div_left _ _ hk, Nat.div_eq_of_lt (by omega)]; omega
  · simp only [h0, ↓reduceIte]
    have : n + k - 1 = (n % k - 1) + k * (n / k + 1) := by rw [Nat.mul_add, Nat.mul_one]; omega
    rw [this, Nat.add_mul_div_left _ _ hk, Nat.div_eq_of_lt (by omega)]; omega

/-- … that is: every target was used `⌊n/k⌋` or `⌈n/k⌉` times -/
theorem static_rotation_floor_ceil (k : Nat) (hk : 0 < k) (callers : Nat) (tr : List SLabel) (s : SSt)
    (hrun : srun k (sinit callers) tr = some s) (hn : addCount tr < two63) (hq : pendingOf s.loc = []) (j : Nat) (hj : j < k) :
    (s.log.filter fun e => e.2 == .ok j).length = addCount tr / k ∨
    (s.log.filter fun e => e.2 == .ok j).length = (addCount tr + k - 1) / k := by
  have := (static_rotation k hk callers tr s hrun hn hq).2.2 j hj
  rw [this, aux_ceil_div _ _ hk]
  by_cases h : j < addCount tr % k
  · right
    have : ¬ addCount tr % k = 0 := by omega
    simp [h, this]
  · left; simp [h]

/-! ### non-vacuity and concrete schedules -/

/-- three callers, two targets, an interleaved schedule of 5 draws: targets used 3 and 2 times -/
example : (srun 2 (sinit 3) [.add 0, .add 1, .finish 1, .add 2, .add 1, .finish 0, .finish 2, .finish 1, .add 0, .finish 0]).map
    (fun s => (s.log.map (·.2), pendingOf s.loc)) =
    some ([.ok 1, .ok 0, .ok 0, .ok 1, .ok 0], []) := by decide

/-! ### source facts the atomic-step model rests on -/

/-- the static targeter indexes with the value returned by `atomic.AddInt64(&i, 1)` and uses
the counter nowhere else -/
theorem facts_static_atomic :
    Vegeta.Extracted.c15_static_index_via_atomic_add = true ∧ Vegeta.Extracted.c15_static_counter_other_uses = 0 := by decide

/-- in `NewJSONTargeter` every `ReadBytes` call and every use of the shared reader lies lexically
between the statements `rd.Lock()` and `rd.Unlock()`; decode happens after the unlock -/
theorem facts_json_lock_scope :
    Vegeta.Extracted.c15_json_lock_unlock_statements = true ∧
    Vegeta.Extracted.c15_json_readbytes_calls = Vegeta.Extracted.c15_json_readbytes_inside_lock ∧
    0 < Vegeta.Extracted.c15_json_readbytes_calls ∧
    Vegeta.Extracted.c15_json_reader_uses_outside_lock = 0 ∧
    Vegeta.Extracted.c15_json_decode_after_unlock = true := by decide

/-- the closure of `NewHTTPTargeter` starts with `mu.Lock(); defer mu.Unlock()` and the scanner
is referenced nowhere outside that closure -/
theorem facts_http_lock_scope :
    Vegeta.Extracted.c15_http_lock_then_defer_unlock_first = true ∧
    Vegeta.Extracted.c15_http_scanner_uses_outside_closure = 0 := by decide

end Vegeta.Props.C15
