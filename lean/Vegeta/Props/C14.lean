/-
C14 — Target files decode to exactly the targets they describe, independently.

Models: `Model/HTTPTargets.lean` (the repaired code: defaults copied on merge, comment lines
skipped while peeking), `Model/JSONTargets.lean`; documented grammar: `Spec/TargetGrammar.lean`;
helper lemmas: `Proofs/TargetText`, `Proofs/HTTPTargetsL` (list-level view + refinement of the
peeking scanner), `Proofs/HTTPHeap` (slices and aliasing), `Proofs/HTTPGrammar`,
`Proofs/HTTPRender` (grammar), `Proofs/JSONTargets`, `Proofs/JSONRoundTrip`.  The behaviour
before the two fixes is kept in namespace `Old` with its two counterexamples.
-/
import Vegeta.Proofs.HTTPRender
import Vegeta.Proofs.JSONTargets
import Vegeta.Proofs.JSONRoundTrip
import Vegeta.Proofs.TargeterLaws
import Vegeta.Proofs.HTTPFileSystem
import Vegeta.Proofs.AttackTargets
import Vegeta.Proofs.JSONTargetsRef
import Vegeta.Extracted.Facts
namespace Vegeta.Props.C14
open Vegeta.Go Vegeta.Model
open Vegeta.Model.HTTPTargets
open Vegeta.Proofs.HTTPTargetsL Vegeta.Proofs.HTTPHeap Vegeta.Proofs.HTTPGrammar Vegeta.Proofs.HTTPRender
open Vegeta.Spec.TargetGrammar hiding Bytes

/-! ## the http format -/

/-- What the property's first clause says for a document `d`, default header map/heap, and `k`
extra calls: the first `|blocks|` calls return the described targets in order — each compared
with its description in the heap right after its own call — and the `k` further calls all
report `ErrNoTargets`. -/
def DecodesAsDescribed (cfg : Cfg) (h0 : Heap) (d : Doc) (k : Nat) : Prop :=
  ∃ rs hEnd,
    (callsH cfg (d.blocks.length + k) { ps := PS.init (render d), heap := h0 }).1 =
      rs ++ List.replicate k (.error eNoTargets, hEnd) ∧
    ListRel (fun r b => ∃ t, r.1 = .ok t ∧ Matches r.2 t (describe (defaultsOf cfg h0) cfg.body cfg.fs b)) rs d.blocks

theorem aux_parse_render_normal (cfg : Cfg) (h0 : Heap) (d : Doc) (k : Nat)
    (hl : d.Legal cfg.validURI cfg.fs) (hend : NormalEnd d) (wf : WfDefaults cfg h0) :
    DecodesAsDescribed cfg h0 d k := by
  obtain ⟨ps', c1, _⟩ := calls_refines cfg (d.blocks.length + k) { ps := PS.init (render d), heap := h0 }
  simp only [eff_init, srcLines_render cfg d hl hend] at c1
  have htrail : ∀ l ∈ (d.trail.map fun f => dropCR f.line), IsFiller l := by
    intro l hl'
    simp only [List.mem_map] at hl'
    obtain ⟨f, hf, rfl⟩ := hl'
    exact filler_class f (hl.2.1 f hf)
  have hok : ∀ x ∈ d.blocks.map (toABlock cfg), x.OK cfg := by
    intro x hx
    simp only [List.mem_map] at hx
    obtain ⟨b, hb, rfl⟩ := hx
    exact toABlock_ok cfg b (hl.1 b hb)
  have hsep := asep_of_spec cfg d.blocks hl.1 hl.2.2
  have hdoc := callsL_doc cfg _ htrail (d.blocks.map (toABlock cfg)) hok hsep h0 k
  simp only [List.length_map] at hdoc
  refine ⟨(expectL cfg (d.blocks.map (toABlock cfg)) h0).1, (expectL cfg (d.blocks.map (toABlock cfg)) h0).2, ?_, ?_⟩
  · rw [c1]; exact hdoc.1
  · exact expect_matches cfg h0 d.blocks h0 hl.1 wf (fun _ => rfl)

/-- **"For every well-formed targets file in the http format (request lines, case-preserved
headers, @file bodies, blank lines, and comment lines, which are ignored wherever they appear) the
targeter returns exactly the described targets in order and then reports exhaustion"**, with the
documented merge (defaults first, own values added, default body only when the target has none)
— for EVERY document of the grammar and every layout: padding, comment and blank lines in every
legal position (also directly between two bare request lines), CR LF line ends, final newline
or not.  Hypotheses: the document is legal and the default header slices are backed by the
heap.  (No `NormalEnd` hypothesis: an unterminated empty last line renders to the same bytes as
the document without it, `render_normalize`.) -/
theorem http_parse_render (cfg : Cfg) (h0 : Heap) (d : Doc) (k : Nat)
    (hl : d.Legal cfg.validURI cfg.fs) (wf : WfDefaults cfg h0) : DecodesAsDescribed cfg h0 d k := by
  obtain ⟨d', hb, hl', hend, hr⟩ := render_normalize cfg d hl
  have := aux_parse_render_normal cfg h0 d' k hl' hend wf
  unfold DecodesAsDescribed at this ⊢
  rw [hb, hr] at this
  exact this

/-! non-vacuity: `GET http://a/ ` / `# c` / `X: 1\r` / `` / `\tGET http://b/` / ` #` (unterminated)
with the default `X: [d]` in a slice with spare capacity satisfies the hypotheses -/

def okCfg : Cfg :=
  { validURI := fun _ => true, fs := fun _ => none, body := [98],
    hdr := [([88], { arr := 0, len := 1, cap := 4 })] }

def okDoc : Doc :=
  { blocks := [
      { lead := [], pre := [], method := [71, 69, 84], url := [104, 116, 116, 112, 58, 47, 47, 97, 47], post := [32],
        items := [.comment { pre := [], text := [32, 99] },
                  .header { key := [88], value := [49], pre := [], mid := [32], post := [13] }],
        body := none },
      { lead := [.blank []], pre := [9], method := [71, 69, 84],
        url := [104, 116, 116, 112, 58, 47, 47, 98, 47], post := [], items := [], body := none }],
    trail := [.comment { pre := [32], text := [] }], finalNewline := false }

theorem aux_isPad_nil : IsPad [] := by intro c h; cases h

theorem aux_isPad_one (c : Nat) (h : isPadByte c = true) : IsPad [c] := by
  intro x hx; simp at hx; subst hx; exact h

theorem aux_edgePlain_of {s : Bytes} (c d : Nat) (h1 : s.head? = some c) (h2 : s.getLast? = some d)
    (hc : isPlain c = true) (hd : isPlain d = true) (h10 : 10 ∉ s) : EdgePlain s :=
  ⟨⟨c, h1, hc⟩, ⟨d, h2, hd⟩, h10⟩

theorem aux_wf_single (k : Bytes) (s : Slice) (cells : List Bytes) (h : Heap) (cfg : Cfg) (hh : cfg.hdr = [(k, s)])
    (hc : h[s.arr]? = some cells) (hl : cells.length = s.cap) (hle : s.len ≤ s.cap) : WfDefaults cfg h := by
  refine ⟨?_⟩
  intro k' s' hk
  rw [hh] at hk
  simp only [hlookup] at hk
  split at hk
  · cases hk; exact ⟨hle, Or.inr ⟨cells, hc, hl⟩⟩
  · cases hk

example : okDoc.Legal okCfg.validURI okCfg.fs ∧ WfDefaults okCfg [[[100], [], [], []]] := by
  refine ⟨⟨?_, ?_, ⟨(by intro _; rfl), trivial⟩⟩, aux_wf_single [88] _ [[100], [], [], []] _ okCfg rfl rfl rfl (by decide)⟩
  · intro b hb
    simp only [okDoc, List.mem_cons, List.mem_nil_iff, or_false] at hb
    rcases hb with rfl | rfl
    · refine ⟨(by intro f hf; cases hf), aux_isPad_nil, aux_isPad_one 32 rfl, (by decide), (by decide), ?_, rfl, ?_,
        (by intro bl hbl; cases hbl)⟩
      · exact aux_edgePlain_of 104 47 rfl rfl (by decide) (by decide) (by decide)
      · intro it hit
        simp only [List.mem_cons, List.mem_nil_iff, or_false] at hit
        rcases hit with rfl | rfl
        · exact ⟨aux_isPad_nil, (by decide)⟩
        · exact ⟨(by decide), (by decide), (by decide), (by decide),
            aux_edgePlain_of 49 49 rfl rfl (by decide) (by decide) (by decide),
            aux_isPad_nil, aux_isPad_one 32 rfl, aux_isPad_one 13 rfl⟩
    · refine ⟨?_, aux_isPad_one 9 rfl, aux_isPad_nil, (by decide), (by decide), ?_, rfl,
        (by intro it hit; cases hit), (by intro bl hbl; cases hbl)⟩
      · intro f hf
        simp only [List.mem_cons, List.mem_nil_iff, or_false] at hf
        subst hf
        exact aux_isPad_nil
      · exact aux_edgePlain_of 104 47 rfl rfl (by decide) (by decide) (by decide)
  · intro f hf
    simp only [okDoc, List.mem_cons, List.mem_nil_iff, or_false] at hf
    subst hf
    exact ⟨aux_isPad_one 32 rfl, (by decide)⟩

/-- … and what the model computes for it: `GET http://a/` with `X: [d, 1]` and the default body,
`GET http://b/` with `X: [d]`, then `ErrNoTargets` -/
example : ((callsH okCfg 3 { ps := PS.init (render okDoc), heap := [[[100], [], [], []]] }).1.map fun r =>
      match r.1 with
      | .ok t => some (viewTarget r.2 t)
      | _ => none) =
    [some { method := [71, 69, 84], url := [104, 116, 116, 112, 58, 47, 47, 97, 47], body := [98], header := [([88], [[100], [49]])] },
     some { method := [71, 69, 84], url := [104, 116, 116, 112, 58, 47, 47, 98, 47], body := [98], header := [([88], [[100]])] },
     none] := by decide

/-! ### merge, aliasing -/

/-- **"Default headers … are merged as documented (defaults first, the target's own values
added)"**, for any file whatsoever: a successful call adds some header lines `own` (the ones it
parsed, in order — `http_parse_render` identifies them with the block's header lines); right
after the call every key of the returned target shows the default values followed by the own
values of that key, and a key is present iff it has a default or an own value. -/
theorem merge_semantics (cfg : Cfg) (st : St) (wf : WfDefaults cfg st.heap) (t : Target)
    (hok : (call cfg st).1 = .ok t) :
    ∃ own : List (Bytes × Bytes), ∀ k,
      (hlookup t.header k).map (view (call cfg st).2.heap) =
        match (hlookup cfg.hdr k).map (view st.heap), ownVals own k with
        | none, [] => none
        | none, vs => some vs
        | some ds, vs => some (ds ++ vs) := by
  obtain ⟨ps', c1, _⟩ := call_refines cfg st
  rw [c1] at hok ⊢
  simp only at hok ⊢
  rcases callL_fold cfg (eff st.ps) st.heap with ⟨_, h2⟩ | ⟨own, o1, o2⟩
  · exact absurd hok (h2 t)
  · refine ⟨own, fun k => ?_⟩
    rw [o2 t hok, o1]
    exact built_merge cfg st.heap wf own k

/-- **"decoding a later target never changes … the defaults"**: over any number of calls on any
input, every default header keeps its values. -/
theorem defaults_unchanged (cfg : Cfg) (st : St) (wf : WfDefaults cfg st.heap) (n : Nat) :
    ∀ k s0, hlookup cfg.hdr k = some s0 → view (calls cfg n st).2.heap s0 = view st.heap s0 := by
  obtain ⟨ps', c1, _⟩ := calls_refines cfg n st
  rw [(callsH_calls cfg n st).2, c1]
  exact callsL_defaults cfg n (eff st.ps) st.heap wf

/-- **"decoding a later target never changes a target returned earlier"** — for EVERY input,
every default header map (spare capacity or not, no hypothesis at all) and any number of calls:
every target returned by one of the `n` calls shows, in the final heap, exactly the header values
it showed right after its own call.  (A call touches no array that existed before it:
`callL_frame`.) -/
theorem earlier_targets_stable (cfg : Cfg) (st : St) (n : Nat) :
    ∀ r ∈ (callsH cfg n st).1, ∀ t, r.1 = .ok t → ∀ k,
      (hlookup t.header k).map (view (callsH cfg n st).2.heap) = (hlookup t.header k).map (view r.2) := by
  obtain ⟨ps', c1, _⟩ := calls_refines cfg n st
  rw [c1]
  intro r hr t ht k
  cases hk : hlookup t.header k with
  | none => rfl
  | some s =>
    have := callsL_stable cfg n (eff st.ps) st.heap r hr t ht k s hk
    simp only [Option.map_some, this.2]

/-! ### regression guards: the two witnesses of the former defects, on the repaired model -/

def trapCfg : Cfg := { validURI := fun _ => true, fs := fun _ => none, body := [], hdr := [] }

/-- `GET http://a/` / `# c` / `GET http://b/` -/
def trapSrc : Bytes :=
  [71, 69, 84, 32, 104, 116, 116, 112, 58, 47, 47, 97, 47, 10, 35, 32, 99, 10,
   71, 69, 84, 32, 104, 116, 116, 112, 58, 47, 47, 98, 47, 10]

def aliasCfg : Cfg :=
  { validURI := fun _ => true, fs := fun _ => none, body := [], hdr := [([88], { arr := 0, len := 1, cap := 4 })] }

def aliasHeap : Heap := [[[100], [], [], []]]

/-- default `X: [d]` in a slice of capacity 4; `GET http://a/` `X: 1` `` `GET http://b/` `X: 2` -/
def aliasSrc : Bytes :=
  [71, 69, 84, 32, 104, 116, 116, 112, 58, 47, 47, 97, 47, 10, 88, 58, 32, 49, 10, 10,
   71, 69, 84, 32, 104, 116, 116, 112, 58, 47, 47, 98, 47, 10, 88, 58, 32, 50, 10]

/-- a comment between two bare request lines: two targets without headers, then `ErrNoTargets` -/
example : ((callsH trapCfg 3 { ps := PS.init trapSrc, heap := [] }).1.map fun r =>
      match r.1 with
      | .ok t => some (viewTarget r.2 t)
      | _ => none) =
    [some { method := [71, 69, 84], url := [104, 116, 116, 112, 58, 47, 47, 97, 47], body := [], header := [] },
     some { method := [71, 69, 84], url := [104, 116, 116, 112, 58, 47, 47, 98, 47], body := [], header := [] },
     none] := by decide

/-- a repeated default key with spare capacity: target 1 still shows `X: [d, 1]` after target 2
(`X: [d, 2]`) was decoded -/
example : ((callsH aliasCfg 2 { ps := PS.init aliasSrc, heap := aliasHeap }).1.map fun r =>
      match r.1 with
      | .ok t => viewMap (callsH aliasCfg 2 { ps := PS.init aliasSrc, heap := aliasHeap }).2.heap t.header
      | _ => []) =
    [[([88], [[100], [49]])], [([88], [[100], [50]])]] := by decide

/-! ### the code before fixes 84aa239 and c9e79da, and what was wrong with it -/

namespace Old

/-- the former closure: the default slices themselves are put into the target's map, and the
decision after the request line is made on the first peeked line, comment or not -/
def call (cfg : Cfg) (st : St) : Outcome Target × St :=
  let fuel := st.ps.rest.length + 2
  match skipLoop fuel st.ps with
  | (none, ps1) => (.error eNoTargets, { st with ps := ps1 })
  | (some line, ps1) =>
    match requestLine cfg line cfg.hdr with          -- tgt.Header[k] = vs
    | .error e => (.error e, { st with ps := ps1 })
    | .ok tgt =>
      let (p, ps2) := ps1.peek
      if returnsAfterPeek (Vegeta.Model.Histogram.trimSpace p) then (.ok tgt, { st with ps := ps2 })
      else
        match headerLoop cfg fuel ps2 tgt st.heap with
        | (some e, ps3, _, h3) => (.error e, { ps := ps3, heap := h3 })
        | (none, ps3, tgt3, h3) => (.ok tgt3, { ps := ps3, heap := h3 })

def callsH (cfg : Cfg) : Nat → St → List (Outcome Target × Heap) × St
  | 0, st => ([], st)
  | n + 1, st =>
    let (r, st1) := call cfg st
    let (rs, st2) := callsH cfg n st1
    ((r, st1.heap) :: rs, st2)

end Old

/-- **Former defect #11** (fixed by c9e79da): on the old code the legal file `GET http://a/`,
`# c`, `GET http://b/` yields ONE target — carrying the bogus header `"GET http": ["//b/"]` —
and then `ErrNoTargets`. -/
theorem http_parse_render_old_counterexample :
    ((Old.callsH trapCfg 2 { ps := PS.init trapSrc, heap := [] }).1.map fun r =>
      match r.1 with
      | .ok t => some (viewTarget r.2 t)
      | _ => none) =
    [some { method := [71, 69, 84], url := [104, 116, 116, 112, 58, 47, 47, 97, 47], body := [],
            header := [([71, 69, 84, 32, 104, 116, 116, 112], [[47, 47, 98, 47]])] }, none] := by decide

/-- **Former defect #10** (fixed by 84aa239): on the old code, with a default slice that has spare
capacity, the first target shows `X: [d, 1]` when returned and `X: [d, 2]` after the second call. -/
theorem earlier_targets_stable_old_counterexample :
    ∃ r ∈ (Old.callsH aliasCfg 2 { ps := PS.init aliasSrc, heap := aliasHeap }).1, ∃ t, r.1 = .ok t ∧
      (hlookup t.header [88]).map (view r.2) = some [[100], [49]] ∧
      (hlookup t.header [88]).map (view (Old.callsH aliasCfg 2 { ps := PS.init aliasSrc, heap := aliasHeap }).2.heap) =
        some [[100], [50]] :=
  ⟨(.ok { method := [71, 69, 84], url := [104, 116, 116, 112, 58, 47, 47, 97, 47], body := [],
          header := [([88], { arr := 0, len := 2, cap := 4 })] }, [[[100], [49], [], []]]), by decide, _, rfl, by decide, by decide⟩

/-! ## eager mode: ReadAllTargets -/

theorem aux_listRel_targets {β : Type} {P : Heap → Target → β → Prop}
    {as : List (Outcome Target × Heap)} {bs : List β}
    (h : ListRel (fun r b => ∃ t, r.1 = .ok t ∧ P r.2 t b) as bs) :
    ∃ ts : List Target, as.map (·.1) = ts.map Outcome.ok ∧ ts.length = bs.length := by
  induction h with
  | nil => exact ⟨[], rfl, rfl⟩
  | cons hab _ ih =>
    obtain ⟨t, ht, _⟩ := hab
    obtain ⟨ts, h1, h2⟩ := ih
    exact ⟨t :: ts, by simp [ht, h1], by simp [h2]⟩

open Vegeta.Proofs.TargeterLaws in
theorem aux_runsTo_of_calls (cfg : Cfg) : ∀ (ts : List Target) (st : St) (e : Nat),
    (calls cfg (ts.length + 1) st).1 = ts.map Outcome.ok ++ [.error e] → ∃ st', RunsTo (call cfg) st ts e st' := by
  intro ts
  induction ts with
  | nil =>
    intro st e h
    simp only [List.length_nil, calls, List.map_nil, List.nil_append, List.cons.injEq, and_true] at h
    exact ⟨(call cfg st).2, RunsTo.stop (by rw [← h])⟩
  | cons t r ih =>
    intro st e h
    simp only [List.length_cons, calls, List.map_cons, List.cons_append, List.cons.injEq] at h
    obtain ⟨st', hr⟩ := ih (call cfg st).2 e h.2
    exact ⟨st', RunsTo.more (by rw [← h.1]) hr⟩

open Vegeta.Proofs.TargeterLaws in
theorem aux_runsTo_det {S T : Type} (step : S → Outcome T × S) : ∀ (s : S) (ts : List T) (e : Nat) (s' : S),
    RunsTo step s ts e s' → ∀ ts2 e2 s2, RunsTo step s ts2 e2 s2 → ts = ts2 ∧ e = e2 ∧ s' = s2 := by
  intro s ts e s' h
  induction h with
  | stop hs =>
    intro ts2 e2 s2 h2
    cases h2 with
    | stop hs2 => rw [hs] at hs2; cases hs2; exact ⟨rfl, rfl, rfl⟩
    | more hs2 _ => rw [hs] at hs2; cases hs2
  | more hs _ ih =>
    intro ts2 e2 s2 h2
    cases h2 with
    | stop hs2 => rw [hs] at hs2; cases hs2
    | more hs2 hr2 =>
      rw [hs] at hs2; cases hs2
      obtain ⟨a, b, c⟩ := ih _ _ _ hr2
      exact ⟨by rw [a], b, c⟩

open Vegeta.Proofs.TargeterLaws in
/-- **"eager mode returns exactly the stream's targets in order; `ErrNoTargets` only for an empty
stream; any other error aborts"** (http targeter): the successive calls yield some targets `ts`
and then fail with `e` (`RunsTo`), and `ReadAllTargets` returns exactly `ts` if `e` is
`ErrNoTargets` and `ts` is not empty, `ErrNoTargets` if it is empty, and `e` otherwise — for every
input; the fuel of the model's loop is never exhausted. -/
theorem read_all_targets (cfg : Cfg) (st : St) :
    ∃ ts e st', RunsTo (call cfg) st ts e st' ∧
      readAll cfg st = (if e = eNoTargets then (if ts = [] then .error eNoTargets else .ok ts) else .error e, st') := by
  obtain ⟨ts, e, st', hr, hl⟩ := http_runsTo cfg _ st (Nat.le_refl _)
  refine ⟨ts, e, st', hr, ?_⟩
  have hle := eff_length_le st.ps
  have := readAllLoop_spec (call cfg) (st.ps.rest.length + 3) st st' [] ts e hr (by omega)
  simpa [readAll] using this

open Vegeta.Proofs.TargeterLaws in
/-- the same for the JSON targeter -/
theorem read_all_targets_json (cfg : JSONTargets.Cfg) (src : Bytes) :
    ∃ ts e s', RunsTo (JSONTargets.call cfg) src ts e s' ∧
      readAllLoop (JSONTargets.call cfg) (src.length + 2) src [] =
        (if e = eNoTargets then (if ts = [] then .error eNoTargets else .ok ts) else .error e, s') := by
  obtain ⟨ts, e, s', hr, hl⟩ := json_runsTo cfg _ src (Nat.le_refl _)
  refine ⟨ts, e, s', hr, ?_⟩
  have := readAllLoop_spec (JSONTargets.call cfg) (src.length + 2) src s' [] ts e hr (by omega)
  simpa using this

/-- eager and lazy mode see the same list: on a document of the grammar `ReadAllTargets`
returns the described targets (corollary of `http_parse_render` and `read_all_targets`,
stated for the number of targets) -/
theorem read_all_targets_described (cfg : Cfg) (h0 : Heap) (d : Doc)
    (hl : d.Legal cfg.validURI cfg.fs) (wf : WfDefaults cfg h0) (hne : d.blocks ≠ []) :
    ∃ ts, (readAll cfg { ps := PS.init (render d), heap := h0 }).1 = .ok ts ∧ ts.length = d.blocks.length := by
  obtain ⟨ts', e', st', hr', hra⟩ := read_all_targets cfg { ps := PS.init (render d), heap := h0 }
  obtain ⟨rs, hEnd, h1, h2⟩ := http_parse_render cfg h0 d 1 hl wf
  obtain ⟨ts, hts, hlen⟩ := aux_listRel_targets
    (P := fun h t b => Matches h t (describe (defaultsOf cfg h0) cfg.body cfg.fs b)) h2
  -- the lazily observed stream: |blocks| targets, then ErrNoTargets
  have hcalls := (callsH_calls cfg (d.blocks.length + 1) { ps := PS.init (render d), heap := h0 }).1
  rw [h1, List.map_append, hts, ← hlen] at hcalls
  obtain ⟨st2, hr⟩ := aux_runsTo_of_calls cfg ts _ eNoTargets (by simpa using hcalls)
  obtain ⟨e1, e2, _⟩ := aux_runsTo_det (call cfg) _ _ _ _ hr' _ _ _ hr
  subst e1; subst e2
  have hne' : ts' ≠ [] := by
    intro h0'; rw [h0'] at hlen
    exact hne (List.length_eq_zero_iff.mp (by simpa using hlen.symm))
  exact ⟨ts', by rw [hra]; simp [hne'], hlen⟩

/-! ## body files are read at decode time -/

open Vegeta.Proofs.HTTPFileSystem in
theorem aux_legal_anyfs {v : Bytes → Bool} {fs : Bytes → Option Bytes} {b : Block} (h : b.Legal v fs) :
    b.Legal v (fun _ => some []) := by
  obtain ⟨a1, a2, a3, a4, a5, a6, a7, a8, a9⟩ := h
  exact ⟨a1, a2, a3, a4, a5, a6, a7, a8, fun bl hbl => ⟨(a9 bl hbl).1, (a9 bl hbl).2.1, (a9 bl hbl).2.2.1, rfl⟩⟩

open Vegeta.Proofs.HTTPFileSystem in
theorem aux_legalFrom_all (cfg : Cfg) (fss : Nat → FS) : ∀ (bs : List Block) (i : Nat), LegalFrom cfg fss i bs →
    ∀ b ∈ bs, b.Legal cfg.validURI (fun _ => some []) := by
  intro bs
  induction bs with
  | nil => intro i _ b hb; cases hb
  | cons x r ih =>
    intro i hl b hb
    simp only [List.mem_cons] at hb
    rcases hb with rfl | hb
    · exact aux_legal_anyfs hl.1
    · exact ih (i + 1) hl.2 b hb

open Vegeta.Proofs.HTTPFileSystem in
/-- **The http targeter is a function of the targets file and of the file system state at each
call**: let call number `j` see the file system `fss j` (body files may be rewritten, created or
removed between calls).  For every document of the grammar whose block `j` names a body file that
exists when call `j` happens, call `j` returns block `j`'s target with the payload the file has
AT THAT CALL (`describe … (fss j)`), earlier targets keep theirs (`earlier_targets_stable`), and
the calls after the last block report `ErrNoTargets`.  Nothing is remembered from one call to the
next (a cache keyed by path would break this; seed c14h). -/
theorem http_parse_render_fs (cfg : Cfg) (h0 : Heap) (d : Doc) (k : Nat) (fss : Nat → FS)
    (hl : LegalFrom cfg fss 0 d.blocks) (htr : ∀ f ∈ d.trail, f.Legal) (hsep : Separated d.blocks)
    (wf : WfDefaults cfg h0) :
    ∃ rs hEnd,
      (callsHF cfg fss 0 (d.blocks.length + k) { ps := PS.init (render d), heap := h0 }).1 =
        rs ++ List.replicate k (.error eNoTargets, hEnd) ∧
      DescribedFrom cfg h0 fss 0 rs d.blocks := by
  let cfgA : Cfg := withFS cfg (fun _ => some [])
  have hdl : d.Legal cfgA.validURI cfgA.fs := ⟨aux_legalFrom_all cfg fss d.blocks 0 hl, htr, hsep⟩
  obtain ⟨d', hb, hl', hend, hr⟩ := render_normalize cfgA d hdl
  obtain ⟨ps', c1, _⟩ := callsF_refines cfg fss (d.blocks.length + k) 0 { ps := PS.init (render d), heap := h0 }
  have hlines : srcLines (render d) = docLines (d'.trail.map fun f => dropCR f.line) (toABlocksF cfg fss 0 d.blocks) := by
    rw [← hr, srcLines_render cfgA d' hl' hend, ← doc_lines_map cfgA d'.blocks, hb, doc_lines_mapF cfg fss _ d.blocks 0]
  simp only [eff_init, hlines] at c1
  have htrail : ∀ l ∈ (d'.trail.map fun f => dropCR f.line), IsFiller l := by
    intro l hl''
    simp only [List.mem_map] at hl''
    obtain ⟨f, hf, rfl⟩ := hl''
    exact filler_class f (hl'.2.1 f hf)
  have hdoc := callsLF_doc cfg fss _ htrail (toABlocksF cfg fss 0 d.blocks) 0 (okFrom_of_legal cfg fss d.blocks 0 hl)
    (asep_of_specF cfg fss d.blocks 0 hl hsep) h0 k
  rw [toABlocksF_length] at hdoc
  refine ⟨_, _, by rw [c1]; exact hdoc, expect_matchesF cfg h0 fss d.blocks 0 h0 hl wf (fun _ => rfl)⟩

/-- the file `POST http://r/0` `@p` / `GET http://r/1` / `POST http://r/2` `@p` with `p` holding `A`
at the first call and `B` afterwards: bodies `A`, the default body, `B` -/
def rwSrc : Bytes :=
  [80, 79, 83, 84, 32, 104, 116, 116, 112, 58, 47, 47, 114, 47, 48, 10, 64, 112, 10,
   71, 69, 84, 32, 104, 116, 116, 112, 58, 47, 47, 114, 47, 49, 10,
   80, 79, 83, 84, 32, 104, 116, 116, 112, 58, 47, 47, 114, 47, 50, 10, 64, 112, 10]

open Vegeta.Proofs.HTTPFileSystem in
example : ((callsHF { trapCfg with body := [100] }
      (fun i => fun p => if p = [112] then (if i = 0 then some [65] else some [66]) else none) 0 4
      { ps := PS.init rwSrc, heap := [] }).1.map fun r =>
      match r.1 with
      | .ok t => some t.body
      | _ => none) = [some [65], some [100], some [66], none] := by decide

open Vegeta.Proofs.HTTPFileSystem in
/-- non-vacuity of `LegalFrom` with a file system that changes: one block whose body file `p` exists at call 0 -/
example : LegalFrom trapCfg (fun i => fun p => if p = [112] ∧ i = 0 then some [65] else none) 0
    [{ lead := [], pre := [], method := [80], url := [104, 116, 116, 112, 58, 47, 47, 114, 47], post := [], items := [],
       body := some { path := [112], pre := [], post := [] } }] := by
  refine ⟨⟨(by intro f hf; cases hf), aux_isPad_nil, aux_isPad_nil, (by decide), (by decide),
    aux_edgePlain_of 104 47 rfl rfl (by decide) (by decide) (by decide), rfl, (by intro it hit; cases hit), ?_⟩, trivial⟩
  intro bl hbl
  cases hbl
  exact ⟨aux_edgePlain_of 112 112 rfl rfl (by decide) (by decide) (by decide), aux_isPad_nil, aux_isPad_nil, by decide⟩

/-! ## no shared backing arrays -/

/-- **Targets never share a backing array with the defaults or with each other** (the statement
seeds c14a and c15i broke), in the model where a header value slice is a reference
`(array, len, cap)` and `append` writes in place when capacity allows — for every input, every
default header map and any number of calls: every value slice of a returned target lies in an
array that did not exist before the first call (so in none of the default map's arrays, whatever
their spare capacity), different keys of one target lie in different arrays, and the arrays of
targets returned by different calls are different. -/
theorem no_shared_backing (cfg : Cfg) (st : St) (n : Nat) :
    (∀ r ∈ (callsH cfg n st).1, ∀ t, r.1 = .ok t → ∀ k s, hlookup t.header k = some s → 0 < s.cap →
      st.heap.length ≤ s.arr ∧ s.arr < r.2.length) ∧
    List.Pairwise (fun (r1 r2 : Outcome Target × Heap) => ∀ t1 t2, r1.1 = .ok t1 → r2.1 = .ok t2 →
      ∀ k1 s1 k2 s2, hlookup t1.header k1 = some s1 → hlookup t2.header k2 = some s2 → 0 < s1.cap → 0 < s2.cap →
        s1.arr ≠ s2.arr) (callsH cfg n st).1 := by
  obtain ⟨ps', c1, _⟩ := calls_refines cfg n st
  rw [c1]
  exact callsL_arrays cfg n (eff st.ps) st.heap

/-- … and within one target -/
theorem no_shared_backing_within (cfg : Cfg) (st : St) (t : Target) (ht : (call cfg st).1 = .ok t) :
    ∀ k1 s1 k2 s2, hlookup t.header k1 = some s1 → hlookup t.header k2 = some s2 → 0 < s1.cap → 0 < s2.cap →
      s1.arr = s2.arr → k1 = k2 := by
  obtain ⟨ps', c1, _⟩ := call_refines cfg st
  rw [c1] at ht
  exact (callL_arrays cfg (eff st.ps) st.heap t ht).2

/-- the alias witness on the repaired model: the default `X` lives in array 0 (capacity 4); each call
copies it (arrays 1, 3) and the append of the own value reallocates (arrays 2, 4) -/
example : ((callsH aliasCfg 2 { ps := PS.init aliasSrc, heap := aliasHeap }).1.map fun r =>
      match r.1 with
      | .ok t => (hlookup t.header [88]).map (·.arr)
      | _ => none) = [some 2, some 4] := by decide

open Vegeta.Model.JSONTargetsRef Vegeta.Proofs.JSONTargetsRef in
/-- **The JSON targeter's merge never shares a backing array either** (the statement seed c15i
broke), in the reference model of `append` (`Model/JSONTargetsRef.lean`: `append(s, vs...)`
returns `s` when there is nothing to add, writes in place when `len + n ≤ cap`, else copies):
for every heap, every default header map `dflt` (slices of any capacity) and every decoded
record `own`, the merged header map
* shows, key by key, exactly what the by-value model `JSONTargets.vmerge` computes
  (defaults first, then the own values), so the by-value model is a sound abstraction;
* consists of nil slices and slices in arrays allocated by this merge (index ≥ the heap size
  before it): none of them is an array of the defaults or of an earlier target;
* has different keys in different arrays; and nothing that existed before is written
  (`Extends`): the defaults and all earlier targets keep their values. -/
theorem json_no_shared_backing (h : Heap) (dflt : HMap) (own : JSONTargets.VMap) :
    let r := finishHeader h dflt own
    let vm := JSONTargets.vmerge (JSONTargets.vmerge [] (dflt.map fun (k, s) => (k, view h s))) own
    Extends h r.2 ∧
    (∀ k, (hlookup r.1 k).map (view r.2) = JSONTargets.vlookup vm k) ∧
    (∀ k s, hlookup r.1 k = some s → 0 < s.cap → h.length ≤ s.arr ∧ s.arr < r.2.length) ∧
    (∀ k1 s1 k2 s2, hlookup r.1 k1 = some s1 → hlookup r.1 k2 = some s2 → 0 < s1.cap → 0 < s2.cap →
      s1.arr = s2.arr → k1 = k2) := by
  have i1 := mergeRef_inv h (dflt.map fun (k, s) => (k, view h s)) [] h [] (minv_empty h)
  have i2 := mergeRef_inv h own _ _ _ i1
  refine ⟨i2.ext, ?_, fun k s hk hc => ⟨i2.fresh k s hk hc, arr_lt_of_ok (i2.ok k s hk) hc⟩, i2.distinct⟩
  intro k
  have hk := i2.keys k
  have hv := i2.vals k
  simp only [finishHeader] at hk hv ⊢
  cases hl : hlookup (mergeRef (mergeRef [] h (dflt.map fun x => (x.1, view h x.2))).1
      (mergeRef [] h (dflt.map fun x => (x.1, view h x.2))).2 own).1 k with
  | none =>
    rw [hl] at hk
    cases hvl : JSONTargets.vlookup (JSONTargets.vmerge (JSONTargets.vmerge [] (dflt.map fun x => (x.1, view h x.2))) own) k with
    | none => rfl
    | some x => rw [hvl] at hk; cases hk
  | some s =>
    rw [hl] at hk hv
    cases hvl : JSONTargets.vlookup (JSONTargets.vmerge (JSONTargets.vmerge [] (dflt.map fun x => (x.1, view h x.2))) own) k with
    | none => rw [hvl] at hk; cases hk
    | some x => rw [hvl] at hv; simpa using hv

open Vegeta.Model.JSONTargetsRef in
/-- non-vacuity / the c15i scenario in the reference model: default `X: [a, b, c]` in a slice of
capacity 4 (array 0) and a target with an own `X` value: the defaults are copied into array 1, the
own value makes array 2; the defaults' array keeps its spare cell untouched -/
example : (finishHeader [[[97], [98], [99], []]] [([88], { arr := 0, len := 3, cap := 4 })] [([88], [[49]])]) =
    ([([88], { arr := 2, len := 4, cap := 6 })],
     [[[97], [98], [99], []], [[97], [98], [99]], [[97], [98], [99], [49], [], []]]) := by decide

/-! ## the attack command's target selection -/

open Vegeta.Model.AttackTargets Vegeta.Proofs.AttackTargets Vegeta.Proofs.TargeterLaws in
/-- **Eager and lazy selection hand out the same targets** (attack.go: `-lazy` uses the stream
targeter itself, otherwise `NewStaticTargeter(ReadAllTargets(tr)...)`), for ANY stream targeter
`step`: if its successive calls yield the targets `ts` (at least one) and then `ErrNoTargets`, then
* lazily the first `|ts|` draws are `ts` in order and the next draw is `ErrNoTargets` (which
  ends the attack);
* eagerly the selection succeeds and draw number `j` (`j < m`, any `m ≤ 2^63`) is target `j mod |ts|`
  — in particular the first `|ts|` draws are the same `ts` in the same order. -/
theorem attack_selection_same_targets {S T : Type} (step : S → Outcome T × S) (fuel : Nat) (s s' : S) (ts : List T)
    (hr : RunsTo step s ts eNoTargets s') (hne : ts ≠ []) (hf : ts.length < fuel) (hlen : ts.length ≤ two63) :
    (∃ p, selectTargeter step fuel true s = .ok p ∧
      draws step (ts.length + 1) p = ts.map Outcome.ok ++ [.error eNoTargets]) ∧
    (∃ p, selectTargeter step fuel false s = .ok p ∧
      (∀ m, m ≤ two63 → draws step m p = (List.range' 0 m).map (rot ts)) ∧
      draws step ts.length p = ts.map Outcome.ok) := by
  constructor
  · exact ⟨.stream s, by simp [selectTargeter], draws_stream step s ts eNoTargets s' hr⟩
  · have hsel := select_eager step fuel s s' ts eNoTargets hr hf
    simp only [↓reduceIte, hne] at hsel
    have hd : ∀ m, m ≤ two63 → draws step m (.static ts (-1)) = (List.range' 0 m).map (rot ts) := by
      intro m hm
      have := draws_static step ts hne m 0 (by omega)
      simpa using this
    refine ⟨.static ts (-1), hsel, hd, ?_⟩
    rw [hd ts.length hlen, take_map_rot]

open Vegeta.Model.AttackTargets Vegeta.Proofs.AttackTargets Vegeta.Proofs.TargeterLaws

theorem aux_runsTo_of_calls' (cfg : Cfg) : ∀ (ts : List Target) (st : St) (e : Nat),
    (calls cfg (ts.length + 1) st).1 = ts.map Outcome.ok ++ [.error e] →
    RunsTo (call cfg) st ts e (calls cfg (ts.length + 1) st).2 := by
  intro ts
  induction ts with
  | nil =>
    intro st e h
    simp only [List.length_nil, calls, List.map_nil, List.nil_append, List.cons.injEq, and_true] at h
    exact RunsTo.stop (by simp only [List.length_nil, calls]; rw [← h])
  | cons t r ih =>
    intro st e h
    simp only [List.length_cons, calls, List.map_cons, List.cons_append, List.cons.injEq] at h
    have hr := ih (call cfg st).2 e h.2
    exact RunsTo.more (s1 := (call cfg st).2) (by rw [← h.1]) (by simpa [calls] using hr)

theorem aux_listRel_final {cfg : Cfg} {h0 hF : Heap} {rs : List (Outcome Target × Heap)} {bs : List Block}
    (h : ListRel (fun r b => ∃ t, r.1 = .ok t ∧ Matches r.2 t (describe (defaultsOf cfg h0) cfg.body cfg.fs b)) rs bs)
    (hst : ∀ r ∈ rs, ∀ t, r.1 = .ok t → ∀ k, (hlookup t.header k).map (view hF) = (hlookup t.header k).map (view r.2)) :
    ∃ ts : List Target, rs.map (·.1) = ts.map Outcome.ok ∧
      ListRel (fun t b => Matches hF t (describe (defaultsOf cfg h0) cfg.body cfg.fs b)) ts bs := by
  induction h with
  | nil => exact ⟨[], rfl, ListRel.nil⟩
  | cons hab _ ih =>
    rename_i a b as bs' _
    obtain ⟨t, ht, hm⟩ := hab
    obtain ⟨ts, h1, h2⟩ := ih (fun r hr => hst r (by simp [hr]))
    refine ⟨t :: ts, by simp [ht, h1], ListRel.cons ?_ h2⟩
    refine ⟨hm.1, hm.2.1, hm.2.2.1, fun k => ?_⟩
    rw [hst a (by simp) t ht k]; exact hm.2.2.2 k

theorem aux_listRel_len {α β : Type} {R : α → β → Prop} {as : List α} {bs : List β} (h : ListRel R as bs) : as.length = bs.length := by
  induction h with
  | nil => rfl
  | cons _ _ ih => simp [ih]

/-- **The attack command on an http targets file**: for every document of the grammar (at least
one, fewer than 2^63 targets) and the `-header`/`-body` defaults in `cfg`, there is one list `ts`
of targets matching the document's descriptions such that with `-lazy` the attacker's draws are
`ts` in order and then `ErrNoTargets`, and without it draw number `j` is `ts[j mod |ts|]`. -/
theorem attack_http_selection (cfgJ : JSONTargets.Cfg) (cfg : Cfg) (h0 : Heap) (d : Doc)
    (hl : d.Legal cfg.validURI cfg.fs) (wf : WfDefaults cfg h0) (hne : d.blocks ≠ []) (hlen : d.blocks.length ≤ two63) :
    ∃ ts hEnd, ListRel (fun t b => Matches hEnd t (describe (defaultsOf cfg h0) cfg.body cfg.fs b)) ts d.blocks ∧
      (∃ p, attackTargeter fmtHTTP true cfgJ cfg (render d) h0 = .ok (.http p) ∧
        draws (call cfg) (ts.length + 1) p = ts.map Outcome.ok ++ [.error eNoTargets]) ∧
      (∃ p, attackTargeter fmtHTTP false cfgJ cfg (render d) h0 = .ok (.http p) ∧
        ∀ m, m ≤ two63 → draws (call cfg) m p = (List.range' 0 m).map (rot ts)) := by
  let st0 : St := { ps := PS.init (render d), heap := h0 }
  obtain ⟨rs, hEnd, h1, h2⟩ := http_parse_render cfg h0 d 1 hl wf
  have hstab := earlier_targets_stable cfg st0 (d.blocks.length + 1)
  have hrl := aux_listRel_len h2
  obtain ⟨ts, hts, hm⟩ := aux_listRel_final (hF := (callsH cfg (d.blocks.length + 1) st0).2.heap) h2 (by
    intro r hr t ht k
    exact hstab r (by rw [h1]; simp [hr]) t ht k)
  have hlen' : ts.length = d.blocks.length := by
    have := congrArg List.length hts; simp at this; omega
  have hcalls := (callsH_calls cfg (d.blocks.length + 1) st0).1
  rw [h1, List.map_append, hts, ← hlen'] at hcalls
  have hr := aux_runsTo_of_calls' cfg ts st0 eNoTargets (by simpa using hcalls)
  have hne' : ts ≠ [] := by
    intro h0'; rw [h0'] at hlen'; exact hne (List.length_eq_zero_iff.mp (by simpa using hlen'.symm))
  -- the fuel attack() gives ReadAllTargets suffices
  obtain ⟨ts2, e2, st2, hr2, hb2⟩ := http_runsTo cfg _ st0 (Nat.le_refl _)
  obtain ⟨e1, _, _⟩ := aux_runsTo_det (call cfg) _ _ _ _ hr _ _ _ hr2
  have hfuel : ts.length < st0.ps.rest.length + 3 := by
    have := eff_length_le st0.ps; rw [e1]; omega
  obtain ⟨⟨p1, s1, d1⟩, ⟨p2, s2, d2, _⟩⟩ := attack_selection_same_targets (call cfg) _ st0 _ ts hr hne' hfuel (by omega)
  refine ⟨ts, _, hm, ⟨p1, ?_, d1⟩, ⟨p2, ?_, d2⟩⟩
  · simp only [attackTargeter, fmtHTTP, fmtJSON]
    rw [if_neg (by decide)]
    simp only [↓reduceIte]
    simp only [st0] at s1
    rw [s1]
  · simp only [attackTargeter, fmtHTTP, fmtJSON]
    rw [if_neg (by decide)]
    simp only [↓reduceIte]
    simp only [st0] at s2
    rw [s2]

/-- a stream that ends in another error, or has no target: lazily the attacker gets the
targets before the error and then the error; eagerly the attack aborts with that error -/
theorem attack_selection_error {S T : Type} (step : S → Outcome T × S) (fuel : Nat) (s s' : S) (ts : List T) (e : Nat)
    (hr : RunsTo step s ts e s') (hf : ts.length < fuel) (hbad : e ≠ eNoTargets ∨ ts = []) :
    selectTargeter step fuel false s = .error e ∧
    draws step (ts.length + 1) (.stream s) = ts.map Outcome.ok ++ [.error e] := by
  refine ⟨?_, draws_stream step s ts e s' hr⟩
  rw [select_eager step fuel s s' ts e hr hf]
  rcases hbad with h | h
  · simp [h]
  · by_cases he : e = eNoTargets
    · simp [he, h]
    · simp [he]

/-- an unknown `-format` is refused -/
theorem attack_format_switch (format : Bytes) (lazy : Bool) (cfgJ : JSONTargets.Cfg) (cfg : Cfg) (src : Bytes) (h : Heap)
    (hj : format ≠ fmtJSON) (hh : format ≠ fmtHTTP) :
    attackTargeter format lazy cfgJ cfg src h = .error eBadFormat := by
  simp [attackTargeter, hj, hh]

/-- the JSON format goes to the JSON targeter, with the same selection -/
theorem attack_json_selection (cfgJ : JSONTargets.Cfg) (cfg : Cfg) (src : Bytes) (h : Heap) (lazy : Bool) :
    ∃ ts e s', RunsTo (JSONTargets.call cfgJ) src ts e s' ∧ ts.length < src.length + 2 ∧
      attackTargeter fmtJSON lazy cfgJ cfg src h =
        match selectTargeter (JSONTargets.call cfgJ) (src.length + 2) lazy src with
        | .ok p => .ok (.json p)
        | .error e => .error e
        | .panic => .panic := by
  obtain ⟨ts, e, s', hr, hl⟩ := json_runsTo cfgJ _ src (Nat.le_refl _)
  exact ⟨ts, e, s', hr, by omega, by
    unfold attackTargeter; rw [if_pos rfl]
    cases selectTargeter (JSONTargets.call cfgJ) (src.length + 2) lazy src <;> rfl⟩

/-! ## the JSON format -/

/-- **"the JSON format (one object per line)"**: on a file of newline-terminated lines the
targeter decodes every non-blank line (trimmed), in order, one per call, and reports
`ErrNoTargets` ever after; an unterminated last line is never delivered (by design:
`TestJSONTargeter/no_new_line`). -/
theorem json_stream (cfg : JSONTargets.Cfg) (ls : List Bytes) (tail : Bytes) (hls : ∀ l ∈ ls, 10 ∉ l)
    (ht : 10 ∉ tail) (k : Nat) :
    (JSONTargets.calls cfg ((Vegeta.Proofs.JSONTargets.nonBlank ls).length + k) (Vegeta.Proofs.JSONTargets.fileOf ls tail)).1 =
      (Vegeta.Proofs.JSONTargets.nonBlank ls).map (JSONTargets.finish cfg) ++ List.replicate k (.error JSONTargets.eNoTargets) :=
  Vegeta.Proofs.JSONTargets.calls_file cfg tail ht ls.length ls (Nat.le_refl _) hls k

/-- **"merged as documented (defaults first, the target's own values added; the default body
only when the target has none)"** for the JSON targeter: method and URL are the decoded ones
(both required), the body is the decoded one unless empty, and every header key shows the
default values followed by the decoded values. -/
theorem merge_semantics_json (cfg : JSONTargets.Cfg) (line : Bytes) (t : JSONTargets.JRec)
    (h : JSONTargets.finish cfg line = .ok t)
    (hd : (cfg.hdr.map (·.1)).Nodup) (hr : ∀ r, cfg.dec line = some r → (r.header.map (·.1)).Nodup) :
    ∃ r, cfg.dec line = some r ∧ r.method ≠ [] ∧ r.url ≠ [] ∧ t.method = r.method ∧ t.url = r.url ∧
      t.body = (if r.body.length > 0 then r.body else cfg.body) ∧
      ∀ k, JSONTargets.vlookup t.header k =
        match JSONTargets.vlookup cfg.hdr k, JSONTargets.vlookup r.header k with
        | none, none => none
        | some ds, none => some ds
        | none, some vs => some vs
        | some ds, some vs => some (ds ++ vs) :=
  Vegeta.Proofs.JSONTargets.finish_spec cfg line t h hd hr

open Vegeta.Proofs.JSONRoundTrip in
/-- **"targets written with the JSON target encoder decode back to equal targets"**: for every
target whose strings are Go-valid UTF-8 (method, URL, header names and values — anything else
the encoder itself replaces by U+FFFD) and any body bytes, any number of headers in any map
order, nil or empty value slices included: the line the encoder writes, trimmed as the targeter
trims it, decodes to the same method, URL, body and header values (a nil value slice reads back
as no values). `decodeImage` is the model of the decoder on the encoder's image; it is compared
with the real decoder on every line the real encoder writes in the correspondence run. -/
theorem json_roundtrip (t : JSONTargets.ETarget) (h : Clean t) :
    JSONTargets.decodeImage (Vegeta.Model.Histogram.trimSpace (JSONTargets.encodeTarget t)) = some (recOf t) :=
  decode_encode t h

open Vegeta.Proofs.JSONRoundTrip Vegeta.Proofs.JSONTargets in
theorem aux_fileOf_encoded (ts : List JSONTargets.ETarget) :
    fileOf (ts.map lineOf) [] = ts.flatMap JSONTargets.encodeTarget := by
  induction ts with
  | nil => rfl
  | cons t r ih => simp [fileOf, ih, encodeTarget_line]

open Vegeta.Proofs.JSONRoundTrip Vegeta.Proofs.JSONTargets in
theorem aux_nonBlank_encoded (ts : List JSONTargets.ETarget) : nonBlank (ts.map lineOf) = ts.map lineOf := by
  induction ts with
  | nil => rfl
  | cons t r ih =>
    have hne : lineOf t ≠ [] := by simp [lineOf]
    simp only [List.map_cons, nonBlank, trim_line, hne, ↓reduceIte, ih]

open Vegeta.Proofs.JSONRoundTrip Vegeta.Proofs.JSONTargets in
/-- … and through the targeter: a file written by the encoder for the targets `ts` (one call of
the encoder per target) makes the JSON targeter — with `decodeImage` as its decoder — return, call
by call and in order, the merge (`merge_semantics_json`) of each target's own record `recOf t`,
then `ErrNoTargets`. -/
theorem json_encoded_file (cfg : JSONTargets.Cfg) (hdec : cfg.dec = JSONTargets.decodeImage)
    (ts : List JSONTargets.ETarget) (hts : ∀ t ∈ ts, Clean t) (k : Nat) :
    (JSONTargets.calls cfg (ts.length + k) (ts.flatMap JSONTargets.encodeTarget)).1 =
      ts.map (fun t => JSONTargets.finish cfg (lineOf t)) ++ List.replicate k (.error JSONTargets.eNoTargets) ∧
    ∀ t ∈ ts, cfg.dec (lineOf t) = some (recOf t) := by
  constructor
  · have hls : ∀ l ∈ ts.map lineOf, 10 ∉ l := by
      intro l hl
      simp only [List.mem_map] at hl
      obtain ⟨t, ht, rfl⟩ := hl
      exact lineOf_no_nl t (hts t ht)
    have := json_stream cfg (ts.map lineOf) [] hls (by simp) k
    rw [aux_nonBlank_encoded, aux_fileOf_encoded] at this
    simp only [List.length_map, List.map_map] at this
    exact this
  · intro t ht
    have := decode_encode t (hts t ht)
    rw [encodeTarget_line, trim_line] at this
    rw [hdec]; exact this

/-- `GET http://a/<é` with body `hi`, header `X: ["1", "\"\n"]` and a nil value slice under `Y` -/
def rtTarget : JSONTargets.ETarget :=
  { method := [71, 69, 84], url := [104, 116, 116, 112, 58, 47, 47, 97, 47, 60, 195, 169], body := [104, 105],
    header := [([88], some [[49], [34, 10]]), ([89], none)] }

open Vegeta.Proofs.JSONRoundTrip in
/-- non-vacuity of `Clean` -/
example : Clean rtTarget := by
  refine ⟨by decide, by decide, by decide, ?_⟩
  intro kv hkv
  simp only [rtTarget, List.mem_cons, List.mem_nil_iff, or_false] at hkv
  rcases hkv with rfl | rfl
  · exact ⟨by decide, by intro x hx; simp at hx; rcases hx with rfl | rfl <;> decide⟩
  · exact ⟨by decide, by intro x hx; simp at hx⟩

/-- the line the model writes for it:
`{"method":"GET","url":"http://a/\u003cé","body":"aGk=","header":{"X":["1","\"\n"],"Y":null}}` -/
example : JSONTargets.encodeTarget rtTarget =
    [123, 34, 109, 101, 116, 104, 111, 100, 34, 58, 34, 71, 69, 84, 34, 44, 34, 117, 114, 108, 34, 58, 34, 104, 116, 116, 112,
     58, 47, 47, 97, 47, 92, 117, 48, 48, 51, 99, 195, 169, 34, 44, 34, 98, 111, 100, 121, 34, 58, 34, 97, 71, 107, 61, 34,
     44, 34, 104, 101, 97, 100, 101, 114, 34, 58, 123, 34, 88, 34, 58, 91, 34, 49, 34, 44, 34, 92, 34, 92, 110, 34, 93, 44,
     34, 89, 34, 58, 110, 117, 108, 108, 125, 125, 10] := by decide

/-- source facts the models rest on: the method regexp is `^[A-Z]+\s` -/
theorem facts_method_regexp : Vegeta.Extracted.c14_method_regexp = [94, 91, 65, 45, 90, 93, 43, 92, 115] := by decide

/-- the default merge of `NewHTTPTargeter` copies every default value slice
(`append(<nil slice>, vs...)`) and no longer assigns the slice itself (fix 84aa239) -/
theorem facts_merge_copies_default_slices :
    Vegeta.Extracted.c14_http_merge_copies_default_slices = true ∧
    Vegeta.Extracted.c14_http_merge_assigns_default_slices = false := by decide

/-- between the first `Peek` and the return test there is the loop
`for strings.HasPrefix(line, "#") { line = strings.TrimSpace(sc.Peek()) }` (fix c9e79da) -/
theorem facts_peek_skips_comments : Vegeta.Extracted.c14_http_peek_skips_comments = true := by decide

/-- attack.go hands `(src, body, hdr)` to whichever targeter the format selects, `hdr` is the
`-header` flag's map (not the proxy headers), and the eager path is
`if !opts.lazy { … ReadAllTargets(tr) … tr = NewStaticTargeter(targets...) }` — the shape
`Model/AttackTargets.lean` models -/
theorem facts_attack_target_selection :
    Vegeta.Extracted.c14_attack_json_targeter_args = [[115, 114, 99], [98, 111, 100, 121], [104, 100, 114]] ∧
    Vegeta.Extracted.c14_attack_http_targeter_args = [[115, 114, 99], [98, 111, 100, 121], [104, 100, 114]] ∧
    Vegeta.Extracted.c14_attack_hdr_source =
      [111, 112, 116, 115, 46, 104, 101, 97, 100, 101, 114, 115, 46, 72, 101, 97, 100, 101, 114] ∧
    Vegeta.Extracted.c14_attack_eager_unless_lazy = true := by decide

end Vegeta.Props.C14
