/-
C11 — Latency percentiles are ordered and within a bounded rank error.

The model (Model/Quantile.lean) is generic over the arithmetic.  Here it is instantiated with an
arbitrary linearly ordered field `K` (exact arithmetic: ℚ, ℝ, …) and the ordering clauses are proved
for EVERY centroid list the (unmodelled) compression pass may have produced, constrained only by
`Valid`: sorted means, positive weights, `processedWeight` = sum of the weights, means in [min, max].

Proved:  quantile_in_min_max, quantile_monotone_in_q, percentiles_ordered, all_equal_exact,
all_equal_percentiles, all_equal_exact_any_arithmetic (any arithmetic with two stated laws),
clamp_float64, interp_float64, all_equal_exact_float64 (the two laws and the clause for SoftF64 itself),
ladder_sorted (on the regenerated table), hdr_rows_nondecreasing, hdr_report_nondecreasing.
Compression pass (Model/TDigestMerge.lean; limit function and sort as parameters): add_preserves_invariant,
process_preserves_invariant, process_preserves_valid (so `Valid` is a theorem, not an assumption), and
end to end over latency sequences: e2e_quantile_in_sample_range, e2e_percentiles_in_range,
e2e_percentiles_ordered (needs: ≤ maxProcessed centroids after the first process), e2e_all_equal.
NOT proved (and false of the unchanged code, see the harness's `tdigest_rank_error` finding): the
rank-error clause "each reported percentile lies between two observed latencies whose ranks are within
1 + 1% of n of q·n" — a numerical property of the third-party compression pass (sin/asin), which is a
parameter here.
-/
import Vegeta.Model.Quantile
import Vegeta.Model.TDigestMerge
import Vegeta.Model.LatencySeq
import Vegeta.Proofs.QuantileF64
import Vegeta.Extracted.Facts
import Mathlib.Tactic.Linarith
import Mathlib.Tactic.Positivity
import Mathlib.Tactic.Ring
import Mathlib.Tactic.FieldSimp
import Mathlib.Algebra.Order.Field.Basic
import Mathlib.Data.Rat.Floor
namespace Vegeta.Props.C11
open Vegeta.Go Vegeta.Model.Quantile Vegeta.Model.TDigestMerge Vegeta.Model.LatencySeq

set_option linter.unusedSectionVars false
set_option linter.unusedSimpArgs false

variable {K : Type} [Field K] [LinearOrder K] [IsStrictOrderedRing K]

instance exactOps : QOps K where
  add a b := a + b
  sub a b := a - b
  mul a b := a * b
  div a b := a / b
  le a b := decide (a ≤ b)
  lt a b := decide (a < b)
  ofNat n := (n : K)
  ofInt i := (i : K)
  nan := 0
  fmax := max
  fmin := min

@[simp] theorem aux_ops_add (a b : K) : QOps.add a b = a + b := rfl
@[simp] theorem aux_ops_sub (a b : K) : QOps.sub a b = a - b := rfl
@[simp] theorem aux_ops_mul (a b : K) : QOps.mul a b = a * b := rfl
@[simp] theorem aux_ops_div (a b : K) : QOps.div a b = a / b := rfl
@[simp] theorem aux_ops_le (a b : K) : QOps.le a b = decide (a ≤ b) := rfl
@[simp] theorem aux_ops_lt (a b : K) : QOps.lt a b = decide (a < b) := rfl
@[simp] theorem aux_ops_ofNat (n : Nat) : (QOps.ofNat n : K) = (n : K) := rfl
@[simp] theorem aux_ops_ofInt (n : Int) : (QOps.ofInt n : K) = (n : K) := rfl
@[simp] theorem aux_ops_fmax (a b : K) : QOps.fmax a b = max a b := rfl
@[simp] theorem aux_ops_fmin (a b : K) : QOps.fmin a b = min a b := rfl

/-- weight of the first `i` centroids -/
def pre (cs : List (Centroid K)) (i : Nat) : K := ((cs.take i).map (·.weight)).sum

/-- the cumulative table as a function: centre of centroid `i`, total weight at `i = length` -/
def Cf (cs : List (Centroid K)) (i : Nat) : K :=
  pre cs i + (match cs[i]? with | some c => c.weight / 2 | none => 0)

theorem aux_cumFrom_get (cs : List (Centroid K)) : ∀ (p : K) (i : Nat),
    (cumulativeFrom p cs)[i]? = if i ≤ cs.length then some (p + Cf cs i) else none := by
  induction cs with
  | nil =>
    intro p i
    cases i with
    | zero => simp [cumulativeFrom, Cf, pre]
    | succ i => simp [cumulativeFrom]
  | cons c cs ih =>
    intro p i
    cases i with
    | zero => simp [cumulativeFrom, Cf, pre]
    | succ i =>
      simp only [cumulativeFrom, List.getElem?_cons_succ, ih, List.length_cons, Nat.add_le_add_iff_right]
      split
      · simp only [Cf, pre, List.take_succ_cons, List.map_cons, List.sum_cons, List.getElem?_cons_succ, aux_ops_add]
        congr 1; ring
      · rfl

theorem aux_cum_length (cs : List (Centroid K)) : ∀ p : K, (cumulativeFrom p cs).length = cs.length + 1 := by
  induction cs with
  | nil => intro p; simp [cumulativeFrom]
  | cons c cs ih => intro p; simp [cumulativeFrom, ih]

theorem aux_cum_get (cs : List (Centroid K)) (i : Nat) :
    (cumulative cs)[i]? = if i ≤ cs.length then some (Cf cs i) else none := by
  unfold cumulative
  rw [aux_cumFrom_get]
  simp

theorem aux_pre_succ (cs : List (Centroid K)) (i : Nat) (c : Centroid K) (h : cs[i]? = some c) :
    pre cs (i+1) = pre cs i + c.weight := by
  unfold pre
  have hi : i < cs.length := by
    rcases Nat.lt_or_ge i cs.length with h' | h'
    · exact h'
    · rw [List.getElem?_eq_none h'] at h; cases h
  rw [List.take_succ_eq_append_getElem hi]
  have : cs[i] = c := by
    rw [List.getElem?_eq_getElem hi] at h; exact Option.some.inj h
  simp [this]

theorem aux_pre_mono (cs : List (Centroid K)) (hw : ∀ c ∈ cs, 0 < c.weight) (i j : Nat) (hij : i ≤ j) :
    pre cs i ≤ pre cs j := by
  induction j with
  | zero => have : i = 0 := by omega
            subst this; exact le_refl _
  | succ j ih =>
    rcases Nat.lt_or_ge i (j+1) with h | h
    · have h1 := ih (by omega)
      rcases Nat.lt_or_ge j cs.length with hj | hj
      · have hg : cs[j]? = some cs[j] := List.getElem?_eq_getElem hj
        rw [aux_pre_succ cs j _ hg]
        have := hw cs[j] (List.getElem_mem hj)
        linarith
      · have : pre cs (j+1) = pre cs j := by
          unfold pre; rw [List.take_of_length_le (by omega), List.take_of_length_le hj]
        rw [this]; exact h1
    · have : i = j+1 := by omega
      subst this; exact le_refl _

/-- the table is strictly increasing (weights are positive) -/
theorem aux_Cf_strict (cs : List (Centroid K)) (hw : ∀ c ∈ cs, 0 < c.weight) (i j : Nat) (hij : i < j) (hj : j ≤ cs.length) :
    Cf cs i < Cf cs j := by
  have hi : i < cs.length := by omega
  have hg : cs[i]? = some cs[i] := List.getElem?_eq_getElem hi
  have hwi := hw cs[i] (List.getElem_mem hi)
  have h1 : Cf cs i < pre cs (i+1) := by
    rw [aux_pre_succ cs i _ hg]; unfold Cf; rw [hg]; simp only; linarith
  have h2 : pre cs (i+1) ≤ pre cs j := aux_pre_mono cs hw _ _ (by omega)
  have h3 : pre cs j ≤ Cf cs j := by
    unfold Cf
    cases hc : cs[j]? with
    | none => simp
    | some c =>
      have := hw c (List.mem_of_getElem? hc)
      simp only; linarith
  linarith
theorem aux_searchLoop_spec (f : Nat → Bool) (n : Nat) : ∀ (fuel i j : Nat), i ≤ j → j ≤ n → j - i < fuel →
    (0 < i → f (i-1) = false) → (j < n → f j = true) →
    let l := searchLoop f fuel i j
    l ≤ n ∧ (0 < l → f (l-1) = false) ∧ (l < n → f l = true) := by
  intro fuel
  induction fuel with
  | zero => intro i j _ _ h; omega
  | succ fuel ih =>
    intro i j hij hjn hf hi hj
    simp only [searchLoop]
    by_cases hlt : i < j
    · simp only [hlt, ↓reduceIte]
      by_cases hfh : f ((i + j) / 2) = true
      · simp only [hfh, Bool.not_true, Bool.false_eq_true, ↓reduceIte]
        exact ih i ((i+j)/2) (by omega) (by omega) (by omega) hi (fun _ => hfh)
      · simp only [Bool.not_eq_true] at hfh
        simp only [hfh, Bool.not_false, ↓reduceIte]
        exact ih ((i+j)/2+1) j (by omega) hjn (by omega) (fun _ => by simpa using hfh) hj
    · simp only [hlt, ↓reduceIte]
      have : i = j := by omega
      subst this
      exact ⟨hjn, hi, hj⟩

structure Valid (d : Digest K) : Prop where
  nonempty : d.processed ≠ []
  sorted : d.processed.Pairwise (fun a b => a.mean ≤ b.mean)
  wpos : ∀ c ∈ d.processed, 0 < c.weight
  total : d.processedWeight = ((d.processed.map (·.weight)).sum)
  lo : ∀ c ∈ d.processed, d.min ≤ c.mean
  hi : ∀ c ∈ d.processed, c.mean ≤ d.max

/-- Which branch of `Quantile` produced `r` -/
inductive Seg (d : Digest K) (q r : K) : Prop
  | single (c : Centroid K) (h : d.processed = [c]) (hr : r = c.mean)
  | head (c0 : Centroid K) (h2 : 2 ≤ d.processed.length) (h0 : d.processed[0]? = some c0)
      (hi : q * d.processedWeight ≤ c0.weight / 2)
      (hr : r = d.min + 2 * (q * d.processedWeight) / c0.weight * (c0.mean - d.min))
  | mid (l : Nat) (a b : Centroid K) (h2 : 2 ≤ d.processed.length) (hl : 1 ≤ l) (hln : l < d.processed.length)
      (ha : d.processed[l-1]? = some a) (hb : d.processed[l]? = some b)
      (hlo : Cf d.processed (l-1) < q * d.processedWeight) (hhi : q * d.processedWeight ≤ Cf d.processed l)
      (hr : r = weightedAverage a.mean (Cf d.processed l - q * d.processedWeight) b.mean (q * d.processedWeight - Cf d.processed (l-1)))
  | tail (a : Centroid K) (h2 : 2 ≤ d.processed.length) (ha : d.processed[d.processed.length - 1]? = some a)
      (hlo : Cf d.processed (d.processed.length - 1) < q * d.processedWeight) (hhi : q * d.processedWeight ≤ d.processedWeight)
      (hr : r = weightedAverage a.mean (q * d.processedWeight - d.processedWeight - a.weight / 2) d.max
                  (a.weight / 2 - (q * d.processedWeight - d.processedWeight - a.weight / 2)))

theorem aux_pre_length (cs : List (Centroid K)) : pre cs cs.length = (cs.map (·.weight)).sum := by
  unfold pre; rw [List.take_length]

theorem aux_Cf_length (cs : List (Centroid K)) : Cf cs cs.length = (cs.map (·.weight)).sum := by
  unfold Cf; rw [aux_pre_length]; simp

theorem aux_total_nonneg (cs : List (Centroid K)) (hw : ∀ c ∈ cs, 0 < c.weight) : 0 ≤ (cs.map (·.weight)).sum := by
  rw [← aux_pre_length]
  have := aux_pre_mono cs hw 0 cs.length (by omega)
  simpa [pre] using this

theorem aux_quantile_spec (d : Digest K) (hv : Valid d) (q : K) (h0 : 0 ≤ q) (h1 : q ≤ 1) :
    ∃ r, quantile d q = .ok r ∧ Seg d q r := by
  obtain ⟨cs, W, mn, mx⟩ := d
  obtain ⟨hne, hsorted, hw, htot, hlo, hhi⟩ := hv
  simp only at hne hsorted hw htot hlo hhi
  have hW0 : 0 ≤ W := by rw [htot]; exact aux_total_nonneg cs hw
  have hidx : q * W ≤ W := by nlinarith
  unfold quantile quantileCum
  have hq0 : ¬ (q < ((0:Nat):K)) := by simpa using h0
  have hq1 : ¬ (((1:Nat):K) < q) := by simpa using h1
  simp only [aux_ops_lt, aux_ops_ofNat, hq0, hq1, decide_false, Bool.or_self, Bool.false_eq_true, ↓reduceIte]
  match cs, hne, hsorted, hw, htot, hlo, hhi with
  | [], hne, _, _, _, _, _ => exact absurd rfl hne
  | [c], _, _, _, _, _, _ => exact ⟨c.mean, rfl, Seg.single c rfl rfl⟩
  | c0 :: c1 :: rest, _, hsorted, hw, htot, hlo, hhi =>
    simp only [aux_ops_mul, aux_ops_div, aux_ops_le, aux_ops_ofNat, aux_ops_add, aux_ops_sub]
    by_cases hA : q * W ≤ c0.weight / ((2:Nat):K)
    · simp only [hA, decide_true, ↓reduceIte]
      refine ⟨_, rfl, Seg.head c0 (by simp) (by simp) (by simpa using hA) (by simp)⟩
    · simp only [hA, decide_false, Bool.false_eq_true, ↓reduceIte]
      have hn2 : 2 ≤ (c0 :: c1 :: rest).length := by simp
      have hc0 : (c0 :: c1 :: rest)[0]? = some c0 := by simp
      generalize c0 :: c1 :: rest = cs' at *
      have hlen : (cumulative cs').length = cs'.length + 1 := aux_cum_length _ _
      have hf : geAt (cumulative cs') (q * W) = fun i => decide (i ≤ cs'.length ∧ q * W ≤ Cf cs' i) := by
        funext i
        unfold geAt
        rw [aux_cum_get]
        by_cases hi : i ≤ cs'.length <;> simp [hi]
      rw [hf, hlen]
      have hs := aux_searchLoop_spec (fun i => decide (i ≤ cs'.length ∧ q * W ≤ Cf cs' i)) (cs'.length + 1)
        (cs'.length + 1 + 1) 0 (cs'.length + 1) (by omega) (by omega) (by omega) (by omega) (by omega)
      have hss : sortSearch (cs'.length + 1) (fun i => decide (i ≤ cs'.length ∧ q * W ≤ Cf cs' i)) =
          searchLoop (fun i => decide (i ≤ cs'.length ∧ q * W ≤ Cf cs' i)) (cs'.length + 1 + 1) 0 (cs'.length + 1) := rfl
      rw [hss]
      generalize searchLoop (fun i => decide (i ≤ cs'.length ∧ q * W ≤ Cf cs' i)) (cs'.length + 1 + 1) 0 (cs'.length + 1) = l at hs ⊢
      obtain ⟨hl1, hl2, hl3⟩ := hs
      have hCf0 : Cf cs' 0 = c0.weight / 2 := by simp [Cf, pre, hc0]
      have hl0 : l ≠ 0 := by
        intro h; subst h
        have := hl3 (by omega)
        simp only [decide_eq_true_eq] at this
        rw [hCf0] at this
        exact hA (by simpa using this.2)
      have hln : l ≠ cs'.length + 1 := by
        intro h; subst h
        have := hl2 (by omega)
        simp only [Nat.add_sub_cancel, decide_eq_false_iff_not, not_and, not_le] at this
        have := this (le_refl _)
        rw [aux_Cf_length, ← htot] at this
        linarith
      have hlo' : Cf cs' (l-1) < q * W := by
        have := hl2 (by omega)
        simp only [decide_eq_false_iff_not, not_and, not_le] at this
        exact this (by omega)
      have hhi' : q * W ≤ Cf cs' l := by
        have := hl3 (by omega)
        simp only [decide_eq_true_eq] at this
        exact this.2
      by_cases hlast : l + 1 ≠ cs'.length + 1
      · simp only [hlast, ne_eq, not_false_eq_true, ↓reduceIte, hl0]
        have hl_lt : l < cs'.length := by omega
        have e1 : (cumulative cs')[l-1]? = some (Cf cs' (l-1)) := by rw [aux_cum_get]; simp; omega
        have e2 : (cumulative cs')[l]? = some (Cf cs' l) := by rw [aux_cum_get]; simp; omega
        have e3 : cs'[l-1]? = some cs'[l-1] := List.getElem?_eq_getElem (by omega)
        have e4 : cs'[l]? = some cs'[l] := List.getElem?_eq_getElem hl_lt
        rw [e1, e2, e3, e4]
        exact ⟨_, rfl, Seg.mid l _ _ hn2 (by omega) hl_lt e3 e4 hlo' hhi' rfl⟩
      · have hl_eq : l = cs'.length := by omega
        subst hl_eq
        simp only [ne_eq, not_true_eq_false, ↓reduceIte]
        have e3 : cs'[cs'.length-1]? = some (cs'[cs'.length-1]'(by omega)) := List.getElem?_eq_getElem (by omega)
        have e5 : cs'.getLast? = some (cs'[cs'.length-1]'(by omega)) := by rw [List.getLast?_eq_getElem?, e3]
        rw [e3, e5]
        exact ⟨_, rfl, Seg.tail _ hn2 e3 hlo' hidx (by simp)⟩

theorem aux_wa_between (x1 w1 x2 w2 : K) :
    min x1 x2 ≤ weightedAverage x1 w1 x2 w2 ∧ weightedAverage x1 w1 x2 w2 ≤ max x1 x2 := by
  unfold weightedAverage weightedAverageSorted
  simp only [aux_ops_le, aux_ops_fmax, aux_ops_fmin, decide_eq_true_eq]
  by_cases h : x1 ≤ x2
  · simp only [h, ↓reduceIte, min_eq_left, max_eq_right]
    exact ⟨le_max_left _ _, max_le h (min_le_right _ _)⟩
  · have h' : x2 ≤ x1 := le_of_lt (not_le.mp h)
    simp only [h, ↓reduceIte, min_eq_right h', max_eq_left h']
    exact ⟨le_max_left _ _, max_le h' (min_le_right _ _)⟩

theorem aux_Cf_mono (cs : List (Centroid K)) (hw : ∀ c ∈ cs, 0 < c.weight) (i j : Nat) (hij : i ≤ j) (hj : j ≤ cs.length) :
    Cf cs i ≤ Cf cs j := by
  rcases Nat.lt_or_ge i j with h | h
  · exact le_of_lt (aux_Cf_strict cs hw i j h hj)
  · have : i = j := by omega
    subst this; exact le_refl _

theorem aux_sorted_get (cs : List (Centroid K)) (hs : cs.Pairwise (fun a b => a.mean ≤ b.mean)) (i j : Nat) (a b : Centroid K)
    (hi : cs[i]? = some a) (hj : cs[j]? = some b) (hij : i ≤ j) : a.mean ≤ b.mean := by
  rcases Nat.lt_or_ge i j with h | h
  · have hjl : j < cs.length := by
      rcases Nat.lt_or_ge j cs.length with h' | h'
      · exact h'
      · rw [List.getElem?_eq_none h'] at hj; cases hj
    have hil : i < cs.length := by omega
    rw [List.getElem?_eq_getElem hil] at hi
    rw [List.getElem?_eq_getElem hjl] at hj
    cases hi; cases hj
    exact (List.pairwise_iff_getElem.mp hs) i j hil hjl h
  · have : i = j := by omega
    subst this; rw [hi] at hj; cases hj; exact le_refl _

/-- the value of the middle branch lies between the two neighbouring means and grows with the index -/
theorem aux_mid_mono (ma mb cl cu i1 i2 : K) (hm : ma ≤ mb) (hc1 : cl < i1) (h12 : i1 ≤ i2) (hc2 : i2 ≤ cu) :
    weightedAverage ma (cu - i1) mb (i1 - cl) ≤ weightedAverage ma (cu - i2) mb (i2 - cl) := by
  unfold weightedAverage weightedAverageSorted
  simp only [aux_ops_le, aux_ops_fmax, aux_ops_fmin, aux_ops_add, aux_ops_mul, aux_ops_div, decide_eq_true_eq, hm, ↓reduceIte]
  have hD : 0 < cu - cl := by linarith
  have e1 : cu - i1 + (i1 - cl) = cu - cl := by ring
  have e2 : cu - i2 + (i2 - cl) = cu - cl := by ring
  rw [e1, e2]
  apply max_le_max (le_refl _)
  apply min_le_min _ (le_refl _)
  apply div_le_div_of_nonneg_right _ (le_of_lt hD)
  nlinarith [mul_nonneg (sub_nonneg.2 hm) (sub_nonneg.2 h12)]

/-- the tail branch returns `max` (in exact arithmetic): `z1 ≤ 0 < z1 + z2` pushes the raw average
beyond `max`, and the clamp brings it back -/
theorem aux_tail_eq_max (m w idx W mx : K) (hm : m ≤ mx) (hw : 0 < w) (hi : idx ≤ W) :
    weightedAverage m (idx - W - w / 2) mx (w / 2 - (idx - W - w / 2)) = mx := by
  unfold weightedAverage weightedAverageSorted
  simp only [aux_ops_le, aux_ops_fmax, aux_ops_fmin, aux_ops_add, aux_ops_mul, aux_ops_div, decide_eq_true_eq, hm, ↓reduceIte]
  have e : idx - W - w / 2 + (w / 2 - (idx - W - w / 2)) = w / 2 := by ring
  rw [e]
  have hx : mx ≤ (m * (idx - W - w / 2) + mx * (w / 2 - (idx - W - w / 2))) / (w / 2) := by
    rw [le_div_iff₀ (by linarith)]
    nlinarith [mul_nonneg (sub_nonneg.2 hm) (show 0 ≤ -(idx - W - w/2) by linarith)]
  rw [min_eq_right hx, max_eq_right hm]

theorem aux_mem_of_get {cs : List (Centroid K)} {i : Nat} {a : Centroid K} (h : cs[i]? = some a) : a ∈ cs :=
  List.mem_of_getElem? h

theorem aux_seg_bounds (d : Digest K) (hv : Valid d) (q r : K) (h0 : 0 ≤ q) (hs : Seg d q r) :
    d.min ≤ r ∧ r ≤ d.max := by
  have hW0 : 0 ≤ d.processedWeight := by rw [hv.total]; exact aux_total_nonneg _ hv.wpos
  cases hs with
  | single c h hr =>
    have hc : c ∈ d.processed := by rw [h]; simp
    rw [hr]; exact ⟨hv.lo c hc, hv.hi c hc⟩
  | head c0 h2 hc0 hi hr =>
    have hc := aux_mem_of_get hc0
    have hw := hv.wpos c0 hc
    have hlo := hv.lo c0 hc
    have hhi := hv.hi c0 hc
    have hi0 : 0 ≤ q * d.processedWeight := mul_nonneg h0 hW0
    have ht0 : 0 ≤ 2 * (q * d.processedWeight) / c0.weight := by positivity
    have ht1 : 2 * (q * d.processedWeight) / c0.weight ≤ 1 := by
      rw [div_le_one hw]; linarith
    rw [hr]
    constructor
    · nlinarith [mul_nonneg ht0 (sub_nonneg.2 hlo)]
    · nlinarith [mul_nonneg (sub_nonneg.2 ht1) (sub_nonneg.2 hlo)]
  | mid l a b h2 hl hln ha hb hlo hhi hr =>
    have hab := aux_wa_between a.mean (Cf d.processed l - q * d.processedWeight) b.mean (q * d.processedWeight - Cf d.processed (l-1))
    have ha' := aux_mem_of_get ha
    have hb' := aux_mem_of_get hb
    rw [hr]
    exact ⟨le_trans (le_min (hv.lo a ha') (hv.lo b hb')) hab.1, le_trans hab.2 (max_le (hv.hi a ha') (hv.hi b hb'))⟩
  | tail a h2 ha hlo hhi hr =>
    have ha' := aux_mem_of_get ha
    rw [hr, aux_tail_eq_max _ _ _ _ _ (hv.hi a ha') (hv.wpos a ha') hhi]
    exact ⟨le_trans (hv.lo a ha') (hv.hi a ha'), le_refl _⟩

/-- **`min ≤ Quantile(q) ≤ max` for every q ∈ [0,1], whatever the compression pass produced**
(any sorted centroid list with positive weights and means inside `[min, max]`), and the evaluation
never panics. -/
theorem quantile_in_min_max (d : Digest K) (hv : Valid d) (q : K) (h0 : 0 ≤ q) (h1 : q ≤ 1) :
    ∃ r, quantile d q = .ok r ∧ d.min ≤ r ∧ r ≤ d.max := by
  obtain ⟨r, hr, hs⟩ := aux_quantile_spec d hv q h0 h1
  exact ⟨r, hr, aux_seg_bounds d hv q r h0 hs⟩

theorem aux_seg_mono (d : Digest K) (hv : Valid d) (q1 q2 r1 r2 : K) (h0 : 0 ≤ q1) (h12 : q1 ≤ q2)
    (hs1 : Seg d q1 r1) (hs2 : Seg d q2 r2) : r1 ≤ r2 := by
  have hW0 : 0 ≤ d.processedWeight := by rw [hv.total]; exact aux_total_nonneg _ hv.wpos
  have hidx : q1 * d.processedWeight ≤ q2 * d.processedWeight := mul_le_mul_of_nonneg_right h12 hW0
  have hw := hv.wpos
  cases hs1 with
  | single c h hr =>
    cases hs2 with
    | single c' h' hr' => rw [h] at h'; cases h'; rw [hr, hr']
    | head c0 h2 => rw [h] at h2; simp at h2
    | mid l a b h2 => rw [h] at h2; simp at h2
    | tail a h2 => rw [h] at h2; simp at h2
  | head c0 h2 hc0 hi hr =>
    have hc := aux_mem_of_get hc0
    have hlo0 := hv.lo c0 hc
    have hb1 := (aux_seg_bounds d hv q1 r1 h0 (Seg.head c0 h2 hc0 hi hr))
    have hr1 : r1 ≤ c0.mean := by
      have hw0 := hw c0 hc
      have ht1 : 2 * (q1 * d.processedWeight) / c0.weight ≤ 1 := by
        rw [div_le_one hw0]; linarith
      rw [hr]; nlinarith [mul_nonneg (sub_nonneg.2 ht1) (sub_nonneg.2 hlo0)]
    cases hs2 with
    | single c' h' => rw [h'] at h2; simp at h2
    | head c0' _ hc0' hi' hr' =>
      rw [hc0] at hc0'; cases hc0'
      have hw0 := hw c0 hc
      rw [hr, hr']
      have : 2 * (q1 * d.processedWeight) / c0.weight ≤ 2 * (q2 * d.processedWeight) / c0.weight :=
        div_le_div_of_nonneg_right (by linarith) (le_of_lt hw0)
      nlinarith [mul_nonneg (sub_nonneg.2 this) (sub_nonneg.2 hlo0)]
    | mid l a b _ hl hln ha hb hlo hhi hr' =>
      have h1 := aux_sorted_get _ hv.sorted 0 (l-1) c0 a hc0 ha (by omega)
      have hab := aux_sorted_get _ hv.sorted (l-1) l a b ha hb (by omega)
      have hbt := aux_wa_between a.mean (Cf d.processed l - q2 * d.processedWeight) b.mean (q2 * d.processedWeight - Cf d.processed (l-1))
      rw [min_eq_left hab] at hbt
      rw [hr']; linarith [hbt.1]
    | tail a _ ha hlo hhi hr' =>
      have ha' := aux_mem_of_get ha
      rw [hr', aux_tail_eq_max _ _ _ _ _ (hv.hi a ha') (hw a ha') hhi]
      exact le_trans hr1 (hv.hi c0 hc)
  | mid l a b h2 hl hln ha hb hlo hhi hr =>
    have hab := aux_sorted_get _ hv.sorted (l-1) l a b ha hb (by omega)
    have hbt := aux_wa_between a.mean (Cf d.processed l - q1 * d.processedWeight) b.mean (q1 * d.processedWeight - Cf d.processed (l-1))
    rw [max_eq_right hab] at hbt
    have hr1 : r1 ≤ b.mean := by rw [hr]; exact hbt.2
    cases hs2 with
    | single c' h' => rw [h'] at h2; simp at h2
    | head c0 _ hc0 hi' hr' =>
      exfalso
      have hC0 : Cf d.processed 0 = c0.weight / 2 := by simp [Cf, pre, hc0]
      have := aux_Cf_mono _ hw 0 (l-1) (by omega) (by omega)
      rw [hC0] at this; linarith
    | mid l' a' b' _ hl' hln' ha' hb' hlo' hhi' hr' =>
      have hab' := aux_sorted_get _ hv.sorted (l'-1) l' a' b' ha' hb' (by omega)
      have hbt' := aux_wa_between a'.mean (Cf d.processed l' - q2 * d.processedWeight) b'.mean (q2 * d.processedWeight - Cf d.processed (l'-1))
      rw [min_eq_left hab'] at hbt'
      rcases Nat.lt_trichotomy l l' with hlt | heq | hgt
      · have := aux_sorted_get _ hv.sorted l (l'-1) b a' hb ha' (by omega)
        rw [hr']; linarith [hbt'.1]
      · subst heq
        rw [ha] at ha'; cases ha'
        rw [hb] at hb'; cases hb'
        rw [hr, hr']
        exact aux_mid_mono _ _ _ _ _ _ hab hlo hidx hhi'
      · exfalso
        have := aux_Cf_mono _ hw l' (l-1) (by omega) (by omega)
        linarith
    | tail a' _ ha' hlo' hhi' hr' =>
      have ha'' := aux_mem_of_get ha'
      rw [hr', aux_tail_eq_max _ _ _ _ _ (hv.hi a' ha'') (hw a' ha'') hhi']
      exact le_trans hr1 (hv.hi b (aux_mem_of_get hb))
  | tail a h2 ha hlo hhi hr =>
    have ha' := aux_mem_of_get ha
    rw [hr, aux_tail_eq_max _ _ _ _ _ (hv.hi a ha') (hw a ha') hhi]
    cases hs2 with
    | single c' h' => rw [h'] at h2; simp at h2
    | head c0 _ hc0 hi' hr' =>
      exfalso
      have hC0 : Cf d.processed 0 = c0.weight / 2 := by simp [Cf, pre, hc0]
      have := aux_Cf_mono _ hw 0 (d.processed.length-1) (by omega) (by omega)
      rw [hC0] at this; linarith
    | mid l' a' b' _ hl' hln' ha'' hb' hlo' hhi' hr' =>
      exfalso
      have := aux_Cf_mono _ hw l' (d.processed.length-1) (by omega) (by omega)
      linarith
    | tail a' _ ha'' hlo' hhi' hr' =>
      rw [ha] at ha''; cases ha''
      rw [hr', aux_tail_eq_max _ _ _ _ _ (hv.hi a ha') (hw a ha') hhi']

/-- **`Quantile` is non-decreasing in q** on `[0,1]` for every valid centroid list: within a segment
the interpolation is monotone and clamped to the neighbouring means, across segments the means are
sorted, and the tail segment returns `max`. -/
theorem quantile_monotone_in_q (d : Digest K) (hv : Valid d) (q1 q2 : K) (h0 : 0 ≤ q1) (h12 : q1 ≤ q2) (h1 : q2 ≤ 1) :
    ∃ r1 r2, quantile d q1 = .ok r1 ∧ quantile d q2 = .ok r2 ∧ r1 ≤ r2 := by
  obtain ⟨r1, hr1, hs1⟩ := aux_quantile_spec d hv q1 h0 (le_trans h12 h1)
  obtain ⟨r2, hr2, hs2⟩ := aux_quantile_spec d hv q2 (le_trans h0 h12) h1
  exact ⟨r1, r2, hr1, hr2, aux_seg_mono d hv q1 q2 r1 r2 h0 h12 hs1 hs2⟩

/-- A by-product worth recording (exact arithmetic): **the tail branch never interpolates** — past the
centre of the last centroid, `Quantile` returns `max` outright.  `z1 := index - processedWeight -
w/2` is negative there, the raw weighted average lands beyond `max` and the clamp returns `max`.
(The head branch, in contrast, does interpolate from `min`.)  Harmless for the ordering clauses, and
within the rank tolerance as long as the last centroid is light. -/
theorem tail_returns_max (d : Digest K) (hv : Valid d) (h2 : 2 ≤ d.processed.length) (q : K) (h0 : 0 ≤ q) (h1 : q ≤ 1)
    (hq : Cf d.processed (d.processed.length - 1) < q * d.processedWeight) : quantile d q = .ok d.max := by
  obtain ⟨r, hr, hs⟩ := aux_quantile_spec d hv q h0 h1
  rw [hr]
  congr 1
  cases hs with
  | single c h => rw [h] at h2; simp at h2
  | head c0 _ hc0 hi =>
    exfalso
    have hC0 : Cf d.processed 0 = c0.weight / 2 := by simp [Cf, pre, hc0]
    have := aux_Cf_mono _ hv.wpos 0 (d.processed.length-1) (by omega) (by omega)
    rw [hC0] at this; linarith
  | mid l a b _ hl hln ha hb hlo hhi =>
    exfalso
    have := aux_Cf_mono _ hv.wpos l (d.processed.length-1) (by omega) (by omega)
    linarith
  | tail a _ ha hlo hhi hr' =>
    have ha' := aux_mem_of_get ha
    rw [hr', aux_tail_eq_max _ _ _ _ _ (hv.hi a ha') (hv.wpos a ha') hhi]

/-! ### vegeta's side -/

theorem aux_lit (n dn : Nat) : (lit n dn : K) = (n : K) / (dn : K) := rfl

theorem aux_lit_range (n dn : Nat) (hd : 0 < dn) (hn : n ≤ dn) : (0:K) ≤ lit n dn ∧ (lit n dn : K) ≤ 1 := by
  rw [aux_lit]
  have hd' : (0:K) < (dn:K) := by exact_mod_cast hd
  have hn' : (n:K) ≤ (dn:K) := by exact_mod_cast hn
  exact ⟨by positivity, by rw [div_le_one hd']; exact hn'⟩

theorem aux_lit_le (n1 d1 n2 d2 : Nat) (h1 : 0 < d1) (h2 : 0 < d2) (h : n1 * d2 ≤ n2 * d1) :
    (lit n1 d1 : K) ≤ lit n2 d2 := by
  rw [aux_lit, aux_lit]
  have h1' : (0:K) < (d1:K) := by exact_mod_cast h1
  have h2' : (0:K) < (d2:K) := by exact_mod_cast h2
  rw [div_le_div_iff₀ h1' h2']
  exact_mod_cast h

theorem aux_latQ (trunc : K → Int) (d : Digest K) (q r : K) (h : quantile d q = .ok r) :
    latQuantileCum trunc (cumulative d.processed) d q = .ok (trunc r) := by
  unfold latQuantileCum
  unfold quantile at h
  rw [h]

/-- **`min ≤ P50 ≤ P90 ≤ P95 ≤ P99 ≤ max`** for the four percentiles `Metrics.Close` takes, whatever
centroid list the compression produced: `lo`/`hi` are the reported (integer) minimum and maximum, which
bound the digest's `min`/`max`; `trunc` is the conversion `time.Duration(float64)`, of which only
monotonicity and exactness on integers are used. -/
theorem percentiles_ordered (d : Digest K) (hv : Valid d) (trunc : K → Int)
    (htr : ∀ a b : K, a ≤ b → trunc a ≤ trunc b) (htri : ∀ i : Int, trunc (i : K) = i)
    (lo hi : Int) (hlo : (lo : K) ≤ d.min) (hhi : d.max ≤ (hi : K)) :
    ∃ p, close trunc d = .ok p ∧ lo ≤ p.p50 ∧ p.p50 ≤ p.p90 ∧ p.p90 ≤ p.p95 ∧ p.p95 ≤ p.p99 ∧ p.p99 ≤ hi := by
  have r50 := aux_lit_range (K := K) 50 100 (by omega) (by omega)
  have r99 := aux_lit_range (K := K) 99 100 (by omega) (by omega)
  have l1 := aux_lit_le (K := K) 50 100 90 100 (by omega) (by omega) (by omega)
  have l2 := aux_lit_le (K := K) 90 100 95 100 (by omega) (by omega) (by omega)
  have l3 := aux_lit_le (K := K) 95 100 99 100 (by omega) (by omega) (by omega)
  obtain ⟨a, b, ha, hb, hab⟩ := quantile_monotone_in_q d hv _ _ r50.1 l1 (by linarith [r99.2])
  obtain ⟨b', c, hb', hc, hbc⟩ := quantile_monotone_in_q d hv _ _ (by linarith [r50.1]) l2 (by linarith [r99.2])
  obtain ⟨c', e, hc', he, hce⟩ := quantile_monotone_in_q d hv _ _ (by linarith [r50.1]) l3 r99.2
  rw [hb] at hb'; cases hb'
  rw [hc] at hc'; cases hc'
  obtain ⟨a', ha', hamin, _⟩ := quantile_in_min_max d hv _ r50.1 (by linarith [r99.2])
  rw [ha] at ha'; cases ha'
  obtain ⟨e', he', _, hemax⟩ := quantile_in_min_max d hv _ (by linarith [r50.1]) r99.2
  rw [he] at he'; cases he'
  refine ⟨⟨trunc a, trunc b, trunc c, trunc e⟩, ?_, ?_, htr _ _ hab, htr _ _ hbc, htr _ _ hce, ?_⟩
  · unfold close
    simp only [aux_latQ trunc d _ _ ha, aux_latQ trunc d _ _ hb, aux_latQ trunc d _ _ hc, aux_latQ trunc d _ _ he]
  · rw [← htri lo]; exact htr _ _ (le_trans hlo hamin)
  · rw [← htri hi]; exact htr _ _ (le_trans hemax hhi)

theorem aux_milliseconds (x : Int) : (milliseconds x : K) = (x : K) / 1000000 := by
  unfold milliseconds
  simp only [aux_ops_add, aux_ops_div, aux_ops_ofInt, aux_ops_ofNat]
  have h := Int.mul_tdiv_add_tmod x 1000000
  have h' : ((1000000 * x.tdiv 1000000 + x.tmod 1000000 : Int) : K) = (x : K) := by rw [h]
  push_cast at h'
  rw [← h']
  have e : ((1000000 : Nat) : K) = 1000000 := by norm_num
  rw [e]
  field_simp

theorem aux_milliseconds_mono (x y : Int) (h : x ≤ y) : (milliseconds x : K) ≤ milliseconds y := by
  rw [aux_milliseconds, aux_milliseconds]
  have : (x : K) ≤ (y : K) := by exact_mod_cast h
  exact div_le_div_of_nonneg_right this (by norm_num)

/-- adjacent elements are related -/
def Chain {α : Type} (R : α → α → Prop) : List α → Prop
  | [] => True
  | [_] => True
  | a :: b :: r => R a b ∧ Chain R (b :: r)

/-- A row of the report belongs to the percentile `q` -/
def RowOf (trunc : K → Int) (d : Digest K) (q : K) (row : HdrRow K) : Prop :=
  row.q = q ∧ (∃ r, quantile d q = .ok r ∧ row.dur = trunc r) ∧ row.value = milliseconds row.dur

theorem aux_hdr_rows (d : Digest K) (hv : Valid d) (trunc : K → Int) (n : Nat) (qs : List K)
    (hq : ∀ q ∈ qs, 0 ≤ q ∧ q ≤ 1) :
    ∃ rs, hdrRowsFrom trunc (cumulative d.processed) d n qs = .ok rs ∧ List.Forall₂ (RowOf trunc d) qs rs := by
  induction qs with
  | nil => exact ⟨[], rfl, List.Forall₂.nil⟩
  | cons q qs ih =>
    obtain ⟨rs, hrs, hf⟩ := ih (fun x hx => hq x (List.mem_cons_of_mem _ hx))
    obtain ⟨hq0, hq1⟩ := hq q List.mem_cons_self
    obtain ⟨r, hr, _⟩ := quantile_in_min_max d hv q hq0 hq1
    refine ⟨{ value := milliseconds (trunc r), q := q, count := trunc (QOps.add (QOps.mul q (QOps.ofNat n)) (lit 5 10)),
              oneBy := oneByQuantile q, dur := trunc r } :: rs, ?_, List.Forall₂.cons ?_ hf⟩
    · simp only [hdrRowsFrom, hdrRow, aux_latQ trunc d q r hr, hrs]
    · exact ⟨rfl, ⟨r, hr, rfl⟩, rfl⟩

theorem aux_rows_chain (d : Digest K) (hv : Valid d) (trunc : K → Int)
    (htr : ∀ a b : K, a ≤ b → trunc a ≤ trunc b) :
    ∀ (qs : List K) (rs : List (HdrRow K)), (∀ q ∈ qs, 0 ≤ q ∧ q ≤ 1) → Chain (· ≤ ·) qs →
      List.Forall₂ (RowOf trunc d) qs rs →
      Chain (fun a b : HdrRow K => a.q ≤ b.q ∧ a.dur ≤ b.dur ∧ a.value ≤ b.value) rs := by
  intro qs
  induction qs with
  | nil => intro rs _ _ hf; cases hf; trivial
  | cons q qs ih =>
    intro rs hq hc hf
    cases hf with
    | @cons _ row _ rs' h1 hrest =>
      cases hrest with
      | nil => trivial
      | @cons q2 row2 qs' rs'' h2 hrest' =>
        have hq2 := hq q2 (by simp)
        have hqq := hq q (by simp)
        refine ⟨?_, ih _ (fun x hx => hq x (List.mem_cons_of_mem _ hx)) hc.2 (List.Forall₂.cons h2 hrest')⟩
        obtain ⟨e1, ⟨r1, hr1, hd1⟩, hv1⟩ := h1
        obtain ⟨e2, ⟨r2, hr2, hd2⟩, hv2⟩ := h2
        obtain ⟨a, b, ha, hb, hab⟩ := quantile_monotone_in_q d hv q q2 hqq.1 hc.1 hq2.2
        rw [hr1] at ha; cases ha
        rw [hr2] at hb; cases hb
        have hd : row.dur ≤ row2.dur := by rw [hd1, hd2]; exact htr _ _ hab
        refine ⟨by rw [e1, e2]; exact hc.1, hd, ?_⟩
        rw [hv1, hv2]; exact aux_milliseconds_mono _ _ hd

/-- the check run on the regenerated ladder: every literal is a fraction in [0,1] and consecutive
literals do not decrease (compared exactly, by cross-multiplication) -/
def ladderOK : List (Nat × Nat) → Bool
  | [] => true
  | [(n, dn)] => decide (0 < dn ∧ n ≤ dn)
  | (n1, d1) :: (n2, d2) :: rest => decide (0 < d1 ∧ 0 < d2 ∧ n1 ≤ d1 ∧ n1 * d2 ≤ n2 * d1) && ladderOK ((n2, d2) :: rest)

theorem aux_ladder (l : List (Nat × Nat)) (h : ladderOK l = true) :
    (∀ q ∈ l.map (fun (p : Nat × Nat) => (lit p.1 p.2 : K)), 0 ≤ q ∧ q ≤ 1) ∧
    Chain (· ≤ ·) (l.map (fun (p : Nat × Nat) => (lit p.1 p.2 : K))) := by
  induction l with
  | nil => exact ⟨by simp, trivial⟩
  | cons p l ih =>
    obtain ⟨n1, d1⟩ := p
    cases l with
    | nil =>
      simp only [ladderOK, decide_eq_true_eq] at h
      refine ⟨?_, trivial⟩
      intro q hq; simp at hq; subst hq
      exact aux_lit_range n1 d1 h.1 h.2
    | cons p2 l' =>
      obtain ⟨n2, d2⟩ := p2
      simp only [ladderOK, Bool.and_eq_true, decide_eq_true_eq] at h
      obtain ⟨⟨h1, h2, h3, h4⟩, hrest⟩ := h
      obtain ⟨ih1, ih2⟩ := ih hrest
      refine ⟨?_, ?_, ih2⟩
      · intro q hq
        simp only [List.map_cons, List.mem_cons] at hq
        rcases hq with hq | hq
        · subst hq; exact aux_lit_range n1 d1 h1 h3
        · exact ih1 q (by simpa using hq)
      · exact aux_lit_le n1 d1 n2 d2 h1 h2 h4

/-- **The HDR-histogram report lists values that never decrease as the percentile grows**: for every
ladder that passes `ladderOK` (the regenerated `logarithmic` table does: `ladder_sorted`), every valid
centroid list and every monotone conversion, the reporter produces one row per ladder entry and along
the rows the percentile, the latency and the printed `Value(ms)` are all non-decreasing. -/
theorem hdr_rows_nondecreasing (d : Digest K) (hv : Valid d) (trunc : K → Int)
    (htr : ∀ a b : K, a ≤ b → trunc a ≤ trunc b) (requests : Nat) (ladder : List (Nat × Nat))
    (hl : ladderOK ladder = true) :
    ∃ rs, hdrRows trunc d requests ladder = .ok rs ∧ rs.length = ladder.length ∧
      Chain (fun a b : HdrRow K => a.q ≤ b.q ∧ a.dur ≤ b.dur ∧ a.value ≤ b.value) rs := by
  obtain ⟨h1, h2⟩ := aux_ladder (K := K) ladder hl
  obtain ⟨rs, hrs, hf⟩ := aux_hdr_rows d hv trunc requests _ h1
  refine ⟨rs, ?_, ?_, aux_rows_chain d hv trunc htr _ rs h1 h2 hf⟩
  · unfold hdrRows
    have : (List.map (fun x => match x with | (n, dn) => (lit n dn : K)) ladder) = List.map (fun (p : Nat × Nat) => (lit p.1 p.2 : K)) ladder := by
      apply List.map_congr_left; intro p _; rfl
    rw [this]; exact hrs
  · have := hf.length_eq; simpa using this.symm

/-! ### all latencies equal -/

/-- **When all latencies are equal every percentile equals that value** (exact arithmetic): all samples
equal `v` force `min = max = v` (and hence every centroid mean `= v`); then every quantile in `[0,1]` is
exactly `v`, with no rounding assumption, as a corollary of `quantile_in_min_max`. -/
theorem all_equal_exact (d : Digest K) (hv : Valid d) (v : K) (hmin : d.min = v) (hmax : d.max = v)
    (q : K) (h0 : 0 ≤ q) (h1 : q ≤ 1) : quantile d q = .ok v := by
  obtain ⟨r, hr, hlo, hhi⟩ := quantile_in_min_max d hv q h0 h1
  rw [hmin] at hlo; rw [hmax] at hhi
  rw [hr, le_antisymm hhi hlo]

/-- … and so do the four reported percentiles. -/
theorem all_equal_percentiles (d : Digest K) (hv : Valid d) (trunc : K → Int) (htri : ∀ i : Int, trunc (i : K) = i)
    (v : Int) (hmin : d.min = (v : K)) (hmax : d.max = (v : K)) :
    close trunc d = .ok ⟨v, v, v, v⟩ := by
  have r50 := aux_lit_range (K := K) 50 100 (by omega) (by omega)
  have r90 := aux_lit_range (K := K) 90 100 (by omega) (by omega)
  have r95 := aux_lit_range (K := K) 95 100 (by omega) (by omega)
  have r99 := aux_lit_range (K := K) 99 100 (by omega) (by omega)
  unfold close
  simp only [aux_latQ trunc d _ _ (all_equal_exact d hv _ hmin hmax _ r50.1 r50.2),
    aux_latQ trunc d _ _ (all_equal_exact d hv _ hmin hmax _ r90.1 r90.2),
    aux_latQ trunc d _ _ (all_equal_exact d hv _ hmin hmax _ r95.1 r95.2),
    aux_latQ trunc d _ _ (all_equal_exact d hv _ hmin hmax _ r99.1 r99.2), htri]

/-- The two identities the all-equal clause rests on when the arithmetic is *not* exact, at the common
value `v`.  `bad` marks the error values of the arithmetic (NaN for IEEE-754; nothing in a field).
* `clamp`: `math.Max(v, math.Min(x, v))` is `v` (or NaN, when `x` is) — whatever the rounded weighted
  average `x = (v·w₁ + v·w₂)/(w₁ + w₂)` came out as, which in floats is in general *not* `v`;
* `interp`: `v + t·(v − v)` is `v` (or NaN, when `t` is NaN or infinite): `v − v = 0`, `t·0 = ±0`,
  `v ± 0 = v`. -/
structure EqLaws (F : Type) [QOps F] (bad : F → Prop) (v : F) : Prop where
  clamp : ∀ x : F, QOps.fmax v (QOps.fmin x v) = v ∨ bad (QOps.fmax v (QOps.fmin x v))
  interp : ∀ t : F, QOps.add v (QOps.mul t (QOps.sub v v)) = v ∨ bad (QOps.add v (QOps.mul t (QOps.sub v v)))

theorem aux_wa_equal {F : Type} [QOps F] (bad : F → Prop) (v : F) (laws : EqLaws F bad v) (w1 w2 : F) :
    weightedAverage v w1 v w2 = v ∨ bad (weightedAverage v w1 v w2) := by
  unfold weightedAverage weightedAverageSorted
  split <;> exact laws.clamp _

/-- **All latencies equal ⇒ every percentile equals that value, in any arithmetic satisfying `EqLaws`**
(floats included): if every centroid mean, `min` and `max` equal `v`, then whatever `Quantile(q)`
returns for an in-range `q` is `v` itself — or the arithmetic's error value.  No property of the
weights, of the cumulative table or of the search is used. -/
theorem all_equal_exact_any_arithmetic {F : Type} [QOps F] (bad : F → Prop) (v : F) (laws : EqLaws F bad v)
    (d : Digest F) (hne : d.processed ≠ []) (hmeans : ∀ c ∈ d.processed, c.mean = v)
    (hmin : d.min = v) (hmax : d.max = v) (q r : F)
    (hq : (QOps.lt q (QOps.ofNat 0) || QOps.lt (QOps.ofNat 1) q) = false)
    (hr : quantile d q = .ok r) : r = v ∨ bad r := by
  obtain ⟨cs, W, mn, mx⟩ := d
  simp only at hne hmeans hmin hmax
  have hmin' := hmin.symm
  have hmax' := hmax.symm
  subst hmin'
  subst hmax'
  unfold quantile quantileCum at hr
  simp only [hq, Bool.false_eq_true, ↓reduceIte] at hr
  match cs, hne, hmeans with
  | [], hne, _ => exact absurd rfl hne
  | [c], _, hmeans =>
    simp only at hr; cases hr
    exact Or.inl (hmeans c (by simp))
  | c0 :: c1 :: rest, _, hmeans =>
    simp only at hr
    have hc0 : c0.mean = v := hmeans c0 (by simp)
    split at hr
    · cases hr
      rw [hc0]; exact laws.interp _
    · split at hr
      · split at hr
        · cases hr
        · split at hr
          · rename_i cl cu pl pu _ _ hpl hpu
            cases hr
            rw [hmeans pl (List.mem_of_getElem? hpl), hmeans pu (List.mem_of_getElem? hpu)]
            exact aux_wa_equal bad v laws _ _
          · cases hr
      · split at hr
        · rename_i pl last hpl hlast
          cases hr
          rw [hmeans last (List.mem_of_getLast? hlast)]
          exact aux_wa_equal bad v laws _ _
        · cases hr

/-- the laws hold in every ordered field (nothing is an error value there) -/
theorem eqLaws_field (v : K) : EqLaws K (fun _ => False) v where
  clamp x := Or.inl (by simp only [aux_ops_fmax, aux_ops_fmin]; exact max_eq_left (min_le_right _ _))
  interp t := Or.inl (by simp only [aux_ops_add, aux_ops_mul, aux_ops_sub]; ring)


/-! ### the all-equal clause in float64 (SoftF64) -/

/-- `math.Max(v, math.Min(x, v))` over SoftF64 is `v` for every finite non-zero `v` and EVERY `x`, except
that it is NaN when `x` is NaN (proof in Proofs/QuantileF64.lean). -/
theorem clamp_float64 (v x : F64) (hn : v.isNaN = false) (hi : v.isInf = false) (hz : v.isZero = false) :
    goMax v (goMin x v) = v ∨ (goMax v (goMin x v)).isNaN = true :=
  Vegeta.Proofs.QuantileF64.clamp_float64 v x hn hi hz

/-- `v + t·(v − v)` over SoftF64 is `v` for every finite non-zero `v` and EVERY `t`, except that it is
NaN when `t` is NaN or infinite: `v − v = +0`, `t·(+0) = ±0`, and `v + (±0)` re-rounds `v` to itself
(proof in Proofs/QuantileF64.lean, through the exactness of `F64.roundRat` on representable values). -/
theorem interp_float64 (v t : F64) (hn : v.isNaN = false) (hi : v.isInf = false) (hz : v.isZero = false)
    (hb : v.bits < 2 ^ 64) :
    F64.add v (F64.mul t (F64.sub v v)) = v ∨ (F64.add v (F64.mul t (F64.sub v v))).isNaN = true :=
  Vegeta.Proofs.QuantileF64.interp_float64 v t hn hi hz hb

/-- **All latencies equal ⇒ every percentile equals that value, in float64** (SoftF64, the arithmetic
that is bit-exact with the Go code in the correspondence runs), with NO assumption about the
arithmetic: for a finite non-zero `v`, if every centroid mean, `min` and `max` are `v`, then whatever
`Quantile(q)` returns for an in-range `q` is bit-for-bit `v` — or NaN.  The rounded weighted average
`(v·w₁ + v·w₂)/(w₁ + w₂)` is in general NOT `v`; the clamp `max(v, min(x, v))` is. -/
theorem all_equal_exact_float64 (v : F64) (hn : v.isNaN = false) (hi : v.isInf = false) (hz : v.isZero = false)
    (hb : v.bits < 2 ^ 64)
    (d : Digest F64) (hne : d.processed ≠ []) (hmeans : ∀ c ∈ d.processed, c.mean = v)
    (hmin : d.min = v) (hmax : d.max = v) (q r : F64)
    (hq : (F64.lt q (F64.ofNat 0) || F64.lt (F64.ofNat 1) q) = false)
    (hr : quantile d q = .ok r) : r = v ∨ r.isNaN = true :=
  all_equal_exact_any_arithmetic (fun x : F64 => x.isNaN = true) v
    ⟨fun x => clamp_float64 v x hn hi hz, fun t => interp_float64 v t hn hi hz hb⟩ d hne hmeans hmin hmax q r hq hr

/-! ### facts regenerated from the source (extract/c11.go) -/

/-- every ladder literal was a plain decimal literal, and the table is mentioned only where it is
declared and where the reporter ranges over it (so nothing else can reorder it) -/
theorem facts_ladder_literals : Vegeta.Extracted.c11_ladder_ok = true ∧ Vegeta.Extracted.c11_ladder_mentions = 2 := by decide

/-- **The regenerated `logarithmic` table is non-decreasing, starts at 0 and ends at 1**, and every
entry is a fraction in [0,1] (compared exactly as rationals, from the literal text). -/
theorem ladder_sorted :
    ladderOK Vegeta.Extracted.c11_ladder = true ∧
    Vegeta.Extracted.c11_ladder.head? = some (0, 100) ∧
    Vegeta.Extracted.c11_ladder.getLast? = some (10, 10) ∧
    Vegeta.Extracted.c11_ladder.length = 94 := by decide

/-- `Metrics.Close` assigns `P50, P90, P95, P99 := Quantile(0.50), Quantile(0.90), Quantile(0.95),
Quantile(0.99)` in this pairing — the one `Model.Quantile.close` uses. -/
theorem facts_close_quantiles :
    Vegeta.Extracted.c11_close_quantiles =
      [([80, 53, 48], 50, 100), ([80, 57, 48], 90, 100), ([80, 57, 53], 95, 100), ([80, 57, 57], 99, 100)] ∧
    Vegeta.Extracted.c11_close_quantiles.map (fun x => x.2) = closeQuantiles := by decide

/-- compression 100, every sample added with weight 1, `Get` answers with `TDigest.Quantile` -/
theorem facts_estimator :
    Vegeta.Extracted.c11_compression = (100, 1) ∧ Vegeta.Extracted.c11_sample_weight = (1, 1) ∧
    Vegeta.Extracted.c11_estimator_get_calls = [[81, 117, 97, 110, 116, 105, 108, 101]] := by decide

/-- **The HDR-histogram report, over the ladder that is in the source today, never decreases.** -/
theorem hdr_report_nondecreasing (d : Digest K) (hv : Valid d) (trunc : K → Int)
    (htr : ∀ a b : K, a ≤ b → trunc a ≤ trunc b) (requests : Nat) :
    ∃ rs, hdrRows trunc d requests Vegeta.Extracted.c11_ladder = .ok rs ∧ rs.length = 94 ∧
      Chain (fun a b : HdrRow K => a.q ≤ b.q ∧ a.dur ≤ b.dur ∧ a.value ≤ b.value) rs := by
  obtain ⟨rs, h1, h2, h3⟩ := hdr_rows_nondecreasing d hv trunc htr requests _ ladder_sorted.1
  exact ⟨rs, h1, by rw [h2]; exact ladder_sorted.2.2.2, h3⟩

/-! ### non-vacuity -/

/-- a valid three-centroid digest over ℚ (samples 1, 2, 2, 4) -/
def exDigest : Digest ℚ := ⟨[⟨1, 1⟩, ⟨2, 2⟩, ⟨4, 1⟩], 4, 1, 4⟩

example : Valid exDigest where
  nonempty := by simp [exDigest]
  sorted := by simp [exDigest]; norm_num
  wpos := by simp [exDigest]
  total := by simp [exDigest]; norm_num
  lo := by simp [exDigest]
  hi := by simp [exDigest]; norm_num

/-- the hypotheses on the conversion are satisfiable: `⌊·⌋` (which is Go's truncation on the
non-negative values that occur) is monotone and exact on integers -/
example : (∀ a b : ℚ, a ≤ b → ⌊a⌋ ≤ ⌊b⌋) ∧ (∀ i : Int, ⌊(i : ℚ)⌋ = i) :=
  ⟨fun _ _ h => Int.floor_mono h, fun i => Int.floor_intCast i⟩

/-- the model runs (SoftF64, the arithmetic the driver uses): median of the digest of {1, 3} is 2,
an out-of-range argument gives NaN, and `Quantile(NaN)` indexes out of range — as the real code does -/
example : quantile (F := F64) ⟨[⟨F64.ofNat 1, F64.ofNat 1⟩, ⟨F64.ofNat 3, F64.ofNat 1⟩], F64.ofNat 2, F64.ofNat 1, F64.ofNat 3⟩
    (lit 1 2) = .ok (F64.ofNat 2) := by decide +kernel
example : quantile (F := F64) ⟨[⟨F64.ofNat 1, F64.ofNat 1⟩, ⟨F64.ofNat 3, F64.ofNat 1⟩], F64.ofNat 2, F64.ofNat 1, F64.ofNat 3⟩
    (lit 3 2) = .ok F64.nan := by decide +kernel
example : quantile (F := F64) ⟨[⟨F64.ofNat 1, F64.ofNat 1⟩, ⟨F64.ofNat 3, F64.ofNat 1⟩], F64.ofNat 2, F64.ofNat 1, F64.ofNat 3⟩
    F64.nan = .panic := by decide +kernel

/-- the float laws of `EqLaws` on sample values: the rounded weighted average of two copies of
`v = 0.1` with weights 0.3 and 0.7 is NOT `v` (it is one ulp below), the clamp returns `v` exactly -/
example :
    let v : F64 := lit 1 10
    let x : F64 := F64.div (F64.add (F64.mul v (lit 3 10)) (F64.mul v (lit 7 10))) (F64.add (lit 3 10) (lit 7 10))
    x ≠ v ∧ goMax v (goMin x v) = v ∧ F64.add v (F64.mul (lit 123 7) (F64.sub v v)) = v ∧
    (goMax v (goMin F64.nan v)).isNaN = true := by decide +kernel

/-- `all_equal_exact_float64` is not vacuous: `v` = 500 ms as a double, three centroids all at `v`
(weights 2, 3, 2); the median and the 99th percentile come out as `v` bit for bit -/
example :
    let v : F64 := F64.ofNat 500000000
    let d : Digest F64 := ⟨[⟨v, F64.ofNat 2⟩, ⟨v, F64.ofNat 3⟩, ⟨v, F64.ofNat 2⟩], F64.ofNat 7, v, v⟩
    v.isNaN = false ∧ v.isInf = false ∧ v.isZero = false ∧ v.bits < 2 ^ 64 ∧
    quantile d (lit 50 100) = .ok v ∧ quantile d (lit 99 100) = .ok v ∧ quantile d (lit 1 100) = .ok v := by decide +kernel


/-! ## The compression pass (Model/TDigestMerge.lean): `Valid` derived, end-to-end theorems

Everything below holds for EVERY limit function `lim : Lim K` (the sin/asin scale function of the
library is one instance) and every `sortBy` that returns its input permuted and sorted by mean
(`SortSpec`; Go's unstable pdqsort is one instance). -/

def sumW (cs : List (Centroid K)) : K := (cs.map (·.weight)).sum

theorem aux_cadd (c r : Centroid K) (hc : 0 < c.weight) (hr : 0 < r.weight) :
    centroidAdd c r = ⟨c.mean + r.weight * (r.mean - c.mean) / (c.weight + r.weight), c.weight + r.weight⟩ := by
  unfold centroidAdd ne0
  have h1 : ¬ (r.weight < ((0:Nat):K)) := by simp; exact le_of_lt hr
  have h2 : ¬ (c.weight ≤ ((0:Nat):K)) := by simp; exact hc
  simp only [aux_ops_lt, aux_ops_le, aux_ops_ofNat, h1, h2, decide_false, Bool.false_and, Bool.not_false,
    Bool.false_eq_true, ↓reduceIte, aux_ops_add, aux_ops_mul, aux_ops_sub, aux_ops_div]

/-- the merged mean is the weighted mean: it stays inside every interval that contains both means -/
theorem aux_cadd_lo (c r : Centroid K) (hc : 0 < c.weight) (hr : 0 < r.weight) (lo : K) (h1 : lo ≤ c.mean) (h2 : lo ≤ r.mean) :
    lo ≤ (centroidAdd c r).mean := by
  rw [aux_cadd c r hc hr]
  simp only
  have hW : 0 < c.weight + r.weight := by linarith
  have : c.mean + r.weight * (r.mean - c.mean) / (c.weight + r.weight) = (c.weight * c.mean + r.weight * r.mean) / (c.weight + r.weight) := by
    field_simp; ring
  rw [this, le_div_iff₀ hW]
  nlinarith [mul_nonneg (le_of_lt hc) (sub_nonneg.2 h1), mul_nonneg (le_of_lt hr) (sub_nonneg.2 h2)]

theorem aux_cadd_hi (c r : Centroid K) (hc : 0 < c.weight) (hr : 0 < r.weight) (hi : K) (h1 : c.mean ≤ hi) (h2 : r.mean ≤ hi) :
    (centroidAdd c r).mean ≤ hi := by
  rw [aux_cadd c r hc hr]
  simp only
  have hW : 0 < c.weight + r.weight := by linarith
  have : c.mean + r.weight * (r.mean - c.mean) / (c.weight + r.weight) = (c.weight * c.mean + r.weight * r.mean) / (c.weight + r.weight) := by
    field_simp; ring
  rw [this, div_le_iff₀ hW]
  nlinarith [mul_nonneg (le_of_lt hc) (sub_nonneg.2 h1), mul_nonneg (le_of_lt hr) (sub_nonneg.2 h2)]

theorem aux_cadd_weight (c r : Centroid K) (hc : 0 < c.weight) (hr : 0 < r.weight) :
    (centroidAdd c r).weight = c.weight + r.weight := by rw [aux_cadd c r hc hr]

theorem aux_sumW_cons (c : Centroid K) (cs : List (Centroid K)) : sumW (c :: cs) = c.weight + sumW cs := by
  simp [sumW]
theorem aux_sumW_append (a b : List (Centroid K)) : sumW (a ++ b) = sumW a + sumW b := by
  simp [sumW]
theorem aux_sumW_reverse (a : List (Centroid K)) : sumW a.reverse = sumW a := by
  simp [sumW, List.sum_reverse]
theorem aux_sumW_perm {a b : List (Centroid K)} (h : a.Perm b) : sumW a = sumW b := by
  unfold sumW; exact (h.map _).sum_eq

/-- What one merge pass guarantees, for EVERY limit function. -/
structure MergeOut (acc : List (Centroid K)) (cur : Centroid K) (rest out : List (Centroid K)) : Prop where
  sorted : out.Pairwise (fun a b => a.mean ≤ b.mean)
  wpos : ∀ c ∈ out, 0 < c.weight
  sum : sumW out = sumW acc + cur.weight + sumW rest
  ne : out ≠ []
  lo : ∀ lo : K, (∀ c ∈ acc, lo ≤ c.mean) → lo ≤ cur.mean → (∀ c ∈ rest, lo ≤ c.mean) → ∀ c ∈ out, lo ≤ c.mean
  hi : ∀ hi : K, (∀ c ∈ acc, c.mean ≤ hi) → cur.mean ≤ hi → (∀ c ∈ rest, c.mean ≤ hi) → ∀ c ∈ out, c.mean ≤ hi

theorem aux_merge (next : K → K → K) (W : K) : ∀ (rest acc : List (Centroid K)) (cur : Centroid K) (soFar limit : K),
    0 < cur.weight → (∀ c ∈ acc, 0 < c.weight) → (∀ c ∈ rest, 0 < c.weight) →
    (cur :: acc).Pairwise (fun a b => b.mean ≤ a.mean) → rest.Pairwise (fun a b => a.mean ≤ b.mean) →
    (∀ r ∈ rest, cur.mean ≤ r.mean) →
    MergeOut acc cur rest (mergeLoop next W acc cur soFar limit rest) := by
  intro rest
  induction rest with
  | nil =>
    intro acc cur soFar limit hcw hacc _ hdesc _ _
    simp only [mergeLoop]
    refine ⟨?_, ?_, ?_, by simp, ?_, ?_⟩
    · rw [List.pairwise_reverse]; exact hdesc
    · intro c hc
      rw [List.mem_reverse, List.mem_cons] at hc
      rcases hc with h | h
      · rw [h]; exact hcw
      · exact hacc c h
    · rw [aux_sumW_reverse, aux_sumW_cons]; simp [sumW]; ring
    · intro lo h1 h2 _ c hc
      rw [List.mem_reverse, List.mem_cons] at hc
      rcases hc with h | h
      · rw [h]; exact h2
      · exact h1 c h
    · intro hi h1 h2 _ c hc
      rw [List.mem_reverse, List.mem_cons] at hc
      rcases hc with h | h
      · rw [h]; exact h2
      · exact h1 c h
  | cons c rest ih =>
    intro acc cur soFar limit hcw hacc hrest hdesc hsorted hle
    have hc_w : 0 < c.weight := hrest c (by simp)
    have hrest' : ∀ x ∈ rest, 0 < x.weight := fun x hx => hrest x (List.mem_cons_of_mem _ hx)
    rw [List.pairwise_cons] at hsorted hdesc
    have hcur_c : cur.mean ≤ c.mean := hle c (by simp)
    simp only [mergeLoop]
    split
    · -- fold `c` into the current centroid
      have hm1 : cur.mean ≤ (centroidAdd cur c).mean := aux_cadd_lo cur c hcw hc_w _ (le_refl _) hcur_c
      have hm2 : (centroidAdd cur c).mean ≤ c.mean := aux_cadd_hi cur c hcw hc_w _ hcur_c (le_refl _)
      have hw' : 0 < (centroidAdd cur c).weight := by rw [aux_cadd_weight cur c hcw hc_w]; linarith
      have := ih acc (centroidAdd cur c) (QOps.add soFar c.weight) limit hw' hacc hrest'
        (by rw [List.pairwise_cons]; exact ⟨fun a ha => le_trans (hdesc.1 a ha) hm1, hdesc.2⟩)
        hsorted.2 (fun r hr => le_trans hm2 (hsorted.1 r hr))
      refine ⟨this.sorted, this.wpos, ?_, this.ne, ?_, ?_⟩
      · rw [this.sum, aux_cadd_weight cur c hcw hc_w, aux_sumW_cons]; ring
      · intro lo h1 h2 h3
        exact this.lo lo h1 (aux_cadd_lo cur c hcw hc_w lo h2 (h3 c (by simp))) (fun x hx => h3 x (List.mem_cons_of_mem _ hx))
      · intro hi h1 h2 h3
        exact this.hi hi h1 (aux_cadd_hi cur c hcw hc_w hi h2 (h3 c (by simp))) (fun x hx => h3 x (List.mem_cons_of_mem _ hx))
    · -- start a new centroid with `c`
      have := ih (cur :: acc) c (QOps.add soFar c.weight) (next soFar W) hc_w
        (by intro x hx; rw [List.mem_cons] at hx; rcases hx with h | h; (rw [h]; exact hcw); exact hacc x h)
        hrest'
        (by rw [List.pairwise_cons]
            refine ⟨?_, by rw [List.pairwise_cons]; exact hdesc⟩
            intro a ha
            rw [List.mem_cons] at ha
            rcases ha with h | h
            · rw [h]; exact hcur_c
            · exact le_trans (hdesc.1 a h) hcur_c)
        hsorted.2 hsorted.1
      refine ⟨this.sorted, this.wpos, ?_, this.ne, ?_, ?_⟩
      · rw [this.sum, aux_sumW_cons, aux_sumW_cons]; ring
      · intro lo h1 h2 h3
        refine this.lo lo ?_ (h3 c (by simp)) (fun x hx => h3 x (List.mem_cons_of_mem _ hx))
        intro x hx; rw [List.mem_cons] at hx
        rcases hx with h | h
        · rw [h]; exact h2
        · exact h1 x h
      · intro hi h1 h2 h3
        refine this.hi hi ?_ (h3 c (by simp)) (fun x hx => h3 x (List.mem_cons_of_mem _ hx))
        intro x hx; rw [List.mem_cons] at hx
        rcases hx with h | h
        · rw [h]; exact h2
        · exact h1 x h

/-- what is assumed of `sort.Sort(&t.unprocessed)`: it returns its input, permuted, sorted by mean -/
structure SortSpec (sortBy : List (Centroid K) → List (Centroid K)) : Prop where
  perm : ∀ l, (sortBy l).Perm l
  sorted : ∀ l, (sortBy l).Pairwise (fun a b => a.mean ≤ b.mean)

def LB (lo : K) (xs : List K) : Prop := ∀ x ∈ xs, lo ≤ x
def UB (hi : K) (xs : List K) : Prop := ∀ x ∈ xs, x ≤ hi

/-- The invariant of the digest after the samples `xs` were added (weight 1 each), for sentinels
`hiS = math.MaxFloat64`, `loS = -math.MaxFloat64`. -/
structure DigestInv (hiS loS : K) (xs : List K) (s : TD K) : Prop where
  sorted : s.processed.Pairwise (fun a b => a.mean ≤ b.mean)
  wposP : ∀ c ∈ s.processed, 0 < c.weight
  wposU : ∀ c ∈ s.unprocessed, 0 < c.weight
  pw : s.processedWeight = sumW s.processed
  uw : s.unprocessedWeight = sumW s.unprocessed
  count : sumW s.processed + sumW s.unprocessed = (xs.length : K)
  hullLo : ∀ lo, LB lo xs → ∀ c ∈ s.unprocessed ++ s.processed, lo ≤ c.mean
  hullHi : ∀ hi, UB hi xs → ∀ c ∈ s.unprocessed ++ s.processed, c.mean ≤ hi
  minLe : ∀ c ∈ s.processed, s.min ≤ c.mean
  maxGe : ∀ c ∈ s.processed, c.mean ≤ s.max
  minLo : ∀ lo, LB lo xs → lo ≤ hiS → lo ≤ s.min
  maxHi : ∀ hi, UB hi xs → loS ≤ hi → s.max ≤ hi

theorem aux_inv_init (maxP maxU : Nat) (hiS loS : K) : DigestInv hiS loS [] (TD.init maxP maxU hiS loS) where
  sorted := by simp [TD.init]
  wposP := by simp [TD.init]
  wposU := by simp [TD.init]
  pw := by simp [TD.init, sumW]
  uw := by simp [TD.init, sumW]
  count := by simp [TD.init, sumW]
  hullLo := by simp [TD.init]
  hullHi := by simp [TD.init]
  minLe := by simp [TD.init]
  maxGe := by simp [TD.init]
  minLo := by intro lo _ h; simpa [TD.init] using h
  maxHi := by intro hi _ h; simpa [TD.init] using h

theorem aux_head_le (l : List (Centroid K)) (hs : l.Pairwise (fun a b => a.mean ≤ b.mean)) (h : Centroid K)
    (hh : l.head? = some h) : ∀ c ∈ l, h.mean ≤ c.mean := by
  intro c hc
  obtain ⟨i, hi⟩ := List.mem_iff_getElem?.mp hc
  rw [List.head?_eq_getElem?] at hh
  exact aux_sorted_get l hs 0 i h c hh hi (by omega)

theorem aux_le_last (l : List (Centroid K)) (hs : l.Pairwise (fun a b => a.mean ≤ b.mean)) (z : Centroid K)
    (hz : l.getLast? = some z) : ∀ c ∈ l, c.mean ≤ z.mean := by
  intro c hc
  obtain ⟨i, hi⟩ := List.mem_iff_getElem?.mp hc
  rw [List.getLast?_eq_getElem?] at hz
  have hil : i < l.length := by
    rcases Nat.lt_or_ge i l.length with h | h
    · exact h
    · rw [List.getElem?_eq_none h] at hi; cases hi
  exact aux_sorted_get l hs i (l.length - 1) c z hi hz (by omega)

/-- **`process` preserves the invariant** — for every limit function and every sort that sorts — and
empties the unprocessed buffer; when there is nothing to do it leaves the state alone. -/
theorem process_preserves_invariant (lim : Lim K) (sortBy : List (Centroid K) → List (Centroid K)) (hsort : SortSpec sortBy)
    (hiS loS : K) (xs : List K) (s : TD K) (hinv : DigestInv hiS loS xs s) :
    ∃ s', process lim sortBy s = .ok s' ∧ DigestInv hiS loS xs s' ∧ s'.unprocessed = [] ∧
      s'.maxProcessed = s.maxProcessed ∧ s'.maxUnprocessed = s.maxUnprocessed ∧
      (needsProcess s = false → s' = s) := by
  unfold process
  by_cases hnp : needsProcess s = true
  · simp only [hnp, ↓reduceIte]
    have hperm := hsort.perm (s.unprocessed ++ s.processed)
    have hsd := hsort.sorted (s.unprocessed ++ s.processed)
    have hall_w : ∀ c ∈ sortBy (s.unprocessed ++ s.processed), 0 < c.weight := by
      intro c hc
      have := (hperm.mem_iff).mp hc
      rw [List.mem_append] at this
      rcases this with h | h
      · exact hinv.wposU c h
      · exact hinv.wposP c h
    cases hall : sortBy (s.unprocessed ++ s.processed) with
    | nil =>
      exfalso
      rw [hall] at hperm
      have hl := hperm.length_eq
      simp only [List.length_nil, List.length_append] at hl
      unfold needsProcess at hnp
      simp only [Bool.or_eq_true, decide_eq_true_eq] at hnp
      omega
    | cons c0 rest =>
      rw [hall] at hsd hall_w hperm
      rw [List.pairwise_cons] at hsd
      simp only
      have hm := aux_merge lim.next (QOps.add s.processedWeight s.unprocessedWeight) rest [] c0 c0.weight
        (lim.init (QOps.add s.processedWeight s.unprocessedWeight)) (hall_w c0 (by simp)) (by simp)
        (fun c hc => hall_w c (List.mem_cons_of_mem _ hc)) (by simp) hsd.2 hsd.1
      generalize mergeLoop lim.next (QOps.add s.processedWeight s.unprocessedWeight) [] c0 c0.weight
        (lim.init (QOps.add s.processedWeight s.unprocessedWeight)) rest = out at hm
      obtain ⟨h, hh⟩ : ∃ h, out.head? = some h := by
        cases out with
        | nil => exact absurd rfl hm.ne
        | cons a b => exact ⟨a, rfl⟩
      obtain ⟨z, hz⟩ : ∃ z, out.getLast? = some z := by
        cases hl : out.getLast? with
        | none => rw [List.getLast?_eq_none_iff] at hl; exact absurd hl hm.ne
        | some z => exact ⟨z, rfl⟩
      rw [hh, hz]
      simp only
      have hsum : sumW out = sumW s.unprocessed + sumW s.processed := by
        rw [hm.sum, ← aux_sumW_append, ← aux_sumW_perm hperm, aux_sumW_cons]; simp [sumW]
      have hmem_out_lo : ∀ lo, LB lo xs → ∀ c ∈ out, lo ≤ c.mean := by
        intro lo hlo
        have hin := hinv.hullLo lo hlo
        have hin' : ∀ c ∈ c0 :: rest, lo ≤ c.mean := fun c hc => hin c ((hperm.mem_iff).mp hc)
        exact hm.lo lo (by simp) (hin' c0 (by simp)) (fun c hc => hin' c (List.mem_cons_of_mem _ hc))
      have hmem_out_hi : ∀ hi, UB hi xs → ∀ c ∈ out, c.mean ≤ hi := by
        intro hi hhi
        have hin := hinv.hullHi hi hhi
        have hin' : ∀ c ∈ c0 :: rest, c.mean ≤ hi := fun c hc => hin c ((hperm.mem_iff).mp hc)
        exact hm.hi hi (by simp) (hin' c0 (by simp)) (fun c hc => hin' c (List.mem_cons_of_mem _ hc))
      have hh_mem : h ∈ out := List.mem_of_head? hh
      have hz_mem : z ∈ out := List.mem_of_getLast? hz
      refine ⟨_, rfl, ?_, rfl, rfl, rfl, ?_⟩
      · refine ⟨hm.sorted, hm.wpos, by simp, ?_, by simp [sumW], ?_, ?_, ?_, ?_, ?_, ?_, ?_⟩
        · simp only [aux_ops_add]; rw [hsum, hinv.pw, hinv.uw]; ring
        · simp only; rw [hsum]; simp only [sumW, List.map_nil, List.sum_nil, add_zero]
          have := hinv.count; simp only [sumW] at this; linarith
        · intro lo hlo c hc; simp only [List.nil_append] at hc; exact hmem_out_lo lo hlo c hc
        · intro hi hhi c hc; simp only [List.nil_append] at hc; exact hmem_out_hi hi hhi c hc
        · intro c hc
          simp only [aux_ops_fmin]
          exact le_trans (min_le_right _ _) (aux_head_le out hm.sorted h hh c hc)
        · intro c hc
          simp only [aux_ops_fmax]
          exact le_trans (aux_le_last out hm.sorted z hz c hc) (le_max_right _ _)
        · intro lo hlo hle
          simp only [aux_ops_fmin]
          exact le_min (hinv.minLo lo hlo hle) (hmem_out_lo lo hlo h hh_mem)
        · intro hi hhi hle
          simp only [aux_ops_fmax]
          exact max_le (hinv.maxHi hi hhi hle) (hmem_out_hi hi hhi z hz_mem)
      · intro hf; cases hf
  · simp only [Bool.not_eq_true] at hnp
    simp only [hnp, Bool.false_eq_true, ↓reduceIte]
    refine ⟨s, rfl, hinv, ?_, rfl, rfl, fun _ => rfl⟩
    unfold needsProcess at hnp
    simp only [Bool.or_eq_false_iff, decide_eq_false_iff_not] at hnp
    exact List.eq_nil_of_length_eq_zero (by omega)

theorem aux_LB_append {lo : K} {xs : List K} {x : K} (h : LB lo (xs ++ [x])) : LB lo xs ∧ lo ≤ x :=
  ⟨fun y hy => h y (List.mem_append_left _ hy), h x (by simp)⟩
theorem aux_UB_append {hi : K} {xs : List K} {x : K} (h : UB hi (xs ++ [x])) : UB hi xs ∧ x ≤ hi :=
  ⟨fun y hy => h y (List.mem_append_left _ hy), h x (by simp)⟩

/-- **`Add(x, 1)` preserves the invariant** (and appends `x` to the samples seen). -/
theorem add_preserves_invariant (lim : Lim K) (sortBy : List (Centroid K) → List (Centroid K)) (hsort : SortSpec sortBy)
    (hiS loS : K) (xs : List K) (s : TD K) (hinv : DigestInv hiS loS xs s) (x : K) :
    ∃ s', add lim sortBy s x (QOps.ofNat 1) = .ok s' ∧ DigestInv hiS loS (xs ++ [x]) s' ∧
      s'.maxProcessed = s.maxProcessed ∧ s'.maxUnprocessed = s.maxUnprocessed := by
  have hinv1 : DigestInv hiS loS (xs ++ [x])
      { s with unprocessed := s.unprocessed ++ [⟨x, QOps.ofNat 1⟩], unprocessedWeight := QOps.add s.unprocessedWeight (QOps.ofNat 1) } := by
    refine ⟨hinv.sorted, hinv.wposP, ?_, hinv.pw, ?_, ?_, ?_, ?_, hinv.minLe, hinv.maxGe, ?_, ?_⟩
    · intro c hc
      simp only [List.mem_append, List.mem_singleton] at hc
      rcases hc with h | h
      · exact hinv.wposU c h
      · rw [h]; simp
    · simp only [aux_ops_add, aux_ops_ofNat, aux_sumW_append, hinv.uw]; simp [sumW]
    · simp only [aux_sumW_append]
      have := hinv.count
      simp only [sumW, List.map_cons, List.map_nil, List.sum_cons, List.sum_nil, aux_ops_ofNat, List.length_append,
        List.length_singleton] at this ⊢
      push_cast; linarith
    · intro lo hlo c hc
      obtain ⟨h1, h2⟩ := aux_LB_append hlo
      simp only [List.mem_append, List.mem_singleton] at hc
      rcases hc with (h | h) | h
      · exact hinv.hullLo lo h1 c (List.mem_append_left _ h)
      · rw [h]; exact h2
      · exact hinv.hullLo lo h1 c (List.mem_append_right _ h)
    · intro hi hhi c hc
      obtain ⟨h1, h2⟩ := aux_UB_append hhi
      simp only [List.mem_append, List.mem_singleton] at hc
      rcases hc with (h | h) | h
      · exact hinv.hullHi hi h1 c (List.mem_append_left _ h)
      · rw [h]; exact h2
      · exact hinv.hullHi hi h1 c (List.mem_append_right _ h)
    · intro lo hlo hle; exact hinv.minLo lo (aux_LB_append hlo).1 hle
    · intro hi hhi hle; exact hinv.maxHi hi (aux_UB_append hhi).1 hle
  unfold add
  have hnan : (!QOps.le x x) = false := by simp
  simp only [hnan, Bool.false_eq_true, ↓reduceIte]
  split
  · obtain ⟨s', h1, h2, _, h4, h5, _⟩ := process_preserves_invariant lim sortBy hsort hiS loS _ _ hinv1
    exact ⟨s', h1, h2, h4, h5⟩
  · exact ⟨_, rfl, hinv1, rfl, rfl⟩

theorem aux_addAll (lim : Lim K) (sortBy : List (Centroid K) → List (Centroid K)) (hsort : SortSpec sortBy)
    (hiS loS : K) (ys : List K) : ∀ (xs : List K) (s : TD K), DigestInv hiS loS xs s →
    ∃ s', addAll lim sortBy s ys = .ok s' ∧ DigestInv hiS loS (xs ++ ys) s' ∧
      s'.maxProcessed = s.maxProcessed ∧ s'.maxUnprocessed = s.maxUnprocessed := by
  induction ys with
  | nil => intro xs s h; exact ⟨s, rfl, by simpa using h, rfl, rfl⟩
  | cons y ys ih =>
    intro xs s h
    obtain ⟨s1, e1, i1, a1, b1⟩ := add_preserves_invariant lim sortBy hsort hiS loS xs s h y
    obtain ⟨s2, e2, i2, a2, b2⟩ := ih (xs ++ [y]) s1 i1
    refine ⟨s2, ?_, by simpa using i2, by rw [a2, a1], by rw [b2, b1]⟩
    simp only [addAll, e1, e2]

/-- the invariant with an empty unprocessed buffer gives `Valid` (the hypothesis of the `Quantile`
theorems) as soon as one sample was added -/
theorem aux_inv_valid (hiS loS : K) (xs : List K) (s : TD K) (hinv : DigestInv hiS loS xs s)
    (hu : s.unprocessed = []) (hne : xs ≠ []) : Valid s.digest where
  nonempty := by
    intro hp
    have hc := hinv.count
    simp only [TD.digest] at hp
    rw [hp, hu] at hc
    simp only [sumW, List.map_nil, List.sum_nil, add_zero] at hc
    have : (0:K) < (xs.length : K) := by
      have : 0 < xs.length := List.length_pos_iff.mpr hne
      exact_mod_cast this
    linarith
  sorted := hinv.sorted
  wpos := hinv.wposP
  total := by simp only [TD.digest]; exact hinv.pw
  lo := hinv.minLe
  hi := hinv.maxGe

/-- one `Quantile` call on the live digest: the leading `process()` keeps the invariant, the value
lies within every interval that contains the samples -/
theorem aux_quantileTD (lim : Lim K) (sortBy : List (Centroid K) → List (Centroid K)) (hsort : SortSpec sortBy)
    (hiS loS : K) (xs : List K) (hne : xs ≠ []) (hsent : ∀ x ∈ xs, loS ≤ x ∧ x ≤ hiS)
    (s : TD K) (hinv : DigestInv hiS loS xs s) (q : K) (h0 : 0 ≤ q) (h1 : q ≤ 1) :
    ∃ s' r, quantileTD lim sortBy s q = .ok (s', r) ∧ process lim sortBy s = .ok s' ∧ quantile s'.digest q = .ok r ∧
      DigestInv hiS loS xs s' ∧ s'.unprocessed = [] ∧ Valid s'.digest ∧
      (∀ a, LB a xs → a ≤ r) ∧ (∀ b, UB b xs → r ≤ b) := by
  obtain ⟨s', hp, hinv', hu, _, _, _⟩ := process_preserves_invariant lim sortBy hsort hiS loS xs s hinv
  have hv := aux_inv_valid hiS loS xs s' hinv' hu hne
  obtain ⟨r, hr, hlo, hhi⟩ := quantile_in_min_max s'.digest hv q h0 h1
  obtain ⟨x0, hx0⟩ := List.exists_mem_of_ne_nil xs hne
  refine ⟨s', r, ?_, hp, hr, hinv', hu, hv, ?_, ?_⟩
  · unfold quantileTD; rw [hp]; simp only [hr]
  · intro a ha
    exact le_trans (hinv'.minLo a ha (le_trans (ha x0 hx0) (hsent x0 hx0).2)) hlo
  · intro b hb
    exact le_trans hhi (hinv'.maxHi b hb (le_trans (hsent x0 hx0).1 (hb x0 hx0)))

/-- **`Valid` is a theorem** (`process_preserves_valid`): for EVERY limit function and every sort that
sorts, after adding any non-empty sample sequence (weight 1 each, as vegeta does) through any
interleaving of buffer fills and `process` calls that `Add` performs, and the `process()` that
`Quantile` starts with: the processed list has sorted means, positive weights, total weight = number of
samples = `processedWeight`, the unprocessed buffer is empty, every centroid mean and the `min`/`max`
fields lie within every interval that contains the samples, and `min ≤ every mean ≤ max`. -/
theorem process_preserves_valid (lim : Lim K) (sortBy : List (Centroid K) → List (Centroid K)) (hsort : SortSpec sortBy)
    (maxP maxU : Nat) (hiS loS : K) (xs : List K) (hne : xs ≠ []) (hsent : ∀ x ∈ xs, loS ≤ x ∧ x ≤ hiS) :
    ∃ s s', addAll lim sortBy (TD.init maxP maxU hiS loS) xs = .ok s ∧ process lim sortBy s = .ok s' ∧
      Valid s'.digest ∧ s'.unprocessed = [] ∧
      s'.processedWeight = (xs.length : K) ∧ sumW s'.processed = (xs.length : K) ∧
      (∀ a, LB a xs → (∀ c ∈ s'.processed, a ≤ c.mean) ∧ a ≤ s'.min) ∧
      (∀ b, UB b xs → (∀ c ∈ s'.processed, c.mean ≤ b) ∧ s'.max ≤ b) := by
  obtain ⟨s, hs, hinv, _, _⟩ := aux_addAll lim sortBy hsort hiS loS xs [] _ (aux_inv_init maxP maxU hiS loS)
  simp only [List.nil_append] at hinv
  obtain ⟨s', hp, hinv', hu, _, _, _⟩ := process_preserves_invariant lim sortBy hsort hiS loS xs s hinv
  have hv := aux_inv_valid hiS loS xs s' hinv' hu hne
  obtain ⟨x0, hx0⟩ := List.exists_mem_of_ne_nil xs hne
  have hc := hinv'.count
  rw [hu] at hc
  simp only [sumW, List.map_nil, List.sum_nil, add_zero] at hc
  refine ⟨s, s', hs, hp, hv, hu, ?_, hc, ?_, ?_⟩
  · rw [hinv'.pw]; exact hc
  · intro a ha
    exact ⟨fun c hc => hinv'.hullLo a ha c (List.mem_append_right _ hc),
      hinv'.minLo a ha (le_trans (ha x0 hx0) (hsent x0 hx0).2)⟩
  · intro b hb
    exact ⟨fun c hc => hinv'.hullHi b hb c (List.mem_append_right _ hc),
      hinv'.maxHi b hb (le_trans (hsent x0 hx0).1 (hb x0 hx0))⟩

/-- **End to end: `min sample ≤ Quantile(q) ≤ max sample`** for the estimate computed from the samples
themselves (`Add` each, then `Quantile`), for every limit function, every sorting sort and every
q ∈ [0,1] — and nothing panics. -/
theorem e2e_quantile_in_sample_range (lim : Lim K) (sortBy : List (Centroid K) → List (Centroid K)) (hsort : SortSpec sortBy)
    (maxP maxU : Nat) (hiS loS : K) (xs : List K) (hne : xs ≠ []) (hsent : ∀ x ∈ xs, loS ≤ x ∧ x ≤ hiS)
    (a b : K) (ha : LB a xs) (hb : UB b xs) (q : K) (h0 : 0 ≤ q) (h1 : q ≤ 1) :
    ∃ s s' r, addAll lim sortBy (TD.init maxP maxU hiS loS) xs = .ok s ∧
      quantileTD lim sortBy s q = .ok (s', r) ∧ a ≤ r ∧ r ≤ b := by
  obtain ⟨s, hs, hinv, _, _⟩ := aux_addAll lim sortBy hsort hiS loS xs [] _ (aux_inv_init maxP maxU hiS loS)
  simp only [List.nil_append] at hinv
  obtain ⟨s', r, hq, _, _, _, _, _, hlo, hhi⟩ := aux_quantileTD lim sortBy hsort hiS loS xs hne hsent s hinv q h0 h1
  exact ⟨s, s', r, hs, hq, hlo a ha, hhi b hb⟩

theorem aux_latQuantileTD (trunc : K → Int) (htr : ∀ a b : K, a ≤ b → trunc a ≤ trunc b) (htri : ∀ i : Int, trunc (i : K) = i)
    (lim : Lim K) (sortBy : List (Centroid K) → List (Centroid K)) (hsort : SortSpec sortBy)
    (hiS loS : K) (xs : List K) (hne : xs ≠ []) (hsent : ∀ x ∈ xs, loS ≤ x ∧ x ≤ hiS)
    (lo hi : Int) (hlo : LB (lo : K) xs) (hhi : UB (hi : K) xs)
    (s : TD K) (hinv : DigestInv hiS loS xs s) (q : K) (h0 : 0 ≤ q) (h1 : q ≤ 1) :
    ∃ s' r, latQuantileTD trunc lim sortBy s q = .ok (s', trunc r) ∧ process lim sortBy s = .ok s' ∧
      quantile s'.digest q = .ok r ∧ DigestInv hiS loS xs s' ∧ s'.unprocessed = [] ∧ Valid s'.digest ∧
      lo ≤ trunc r ∧ trunc r ≤ hi := by
  obtain ⟨s', r, hq, hp, hr, hinv', hu, hv, ha, hb⟩ := aux_quantileTD lim sortBy hsort hiS loS xs hne hsent s hinv q h0 h1
  refine ⟨s', r, ?_, hp, hr, hinv', hu, hv, ?_, ?_⟩
  · unfold latQuantileTD; rw [hq]
  · rw [← htri lo]; exact htr _ _ (ha _ hlo)
  · rw [← htri hi]; exact htr _ _ (hb _ hhi)

/-- **End to end, unconditional: each of P50, P90, P95, P99 lies between the smallest and the largest
latency**, for every limit function and every sorting sort: `Metrics.Add` for every latency, then the
four `Quantile` calls of `Metrics.Close`, each with its own leading `process()`. -/
theorem e2e_percentiles_in_range (trunc : K → Int) (htr : ∀ a b : K, a ≤ b → trunc a ≤ trunc b) (htri : ∀ i : Int, trunc (i : K) = i)
    (lim : Lim K) (sortBy : List (Centroid K) → List (Centroid K)) (hsort : SortSpec sortBy)
    (maxP maxU : Nat) (hiS loS : K) (lats : List Int) (hne : lats ≠ [])
    (hsent : ∀ l ∈ lats, loS ≤ (l : K) ∧ (l : K) ≤ hiS)
    (lo hi : Int) (hlo : ∀ l ∈ lats, lo ≤ l) (hhi : ∀ l ∈ lats, l ≤ hi) :
    ∃ s p, runClose trunc lim sortBy (TD.init maxP maxU hiS loS) lats = .ok (s, p) ∧
      lo ≤ p.p50 ∧ p.p50 ≤ hi ∧ lo ≤ p.p90 ∧ p.p90 ≤ hi ∧ lo ≤ p.p95 ∧ p.p95 ≤ hi ∧ lo ≤ p.p99 ∧ p.p99 ≤ hi := by
  have hmap : lats.map (QOps.ofInt : Int → K) = lats.map (fun i : Int => (i : K)) := rfl
  set xs : List K := lats.map (fun i : Int => (i : K)) with hxs
  have hne' : xs ≠ [] := by simpa [hxs] using hne
  have hsent' : ∀ x ∈ xs, loS ≤ x ∧ x ≤ hiS := by
    intro x hx; simp only [hxs, List.mem_map] at hx; obtain ⟨l, hl, rfl⟩ := hx; exact hsent l hl
  have hLB : LB (lo : K) xs := by
    intro x hx; simp only [hxs, List.mem_map] at hx; obtain ⟨l, hl, rfl⟩ := hx; exact_mod_cast hlo l hl
  have hUB : UB (hi : K) xs := by
    intro x hx; simp only [hxs, List.mem_map] at hx; obtain ⟨l, hl, rfl⟩ := hx; exact_mod_cast hhi l hl
  obtain ⟨s, hs, hinv, _, _⟩ := aux_addAll lim sortBy hsort hiS loS xs [] _ (aux_inv_init maxP maxU hiS loS)
  simp only [List.nil_append] at hinv
  have r50 := aux_lit_range (K := K) 50 100 (by omega) (by omega)
  have r90 := aux_lit_range (K := K) 90 100 (by omega) (by omega)
  have r95 := aux_lit_range (K := K) 95 100 (by omega) (by omega)
  have r99 := aux_lit_range (K := K) 99 100 (by omega) (by omega)
  obtain ⟨s1, a, e1, _, _, i1, _, _, la, ua⟩ := aux_latQuantileTD trunc htr htri lim sortBy hsort hiS loS xs hne' hsent' lo hi hLB hUB s hinv _ r50.1 r50.2
  obtain ⟨s2, b, e2, _, _, i2, _, _, lb, ub⟩ := aux_latQuantileTD trunc htr htri lim sortBy hsort hiS loS xs hne' hsent' lo hi hLB hUB s1 i1 _ r90.1 r90.2
  obtain ⟨s3, c, e3, _, _, i3, _, _, lc, uc⟩ := aux_latQuantileTD trunc htr htri lim sortBy hsort hiS loS xs hne' hsent' lo hi hLB hUB s2 i2 _ r95.1 r95.2
  obtain ⟨s4, e, e4, _, _, i4, _, _, le', ue⟩ := aux_latQuantileTD trunc htr htri lim sortBy hsort hiS loS xs hne' hsent' lo hi hLB hUB s3 i3 _ r99.1 r99.2
  refine ⟨s4, ⟨trunc a, trunc b, trunc c, trunc e⟩, ?_, la, ua, lb, ub, lc, uc, le', ue⟩
  unfold runClose
  rw [hmap, hs]
  simp only [closeTD, e1, e2, e3, e4]

/-- **End to end: when all latencies are equal every reported percentile equals that value** — for
every limit function and every sorting sort, with no side condition. -/
theorem e2e_all_equal (trunc : K → Int) (htr : ∀ a b : K, a ≤ b → trunc a ≤ trunc b) (htri : ∀ i : Int, trunc (i : K) = i)
    (lim : Lim K) (sortBy : List (Centroid K) → List (Centroid K)) (hsort : SortSpec sortBy)
    (maxP maxU : Nat) (hiS loS : K) (lats : List Int) (hne : lats ≠ []) (v : Int) (hall : ∀ l ∈ lats, l = v)
    (hsent : loS ≤ (v : K) ∧ (v : K) ≤ hiS) :
    ∃ s, runClose trunc lim sortBy (TD.init maxP maxU hiS loS) lats = .ok (s, ⟨v, v, v, v⟩) := by
  obtain ⟨s, p, h, a1, a2, b1, b2, c1, c2, d1, d2⟩ := e2e_percentiles_in_range trunc htr htri lim sortBy hsort maxP maxU hiS loS lats hne
    (fun l hl => by rw [hall l hl]; exact hsent) v v (fun l hl => by rw [hall l hl]) (fun l hl => by rw [hall l hl])
  refine ⟨s, ?_⟩
  rw [h]
  obtain ⟨p50, p90, p95, p99⟩ := p
  simp only at a1 a2 b1 b2 c1 c2 d1 d2
  have : p50 = v := by omega
  have : p90 = v := by omega
  have : p95 = v := by omega
  have : p99 = v := by omega
  subst_vars; rfl

theorem aux_process_idle (lim : Lim K) (sortBy : List (Centroid K) → List (Centroid K)) (s : TD K)
    (hu : s.unprocessed = []) (hl : s.processed.length ≤ s.maxProcessed) : process lim sortBy s = .ok s := by
  unfold process needsProcess
  have h1 : ¬ (s.unprocessed.length > 0) := by rw [hu]; simp
  have h2 : ¬ (s.processed.length > s.maxProcessed) := by omega
  simp [h1, h2]

/-- **End to end: `min ≤ P50 ≤ P90 ≤ P95 ≤ P99 ≤ max`** over the latencies themselves, for every limit
function and every sorting sort, PROVIDED the first `process()` of `Close` leaves at most
`maxProcessed` centroids (`hstable`).  Each of the four `Quantile` calls starts with `process()`, and
`process` re-merges a list longer than `maxProcessed` even when nothing was added; only under `hstable`
do the four percentiles come from one and the same centroid list, so that monotonicity in q applies.
(The scale function bounds the count in the real library; the harness checks `len ≤ maxProcessed` on
every state.  Without it `e2e_percentiles_in_range` still holds.) -/
theorem e2e_percentiles_ordered (trunc : K → Int) (htr : ∀ a b : K, a ≤ b → trunc a ≤ trunc b) (htri : ∀ i : Int, trunc (i : K) = i)
    (lim : Lim K) (sortBy : List (Centroid K) → List (Centroid K)) (hsort : SortSpec sortBy)
    (maxP maxU : Nat) (hiS loS : K) (lats : List Int) (hne : lats ≠ [])
    (hsent : ∀ l ∈ lats, loS ≤ (l : K) ∧ (l : K) ≤ hiS)
    (lo hi : Int) (hlo : ∀ l ∈ lats, lo ≤ l) (hhi : ∀ l ∈ lats, l ≤ hi)
    (hstable : ∀ s s1, addAll lim sortBy (TD.init maxP maxU hiS loS) (lats.map QOps.ofInt) = .ok s →
      process lim sortBy s = .ok s1 → s1.processed.length ≤ s1.maxProcessed) :
    ∃ s p, runClose trunc lim sortBy (TD.init maxP maxU hiS loS) lats = .ok (s, p) ∧
      lo ≤ p.p50 ∧ p.p50 ≤ p.p90 ∧ p.p90 ≤ p.p95 ∧ p.p95 ≤ p.p99 ∧ p.p99 ≤ hi := by
  have hmap : lats.map (QOps.ofInt : Int → K) = lats.map (fun i : Int => (i : K)) := rfl
  set xs : List K := lats.map (fun i : Int => (i : K)) with hxs
  have hne' : xs ≠ [] := by simpa [hxs] using hne
  have hsent' : ∀ x ∈ xs, loS ≤ x ∧ x ≤ hiS := by
    intro x hx; simp only [hxs, List.mem_map] at hx; obtain ⟨l, hl, rfl⟩ := hx; exact hsent l hl
  have hLB : LB (lo : K) xs := by
    intro x hx; simp only [hxs, List.mem_map] at hx; obtain ⟨l, hl, rfl⟩ := hx; exact_mod_cast hlo l hl
  have hUB : UB (hi : K) xs := by
    intro x hx; simp only [hxs, List.mem_map] at hx; obtain ⟨l, hl, rfl⟩ := hx; exact_mod_cast hhi l hl
  obtain ⟨s, hs, hinv, _, _⟩ := aux_addAll lim sortBy hsort hiS loS xs [] _ (aux_inv_init maxP maxU hiS loS)
  simp only [List.nil_append] at hinv
  have r50 := aux_lit_range (K := K) 50 100 (by omega) (by omega)
  have r90 := aux_lit_range (K := K) 90 100 (by omega) (by omega)
  have r95 := aux_lit_range (K := K) 95 100 (by omega) (by omega)
  have r99 := aux_lit_range (K := K) 99 100 (by omega) (by omega)
  have l1 := aux_lit_le (K := K) 50 100 90 100 (by omega) (by omega) (by omega)
  have l2 := aux_lit_le (K := K) 90 100 95 100 (by omega) (by omega) (by omega)
  have l3 := aux_lit_le (K := K) 95 100 99 100 (by omega) (by omega) (by omega)
  obtain ⟨s1, a, e1, p1, q1, i1, u1, v1, la, _⟩ := aux_latQuantileTD trunc htr htri lim sortBy hsort hiS loS xs hne' hsent' lo hi hLB hUB s hinv _ r50.1 r50.2
  have hidle := aux_process_idle lim sortBy s1 u1 (hstable s s1 (by rw [hmap]; exact hs) p1)
  -- the three later calls find nothing to do: same state
  have step : ∀ q : K, 0 ≤ q → q ≤ 1 → ∃ r, latQuantileTD trunc lim sortBy s1 q = .ok (s1, trunc r) ∧ quantile s1.digest q = .ok r := by
    intro q h0 h1
    obtain ⟨r, hr, _, _⟩ := quantile_in_min_max s1.digest v1 q h0 h1
    refine ⟨r, ?_, hr⟩
    unfold latQuantileTD quantileTD
    rw [hidle]; simp only [hr]
  obtain ⟨b, e2, q2⟩ := step _ r90.1 r90.2
  obtain ⟨c, e3, q3⟩ := step _ r95.1 r95.2
  obtain ⟨e, e4, q4⟩ := step _ r99.1 r99.2
  have mono : ∀ (qa qb x y : K), 0 ≤ qa → qa ≤ qb → qb ≤ 1 → quantile s1.digest qa = .ok x → quantile s1.digest qb = .ok y → x ≤ y := by
    intro qa qb x y h0 h12 h1 hx hy
    obtain ⟨x', y', hx', hy', hxy⟩ := quantile_monotone_in_q s1.digest v1 qa qb h0 h12 h1
    rw [hx] at hx'; cases hx'
    rw [hy] at hy'; cases hy'
    exact hxy
  obtain ⟨e', he', _, hemax⟩ := quantile_in_min_max s1.digest v1 _ r99.1 r99.2
  rw [q4] at he'; cases he'
  obtain ⟨x0, hx0⟩ := List.exists_mem_of_ne_nil xs hne'
  have hmaxhi : s1.max ≤ (hi : K) := i1.maxHi _ hUB (le_trans (hsent' x0 hx0).1 (hUB x0 hx0))
  refine ⟨s1, ⟨trunc a, trunc b, trunc c, trunc e⟩, ?_, la,
    htr _ _ (mono _ _ a b r50.1 l1 r90.2 q1 q2), htr _ _ (mono _ _ b c r90.1 l2 r95.2 q2 q3),
    htr _ _ (mono _ _ c e r95.1 l3 r99.2 q3 q4), ?_⟩
  · unfold runClose
    rw [hmap, hs]
    simp only [closeTD, e1, e2, e3, e4]
  · rw [← htri hi]; exact htr _ _ (le_trans hemax hmaxhi)

/-- `SortSpec` is satisfiable: merge sort by mean (any sort that sorts will do; Go's is pdqsort) -/
theorem sortSpec_mergeSort : SortSpec (fun l : List (Centroid K) => l.mergeSort (fun a b => decide (a.mean ≤ b.mean))) where
  perm l := List.mergeSort_perm l _
  sorted l := by
    have := List.pairwise_mergeSort (le := fun (a b : Centroid K) => decide (a.mean ≤ b.mean))
      (fun a b c hab hbc => by simp only [decide_eq_true_eq] at *; exact le_trans hab hbc)
      (fun a b => by simp only [Bool.or_eq_true, decide_eq_true_eq]; exact le_total _ _) l
    exact this.imp (by intro a b h; simpa using h)

/-- the compression pass runs (SoftF64): samples 3, 1, 2, 5 into a digest whose unprocessed buffer
holds 3; the fourth `Add` runs `process` (permutation of the sort: 1 2 0 3; limits 2, then 100):
centroids (1.5, w 2) and (4, w 2) — and `min` = 1.5, `max` = 4 are centroid MEANS, strictly inside the
sample range [1, 5] -/
example :
    (match addAll (F := F64) ⟨fun _ => F64.ofNat 2, fun _ _ => F64.ofNat 100⟩ (applyPerm [1, 2, 0, 3])
        (TD.init 2 3 (F64.ofNat 1000) (F64.ofInt (-1000))) [F64.ofNat 3, F64.ofNat 1, F64.ofNat 2, F64.ofNat 5] with
      | .ok s => (s.processed.map (fun c => (c.mean.bits, c.weight.bits)), s.unprocessed.length, s.min.bits, s.max.bits)
      | _ => ([], 0, 0, 0))
    = ([((lit 3 2 : F64).bits, (F64.ofNat 2).bits), ((F64.ofNat 4).bits, (F64.ofNat 2).bits)], 0,
       (lit 3 2 : F64).bits, (F64.ofNat 4).bits) := by decide +kernel

/-- the hypotheses of the end-to-end theorems are satisfiable over ℚ: a sorting sort exists
(`sortSpec_mergeSort`), any limit function will do, e.g. the constant 2 -/
example : ∃ (lim : Lim ℚ) (sortBy : List (Centroid ℚ) → List (Centroid ℚ)), SortSpec sortBy ∧ lim.init 7 = 2 :=
  ⟨⟨fun _ => 2, fun _ _ => 2⟩, _, sortSpec_mergeSort, rfl⟩


/-! ## Call sequences (Model/LatencySeq.lean): Add / Close / Quantile / HDR report in any order -/

/-- the samples as the estimator sees them: nanoseconds, converted with `float64(latency)` -/
def asSamples (xs : List Int) : List K := xs.map (fun i : Int => (i : K))

/-- what is assumed of the environment: the sort sorts, the conversion `time.Duration(float64)` is
monotone and exact on integers, the ladder is a sorted table of fractions in [0,1] -/
structure EnvOK (e : Env K) : Prop where
  sort : SortSpec e.sortBy
  truncMono : ∀ a b : K, a ≤ b → e.trunc a ≤ e.trunc b
  truncInt : ∀ i : Int, e.trunc (i : K) = i
  ladder : ladderOK e.ladder = true

/-- what is assumed of a call sequence: latencies are non-negative and within the digest's sentinels
(±MaxFloat64), quantile arguments lie in [0,1] -/
def OpOK (e : Env K) : Op K → Prop
  | .add l _ => 0 ≤ l ∧ e.cfg.lo ≤ (l : K) ∧ (l : K) ≤ e.cfg.hi
  | .quantile q => 0 ≤ q ∧ q ≤ 1
  | _ => True

def OpsOK (e : Env K) (ops : List (Op K)) : Prop := ∀ op ∈ ops, OpOK e op

/-- **The invariant of the Metrics state after the latencies `xs` were added** (in this order), whatever
Close / Quantile / HDR-report calls were interleaved. -/
structure Good (e : Env K) (xs : List Int) (m : MS K) : Prop where
  req : m.requests = xs.length
  estNone : m.est = none ↔ xs = []
  inv : ∀ t, m.est = some t → DigestInv e.cfg.hi e.cfg.lo (asSamples xs) t ∧
          t.maxProcessed = e.cfg.maxP ∧ t.maxUnprocessed = e.cfg.maxU
  minmax : xs ≠ [] → (∀ x ∈ xs, m.min ≤ x ∧ x ≤ m.max) ∧ m.min ∈ xs ∧ m.max ∈ xs
  maxInit : xs = [] → m.max = 0       -- `Max` starts at zero (and `Min` is set by the first Add)
  nonneg : ∀ x ∈ xs, 0 ≤ x
  sent : ∀ x ∈ xs, e.cfg.lo ≤ (x : K) ∧ (x : K) ≤ e.cfg.hi

theorem aux_good_init (e : Env K) : Good e [] (MS.init : MS K) where
  req := rfl
  estNone := by simp [MS.init]
  inv := by intro t h; simp [MS.init] at h
  minmax := by intro h; exact absurd rfl h
  maxInit := by intro _; rfl
  nonneg := by simp
  sent := by simp

theorem aux_asSamples_append (xs : List Int) (l : Int) : (asSamples (xs ++ [l]) : List K) = asSamples xs ++ [(l : K)] := by
  simp [asSamples]

/-- `Metrics.Add` keeps the invariant, appending the latency to the samples seen -/
theorem aux_good_add (e : Env K) (he : EnvOK e) (xs : List Int) (m : MS K) (hg : Good e xs m) (l ts : Int)
    (hl : 0 ≤ l) (hs : e.cfg.lo ≤ (l : K) ∧ (l : K) ≤ e.cfg.hi) :
    ∃ m', msAdd e m l ts = .ok m' ∧ Good e (xs ++ [l]) m' ∧ m'.p50 = m.p50 ∧ m'.p90 = m.p90 ∧ m'.p95 = m.p95 ∧ m'.p99 = m.p99 := by
  -- the estimator before the call (a fresh one when nil) satisfies the digest invariant for `xs`
  obtain ⟨est0, hest0, hinv0, hP0, hU0⟩ : ∃ est0 : TD K,
      estOrNew e m.est = est0 ∧
      DigestInv e.cfg.hi e.cfg.lo (asSamples xs) est0 ∧ est0.maxProcessed = e.cfg.maxP ∧ est0.maxUnprocessed = e.cfg.maxU := by
    cases hm : m.est with
    | none =>
      have : xs = [] := hg.estNone.mp hm
      subst this
      exact ⟨_, rfl, by simpa [asSamples, estOrNew] using aux_inv_init e.cfg.maxP e.cfg.maxU e.cfg.hi e.cfg.lo, rfl, rfl⟩
    | some t =>
      obtain ⟨h1, h2, h3⟩ := hg.inv t hm
      exact ⟨t, rfl, h1, h2, h3⟩
  obtain ⟨t', hadd, hinv', hP', hU'⟩ := add_preserves_invariant e.lim e.sortBy he.sort e.cfg.hi e.cfg.lo (asSamples xs) est0 hinv0 (l : K)
  unfold msAdd latAdd
  simp only [hest0, aux_ops_ofInt, hadd]
  refine ⟨_, rfl, ?_, rfl, rfl, rfl, rfl⟩
  refine ⟨by simp [hg.req], by simp, ?_, ?_, by simp, ?_, ?_⟩
  · intro t ht
    simp only [Option.some.injEq] at ht
    subst ht
    rw [aux_asSamples_append]
    exact ⟨hinv', by rw [hP', hP0], by rw [hU', hU0]⟩
  · intro _
    by_cases hx : xs = []
    · subst hx
      have hnone : m.est = none := hg.estNone.mpr rfl
      have hmax0 : m.max = 0 := hg.maxInit rfl
      simp only [hnone, Option.isNone_none, Bool.true_or, ↓reduceIte, List.nil_append, List.mem_singleton, forall_eq, hmax0]
      -- Max starts at zero: `latency > l.Max` (the latency is non-negative)
      by_cases h0 : l > 0
      · simp [h0]
      · have : l = 0 := by omega
        subst this; simp
    · have hsome : m.est.isNone = false := by
        cases hm : m.est with
        | none => exact absurd (hg.estNone.mp hm) hx
        | some t => rfl
      obtain ⟨hall, hmin, hmax⟩ := hg.minmax hx
      simp only [hsome, Bool.false_or, decide_eq_true_eq]
      refine ⟨?_, ?_, ?_⟩
      · intro x hxm
        simp only [List.mem_append, List.mem_singleton] at hxm
        rcases hxm with h | h
        · have := hall x h
          constructor <;> split <;> omega
        · subst h
          constructor <;> split <;> omega
      · split
        · simp
        · simp [hmin]
      · split
        · simp
        · simp [hmax]
  · intro x hx; simp only [List.mem_append, List.mem_singleton] at hx
    rcases hx with h | h
    · exact hg.nonneg x h
    · rw [h]; exact hl
  · intro x hx; simp only [List.mem_append, List.mem_singleton] at hx
    rcases hx with h | h
    · exact hg.sent x h
    · rw [h]; exact hs

theorem aux_asSamples_ne (xs : List Int) (h : xs ≠ []) : (asSamples xs : List K) ≠ [] := by
  simpa [asSamples] using h

/-- `Latencies.Quantile(q)` keeps the invariant, touches nothing but the estimator, and answers
within `[Min, Max]` -/
theorem aux_good_quantile (e : Env K) (he : EnvOK e) (xs : List Int) (m : MS K) (hg : Good e xs m) (q : K)
    (h0 : 0 ≤ q) (h1 : q ≤ 1) :
    ∃ m' d, lmQuantile e m q = .ok (m', d) ∧ Good e xs m' ∧ m' = { m with est := m'.est } ∧
      (xs ≠ [] → m.min ≤ d ∧ d ≤ m.max) ∧
      (∀ t, m.est = some t → ∃ t' r, process e.lim e.sortBy t = .ok t' ∧ m'.est = some t' ∧
         quantile t'.digest q = .ok r ∧ d = e.trunc r ∧ Valid t'.digest ∧ t'.unprocessed = []) := by
  unfold lmQuantile
  cases hm : m.est with
  | none =>
    have hx : xs = [] := hg.estNone.mp hm
    refine ⟨m, _, rfl, hg, ?_, fun h => absurd hx h, ?_⟩
    · cases m; simp_all
    · intro t ht; cases ht
  | some t =>
    have hx : xs ≠ [] := fun h => by have := hg.estNone.mpr h; rw [hm] at this; cases this
    obtain ⟨hinv, hP, hU⟩ := hg.inv t hm
    have hsent : ∀ x ∈ (asSamples xs : List K), e.cfg.lo ≤ x ∧ x ≤ e.cfg.hi := by
      intro x hxm; simp only [asSamples, List.mem_map] at hxm; obtain ⟨i, hi, rfl⟩ := hxm; exact hg.sent i hi
    obtain ⟨t', r, hq, hp, hr, hinv', hu, hv, hlo, hhi⟩ :=
      aux_quantileTD e.lim e.sortBy he.sort e.cfg.hi e.cfg.lo (asSamples xs) (aux_asSamples_ne xs hx) hsent t hinv q h0 h1
    obtain ⟨_, hp2, _, _, hP', hU', _⟩ := process_preserves_invariant e.lim e.sortBy he.sort e.cfg.hi e.cfg.lo (asSamples xs) t hinv
    rw [hp] at hp2; cases hp2
    simp only [hq]
    obtain ⟨hall, hmin, hmax⟩ := hg.minmax hx
    refine ⟨_, _, rfl, ?_, rfl, ?_, ?_⟩
    · refine ⟨hg.req, by simp [hx], ?_, hg.minmax, hg.maxInit, hg.nonneg, hg.sent⟩
      intro t2 ht2
      simp only [Option.some.injEq] at ht2; subst ht2
      exact ⟨hinv', by rw [hP', hP], by rw [hU', hU]⟩
    · intro _
      have hLB : LB ((m.min : Int) : K) (asSamples xs) := by
        intro x hxm; simp only [asSamples, List.mem_map] at hxm; obtain ⟨i, hi, rfl⟩ := hxm
        exact_mod_cast (hall i hi).1
      have hUB : UB ((m.max : Int) : K) (asSamples xs) := by
        intro x hxm; simp only [asSamples, List.mem_map] at hxm; obtain ⟨i, hi, rfl⟩ := hxm
        exact_mod_cast (hall i hi).2
      constructor
      · rw [← he.truncInt m.min]; exact he.truncMono _ _ (hlo _ hLB)
      · rw [← he.truncInt m.max]; exact he.truncMono _ _ (hhi _ hUB)
    · intro t2 ht2
      cases ht2
      exact ⟨t', r, hp, rfl, hr, rfl, hv, hu⟩

/-- the centroid count after this state's next `process()` stays within `maxProcessed` (then later
`process()` calls with nothing new find nothing to do) -/
def StableNext (e : Env K) (m : MS K) : Prop :=
  ∀ t t1, m.est = some t → process e.lim e.sortBy t = .ok t1 → t1.processed.length ≤ t1.maxProcessed

theorem aux_good_with_fields (e : Env K) (xs : List Int) (m : MS K) (hg : Good e xs m) (d : Int) (r : Bool) :
    Good e xs { m with duration := d, rateNormalised := r } :=
  ⟨hg.req, hg.estNone, hg.inv, hg.minmax, hg.maxInit, hg.nonneg, hg.sent⟩

/-- `Metrics.Close` after any history: never panics, keeps the invariant, leaves Min/Max/Requests alone,
puts every percentile within `[Min, Max]`, and — when the centroid count stays within `maxProcessed` —
in the order `Min ≤ P50 ≤ P90 ≤ P95 ≤ P99 ≤ Max`. -/
theorem aux_good_close (e : Env K) (he : EnvOK e) (xs : List Int) (m : MS K) (hg : Good e xs m) :
    ∃ m', msClose e m = .ok m' ∧ Good e xs m' ∧ m'.min = m.min ∧ m'.max = m.max ∧ m'.requests = m.requests ∧
      (xs = [] → m' = m) ∧
      (xs ≠ [] → m.min ≤ m'.p50 ∧ m'.p50 ≤ m.max ∧ m.min ≤ m'.p90 ∧ m'.p90 ≤ m.max ∧
                 m.min ≤ m'.p95 ∧ m'.p95 ≤ m.max ∧ m.min ≤ m'.p99 ∧ m'.p99 ≤ m.max) ∧
      (xs ≠ [] → StableNext e m → m'.p50 ≤ m'.p90 ∧ m'.p90 ≤ m'.p95 ∧ m'.p95 ≤ m'.p99) := by
  unfold msClose closeFour
  by_cases hx : xs = []
  · have : m.requests = 0 := by rw [hg.req, hx]; rfl
    simp only [this, ↓reduceIte]
    exact ⟨m, rfl, hg, rfl, rfl, this, fun _ => rfl, fun h => absurd hx h, fun h => absurd hx h⟩
  · have hreq : m.requests ≠ 0 := by
      rw [hg.req]; exact fun h => hx (List.length_eq_zero_iff.mp h)
    simp only [hreq, ↓reduceIte]
    have r50 := aux_lit_range (K := K) 50 100 (by omega) (by omega)
    have r90 := aux_lit_range (K := K) 90 100 (by omega) (by omega)
    have r95 := aux_lit_range (K := K) 95 100 (by omega) (by omega)
    have r99 := aux_lit_range (K := K) 99 100 (by omega) (by omega)
    have l1 := aux_lit_le (K := K) 50 100 90 100 (by omega) (by omega) (by omega)
    have l2 := aux_lit_le (K := K) 90 100 95 100 (by omega) (by omega) (by omega)
    have l3 := aux_lit_le (K := K) 95 100 99 100 (by omega) (by omega) (by omega)
    have hg0 := aux_good_with_fields e xs m hg ((m.latest.getD 0) - (m.earliest.getD 0)) (decide ((m.latest.getD 0) - (m.earliest.getD 0) > 0))
    obtain ⟨m1, a, e1, g1, f1, b1, s1⟩ := aux_good_quantile e he xs _ hg0 _ r50.1 r50.2
    obtain ⟨m2, b, e2, g2, f2, b2, s2⟩ := aux_good_quantile e he xs m1 g1 _ r90.1 r90.2
    obtain ⟨m3, c, e3, g3, f3, b3, s3⟩ := aux_good_quantile e he xs m2 g2 _ r95.1 r95.2
    obtain ⟨m4, d, e4, g4, f4, b4, s4⟩ := aux_good_quantile e he xs m3 g3 _ r99.1 r99.2
    simp only [e1, e2, e3, e4]
    have hmin1 : m1.min = m.min := by rw [f1]
    have hmax1 : m1.max = m.max := by rw [f1]
    have hmin2 : m2.min = m.min := by rw [f2]; exact hmin1
    have hmax2 : m2.max = m.max := by rw [f2]; exact hmax1
    have hmin3 : m3.min = m.min := by rw [f3]; exact hmin2
    have hmax3 : m3.max = m.max := by rw [f3]; exact hmax2
    have hmin4 : m4.min = m.min := by rw [f4]; exact hmin3
    have hmax4 : m4.max = m.max := by rw [f4]; exact hmax3
    have hreq4 : m4.requests = m.requests := by rw [f4]; show m3.requests = _; rw [f3]; show m2.requests = _; rw [f2]; show m1.requests = _; rw [f1]
    refine ⟨_, rfl, ⟨by simpa using g4.req, by simpa using g4.estNone, by simpa using g4.inv, by simpa using g4.minmax,
        by simpa using g4.maxInit, g4.nonneg, g4.sent⟩, hmin4, hmax4, hreq4, fun h => absurd h hx, ?_, ?_⟩
    · intro _
      have B1 := b1 hx; have B2 := b2 hx; have B3 := b3 hx; have B4 := b4 hx
      simp only at B1
      rw [hmin1, hmax1] at B2; rw [hmin2, hmax2] at B3; rw [hmin3, hmax3] at B4
      exact ⟨B1.1, B1.2, B2.1, B2.2, B3.1, B3.2, B4.1, B4.2⟩
    · intro _ hst
      -- the estimator exists; after the first process() the later ones are idle
      obtain ⟨t, ht⟩ : ∃ t, m.est = some t := by
        cases hm : m.est with
        | none => exact absurd (hg.estNone.mp hm) hx
        | some t => exact ⟨t, rfl⟩
      obtain ⟨t1, ra, p1, em1, q1, da, v1, u1⟩ := s1 t ht
      have hidle := aux_process_idle e.lim e.sortBy t1 u1 (hst t t1 ht p1)
      obtain ⟨t2, rb, p2, em2, q2, db, _, _⟩ := s2 t1 em1
      rw [hidle] at p2; cases p2
      obtain ⟨t3, rc, p3, em3, q3, dc, _, _⟩ := s3 t1 em2
      rw [hidle] at p3; cases p3
      obtain ⟨t4, rd, p4, em4, q4, dd, _, _⟩ := s4 t1 em3
      rw [hidle] at p4; cases p4
      have mono : ∀ (qa qb x y : K), 0 ≤ qa → qa ≤ qb → qb ≤ 1 → quantile t1.digest qa = .ok x → quantile t1.digest qb = .ok y → x ≤ y := by
        intro qa qb x y h0 h12 h1 hx' hy'
        obtain ⟨x', y', hx'', hy'', hxy⟩ := quantile_monotone_in_q t1.digest v1 qa qb h0 h12 h1
        rw [hx'] at hx''; cases hx''
        rw [hy'] at hy''; cases hy''
        exact hxy
      simp only
      rw [da, db, dc, dd]
      exact ⟨he.truncMono _ _ (mono _ _ ra rb r50.1 l1 r90.2 q1 q2), he.truncMono _ _ (mono _ _ rb rc r90.1 l2 r95.2 q2 q3),
        he.truncMono _ _ (mono _ _ rc rd r95.1 l3 r99.2 q3 q4)⟩

/-- the HDR rows after any history, unconditionally: one row per ladder entry, every value within
`[Min, Max]`, nothing but the estimator touched, invariant kept -/
theorem aux_good_hdrRows (e : Env K) (he : EnvOK e) (xs : List Int) (qs : List K) (hq : ∀ q ∈ qs, 0 ≤ q ∧ q ≤ 1) :
    ∀ (m : MS K), Good e xs m →
    ∃ m' rs, hdrRowsSeq e m qs = .ok (m', rs) ∧ Good e xs m' ∧ m' = { m with est := m'.est } ∧ rs.length = qs.length ∧
      (xs ≠ [] → ∀ r ∈ rs, m.min ≤ r.dur ∧ r.dur ≤ m.max) := by
  induction qs with
  | nil => intro m hg; exact ⟨m, [], rfl, hg, by cases m; rfl, rfl, by simp⟩
  | cons q qs ih =>
    intro m hg
    obtain ⟨hq0, hq1⟩ := hq q (by simp)
    obtain ⟨m1, d, e1, g1, f1, b1, _⟩ := aux_good_quantile e he xs m hg q hq0 hq1
    obtain ⟨m2, rs, e2, g2, f2, l2, b2⟩ := ih (fun x hx => hq x (List.mem_cons_of_mem _ hx)) m1 g1
    have hrun : hdrRowsSeq e m (q :: qs) = .ok (m2,
        { value := milliseconds d, q := q, count := e.trunc (QOps.add (QOps.mul q (QOps.ofNat m.requests)) (lit 5 10)),
          oneBy := oneByQuantile q, dur := d } :: rs) := by
      simp only [hdrRowsSeq, e1, e2]
    refine ⟨m2, _, hrun, g2, ?_, by simp [l2], ?_⟩
    · rw [f2, f1]
    · intro hx r hr
      simp only [List.mem_cons] at hr
      rcases hr with h | h
      · subst h; exact b1 hx
      · have := b2 hx r h
        have hmin1 : m1.min = m.min := by rw [f1]
        have hmax1 : m1.max = m.max := by rw [f1]
        rw [hmin1, hmax1] at this; exact this

/-- settled: nothing pending and at most `maxProcessed` centroids — `process()` finds nothing to do -/
def Settled (t : TD K) : Prop := t.unprocessed = [] ∧ t.processed.length ≤ t.maxProcessed

theorem aux_lmQuantile_settled (e : Env K) (m : MS K) (t : TD K) (hm : m.est = some t) (hs : Settled t) (q : K) :
    lmQuantile e m q = (match quantile t.digest q with
      | .ok r => .ok (m, e.trunc r)
      | .error c => .error c
      | .panic => .panic) := by
  unfold lmQuantile quantileTD
  rw [hm]
  simp only [aux_process_idle e.lim e.sortBy t hs.1 hs.2]
  have : ({ m with est := some t } : MS K) = m := by cases m; simp_all
  cases quantile t.digest q <;> simp [this]

theorem aux_hdrRowsSeq_settled (e : Env K) (m : MS K) (t : TD K) (hm : m.est = some t) (hs : Settled t) (qs : List K) :
    hdrRowsSeq e m qs = (match hdrRowsFrom e.trunc (cumulative t.processed) t.digest m.requests qs with
      | .ok rs => .ok (m, rs)
      | .error c => .error c
      | .panic => .panic) := by
  induction qs with
  | nil => simp [hdrRowsSeq, hdrRowsFrom]
  | cons q qs ih =>
    simp only [hdrRowsSeq, hdrRowsFrom, hdrRow, latQuantileCum, aux_lmQuantile_settled e m t hm hs q]
    have hq : quantile t.digest q = quantileCum (cumulative t.processed) t.digest q := rfl
    rw [hq]
    cases quantileCum (cumulative t.processed) t.digest q with
    | ok r =>
      simp only
      rw [ih]
      cases hdrRowsFrom e.trunc (cumulative t.processed) t.digest m.requests qs <;> rfl
    | error c => rfl
    | panic => rfl

/-- **The HDR reporter is a pure function of the Metrics at the time of the call**: on a settled
estimator the report is `Quantile.hdrRows` of the current digest and request count, and the state is
left exactly as it was — so a second report shows the same rows (no state carried between reports). -/
theorem hdr_report_pure (e : Env K) (m : MS K) (t : TD K) (hm : m.est = some t) (hs : Settled t) :
    hdrReport e m = (match hdrRows e.trunc t.digest m.requests e.ladder with
      | .ok rs => .ok (m, rs)
      | .error c => .error c
      | .panic => .panic) := by
  unfold hdrReport hdrRows
  exact aux_hdrRowsSeq_settled e m t hm hs _

/-- two reports in a row show the same rows (and two Metrics with the same estimator and request count
show the same rows, whatever their other fields hold) -/
theorem hdr_report_twice (e : Env K) (m : MS K) (t : TD K) (hm : m.est = some t) (hs : Settled t)
    (m1 : MS K) (rs : List (HdrRow K)) (h : hdrReport e m = .ok (m1, rs)) :
    m1 = m ∧ hdrReport e m1 = .ok (m1, rs) := by
  rw [hdr_report_pure e m t hm hs] at h
  cases hr : hdrRows e.trunc t.digest m.requests e.ladder with
  | ok rs' =>
    rw [hr] at h; simp only [Outcome.ok.injEq, Prod.mk.injEq] at h
    obtain ⟨h1, h2⟩ := h
    subst h1; subst h2
    refine ⟨rfl, ?_⟩
    rw [hdr_report_pure e m t hm hs, hr]
  | error c => rw [hr] at h; cases h
  | panic => rw [hr] at h; cases h

/-- the HDR report after any history, when the centroid count stays within `maxProcessed`: it is the pure
report of the digest as compacted by the first `Quantile` call, hence non-decreasing in percentile,
latency and printed value -/
theorem aux_good_hdr_stable (e : Env K) (he : EnvOK e) (xs : List Int) (m : MS K) (hg : Good e xs m) (hx : xs ≠ [])
    (hst : StableNext e m) (hl : e.ladder ≠ []) :
    ∃ m1 t t1 rs, hdrReport e m = .ok (m1, rs) ∧ m.est = some t ∧ process e.lim e.sortBy t = .ok t1 ∧
      m1 = { m with est := some t1 } ∧ Good e xs m1 ∧ Settled t1 ∧
      hdrRows e.trunc t1.digest m.requests e.ladder = .ok rs ∧ rs.length = e.ladder.length ∧
      Chain (fun a b : HdrRow K => a.q ≤ b.q ∧ a.dur ≤ b.dur ∧ a.value ≤ b.value) rs := by
  obtain ⟨t, ht⟩ : ∃ t, m.est = some t := by
    cases hm : m.est with
    | none => exact absurd (hg.estNone.mp hm) hx
    | some t => exact ⟨t, rfl⟩
  obtain ⟨hlad1, _⟩ := aux_ladder (K := K) e.ladder he.ladder
  cases hlad : e.ladder with
  | nil => exact absurd hlad hl
  | cons p rest =>
    obtain ⟨n0, d0⟩ := p
    have hq0 : (0:K) ≤ lit n0 d0 ∧ (lit n0 d0 : K) ≤ 1 := hlad1 _ (by rw [hlad]; simp)
    obtain ⟨m1, d, e1, g1, f1, _, s1⟩ := aux_good_quantile e he xs m hg (lit n0 d0) hq0.1 hq0.2
    obtain ⟨t1, r, p1, em1, q1, dd, v1, u1⟩ := s1 t ht
    have hset : Settled t1 := ⟨u1, hst t t1 ht p1⟩
    have hm1 : m1 = { m with est := some t1 } := by rw [f1, em1]
    have hreq1 : m1.requests = m.requests := by rw [f1]
    obtain ⟨rs, hrows, hlen, hchain⟩ := hdr_rows_nondecreasing t1.digest v1 e.trunc he.truncMono m.requests e.ladder he.ladder
    refine ⟨m1, t, t1, rs, ?_, ht, p1, hm1, g1, hset, by rw [← hlad]; exact hrows, by rw [← hlad]; exact hlen, hchain⟩
    -- unfold both reports along the ladder `(n0, d0) :: rest`
    unfold hdrRows at hrows
    rw [hlad] at hrows
    simp only [List.map_cons, hdrRowsFrom, hdrRow, latQuantileCum] at hrows
    have hq : quantileCum (cumulative t1.digest.processed) t1.digest (lit n0 d0) = .ok r := q1
    rw [hq] at hrows
    simp only at hrows
    unfold hdrReport
    rw [hlad]
    simp only [List.map_cons, hdrRowsSeq, e1]
    rw [aux_hdrRowsSeq_settled e m1 t1 em1 hset, hreq1]
    have hcum : cumulative t1.processed = cumulative t1.digest.processed := rfl
    rw [hcum]
    cases hrest : hdrRowsFrom e.trunc (cumulative t1.digest.processed) t1.digest m.requests
        (List.map (fun x => match x with | (n, dn) => (lit n dn : K)) rest) with
    | ok rs' =>
      rw [hrest] at hrows
      simp only [Outcome.ok.injEq] at hrows
      simp only [dd]
      rw [← hrows]
    | error c => rw [hrest] at hrows; cases hrows
    | panic => rw [hrest] at hrows; cases hrows

/-! ### every call sequence -/

/-- **Any call sequence runs to completion and keeps the invariant**: after any interleaving of Add,
Close, Quantile and HDR-report calls the estimator holds exactly the latencies added (each once, in
nanoseconds, weight 1: total weight = number of Adds, every centroid mean and `min`/`max` within their
range, sorted means, positive weights), `Requests` counts them, and `Min`/`Max` are their exact minimum
and maximum. -/
theorem aux_runFrom (e : Env K) (he : EnvOK e) (ops : List (Op K)) : ∀ (xs : List Int) (m : MS K), Good e xs m → OpsOK e ops →
    ∃ m' os, runFrom e m ops = .ok (m', os) ∧ Good e (xs ++ added ops) m' ∧ os.length = ops.length := by
  induction ops with
  | nil => intro xs m hg _; exact ⟨m, [], rfl, by simpa [added] using hg, rfl⟩
  | cons op ops ih =>
    intro xs m hg hok
    have hop : OpOK e op := hok op (by simp)
    have hrest : OpsOK e ops := fun o ho => hok o (List.mem_cons_of_mem _ ho)
    cases op with
    | add l ts =>
      obtain ⟨h1, h2⟩ := hop
      obtain ⟨m1, e1, g1, _⟩ := aux_good_add e he xs m hg l ts h1 h2
      obtain ⟨m2, os, e2, g2, l2⟩ := ih (xs ++ [l]) m1 g1 hrest
      have hr : runFrom e m (Op.add l ts :: ops) = .ok (m2, Obs.none :: os) := by simp only [runFrom, step, e1, e2]
      exact ⟨m2, _, hr, by simpa [added] using g2, by simp [l2]⟩
    | close =>
      obtain ⟨m1, e1, g1, _⟩ := aux_good_close e he xs m hg
      obtain ⟨m2, os, e2, g2, l2⟩ := ih xs m1 g1 hrest
      have hr : runFrom e m (Op.close :: ops) = .ok (m2, Obs.closed m1.min m1.p50 m1.p90 m1.p95 m1.p99 m1.max :: os) := by
        simp only [runFrom, step, e1, e2]
      exact ⟨m2, _, hr, by simpa [added] using g2, by simp [l2]⟩
    | quantile q =>
      obtain ⟨m1, d, e1, g1, _⟩ := aux_good_quantile e he xs m hg q hop.1 hop.2
      obtain ⟨m2, os, e2, g2, l2⟩ := ih xs m1 g1 hrest
      have hr : runFrom e m (Op.quantile q :: ops) = .ok (m2, Obs.value d :: os) := by simp only [runFrom, step, e1, e2]
      exact ⟨m2, _, hr, by simpa [added] using g2, by simp [l2]⟩
    | hdr =>
      obtain ⟨hl1, _⟩ := aux_ladder (K := K) e.ladder he.ladder
      obtain ⟨m1, rs, e1, g1, _⟩ := aux_good_hdrRows e he xs _ hl1 m hg
      have e1' : hdrReport e m = .ok (m1, rs) := by
        unfold hdrReport
        have : (List.map (fun x => match x with | (n, dn) => (lit n dn : K)) e.ladder) = List.map (fun (p : Nat × Nat) => (lit p.1 p.2 : K)) e.ladder := by
          apply List.map_congr_left; intro p _; rfl
        rw [this]; exact e1
      obtain ⟨m2, os, e2, g2, l2⟩ := ih xs m1 g1 hrest
      have hr : runFrom e m (Op.hdr :: ops) = .ok (m2, Obs.rows rs :: os) := by simp only [runFrom, step, e1', e2]
      exact ⟨m2, _, hr, by simpa [added] using g2, by simp [l2]⟩

/-- **(invariant over call sequences)** Every call sequence — any interleaving of `Metrics.Add`, `Close`,
`Latencies.Quantile` and HDR reports, with non-negative latencies and quantile arguments in [0,1] — runs
to completion (no panic), reports once per call, and ends in a state where: `Requests` = number of Adds;
the estimator exists iff something was added and holds exactly the added latencies — each ONCE, in
NANOSECONDS (`float64(latency)`), weight 1 (total weight = number of Adds; every centroid mean and the
digest's `min`/`max` within the range of the added values; sorted means; positive weights); `Min`/`Max`
are the exact minimum and maximum of the added latencies. -/
theorem seq_invariant (e : Env K) (he : EnvOK e) (ops : List (Op K)) (hok : OpsOK e ops) :
    ∃ m os, run e ops = .ok (m, os) ∧ Good e (added ops) m ∧ os.length = ops.length := by
  obtain ⟨m, os, h1, h2, h3⟩ := aux_runFrom e he ops [] MS.init (aux_good_init e) hok
  exact ⟨m, os, h1, by simpa using h2, h3⟩

/-- **(ordering and all-equal clause, for every history including intermediate Closes)** After ANY call
sequence, a `Close`: never panics; leaves `Min`/`Max` the exact extremes of the latencies added so far;
puts each of P50, P90, P95, P99 within `[Min, Max]` (unconditionally) — so when all latencies equal `v`
all four equal `v`; and, when the centroid count after the pending compaction stays within
`maxProcessed`, orders them `Min ≤ P50 ≤ P90 ≤ P95 ≤ P99 ≤ Max`.  (Take `ops` to be any prefix of a
longer history: the statement covers every intermediate Close.) -/
theorem seq_close_after_any_history (e : Env K) (he : EnvOK e) (ops : List (Op K)) (hok : OpsOK e ops) (hne : added ops ≠ []) :
    ∃ m os m', run e ops = .ok (m, os) ∧ msClose e m = .ok m' ∧
      (∀ x ∈ added ops, m'.min ≤ x ∧ x ≤ m'.max) ∧ m'.min ∈ added ops ∧ m'.max ∈ added ops ∧
      m'.min ≤ m'.p50 ∧ m'.p50 ≤ m'.max ∧ m'.min ≤ m'.p90 ∧ m'.p90 ≤ m'.max ∧
      m'.min ≤ m'.p95 ∧ m'.p95 ≤ m'.max ∧ m'.min ≤ m'.p99 ∧ m'.p99 ≤ m'.max ∧
      (StableNext e m → m'.p50 ≤ m'.p90 ∧ m'.p90 ≤ m'.p95 ∧ m'.p95 ≤ m'.p99) ∧
      (∀ v, (∀ x ∈ added ops, x = v) → m'.min = v ∧ m'.p50 = v ∧ m'.p90 = v ∧ m'.p95 = v ∧ m'.p99 = v ∧ m'.max = v) := by
  obtain ⟨m, os, hrun, hg, _⟩ := seq_invariant e he ops hok
  obtain ⟨m', hc, hg', hmin, hmax, _, _, hrange, hord⟩ := aux_good_close e he (added ops) m hg
  obtain ⟨hall, hmn, hmx⟩ := hg.minmax hne
  obtain ⟨a1, a2, b1, b2, c1, c2, d1, d2⟩ := hrange hne
  refine ⟨m, os, m', hrun, hc, by rw [hmin, hmax]; exact hall, by rw [hmin]; exact hmn, by rw [hmax]; exact hmx,
    by rw [hmin]; exact a1, by rw [hmax]; exact a2, by rw [hmin]; exact b1, by rw [hmax]; exact b2,
    by rw [hmin]; exact c1, by rw [hmax]; exact c2, by rw [hmin]; exact d1, by rw [hmax]; exact d2, hord hne, ?_⟩
  intro v hv
  have e1 : m.min = v := hv _ hmn
  have e2 : m.max = v := hv _ hmx
  rw [hmin, hmax]
  refine ⟨e1, ?_, ?_, ?_, ?_, e2⟩ <;> omega

/-- **(HDR report after any history)** After ANY call sequence the HDR report: never panics; has one row
per ladder entry; every row's latency lies within `[Min, Max]` (unconditionally); touches nothing but
the estimator; and, when the centroid count stays within `maxProcessed`, is exactly the pure report
`Quantile.hdrRows` of the compacted digest, hence non-decreasing in percentile, latency and `Value(ms)`. -/
theorem seq_hdr_after_any_history (e : Env K) (he : EnvOK e) (ops : List (Op K)) (hok : OpsOK e ops) (hne : added ops ≠ []) :
    ∃ m os m1 rs, run e ops = .ok (m, os) ∧ hdrReport e m = .ok (m1, rs) ∧ rs.length = e.ladder.length ∧
      m1 = { m with est := m1.est } ∧ (∀ r ∈ rs, m.min ≤ r.dur ∧ r.dur ≤ m.max) ∧
      (StableNext e m → e.ladder ≠ [] →
        Chain (fun a b : HdrRow K => a.q ≤ b.q ∧ a.dur ≤ b.dur ∧ a.value ≤ b.value) rs ∧
        ∃ t1, m1.est = some t1 ∧ Settled t1 ∧ hdrRows e.trunc t1.digest m.requests e.ladder = .ok rs) := by
  obtain ⟨m, os, hrun, hg, _⟩ := seq_invariant e he ops hok
  obtain ⟨hl1, _⟩ := aux_ladder (K := K) e.ladder he.ladder
  obtain ⟨m1, rs, e1, g1, f1, len1, b1⟩ := aux_good_hdrRows e he (added ops) _ hl1 m hg
  have e1' : hdrReport e m = .ok (m1, rs) := by
    unfold hdrReport
    have : (List.map (fun x => match x with | (n, dn) => (lit n dn : K)) e.ladder) = List.map (fun (p : Nat × Nat) => (lit p.1 p.2 : K)) e.ladder := by
      apply List.map_congr_left; intro p _; rfl
    rw [this]; exact e1
  refine ⟨m, os, m1, rs, hrun, e1', by simpa using len1, f1, b1 hne, ?_⟩
  intro hst hl
  obtain ⟨m1', t, t1, rs', h1, _, _, hm1, _, hset, hrows, _, hchain⟩ := aux_good_hdr_stable e he (added ops) m hg hne hst hl
  rw [e1'] at h1
  simp only [Outcome.ok.injEq, Prod.mk.injEq] at h1
  obtain ⟨ha, hb⟩ := h1
  subst ha; subst hb
  exact ⟨hchain, t1, by rw [hm1], hset, hrows⟩

/-- **(Close computes the four percentiles whatever the duration is)** With at least one request,
`Metrics.Close` assigns P50, P90, P95, P99 exactly the four `Quantile` answers of the estimator
(`TDigestMerge.closeTD`, each call with its leading `process()`), for EVERY value of `Earliest`/`Latest`:
the timestamps decide only `Duration` and whether Rate/Throughput are normalised. -/
theorem close_percentiles_whatever_the_duration {F : Type} [QOps F] (e : Env F) (m : MS F) (t : TD F)
    (hreq : m.requests ≠ 0) (hm : m.est = some t) :
    msClose e m = (match closeTD e.trunc e.lim e.sortBy t with
      | .ok (t', p) => .ok { m with duration := (m.latest.getD 0) - (m.earliest.getD 0),
                                    rateNormalised := decide ((m.latest.getD 0) - (m.earliest.getD 0) > 0),
                                    est := some t', p50 := p.p50, p90 := p.p90, p95 := p.p95, p99 := p.p99 }
      | .error _ => .panic
      | .panic => .panic) := by
  unfold msClose closeFour closeTD
  simp only [hreq, ↓reduceIte]
  unfold lmQuantile latQuantileTD
  simp only [hm]
  cases h1 : quantileTD e.lim e.sortBy t (lit 50 100) with
  | ok x1 =>
    obtain ⟨t1, r1⟩ := x1
    simp only
    cases h2 : quantileTD e.lim e.sortBy t1 (lit 90 100) with
    | ok x2 =>
      obtain ⟨t2, r2⟩ := x2
      simp only
      cases h3 : quantileTD e.lim e.sortBy t2 (lit 95 100) with
      | ok x3 =>
        obtain ⟨t3, r3⟩ := x3
        simp only
        cases h4 : quantileTD e.lim e.sortBy t3 (lit 99 100) with
        | ok x4 => obtain ⟨t4, r4⟩ := x4; rfl
        | error c => rfl
        | panic => rfl
      | error c => rfl
      | panic => rfl
    | error c => rfl
    | panic => rfl
  | error c => rfl
  | panic => rfl

/-- … in particular two Metrics that differ only in their timestamps get the same percentiles. -/
theorem close_ignores_timestamps {F : Type} [QOps F] (e : Env F) (m : MS F) (a b : Option Int) (m1 m2 : MS F)
    (h1 : msClose e m = .ok m1) (h2 : msClose e { m with earliest := a, latest := b } = .ok m2) :
    m2.p50 = m1.p50 ∧ m2.p90 = m1.p90 ∧ m2.p95 = m1.p95 ∧ m2.p99 = m1.p99 ∧ m2.est = m1.est ∧
    m2.min = m1.min ∧ m2.max = m1.max := by
  by_cases hreq : m.requests = 0
  · unfold msClose at h1 h2
    simp only [hreq, ↓reduceIte, Outcome.ok.injEq] at h1 h2
    subst h1; subst h2
    exact ⟨rfl, rfl, rfl, rfl, rfl, rfl, rfl⟩
  · cases hm : m.est with
    | none =>
      unfold msClose closeFour lmQuantile at h1 h2
      simp only [hreq, ↓reduceIte, hm, Outcome.ok.injEq] at h1 h2
      subst h1; subst h2
      exact ⟨rfl, rfl, rfl, rfl, rfl, rfl, rfl⟩
    | some t =>
      rw [close_percentiles_whatever_the_duration e m t hreq hm] at h1
      have h2' := close_percentiles_whatever_the_duration e { m with earliest := a, latest := b } t hreq hm
      rw [h2'] at h2
      cases hc : closeTD e.trunc e.lim e.sortBy t with
      | ok x =>
        obtain ⟨t', p⟩ := x
        rw [hc] at h1 h2
        simp only [Outcome.ok.injEq] at h1 h2
        subst h1; subst h2
        exact ⟨rfl, rfl, rfl, rfl, rfl, rfl, rfl⟩
      | error c => rw [hc] at h1; cases h1
      | panic => rw [hc] at h1; cases h1

/-! ### the estimator sees every sample exactly once -/

section trace
variable {F : Type} [QOps F]

/-- what reaches the estimator -/
inductive EstOp (F : Type) where
  | add (x : F)      -- `TDigest.Add(x, 1)`
  | process          -- the `process()` a `Quantile` call starts with

/-- the estimator-level trace of a call sequence: each `Metrics.Add` contributes ONE `Add(float64(latency), 1)`
— the latency in nanoseconds — in arrival order; each `Latencies.Quantile` one `process()`; `Close` four;
an HDR report one per ladder entry; before the first Add (no estimator yet) queries contribute nothing. -/
def estTrace (ladderLen : Nat) : Bool → List (Op F) → List (EstOp F)
  | _, [] => []
  | has, op :: ops =>
    match op with
    | .add l _ => EstOp.add (QOps.ofInt l) :: estTrace ladderLen true ops
    | .close => (if has then List.replicate 4 EstOp.process else []) ++ estTrace ladderLen has ops
    | .quantile _ => (if has then [EstOp.process] else []) ++ estTrace ladderLen has ops
    | .hdr => (if has then List.replicate ladderLen EstOp.process else []) ++ estTrace ladderLen has ops

def runEst (e : Env F) : Option (TD F) → List (EstOp F) → Outcome (Option (TD F))
  | o, [] => .ok o
  | o, .add x :: r => match Vegeta.Model.TDigestMerge.add e.lim e.sortBy (estOrNew e o) x (QOps.ofNat 1) with
    | .ok t => runEst e (some t) r
    | .error c => .error c
    | .panic => .panic
  | none, .process :: r => runEst e none r
  | some t, .process :: r => match process e.lim e.sortBy t with
    | .ok t' => runEst e (some t') r
    | .error c => .error c
    | .panic => .panic

theorem aux_runEst_append (e : Env F) (a b : List (EstOp F)) : ∀ (o o1 : Option (TD F)), runEst e o a = .ok o1 →
    runEst e o (a ++ b) = runEst e o1 b := by
  induction a with
  | nil => intro o o1 h; simp only [runEst, Outcome.ok.injEq] at h; subst h; rfl
  | cons x a ih =>
    intro o o1 h
    cases x with
    | add v =>
      simp only [List.cons_append, runEst] at h ⊢
      cases hadd : Vegeta.Model.TDigestMerge.add e.lim e.sortBy (estOrNew e o) v (QOps.ofNat 1) with
      | ok t => rw [hadd] at h; simp only at h ⊢; exact ih _ _ h
      | error c => rw [hadd] at h; cases h
      | panic => rw [hadd] at h; cases h
    | process =>
      cases o with
      | none => simp only [List.cons_append, runEst] at h ⊢; exact ih _ _ h
      | some t =>
        simp only [List.cons_append, runEst] at h ⊢
        cases hp : process e.lim e.sortBy t with
        | ok t' => rw [hp] at h; simp only at h ⊢; exact ih _ _ h
        | error c => rw [hp] at h; cases h
        | panic => rw [hp] at h; cases h

theorem aux_trace_quantile (e : Env F) (m m1 : MS F) (q : F) (d : Int) (h : lmQuantile e m q = .ok (m1, d)) :
    runEst e m.est (if m.est.isSome then [EstOp.process] else []) = .ok m1.est ∧ m1.requests = m.requests ∧
    m1.est.isSome = m.est.isSome := by
  unfold lmQuantile at h
  cases hm : m.est with
  | none =>
    rw [hm] at h
    simp only [Outcome.ok.injEq, Prod.mk.injEq] at h
    obtain ⟨h1, _⟩ := h
    subst h1
    simp [runEst, hm]
  | some t =>
    rw [hm] at h
    simp only at h
    unfold quantileTD at h
    cases hp : process e.lim e.sortBy t with
    | ok t' =>
      rw [hp] at h
      simp only at h
      cases hq : quantile t'.digest q with
      | ok r =>
        rw [hq] at h
        simp only [Outcome.ok.injEq, Prod.mk.injEq] at h
        obtain ⟨h1, _⟩ := h
        subst h1
        simp [runEst, hp]
      | error c => rw [hq] at h; cases h
      | panic => rw [hq] at h; cases h
    | error c => rw [hp] at h; cases h
    | panic => rw [hp] at h; cases h

theorem aux_trace_rows (e : Env F) (qs : List F) : ∀ (m m1 : MS F) (rs : List (HdrRow F)), hdrRowsSeq e m qs = .ok (m1, rs) →
    runEst e m.est (if m.est.isSome then List.replicate qs.length EstOp.process else []) = .ok m1.est ∧
    m1.requests = m.requests ∧ m1.est.isSome = m.est.isSome := by
  induction qs with
  | nil =>
    intro m m1 rs h
    simp only [hdrRowsSeq, Outcome.ok.injEq, Prod.mk.injEq] at h
    obtain ⟨h1, _⟩ := h; subst h1
    by_cases hs : m.est.isSome <;> simp [hs, runEst]
  | cons q qs ih =>
    intro m m1 rs h
    simp only [hdrRowsSeq] at h
    cases hq : lmQuantile e m q with
    | ok x =>
      obtain ⟨m2, d⟩ := x
      rw [hq] at h
      simp only at h
      cases hr : hdrRowsSeq e m2 qs with
      | ok y =>
        obtain ⟨m3, rs'⟩ := y
        rw [hr] at h
        simp only [Outcome.ok.injEq, Prod.mk.injEq] at h
        obtain ⟨h1, _⟩ := h; subst h1
        obtain ⟨a1, a2, a3⟩ := aux_trace_quantile e m m2 q d hq
        obtain ⟨b1, b2, b3⟩ := ih m2 m3 rs' hr
        refine ⟨?_, by rw [b2, a2], by rw [b3, a3]⟩
        by_cases hs : m.est.isSome = true
        · have hs2 : m2.est.isSome = true := by rw [a3]; exact hs
          simp only [hs, hs2, ↓reduceIte, List.length_cons, List.replicate_succ] at a1 b1 ⊢
          have := aux_runEst_append e [EstOp.process] (List.replicate qs.length EstOp.process) m.est m2.est a1
          simp only [List.singleton_append] at this
          rw [this]; exact b1
        · have hs' : m.est.isSome = false := by simpa using hs
          have hs2 : m2.est.isSome = false := by rw [a3]; exact hs'
          simp only [hs', hs2, Bool.false_eq_true, ↓reduceIte, runEst, Outcome.ok.injEq] at a1 b1 ⊢
          rw [a1, b1]
      | error c => rw [hr] at h; cases h
      | panic => rw [hr] at h; cases h
    | error c => rw [hq] at h; cases h
    | panic => rw [hq] at h; cases h

end trace

section trace2
variable {F : Type} [QOps F]

theorem aux_trace_add (e : Env F) (m m1 : MS F) (l ts : Int) (h : msAdd e m l ts = .ok m1) :
    runEst e m.est [EstOp.add (QOps.ofInt l)] = .ok m1.est ∧ m1.requests = m.requests + 1 ∧ m1.est.isSome = true := by
  unfold msAdd latAdd at h
  simp only at h
  cases ha : Vegeta.Model.TDigestMerge.add e.lim e.sortBy (estOrNew e m.est) (QOps.ofInt l) (QOps.ofNat 1) with
  | ok t =>
    rw [ha] at h
    simp only [Outcome.ok.injEq] at h
    subst h
    simp [runEst, ha]
  | error c => rw [ha] at h; cases h
  | panic => rw [ha] at h; cases h

theorem aux_trace_closeQuantiles (e : Env F) (m0 m1 : MS F) (hs : m0.est.isSome = true) (h : closeFour e m0 = .ok m1) :
    runEst e m0.est (List.replicate 4 EstOp.process) = .ok m1.est ∧ m1.requests = m0.requests ∧ m1.est.isSome = true := by
  unfold closeFour at h
  cases h1 : lmQuantile e m0 (lit 50 100) with
  | ok x1 =>
    obtain ⟨m1', a⟩ := x1
    rw [h1] at h; simp only at h
    cases h2 : lmQuantile e m1' (lit 90 100) with
    | ok x2 =>
      obtain ⟨m2', b⟩ := x2
      rw [h2] at h; simp only at h
      cases h3 : lmQuantile e m2' (lit 95 100) with
      | ok x3 =>
        obtain ⟨m3', c⟩ := x3
        rw [h3] at h; simp only at h
        cases h4 : lmQuantile e m3' (lit 99 100) with
        | ok x4 =>
          obtain ⟨m4', d⟩ := x4
          rw [h4] at h; simp only [Outcome.ok.injEq] at h
          subst h
          obtain ⟨a1, a2, a3⟩ := aux_trace_quantile e m0 m1' _ a h1
          obtain ⟨b1, b2, b3⟩ := aux_trace_quantile e m1' m2' _ b h2
          obtain ⟨c1, c2, c3⟩ := aux_trace_quantile e m2' m3' _ c h3
          obtain ⟨d1, d2, d3⟩ := aux_trace_quantile e m3' m4' _ d h4
          have s1 : m1'.est.isSome = true := by rw [a3]; exact hs
          have s2 : m2'.est.isSome = true := by rw [b3]; exact s1
          have s3 : m3'.est.isSome = true := by rw [c3]; exact s2
          simp only [hs, s1, s2, s3, ↓reduceIte] at a1 b1 c1 d1
          refine ⟨?_, by simp only; rw [d2, c2, b2, a2], by simp only; rw [d3, s3]⟩
          have e4 : List.replicate 4 (EstOp.process : EstOp F) = [EstOp.process] ++ ([EstOp.process] ++ ([EstOp.process] ++ [EstOp.process])) := rfl
          rw [e4, aux_runEst_append e _ _ _ _ a1, aux_runEst_append e _ _ _ _ b1, aux_runEst_append e _ _ _ _ c1]
          exact d1
        | error c => rw [h4] at h; cases h
        | panic => rw [h4] at h; cases h
      | error c => rw [h3] at h; cases h
      | panic => rw [h3] at h; cases h
    | error c => rw [h2] at h; cases h
    | panic => rw [h2] at h; cases h
  | error c => rw [h1] at h; cases h
  | panic => rw [h1] at h; cases h

theorem aux_trace_close (e : Env F) (m m1 : MS F) (hinv : m.requests = 0 ↔ m.est = none) (h : msClose e m = .ok m1) :
    runEst e m.est (if m.est.isSome then List.replicate 4 EstOp.process else []) = .ok m1.est ∧ m1.requests = m.requests ∧
    m1.est.isSome = m.est.isSome := by
  unfold msClose at h
  by_cases hreq : m.requests = 0
  · simp only [hreq, ↓reduceIte, Outcome.ok.injEq] at h
    subst h
    have : m.est = none := hinv.mp hreq
    simp [this, runEst]
  · simp only [hreq, ↓reduceIte] at h
    have hs : m.est.isSome = true := by
      cases hm : m.est with
      | none => exact absurd (hinv.mpr hm) hreq
      | some t => rfl
    obtain ⟨a1, a2, a3⟩ := aux_trace_closeQuantiles e { m with duration := (m.latest.getD 0) - (m.earliest.getD 0), rateNormalised := decide ((m.latest.getD 0) - (m.earliest.getD 0) > 0) } m1 hs h
    simp only [hs, ↓reduceIte]
    exact ⟨a1, a2, a3⟩

/-- **(refinement: every sample reaches the estimator exactly once, in nanoseconds, in order)** For every
call sequence that runs, the estimator of the final Metrics state is what the estimator-level trace
`estTrace` produces from nothing: one `Add(float64(latency), 1)` per `Metrics.Add`, in arrival order, and
`process()` calls for the queries — no other operation, no batching, no unit change, no re-feeding. -/
theorem aux_trace_runFrom (e : Env F) (ops : List (Op F)) : ∀ (m m' : MS F) (os : List (Obs F)),
    (m.requests = 0 ↔ m.est = none) → runFrom e m ops = .ok (m', os) →
    runEst e m.est (estTrace e.ladder.length m.est.isSome ops) = .ok m'.est := by
  induction ops with
  | nil =>
    intro m m' os _ h
    simp only [runFrom, Outcome.ok.injEq, Prod.mk.injEq] at h
    obtain ⟨h1, _⟩ := h; subst h1; rfl
  | cons op ops ih =>
    intro m m' os hinv h
    simp only [runFrom] at h
    cases hs : step e m op with
    | ok x =>
      obtain ⟨m1, o⟩ := x
      rw [hs] at h; simp only at h
      cases hr : runFrom e m1 ops with
      | ok y =>
        obtain ⟨m2, os'⟩ := y
        rw [hr] at h
        simp only [Outcome.ok.injEq, Prod.mk.injEq] at h
        obtain ⟨h1, _⟩ := h; subst h1
        cases op with
        | add l ts =>
          simp only [step] at hs
          cases ha : msAdd e m l ts with
          | ok m1a =>
            rw [ha] at hs; simp only [Outcome.ok.injEq, Prod.mk.injEq] at hs
            obtain ⟨hs1, _⟩ := hs; subst hs1
            obtain ⟨a1, a2, a3⟩ := aux_trace_add e m m1a l ts ha
            have hinv1 : m1a.requests = 0 ↔ m1a.est = none := by
              constructor
              · intro h0; omega
              · intro hn; rw [hn] at a3; cases a3
            have := ih m1a m2 os' hinv1 hr
            rw [a3] at this
            simp only [estTrace]
            have happ := aux_runEst_append e [EstOp.add (QOps.ofInt l)] (estTrace e.ladder.length true ops) m.est m1a.est a1
            simp only [List.singleton_append] at happ
            rw [happ]; exact this
          | error c => rw [ha] at hs; cases hs
          | panic => rw [ha] at hs; cases hs
        | close =>
          simp only [step] at hs
          cases hc : msClose e m with
          | ok m1a =>
            rw [hc] at hs; simp only [Outcome.ok.injEq, Prod.mk.injEq] at hs
            obtain ⟨hs1, _⟩ := hs; subst hs1
            obtain ⟨a1, a2, a3⟩ := aux_trace_close e m m1a hinv hc
            have hinv1 : m1a.requests = 0 ↔ m1a.est = none := by
              rw [a2, hinv]
              cases h1 : m1a.est <;> cases h2 : m.est <;> simp_all
            have := ih m1a m2 os' hinv1 hr
            rw [a3] at this
            simp only [estTrace]
            rw [aux_runEst_append e _ _ _ _ a1]; exact this
          | error c => rw [hc] at hs; cases hs
          | panic => rw [hc] at hs; cases hs
        | quantile q =>
          simp only [step] at hs
          cases hq : lmQuantile e m q with
          | ok z =>
            obtain ⟨m1a, d⟩ := z
            rw [hq] at hs; simp only [Outcome.ok.injEq, Prod.mk.injEq] at hs
            obtain ⟨hs1, _⟩ := hs; subst hs1
            obtain ⟨a1, a2, a3⟩ := aux_trace_quantile e m m1a q d hq
            have hinv1 : m1a.requests = 0 ↔ m1a.est = none := by
              rw [a2, hinv]
              cases h1 : m1a.est <;> cases h2 : m.est <;> simp_all
            have := ih m1a m2 os' hinv1 hr
            rw [a3] at this
            simp only [estTrace]
            rw [aux_runEst_append e _ _ _ _ a1]; exact this
          | error c => rw [hq] at hs; cases hs
          | panic => rw [hq] at hs; cases hs
        | hdr =>
          simp only [step] at hs
          cases hh : hdrReport e m with
          | ok z =>
            obtain ⟨m1a, rs⟩ := z
            rw [hh] at hs; simp only [Outcome.ok.injEq, Prod.mk.injEq] at hs
            obtain ⟨hs1, _⟩ := hs; subst hs1
            unfold hdrReport at hh
            obtain ⟨a1, a2, a3⟩ := aux_trace_rows e _ m m1a rs hh
            simp only [List.length_map] at a1
            have hinv1 : m1a.requests = 0 ↔ m1a.est = none := by
              rw [a2, hinv]
              cases h1 : m1a.est <;> cases h2 : m.est <;> simp_all
            have := ih m1a m2 os' hinv1 hr
            rw [a3] at this
            simp only [estTrace]
            rw [aux_runEst_append e _ _ _ _ a1]; exact this
          | error c => rw [hh] at hs; cases hs
          | panic => rw [hh] at hs; cases hs
      | error c => rw [hr] at h; cases h
      | panic => rw [hr] at h; cases h
    | error c => rw [hs] at h; cases h
    | panic => rw [hs] at h; cases h

theorem seq_estimator_sees_each_sample_once (e : Env F) (ops : List (Op F)) (m : MS F) (os : List (Obs F))
    (h : run e ops = .ok (m, os)) :
    runEst e none (estTrace e.ladder.length false ops) = .ok m.est :=
  aux_trace_runFrom e ops MS.init m os (by simp [MS.init]) h

end trace2

/-! ### what queries change, and what they do not -/

section purity
variable {F : Type} [QOps F]

/-- a `Quantile` call changes no field but the estimator -/
theorem quantile_touches_only_the_estimator (e : Env F) (m m1 : MS F) (q : F) (d : Int) (h : lmQuantile e m q = .ok (m1, d)) :
    m1 = { m with est := m1.est } := by
  unfold lmQuantile at h
  cases hm : m.est with
  | none =>
    rw [hm] at h; simp only [Outcome.ok.injEq, Prod.mk.injEq] at h
    obtain ⟨h1, _⟩ := h; subst h1; cases m; simp_all
  | some t =>
    rw [hm] at h; simp only at h
    cases hq : quantileTD e.lim e.sortBy t q with
    | ok x =>
      obtain ⟨t', r⟩ := x
      rw [hq] at h; simp only [Outcome.ok.injEq, Prod.mk.injEq] at h
      obtain ⟨h1, _⟩ := h; subst h1; rfl
    | error c => rw [hq] at h; cases h
    | panic => rw [hq] at h; cases h

/-- an HDR report changes no field but the estimator -/
theorem hdr_touches_only_the_estimator (e : Env F) (m m1 : MS F) (rs : List (HdrRow F)) (h : hdrReport e m = .ok (m1, rs)) :
    m1 = { m with est := m1.est } := by
  unfold hdrReport at h
  generalize (e.ladder.map fun x => match x with | (n, dn) => (lit n dn : F)) = qs at h
  induction qs generalizing m m1 rs with
  | nil =>
    simp only [hdrRowsSeq, Outcome.ok.injEq, Prod.mk.injEq] at h
    obtain ⟨h1, _⟩ := h; subst h1; cases m; rfl
  | cons q qs ih =>
    simp only [hdrRowsSeq] at h
    cases hq : lmQuantile e m q with
    | ok x =>
      obtain ⟨m2, d⟩ := x
      rw [hq] at h; simp only at h
      cases hr : hdrRowsSeq e m2 qs with
      | ok y =>
        obtain ⟨m3, rs'⟩ := y
        rw [hr] at h
        simp only [Outcome.ok.injEq, Prod.mk.injEq] at h
        obtain ⟨h1, _⟩ := h; subst h1
        have a := quantile_touches_only_the_estimator e m m2 q d hq
        have b := ih m2 m3 rs' hr
        rw [b, a]
      | error c => rw [hr] at h; cases h
      | panic => rw [hr] at h; cases h
    | error c => rw [hq] at h; cases h
    | panic => rw [hq] at h; cases h

end purity

def cexEnv : Env F64 :=
  { cfg := ⟨10, 100, F64.ofNat 1000, F64.ofInt (-1000)⟩,
    lim := ⟨fun _ => F64.ofNat 2, fun soFar _ => F64.add soFar (F64.ofNat 2)⟩,   -- at most weight 2 per centroid
    sortBy := sortByMean, trunc := F64.toInt64, ladder := [(0, 1), (1, 2), (1, 1)] }

def lastClosed : Outcome (MS F64 × List (Obs F64)) → Option (List Int)
  | .ok (_, os) => match os.getLast? with
    | some (.closed a b c d e f) => some [a, b, c, d, e, f]
    | _ => none
  | _ => none

/-- **Queries are NOT observationally pure** (and this is the code's behaviour, not the model's): a
`Quantile` call compacts the pending samples, and centroids never split again, so deleting a query from
a history can change later answers.  Latencies 1, 3, 2 (SoftF64; a limit function allowing weight 2 per
centroid): without the intermediate `Quantile` the final Close reports P90 = P95 = P99 = 3; with it, 1 and
3 were merged into the centroid (2, w 2) before 2 arrived, the digest's `max` became the MEAN 2, and the
same Close reports P90 = P95 = P99 = 2 — below the reported `Max` = 3.  What IS invariant under queries is
`seq_invariant` (count, range of means, `min`/`max` bounds, sortedness) and everything that follows from it
(`seq_close_after_any_history`, `seq_hdr_after_any_history`). -/
theorem queries_change_later_answers :
    lastClosed (run cexEnv [.add 1 0, .add 3 1, .add 2 2, .close]) = some [1, 2, 3, 3, 3, 3] ∧
    lastClosed (run cexEnv [.add 1 0, .add 3 1, .quantile (lit 1 2), .add 2 2, .close]) = some [1, 2, 2, 2, 2, 3] ∧
    addsOnly ([.add 1 0, .add 3 1, .quantile (lit 1 2), .add 2 2, .close] : List (Op F64)) =
      addsOnly ([.add 1 0, .add 3 1, .add 2 2, .close] : List (Op F64)) := by
  refine ⟨by decide +kernel, by decide +kernel, rfl⟩

/-! ### few samples: the ordering clause needs no side condition -/

section count
variable {F : Type} [QOps F]

theorem aux_merge_length (next : F → F → F) (W : F) : ∀ (rest acc : List (Centroid F)) (cur : Centroid F) (soFar limit : F),
    (mergeLoop next W acc cur soFar limit rest).length ≤ acc.length + 1 + rest.length := by
  intro rest
  induction rest with
  | nil => intro acc cur _ _; simp [mergeLoop]
  | cons c rest ih =>
    intro acc cur soFar limit
    simp only [mergeLoop]
    split
    · have := ih acc (centroidAdd cur c) (QOps.add soFar c.weight) limit
      simp only [List.length_cons]; omega
    · have := ih (cur :: acc) c (QOps.add soFar c.weight) (next soFar W)
      simp only [List.length_cons] at this ⊢; omega

def centroidCount (o : Option (TD F)) : Nat :=
  match o with
  | none => 0
  | some t => t.processed.length + t.unprocessed.length

theorem aux_process_count (lim : Lim F) (sortBy : List (Centroid F) → List (Centroid F))
    (hlen : ∀ l, (sortBy l).length = l.length) (t t' : TD F) (h : process lim sortBy t = .ok t') :
    t'.processed.length + t'.unprocessed.length ≤ t.processed.length + t.unprocessed.length := by
  unfold process at h
  split at h
  · cases hall : sortBy (t.unprocessed ++ t.processed) with
    | nil => rw [hall] at h; cases h
    | cons c0 rest =>
      rw [hall] at h
      simp only at h
      have hl := hlen (t.unprocessed ++ t.processed)
      rw [hall] at hl
      simp only [List.length_cons, List.length_append] at hl
      have hm := aux_merge_length lim.next (QOps.add t.processedWeight t.unprocessedWeight) rest [] c0 c0.weight
        (lim.init (QOps.add t.processedWeight t.unprocessedWeight))
      generalize mergeLoop lim.next (QOps.add t.processedWeight t.unprocessedWeight) [] c0 c0.weight
        (lim.init (QOps.add t.processedWeight t.unprocessedWeight)) rest = out at h hm
      split at h
      · simp only [Outcome.ok.injEq] at h
        subst h
        simp only [List.length_nil] at hm ⊢
        omega
      · cases h
  · simp only [Outcome.ok.injEq] at h; subst h; exact Nat.le_refl _

theorem aux_runEst_count (e : Env F) (hlen : ∀ l, (e.sortBy l).length = l.length) (tr : List (EstOp F)) :
    ∀ (o o' : Option (TD F)), runEst e o tr = .ok o' →
    centroidCount o' ≤ centroidCount o + (tr.filter (fun x => match x with | .add _ => true | .process => false)).length := by
  induction tr with
  | nil => intro o o' h; simp only [runEst, Outcome.ok.injEq] at h; subst h; simp
  | cons x tr ih =>
    intro o o' h
    cases x with
    | add v =>
      simp only [runEst] at h
      cases ha : Vegeta.Model.TDigestMerge.add e.lim e.sortBy (estOrNew e o) v (QOps.ofNat 1) with
      | ok t =>
        rw [ha] at h; simp only at h
        have := ih (some t) o' h
        have hct : ∀ u : TD F, centroidCount (some u) = u.processed.length + u.unprocessed.length := fun _ => rfl
        have hc : centroidCount (some t) ≤ centroidCount o + 1 := by
          have h0 : (estOrNew e o).processed.length + (estOrNew e o).unprocessed.length = centroidCount o := by
            cases o <;> simp [estOrNew, centroidCount, TD.init]
          rw [hct, ← h0]
          unfold Vegeta.Model.TDigestMerge.add at ha
          split at ha
          · simp only [Outcome.ok.injEq] at ha; subst ha; omega
          · simp only at ha
            split at ha
            · have := aux_process_count e.lim e.sortBy hlen _ t ha
              simp only [List.length_append, List.length_singleton] at this
              omega
            · simp only [Outcome.ok.injEq] at ha; subst ha
              simp only [List.length_append, List.length_singleton]; omega
        simp only [List.filter_cons, ↓reduceIte, List.length_cons]
        omega
      | error c => rw [ha] at h; cases h
      | panic => rw [ha] at h; cases h
    | process =>
      cases o with
      | none =>
        simp only [runEst] at h
        have := ih none o' h
        simpa [List.filter_cons] using this
      | some t =>
        simp only [runEst] at h
        cases hp : process e.lim e.sortBy t with
        | ok t' =>
          rw [hp] at h; simp only at h
          have := ih (some t') o' h
          have hc := aux_process_count e.lim e.sortBy hlen t t' hp
          have hct : ∀ u : TD F, centroidCount (some u) = u.processed.length + u.unprocessed.length := fun _ => rfl
          rw [hct] at this ⊢
          simp only [List.filter_cons, Bool.false_eq_true, ↓reduceIte]
          omega
        | error c => rw [hp] at h; cases h
        | panic => rw [hp] at h; cases h

theorem aux_trace_adds (n : Nat) (ops : List (Op F)) : ∀ has : Bool,
    ((estTrace n has ops).filter (fun x => match x with | .add _ => true | .process => false)).length = (added ops).length := by
  induction ops with
  | nil => intro has; simp [estTrace, added]
  | cons op ops ih =>
    intro has
    cases op with
    | add l ts => simp [estTrace, added, ih true]
    | close => by_cases h : has <;> simp [estTrace, added, h, ih, List.filter_append, List.filter_replicate]
    | quantile q => by_cases h : has <;> simp [estTrace, added, h, ih, List.filter_append]
    | hdr => by_cases h : has <;> simp [estTrace, added, h, ih, List.filter_append, List.filter_replicate]

end count

/-- **With at most `maxProcessed` samples the side condition of the ordering clause holds by itself**:
the digest never holds more centroids than samples were added, so after any history with at most
`maxProcessed` (= 200) Adds the next `process()` leaves at most `maxProcessed` centroids. -/
theorem stable_when_few_samples (e : Env K) (he : EnvOK e) (ops : List (Op K)) (hok : OpsOK e ops)
    (hfew : (added ops).length ≤ e.cfg.maxP) (m : MS K) (os : List (Obs K)) (hrun : run e ops = .ok (m, os)) :
    StableNext e m := by
  intro t t1 ht hp
  obtain ⟨m', os', hrun', hg, _⟩ := seq_invariant e he ops hok
  rw [hrun] at hrun'
  simp only [Outcome.ok.injEq, Prod.mk.injEq] at hrun'
  obtain ⟨hm, _⟩ := hrun'
  subst hm
  have hlen : ∀ l, (e.sortBy l).length = l.length := fun l => (he.sort.perm l).length_eq
  have htr := seq_estimator_sees_each_sample_once e ops m os hrun
  have hcnt := aux_runEst_count e hlen _ none m.est htr
  rw [aux_trace_adds, ht] at hcnt
  simp only [centroidCount, Nat.zero_add] at hcnt
  have hpc := aux_process_count e.lim e.sortBy hlen t t1 hp
  obtain ⟨hinv, hP, _⟩ := hg.inv t ht
  obtain ⟨_, hp2, _, _, hP', _, _⟩ := process_preserves_invariant e.lim e.sortBy he.sort e.cfg.hi e.cfg.lo _ t hinv
  rw [hp] at hp2; cases hp2
  rw [hP', hP]
  omega

/-! ### non-vacuity of the sequence theorems -/

/-- an environment over ℚ meeting `EnvOK`: vegeta's configuration (200 / 800), the ladder regenerated
from the source, `⌊·⌋` as the conversion, merge sort, and some limit function -/
def exEnv : Env ℚ :=
  { cfg := ⟨200, 800, 10 ^ 30, -10 ^ 30⟩, lim := ⟨fun W => W / 100, fun soFar W => soFar + W / 50⟩,
    sortBy := fun l => l.mergeSort (fun a b => decide (a.mean ≤ b.mean)),
    trunc := fun x => ⌊x⌋, ladder := Vegeta.Extracted.c11_ladder }

example : EnvOK exEnv :=
  ⟨sortSpec_mergeSort, fun _ _ h => Int.floor_mono h, fun i => Int.floor_intCast i, ladder_sorted.1⟩

/-- a history with intermediate Close, HDR report and Quantile calls satisfies `OpsOK`, adds something,
and (three samples ≤ 200) meets the side condition of the ordering clause at its end -/
example :
    let ops : List (Op ℚ) := [.add 5 0, .close, .add 3 1, .hdr, .quantile (1 / 2), .add 5 1, .close]
    OpsOK exEnv ops ∧ added ops ≠ [] ∧ exEnv.ladder ≠ [] ∧
    ∃ m os, run exEnv ops = .ok (m, os) ∧ StableNext exEnv m := by
  have hok : OpsOK exEnv [.add 5 0, .close, .add 3 1, .hdr, .quantile (1 / 2), .add 5 1, .close] := by
    intro op hop
    simp only [List.mem_cons, List.mem_nil_iff, or_false] at hop
    rcases hop with h | h | h | h | h | h | h <;> subst h <;> simp only [OpOK, exEnv] <;> norm_num
  have hE : EnvOK exEnv := ⟨sortSpec_mergeSort, fun _ _ h => Int.floor_mono h, fun i => Int.floor_intCast i, ladder_sorted.1⟩
  refine ⟨hok, by simp [added], by simp [exEnv, Vegeta.Extracted.c11_ladder], ?_⟩
  obtain ⟨m, os, hrun, _, _⟩ := seq_invariant exEnv hE _ hok
  exact ⟨m, os, hrun, stable_when_few_samples exEnv hE _ hok (by simp [added, exEnv]) m os hrun⟩

/-- `close_percentiles_whatever_the_duration` / `hdr_report_pure`: states with an estimator and a request
exist, settled ones too (one centroid, nothing pending) -/
example : ∃ (m : MS ℚ) (t : TD ℚ), m.requests ≠ 0 ∧ m.est = some t ∧ Settled t :=
  ⟨{ (MS.init : MS ℚ) with requests := 1, est := some ⟨[⟨5, 1⟩], [], 1, 0, 5, 5, 200, 800⟩ }, _, by simp, rfl, rfl, by simp⟩

end Vegeta.Props.C11
