/-
C11 — Latency percentiles are ordered and within a bounded rank error.

The model (Model/Quantile.lean) is generic over the arithmetic.  Here it is instantiated with an
arbitrary linearly ordered field `K` (exact arithmetic: ℚ, ℝ, …) and the ordering clauses are proved
for EVERY centroid list the (unmodelled) compression pass may have produced, constrained only by
`Valid`: sorted means, positive weights, `processedWeight` = sum of the weights, means in [min, max].

Proved:  quantile_in_min_max, quantile_monotone_in_q, percentiles_ordered, all_equal_exact,
all_equal_percentiles, all_equal_exact_any_arithmetic (any arithmetic with two stated laws),
clamp_float64, interp_float64, all_equal_exact_float64 (the two laws and the clause for SoftF64 itself),
ladder_sorted (on the regenerated table), hdr_rows_nondecreasing, hdr_report_nondecreasing.
Compression pass (Model/TDigestMerge.lean; limit function and sort as parameters): add_preserves_invariant,
process_preserves_invariant, process_preserves_valid (so `Valid` is a theorem, not an assumption), and
end to end over latency sequences: e2e_quantile_in_sample_range, e2e_percentiles_in_range,
e2e_percentiles_ordered (needs: ≤ maxProcessed centroids after the first process), e2e_all_equal.
NOT proved (and false of the unchanged code, see the harness's `tdigest_rank_error` finding): the
rank-error clause "each reported percentile lies between two observed latencies whose ranks are within
1 + 1% of n of q·n" — a numerical property of the third-party compression pass (sin/asin), which is a
parameter here.
-/
import Vegeta.Model.Quantile
import Vegeta.Model.TDigestMerge
import Vegeta.Proofs.QuantileF64
import Vegeta.Extracted.Facts
import Mathlib.Tactic.Linarith
import Mathlib.Tactic.Positivity
import Mathlib.Tactic.Ring
import Mathlib.Tactic.FieldSimp
import Mathlib.Algebra.Order.Field.Basic
import Mathlib.Data.Rat.Floor
namespace Vegeta.Props.C11
open Vegeta.Go Vegeta.Model.Quantile Vegeta.Model.TDigestMerge

set_option linter.unusedSectionVars false
set_option linter.unusedSimpArgs false

variable {K : Type} [Field K] [LinearOrder K] [IsStrictOrderedRing K]

instance exactOps : QOps K where
  add a b := a + b
  sub a b := a - b
  mul a b := a * b
  div a b := a / b
  le a b := decide (a ≤ b)
  lt a b := decide (a < b)
  ofNat n := (n : K)
  ofInt i := (i : K)
  nan := 0
  fmax := max
  fmin := min

@[simp] theorem aux_ops_add (a b : K) : QOps.add a b = a + b := rfl
@[simp] theorem aux_ops_sub (a b : K) : QOps.sub a b = a - b := rfl
@[simp] theorem aux_ops_mul (a b : K) : QOps.mul a b = a * b := rfl
@[simp] theorem aux_ops_div (a b : K) : QOps.div a b = a / b := rfl
@[simp] theorem aux_ops_le (a b : K) : QOps.le a b = decide (a ≤ b) := rfl
@[simp] theorem aux_ops_lt (a b : K) : QOps.lt a b = decide (a < b) := rfl
@[simp] theorem aux_ops_ofNat (n : Nat) : (QOps.ofNat n : K) = (n : K) := rfl
@[simp] theorem aux_ops_ofInt (n : Int) : (QOps.ofInt n : K) = (n : K) := rfl
@[simp] theorem aux_ops_fmax (a b : K) : QOps.fmax a b = max a b := rfl
@[simp] theorem aux_ops_fmin (a b : K) : QOps.fmin a b = min a b := rfl

/-- weight of the first `i` centroids -/
def pre (cs : List (Centroid K)) (i : Nat) : K := ((cs.take i).map (·.weight)).sum

/-- the cumulative table as a function: centre of centroid `i`, total weight at `i = length` -/
def Cf (cs : List (Centroid K)) (i : Nat) : K :=
  pre cs i + (match cs[i]? with | some c => c.weight / 2 | none => 0)

theorem aux_cumFrom_get (cs : List (Centroid K)) : ∀ (p : K) (i : Nat),
    (cumulativeFrom p cs)[i]? = if i ≤ cs.length then some (p + Cf cs i) else none := by
  induction cs with
  | nil =>
    intro p i
    cases i with
    | zero => simp [cumulativeFrom, Cf, pre]
    | succ i => simp [cumulativeFrom]
  | cons c cs ih =>
    intro p i
    cases i with
    | zero => simp [cumulativeFrom, Cf, pre]
    | succ i =>
      simp only [cumulativeFrom, List.getElem?_cons_succ, ih, List.length_cons, Nat.add_le_add_iff_right]
      split
      · simp only [Cf, pre, List.take_succ_cons, List.map_cons, List.sum_cons, List.getElem?_cons_succ, aux_ops_add]
        congr 1; ring
      · rfl

theorem aux_cum_length (cs : List (Centroid K)) : ∀ p : K, (cumulativeFrom p cs).length = cs.length + 1 := by
  induction cs with
  | nil => intro p; simp [cumulativeFrom]
  | cons c cs ih => intro p; simp [cumulativeFrom, ih]

theorem aux_cum_get (cs : List (Centroid K)) (i : Nat) :
    (cumulative cs)[i]? = if i ≤ cs.length then some (Cf cs i) else none := by
  unfold cumulative
  rw [aux_cumFrom_get]
  simp

theorem aux_pre_succ (cs : List (Centroid K)) (i : Nat) (c : Centroid K) (h : cs[i]? = some c) :
    pre cs (i+1) = pre cs i + c.weight := by
  unfold pre
  have hi : i < cs.length := by
    rcases Nat.lt_or_ge i cs.length with h' | h'
    · exact h'
    · rw [List.getElem?_eq_none h'] at h; cases h
  rw [List.take_succ_eq_append_getElem hi]
  have : cs[i] = c := by
    rw [List.getElem?_eq_getElem hi] at h; exact Option.some.inj h
  simp [this]

theorem aux_pre_mono (cs : List (Centroid K)) (hw : ∀ c ∈ cs, 0 < c.weight) (i j : Nat) (hij : i ≤ j) :
    pre cs i ≤ pre cs j := by
  induction j with
  | zero => have : i = 0 := by omega
            subst this; exact le_refl _
  | succ j ih =>
    rcases Nat.lt_or_ge i (j+1) with h | h
    · have h1 := ih (by omega)
      rcases Nat.lt_or_ge j cs.length with hj | hj
      · have hg : cs[j]? = some cs[j] := List.getElem?_eq_getElem hj
        rw [aux_pre_succ cs j _ hg]
        have := hw cs[j] (List.getElem_mem hj)
        linarith
      · have : pre cs (j+1) = pre cs j := by
          unfold pre; rw [List.take_of_length_le (by omega), List.take_of_length_le hj]
        rw [this]; exact h1
    · have : i = j+1 := by omega
      subst this; exact le_refl _

/-- the table is strictly increasing (weights are positive) -/
theorem aux_Cf_strict (cs : List (Centroid K)) (hw : ∀ c ∈ cs, 0 < c.weight) (i j : Nat) (hij : i < j) (hj : j ≤ cs.length) :
    Cf cs i < Cf cs j := by
  have hi : i < cs.length := by omega
  have hg : cs[i]? = some cs[i] := List.getElem?_eq_getElem hi
  have hwi := hw cs[i] (List.getElem_mem hi)
  have h1 : Cf cs i < pre cs (i+1) := by
    rw [aux_pre_succ cs i _ hg]; unfold Cf; rw [hg]; simp only; linarith
  have h2 : pre cs (i+1) ≤ pre cs j := aux_pre_mono cs hw _ _ (by omega)
  have h3 : pre cs j ≤ Cf cs j := by
    unfold Cf
    cases hc : cs[j]? with
    | none => simp
    | some c =>
      have := hw c (List.mem_of_getElem? hc)
      simp only; linarith
  linarith
theorem aux_searchLoop_spec (f : Nat → Bool) (n : Nat) : ∀ (fuel i j : Nat), i ≤ j → j ≤ n → j - i < fuel →
    (0 < i → f (i-1) = false) → (j < n → f j = true) →
    let l := searchLoop f fuel i j
    l ≤ n ∧ (0 < l → f (l-1) = false) ∧ (l < n → f l = true) := by
  intro fuel
  induction fuel with
  | zero => intro i j _ _ h; omega
  | succ fuel ih =>
    intro i j hij hjn hf hi hj
    simp only [searchLoop]
    by_cases hlt : i < j
    · simp only [hlt, ↓reduceIte]
      by_cases hfh : f ((i + j) / 2) = true
      · simp only [hfh, Bool.not_true, Bool.false_eq_true, ↓reduceIte]
        exact ih i ((i+j)/2) (by omega) (by omega) (by omega) hi (fun _ => hfh)
      · simp only [Bool.not_eq_true] at hfh
        simp only [hfh, Bool.not_false, ↓reduceIte]
        exact ih ((i+j)/2+1) j (by omega) hjn (by omega) (fun _ => by simpa using hfh) hj
    · simp only [hlt, ↓reduceIte]
      have : i = j := by omega
      subst this
      exact ⟨hjn, hi, hj⟩

structure Valid (d : Digest K) : Prop where
  nonempty : d.processed ≠ []
  sorted : d.processed.Pairwise (fun a b => a.mean ≤ b.mean)
  wpos : ∀ c ∈ d.processed, 0 < c.weight
  total : d.processedWeight = ((d.processed.map (·.weight)).sum)
  lo : ∀ c ∈ d.processed, d.min ≤ c.mean
  hi : ∀ c ∈ d.processed, c.mean ≤ d.max

/-- Which branch of `Quantile` produced `r` -/
inductive Seg (d : Digest K) (q r : K) : Prop
  | single (c : Centroid K) (h : d.processed = [c]) (hr : r = c.mean)
  | head (c0 : Centroid K) (h2 : 2 ≤ d.processed.length) (h0 : d.processed[0]? = some c0)
      (hi : q * d.processedWeight ≤ c0.weight / 2)
      (hr : r = d.min + 2 * (q * d.processedWeight) / c0.weight * (c0.mean - d.min))
  | mid (l : Nat) (a b : Centroid K) (h2 : 2 ≤ d.processed.length) (hl : 1 ≤ l) (hln : l < d.processed.length)
      (ha : d.processed[l-1]? = some a) (hb : d.processed[l]? = some b)
      (hlo : Cf d.processed (l-1) < q * d.processedWeight) (hhi : q * d.processedWeight ≤ Cf d.processed l)
      (hr : r = weightedAverage a.mean (Cf d.processed l - q * d.processedWeight) b.mean (q * d.processedWeight - Cf d.processed (l-1)))
  | tail (a : Centroid K) (h2 : 2 ≤ d.processed.length) (ha : d.processed[d.processed.length - 1]? = some a)
      (hlo : Cf d.processed (d.processed.length - 1) < q * d.processedWeight) (hhi : q * d.processedWeight ≤ d.processedWeight)
      (hr : r = weightedAverage a.mean (q * d.processedWeight - d.processedWeight - a.weight / 2) d.max
                  (a.weight / 2 - (q * d.processedWeight - d.processedWeight - a.weight / 2)))

theorem aux_pre_length (cs : List (Centroid K)) : pre cs cs.length = (cs.map (·.weight)).sum := by
  unfold pre; rw [List.take_length]

theorem aux_Cf_length (cs : List (Centroid K)) : Cf cs cs.length = (cs.map (·.weight)).sum := by
  unfold Cf; rw [aux_pre_length]; simp

theorem aux_total_nonneg (cs : List (Centroid K)) (hw : ∀ c ∈ cs, 0 < c.weight) : 0 ≤ (cs.map (·.weight)).sum := by
  rw [← aux_pre_length]
  have := aux_pre_mono cs hw 0 cs.length (by omega)
  simpa [pre] using this

theorem aux_quantile_spec (d : Digest K) (hv : Valid d) (q : K) (h0 : 0 ≤ q) (h1 : q ≤ 1) :
    ∃ r, quantile d q = .ok r ∧ Seg d q r := by
  obtain ⟨cs, W, mn, mx⟩ := d
  obtain ⟨hne, hsorted, hw, htot, hlo, hhi⟩ := hv
  simp only at hne hsorted hw htot hlo hhi
  have hW0 : 0 ≤ W := by rw [htot]; exact aux_total_nonneg cs hw
  have hidx : q * W ≤ W := by nlinarith
  unfold quantile quantileCum
  have hq0 : ¬ (q < ((0:Nat):K)) := by simpa using h0
  have hq1 : ¬ (((1:Nat):K) < q) := by simpa using h1
  simp only [aux_ops_lt, aux_ops_ofNat, hq0, hq1, decide_false, Bool.or_self, Bool.false_eq_true, ↓reduceIte]
  match cs, hne, hsorted, hw, htot, hlo, hhi with
  | [], hne, _, _, _, _, _ => exact absurd rfl hne
  | [c], _, _, _, _, _, _ => exact ⟨c.mean, rfl, Seg.single c rfl rfl⟩
  | c0 :: c1 :: rest, _, hsorted, hw, htot, hlo, hhi =>
    simp only [aux_ops_mul, aux_ops_div, aux_ops_le, aux_ops_ofNat, aux_ops_add, aux_ops_sub]
    by_cases hA : q * W ≤ c0.weight / ((2:Nat):K)
    · simp only [hA, decide_true, ↓reduceIte]
      refine ⟨_, rfl, Seg.head c0 (by simp) (by simp) (by simpa using hA) (by simp)⟩
    · simp only [hA, decide_false, Bool.false_eq_true, ↓reduceIte]
      have hn2 : 2 ≤ (c0 :: c1 :: rest).length := by simp
      have hc0 : (c0 :: c1 :: rest)[0]? = some c0 := by simp
      generalize c0 :: c1 :: rest = cs' at *
      have hlen : (cumulative cs').length = cs'.length + 1 := aux_cum_length _ _
      have hf : geAt (cumulative cs') (q * W) = fun i => decide (i ≤ cs'.length ∧ q * W ≤ Cf cs' i) := by
        funext i
        unfold geAt
        rw [aux_cum_get]
        by_cases hi : i ≤ cs'.length <;> simp [hi]
      rw [hf, hlen]
      have hs := aux_searchLoop_spec (fun i => decide (i ≤ cs'.length ∧ q * W ≤ Cf cs' i)) (cs'.length + 1)
        (cs'.length + 1 + 1) 0 (cs'.length + 1) (by omega) (by omega) (by omega) (by omega) (by omega)
      have hss : sortSearch (cs'.length + 1) (fun i => decide (i ≤ cs'.length ∧ q * W ≤ Cf cs' i)) =
          searchLoop (fun i => decide (i ≤ cs'.length ∧ q * W ≤ Cf cs' i)) (cs'.length + 1 + 1) 0 (cs'.length + 1) := rfl
      rw [hss]
      generalize searchLoop (fun i => decide (i ≤ cs'.length ∧ q * W ≤ Cf cs' i)) (cs'.length + 1 + 1) 0 (cs'.length + 1) = l at hs ⊢
      obtain ⟨hl1, hl2, hl3⟩ := hs
      have hCf0 : Cf cs' 0 = c0.weight / 2 := by simp [Cf, pre, hc0]
      have hl0 : l ≠ 0 := by
        intro h; subst h
        have := hl3 (by omega)
        simp only [decide_eq_true_eq] at this
        rw [hCf0] at this
        exact hA (by simpa using this.2)
      have hln : l ≠ cs'.length + 1 := by
        intro h; subst h
        have := hl2 (by omega)
        simp only [Nat.add_sub_cancel, decide_eq_false_iff_not, not_and, not_le] at this
        have := this (le_refl _)
        rw [aux_Cf_length, ← htot] at this
        linarith
      have hlo' : Cf cs' (l-1) < q * W := by
        have := hl2 (by omega)
        simp only [decide_eq_false_iff_not, not_and, not_le] at this
        exact this (by omega)
      have hhi' : q * W ≤ Cf cs' l := by
        have := hl3 (by omega)
        simp only [decide_eq_true_eq] at this
        exact this.2
      by_cases hlast : l + 1 ≠ cs'.length + 1
      · simp only [hlast, ne_eq, not_false_eq_true, ↓reduceIte, hl0]
        have hl_lt : l < cs'.length := by omega
        have e1 : (cumulative cs')[l-1]? = some (Cf cs' (l-1)) := by rw [aux_cum_get]; simp; omega
        have e2 : (cumulative cs')[l]? = some (Cf cs' l) := by rw [aux_cum_get]; simp; omega
        have e3 : cs'[l-1]? = some cs'[l-1] := List.getElem?_eq_getElem (by omega)
        have e4 : cs'[l]? = some cs'[l] := List.getElem?_eq_getElem hl_lt
        rw [e1, e2, e3, e4]
        exact ⟨_, rfl, Seg.mid l _ _ hn2 (by omega) hl_lt e3 e4 hlo' hhi' rfl⟩
      · have hl_eq : l = cs'.length := by omega
        subst hl_eq
        simp only [ne_eq, not_true_eq_false, ↓reduceIte]
        have e3 : cs'[cs'.length-1]? = some (cs'[cs'.length-1]'(by omega)) := List.getElem?_eq_getElem (by omega)
        have e5 : cs'.getLast? = some (cs'[cs'.length-1]'(by omega)) := by rw [List.getLast?_eq_getElem?, e3]
        rw [e3, e5]
        exact ⟨_, rfl, Seg.tail _ hn2 e3 hlo' hidx (by simp)⟩

theorem aux_wa_between (x1 w1 x2 w2 : K) :
    min x1 x2 ≤ weightedAverage x1 w1 x2 w2 ∧ weightedAverage x1 w1 x2 w2 ≤ max x1 x2 := by
  unfold weightedAverage weightedAverageSorted
  simp only [aux_ops_le, aux_ops_fmax, aux_ops_fmin, decide_eq_true_eq]
  by_cases h : x1 ≤ x2
  · simp only [h, ↓reduceIte, min_eq_left, max_eq_right]
    exact ⟨le_max_left _ _, max_le h (min_le_right _ _)⟩
  · have h' : x2 ≤ x1 := le_of_lt (not_le.mp h)
    simp only [h, ↓reduceIte, min_eq_right h', max_eq_left h']
    exact ⟨le_max_left _ _, max_le h' (min_le_right _ _)⟩

theorem aux_Cf_mono (cs : List (Centroid K)) (hw : ∀ c ∈ cs, 0 < c.weight) (i j : Nat) (hij : i ≤ j) (hj : j ≤ cs.length) :
    Cf cs i ≤ Cf cs j := by
  rcases Nat.lt_or_ge i j with h | h
  · exact le_of_lt (aux_Cf_strict cs hw i j h hj)
  · have : i = j := by omega
    subst this; exact le_refl _

theorem aux_sorted_get (cs : List (Centroid K)) (hs : cs.Pairwise (fun a b => a.mean ≤ b.mean)) (i j : Nat) (a b : Centroid K)
    (hi : cs[i]? = some a) (hj : cs[j]? = some b) (hij : i ≤ j) : a.mean ≤ b.mean := by
  rcases Nat.lt_or_ge i j with h | h
  · have hjl : j < cs.length := by
      rcases Nat.lt_or_ge j cs.length with h' | h'
      · exact h'
      · rw [List.getElem?_eq_none h'] at hj; cases hj
    have hil : i < cs.length := by omega
    rw [List.getElem?_eq_getElem hil] at hi
    rw [List.getElem?_eq_getElem hjl] at hj
    cases hi; cases hj
    exact (List.pairwise_iff_getElem.mp hs) i j hil hjl h
  · have : i = j := by omega
    subst this; rw [hi] at hj; cases hj; exact le_refl _

/-- the value of the middle branch lies between the two neighbouring means and grows with the index -/
theorem aux_mid_mono (ma mb cl cu i1 i2 : K) (hm : ma ≤ mb) (hc1 : cl < i1) (h12 : i1 ≤ i2) (hc2 : i2 ≤ cu) :
    weightedAverage ma (cu - i1) mb (i1 - cl) ≤ weightedAverage ma (cu - i2) mb (i2 - cl) := by
  unfold weightedAverage weightedAverageSorted
  simp only [aux_ops_le, aux_ops_fmax, aux_ops_fmin, aux_ops_add, aux_ops_mul, aux_ops_div, decide_eq_true_eq, hm, ↓reduceIte]
  have hD : 0 < cu - cl := by linarith
  have e1 : cu - i1 + (i1 - cl) = cu - cl := by ring
  have e2 : cu - i2 + (i2 - cl) = cu - cl := by ring
  rw [e1, e2]
  apply max_le_max (le_refl _)
  apply min_le_min _ (le_refl _)
  apply div_le_div_of_nonneg_right _ (le_of_lt hD)
  nlinarith [mul_nonneg (sub_nonneg.2 hm) (sub_nonneg.2 h12)]

/-- the tail branch returns `max` (in exact arithmetic): `z1 ≤ 0 < z1 + z2` pushes the raw average
beyond `max`, and the clamp brings it back -/
theorem aux_tail_eq_max (m w idx W mx : K) (hm : m ≤ mx) (hw : 0 < w) (hi : idx ≤ W) :
    weightedAverage m (idx - W - w / 2) mx (w / 2 - (idx - W - w / 2)) = mx := by
  unfold weightedAverage weightedAverageSorted
  simp only [aux_ops_le, aux_ops_fmax, aux_ops_fmin, aux_ops_add, aux_ops_mul, aux_ops_div, decide_eq_true_eq, hm, ↓reduceIte]
  have e : idx - W - w / 2 + (w / 2 - (idx - W - w / 2)) = w / 2 := by ring
  rw [e]
  have hx : mx ≤ (m * (idx - W - w / 2) + mx * (w / 2 - (idx - W - w / 2))) / (w / 2) := by
    rw [le_div_iff₀ (by linarith)]
    nlinarith [mul_nonneg (sub_nonneg.2 hm) (show 0 ≤ -(idx - W - w/2) by linarith)]
  rw [min_eq_right hx, max_eq_right hm]

theorem aux_mem_of_get {cs : List (Centroid K)} {i : Nat} {a : Centroid K} (h : cs[i]? = some a) : a ∈ cs :=
  List.mem_of_getElem? h

theorem aux_seg_bounds (d : Digest K) (hv : Valid d) (q r : K) (h0 : 0 ≤ q) (hs : Seg d q r) :
    d.min ≤ r ∧ r ≤ d.max := by
  have hW0 : 0 ≤ d.processedWeight := by rw [hv.total]; exact aux_total_nonneg _ hv.wpos
  cases hs with
  | single c h hr =>
    have hc : c ∈ d.processed := by rw [h]; simp
    rw [hr]; exact ⟨hv.lo c hc, hv.hi c hc⟩
  | head c0 h2 hc0 hi hr =>
    have hc := aux_mem_of_get hc0
    have hw := hv.wpos c0 hc
    have hlo := hv.lo c0 hc
    have hhi := hv.hi c0 hc
    have hi0 : 0 ≤ q * d.processedWeight := mul_nonneg h0 hW0
    have ht0 : 0 ≤ 2 * (q * d.processedWeight) / c0.weight := by positivity
    have ht1 : 2 * (q * d.processedWeight) / c0.weight ≤ 1 := by
      rw [div_le_one hw]; linarith
    rw [hr]
    constructor
    · nlinarith [mul_nonneg ht0 (sub_nonneg.2 hlo)]
    · nlinarith [mul_nonneg (sub_nonneg.2 ht1) (sub_nonneg.2 hlo)]
  | mid l a b h2 hl hln ha hb hlo hhi hr =>
    have hab := aux_wa_between a.mean (Cf d.processed l - q * d.processedWeight) b.mean (q * d.processedWeight - Cf d.processed (l-1))
    have ha' := aux_mem_of_get ha
    have hb' := aux_mem_of_get hb
    rw [hr]
    exact ⟨le_trans (le_min (hv.lo a ha') (hv.lo b hb')) hab.1, le_trans hab.2 (max_le (hv.hi a ha') (hv.hi b hb'))⟩
  | tail a h2 ha hlo hhi hr =>
    have ha' := aux_mem_of_get ha
    rw [hr, aux_tail_eq_max _ _ _ _ _ (hv.hi a ha') (hv.wpos a ha') hhi]
    exact ⟨le_trans (hv.lo a ha') (hv.hi a ha'), le_refl _⟩

/-- **`min ≤ Quantile(q) ≤ max` for every q ∈ [0,1], whatever the compression pass produced**
(any sorted centroid list with positive weights and means inside `[min, max]`), and the evaluation
never panics. -/
theorem quantile_in_min_max (d : Digest K) (hv : Valid d) (q : K) (h0 : 0 ≤ q) (h1 : q ≤ 1) :
    ∃ r, quantile d q = .ok r ∧ d.min ≤ r ∧ r ≤ d.max := by
  obtain ⟨r, hr, hs⟩ := aux_quantile_spec d hv q h0 h1
  exact ⟨r, hr, aux_seg_bounds d hv q r h0 hs⟩

theorem aux_seg_mono (d : Digest K) (hv : Valid d) (q1 q2 r1 r2 : K) (h0 : 0 ≤ q1) (h12 : q1 ≤ q2)
    (hs1 : Seg d q1 r1) (hs2 : Seg d q2 r2) : r1 ≤ r2 := by
  have hW0 : 0 ≤ d.processedWeight := by rw [hv.total]; exact aux_total_nonneg _ hv.wpos
  have hidx : q1 * d.processedWeight ≤ q2 * d.processedWeight := mul_le_mul_of_nonneg_right h12 hW0
  have hw := hv.wpos
  cases hs1 with
  | single c h hr =>
    cases hs2 with
    | single c' h' hr' => rw [h] at h'; cases h'; rw [hr, hr']
    | head c0 h2 => rw [h] at h2; simp at h2
    | mid l a b h2 => rw [h] at h2; simp at h2
    | tail a h2 => rw [h] at h2; simp at h2
  | head c0 h2 hc0 hi hr =>
    have hc := aux_mem_of_get hc0
    have hlo0 := hv.lo c0 hc
    have hb1 := (aux_seg_bounds d hv q1 r1 h0 (Seg.head c0 h2 hc0 hi hr))
    have hr1 : r1 ≤ c0.mean := by
      have hw0 := hw c0 hc
      have ht1 : 2 * (q1 * d.processedWeight) / c0.weight ≤ 1 := by
        rw [div_le_one hw0]; linarith
      rw [hr]; nlinarith [mul_nonneg (sub_nonneg.2 ht1) (sub_nonneg.2 hlo0)]
    cases hs2 with
    | single c' h' => rw [h'] at h2; simp at h2
    | head c0' _ hc0' hi' hr' =>
      rw [hc0] at hc0'; cases hc0'
      have hw0 := hw c0 hc
      rw [hr, hr']
      have : 2 * (q1 * d.processedWeight) / c0.weight ≤ 2 * (q2 * d.processedWeight) / c0.weight :=
        div_le_div_of_nonneg_right (by linarith) (le_of_lt hw0)
      nlinarith [mul_nonneg (sub_nonneg.2 this) (sub_nonneg.2 hlo0)]
    | mid l a b _ hl hln ha hb hlo hhi hr' =>
      have h1 := aux_sorted_get _ hv.sorted 0 (l-1) c0 a hc0 ha (by omega)
      have hab := aux_sorted_get _ hv.sorted (l-1) l a b ha hb (by omega)
      have hbt := aux_wa_between a.mean (Cf d.processed l - q2 * d.processedWeight) b.mean (q2 * d.processedWeight - Cf d.processed (l-1))
      rw [min_eq_left hab] at hbt
      rw [hr']; linarith [hbt.1]
    | tail a _ ha hlo hhi hr' =>
      have ha' := aux_mem_of_get ha
      rw [hr', aux_tail_eq_max _ _ _ _ _ (hv.hi a ha') (hw a ha') hhi]
      exact le_trans hr1 (hv.hi c0 hc)
  | mid l a b h2 hl hln ha hb hlo hhi hr =>
    have hab := aux_sorted_get _ hv.sorted (l-1) l a b ha hb (by omega)
    have hbt := aux_wa_between a.mean (Cf d.processed l - q1 * d.processedWeight) b.mean (q1 * d.processedWeight - Cf d.processed (l-1))
    rw [max_eq_right hab] at hbt
    have hr1 : r1 ≤ b.mean := by rw [hr]; exact hbt.2
    cases hs2 with
    | single c' h' => rw [h'] at h2; simp at h2
    | head c0 _ hc0 hi' hr' =>
      exfalso
      have hC0 : Cf d.processed 0 = c0.weight / 2 := by simp [Cf, pre, hc0]
      have := aux_Cf_mono _ hw 0 (l-1) (by omega) (by omega)
      rw [hC0] at this; linarith
    | mid l' a' b' _ hl' hln' ha' hb' hlo' hhi' hr' =>
      have hab' := aux_sorted_get _ hv.sorted (l'-1) l' a' b' ha' hb' (by omega)
      have hbt' := aux_wa_between a'.mean (Cf d.processed l' - q2 * d.processedWeight) b'.mean (q2 * d.processedWeight - Cf d.processed (l'-1))
      rw [min_eq_left hab'] at hbt'
      rcases Nat.lt_trichotomy l l' with hlt | heq | hgt
      · have := aux_sorted_get _ hv.sorted l (l'-1) b a' hb ha' (by omega)
        rw [hr']; linarith [hbt'.1]
      · subst heq
        rw [ha] at ha'; cases ha'
        rw [hb] at hb'; cases hb'
        rw [hr, hr']
        exact aux_mid_mono _ _ _ _ _ _ hab hlo hidx hhi'
      · exfalso
        have := aux_Cf_mono _ hw l' (l-1) (by omega) (by omega)
        linarith
    | tail a' _ ha' hlo' hhi' hr' =>
      have ha'' := aux_mem_of_get ha'
      rw [hr', aux_tail_eq_max _ _ _ _ _ (hv.hi a' ha'') (hw a' ha'') hhi']
      exact le_trans hr1 (hv.hi b (aux_mem_of_get hb))
  | tail a h2 ha hlo hhi hr =>
    have ha' := aux_mem_of_get ha
    rw [hr, aux_tail_eq_max _ _ _ _ _ (hv.hi a ha') (hw a ha') hhi]
    cases hs2 with
    | single c' h' => rw [h'] at h2; simp at h2
    | head c0 _ hc0 hi' hr' =>
      exfalso
      have hC0 : Cf d.processed 0 = c0.weight / 2 := by simp [Cf, pre, hc0]
      have := aux_Cf_mono _ hw 0 (d.processed.length-1) (by omega) (by omega)
      rw [hC0] at this; linarith
    | mid l' a' b' _ hl' hln' ha'' hb' hlo' hhi' hr' =>
      exfalso
      have := aux_Cf_mono _ hw l' (d.processed.length-1) (by omega) (by omega)
      linarith
    | tail a' _ ha'' hlo' hhi' hr' =>
      rw [ha] at ha''; cases ha''
      rw [hr', aux_tail_eq_max _ _ _ _ _ (hv.hi a ha') (hw a ha') hhi']

/-- **`Quantile` is non-decreasing in q** on `[0,1]` for every valid centroid list: within a segment
the interpolation is monotone and clamped to the neighbouring means, across segments the means are
sorted, and the tail segment returns `max`. -/
theorem quantile_monotone_in_q (d : Digest K) (hv : Valid d) (q1 q2 : K) (h0 : 0 ≤ q1) (h12 : q1 ≤ q2) (h1 : q2 ≤ 1) :
    ∃ r1 r2, quantile d q1 = .ok r1 ∧ quantile d q2 = .ok r2 ∧ r1 ≤ r2 := by
  obtain ⟨r1, hr1, hs1⟩ := aux_quantile_spec d hv q1 h0 (le_trans h12 h1)
  obtain ⟨r2, hr2, hs2⟩ := aux_quantile_spec d hv q2 (le_trans h0 h12) h1
  exact ⟨r1, r2, hr1, hr2, aux_seg_mono d hv q1 q2 r1 r2 h0 h12 hs1 hs2⟩

/-- A by-product worth recording (exact arithmetic): **the tail branch never interpolates** — past the
centre of the last centroid, `Quantile` returns `max` outright.  `z1 := index - processedWeight -
w/2` is negative there, the raw weighted average lands beyond `max` and the clamp returns `max`.
(The head branch, in contrast, does interpolate from `min`.)  Harmless for the ordering clauses, and
within the rank tolerance as long as the last centroid is light. -/
theorem tail_returns_max (d : Digest K) (hv : Valid d) (h2 : 2 ≤ d.processed.length) (q : K) (h0 : 0 ≤ q) (h1 : q ≤ 1)
    (hq : Cf d.processed (d.processed.length - 1) < q * d.processedWeight) : quantile d q = .ok d.max := by
  obtain ⟨r, hr, hs⟩ := aux_quantile_spec d hv q h0 h1
  rw [hr]
  congr 1
  cases hs with
  | single c h => rw [h] at h2; simp at h2
  | head c0 _ hc0 hi =>
    exfalso
    have hC0 : Cf d.processed 0 = c0.weight / 2 := by simp [Cf, pre, hc0]
    have := aux_Cf_mono _ hv.wpos 0 (d.processed.length-1) (by omega) (by omega)
    rw [hC0] at this; linarith
  | mid l a b _ hl hln ha hb hlo hhi =>
    exfalso
    have := aux_Cf_mono _ hv.wpos l (d.processed.length-1) (by omega) (by omega)
    linarith
  | tail a _ ha hlo hhi hr' =>
    have ha' := aux_mem_of_get ha
    rw [hr', aux_tail_eq_max _ _ _ _ _ (hv.hi a ha') (hv.wpos a ha') hhi]

/-! ### vegeta's side -/

theorem aux_lit (n dn : Nat) : (lit n dn : K) = (n : K) / (dn : K) := rfl

theorem aux_lit_range (n dn : Nat) (hd : 0 < dn) (hn : n ≤ dn) : (0:K) ≤ lit n dn ∧ (lit n dn : K) ≤ 1 := by
  rw [aux_lit]
  have hd' : (0:K) < (dn:K) := by exact_mod_cast hd
  have hn' : (n:K) ≤ (dn:K) := by exact_mod_cast hn
  exact ⟨by positivity, by rw [div_le_one hd']; exact hn'⟩

theorem aux_lit_le (n1 d1 n2 d2 : Nat) (h1 : 0 < d1) (h2 : 0 < d2) (h : n1 * d2 ≤ n2 * d1) :
    (lit n1 d1 : K) ≤ lit n2 d2 := by
  rw [aux_lit, aux_lit]
  have h1' : (0:K) < (d1:K) := by exact_mod_cast h1
  have h2' : (0:K) < (d2:K) := by exact_mod_cast h2
  rw [div_le_div_iff₀ h1' h2']
  exact_mod_cast h

theorem aux_latQ (trunc : K → Int) (d : Digest K) (q r : K) (h : quantile d q = .ok r) :
    latQuantileCum trunc (cumulative d.processed) d q = .ok (trunc r) := by
  unfold latQuantileCum
  unfold quantile at h
  rw [h]

/-- **`min ≤ P50 ≤ P90 ≤ P95 ≤ P99 ≤ max`** for the four percentiles `Metrics.Close` takes, whatever
centroid list the compression produced: `lo`/`hi` are the reported (integer) minimum and maximum, which
bound the digest's `min`/`max`; `trunc` is the conversion `time.Duration(float64)`, of which only
monotonicity and exactness on integers are used. -/
theorem percentiles_ordered (d : Digest K) (hv : Valid d) (trunc : K → Int)
    (htr : ∀ a b : K, a ≤ b → trunc a ≤ trunc b) (htri : ∀ i : Int, trunc (i : K) = i)
    (lo hi : Int) (hlo : (lo : K) ≤ d.min) (hhi : d.max ≤ (hi : K)) :
    ∃ p, close trunc d = .ok p ∧ lo ≤ p.p50 ∧ p.p50 ≤ p.p90 ∧ p.p90 ≤ p.p95 ∧ p.p95 ≤ p.p99 ∧ p.p99 ≤ hi := by
  have r50 := aux_lit_range (K := K) 50 100 (by omega) (by omega)
  have r99 := aux_lit_range (K := K) 99 100 (by omega) (by omega)
  have l1 := aux_lit_le (K := K) 50 100 90 100 (by omega) (by omega) (by omega)
  have l2 := aux_lit_le (K := K) 90 100 95 100 (by omega) (by omega) (by omega)
  have l3 := aux_lit_le (K := K) 95 100 99 100 (by omega) (by omega) (by omega)
  obtain ⟨a, b, ha, hb, hab⟩ := quantile_monotone_in_q d hv _ _ r50.1 l1 (by linarith [r99.2])
  obtain ⟨b', c, hb', hc, hbc⟩ := quantile_monotone_in_q d hv _ _ (by linarith [r50.1]) l2 (by linarith [r99.2])
  obtain ⟨c', e, hc', he, hce⟩ := quantile_monotone_in_q d hv _ _ (by linarith [r50.1]) l3 r99.2
  rw [hb] at hb'; cases hb'
  rw [hc] at hc'; cases hc'
  obtain ⟨a', ha', hamin, _⟩ := quantile_in_min_max d hv _ r50.1 (by linarith [r99.2])
  rw [ha] at ha'; cases ha'
  obtain ⟨e', he', _, hemax⟩ := quantile_in_min_max d hv _ (by linarith [r50.1]) r99.2
  rw [he] at he'; cases he'
  refine ⟨⟨trunc a, trunc b, trunc c, trunc e⟩, ?_, ?_, htr _ _ hab, htr _ _ hbc, htr _ _ hce, ?_⟩
  · unfold close
    simp only [aux_latQ trunc d _ _ ha, aux_latQ trunc d _ _ hb, aux_latQ trunc d _ _ hc, aux_latQ trunc d _ _ he]
  · rw [← htri lo]; exact htr _ _ (le_trans hlo hamin)
  · rw [← htri hi]; exact htr _ _ (le_trans hemax hhi)

theorem aux_milliseconds (x : Int) : (milliseconds x : K) = (x : K) / 1000000 := by
  unfold milliseconds
  simp only [aux_ops_add, aux_ops_div, aux_ops_ofInt, aux_ops_ofNat]
  have h := Int.mul_tdiv_add_tmod x 1000000
  have h' : ((1000000 * x.tdiv 1000000 + x.tmod 1000000 : Int) : K) = (x : K) := by rw [h]
  push_cast at h'
  rw [← h']
  have e : ((1000000 : Nat) : K) = 1000000 := by norm_num
  rw [e]
  field_simp

theorem aux_milliseconds_mono (x y : Int) (h : x ≤ y) : (milliseconds x : K) ≤ milliseconds y := by
  rw [aux_milliseconds, aux_milliseconds]
  have : (x : K) ≤ (y : K) := by exact_mod_cast h
  exact div_le_div_of_nonneg_right this (by norm_num)

/-- adjacent elements are related -/
def Chain {α : Type} (R : α → α → Prop) : List α → Prop
  | [] => True
  | [_] => True
  | a :: b :: r => R a b ∧ Chain R (b :: r)

/-- A row of the report belongs to the percentile `q` -/
def RowOf (trunc : K → Int) (d : Digest K) (q : K) (row : HdrRow K) : Prop :=
  row.q = q ∧ (∃ r, quantile d q = .ok r ∧ row.dur = trunc r) ∧ row.value = milliseconds row.dur

theorem aux_hdr_rows (d : Digest K) (hv : Valid d) (trunc : K → Int) (n : Nat) (qs : List K)
    (hq : ∀ q ∈ qs, 0 ≤ q ∧ q ≤ 1) :
    ∃ rs, hdrRowsFrom trunc (cumulative d.processed) d n qs = .ok rs ∧ List.Forall₂ (RowOf trunc d) qs rs := by
  induction qs with
  | nil => exact ⟨[], rfl, List.Forall₂.nil⟩
  | cons q qs ih =>
    obtain ⟨rs, hrs, hf⟩ := ih (fun x hx => hq x (List.mem_cons_of_mem _ hx))
    obtain ⟨hq0, hq1⟩ := hq q List.mem_cons_self
    obtain ⟨r, hr, _⟩ := quantile_in_min_max d hv q hq0 hq1
    refine ⟨{ value := milliseconds (trunc r), q := q, count := trunc (QOps.add (QOps.mul q (QOps.ofNat n)) (lit 5 10)),
              oneBy := oneByQuantile q, dur := trunc r } :: rs, ?_, List.Forall₂.cons ?_ hf⟩
    · simp only [hdrRowsFrom, hdrRow, aux_latQ trunc d q r hr, hrs]
    · exact ⟨rfl, ⟨r, hr, rfl⟩, rfl⟩

theorem aux_rows_chain (d : Digest K) (hv : Valid d) (trunc : K → Int)
    (htr : ∀ a b : K, a ≤ b → trunc a ≤ trunc b) :
    ∀ (qs : List K) (rs : List (HdrRow K)), (∀ q ∈ qs, 0 ≤ q ∧ q ≤ 1) → Chain (· ≤ ·) qs →
      List.Forall₂ (RowOf trunc d) qs rs →
      Chain (fun a b : HdrRow K => a.q ≤ b.q ∧ a.dur ≤ b.dur ∧ a.value ≤ b.value) rs := by
  intro qs
  induction qs with
  | nil => intro rs _ _ hf; cases hf; trivial
  | cons q qs ih =>
    intro rs hq hc hf
    cases hf with
    | @cons _ row _ rs' h1 hrest =>
      cases hrest with
      | nil => trivial
      | @cons q2 row2 qs' rs'' h2 hrest' =>
        have hq2 := hq q2 (by simp)
        have hqq := hq q (by simp)
        refine ⟨?_, ih _ (fun x hx => hq x (List.mem_cons_of_mem _ hx)) hc.2 (List.Forall₂.cons h2 hrest')⟩
        obtain ⟨e1, ⟨r1, hr1, hd1⟩, hv1⟩ := h1
        obtain ⟨e2, ⟨r2, hr2, hd2⟩, hv2⟩ := h2
        obtain ⟨a, b, ha, hb, hab⟩ := quantile_monotone_in_q d hv q q2 hqq.1 hc.1 hq2.2
        rw [hr1] at ha; cases ha
        rw [hr2] at hb; cases hb
        have hd : row.dur ≤ row2.dur := by rw [hd1, hd2]; exact htr _ _ hab
        refine ⟨by rw [e1, e2]; exact hc.1, hd, ?_⟩
        rw [hv1, hv2]; exact aux_milliseconds_mono _ _ hd

/-- the check run on the regenerated ladder: every literal is a fraction in [0,1] and consecutive
literals do not decrease (compared exactly, by cross-multiplication) -/
def ladderOK : List (Nat × Nat) → Bool
  | [] => true
  | [(n, dn)] => decide (0 < dn ∧ n ≤ dn)
  | (n1, d1) :: (n2, d2) :: rest => decide (0 < d1 ∧ 0 < d2 ∧ n1 ≤ d1 ∧ n1 * d2 ≤ n2 * d1) && ladderOK ((n2, d2) :: rest)

theorem aux_ladder (l : List (Nat × Nat)) (h : ladderOK l = true) :
    (∀ q ∈ l.map (fun (p : Nat × Nat) => (lit p.1 p.2 : K)), 0 ≤ q ∧ q ≤ 1) ∧
    Chain (· ≤ ·) (l.map (fun (p : Nat × Nat) => (lit p.1 p.2 : K))) := by
  induction l with
  | nil => exact ⟨by simp, trivial⟩
  | cons p l ih =>
    obtain ⟨n1, d1⟩ := p
    cases l with
    | nil =>
      simp only [ladderOK, decide_eq_true_eq] at h
      refine ⟨?_, trivial⟩
      intro q hq; simp at hq; subst hq
      exact aux_lit_range n1 d1 h.1 h.2
    | cons p2 l' =>
      obtain ⟨n2, d2⟩ := p2
      simp only [ladderOK, Bool.and_eq_true, decide_eq_true_eq] at h
      obtain ⟨⟨h1, h2, h3, h4⟩, hrest⟩ := h
      obtain ⟨ih1, ih2⟩ := ih hrest
      refine ⟨?_, ?_, ih2⟩
      · intro q hq
        simp only [List.map_cons, List.mem_cons] at hq
        rcases hq with hq | hq
        · subst hq; exact aux_lit_range n1 d1 h1 h3
        · exact ih1 q (by simpa using hq)
      · exact aux_lit_le n1 d1 n2 d2 h1 h2 h4

/-- **The HDR-histogram report lists values that never decrease as the percentile grows**: for every
ladder that passes `ladderOK` (the regenerated `logarithmic` table does: `ladder_sorted`), every valid
centroid list and every monotone conversion, the reporter produces one row per ladder entry and along
the rows the percentile, the latency and the printed `Value(ms)` are all non-decreasing. -/
theorem hdr_rows_nondecreasing (d : Digest K) (hv : Valid d) (trunc : K → Int)
    (htr : ∀ a b : K, a ≤ b → trunc a ≤ trunc b) (requests : Nat) (ladder : List (Nat × Nat))
    (hl : ladderOK ladder = true) :
    ∃ rs, hdrRows trunc d requests ladder = .ok rs ∧ rs.length = ladder.length ∧
      Chain (fun a b : HdrRow K => a.q ≤ b.q ∧ a.dur ≤ b.dur ∧ a.value ≤ b.value) rs := by
  obtain ⟨h1, h2⟩ := aux_ladder (K := K) ladder hl
  obtain ⟨rs, hrs, hf⟩ := aux_hdr_rows d hv trunc requests _ h1
  refine ⟨rs, ?_, ?_, aux_rows_chain d hv trunc htr _ rs h1 h2 hf⟩
  · unfold hdrRows
    have : (List.map (fun x => match x with | (n, dn) => (lit n dn : K)) ladder) = List.map (fun (p : Nat × Nat) => (lit p.1 p.2 : K)) ladder := by
      apply List.map_congr_left; intro p _; rfl
    rw [this]; exact hrs
  · have := hf.length_eq; simpa using this.symm

/-! ### all latencies equal -/

/-- **When all latencies are equal every percentile equals that value** (exact arithmetic): all samples
equal `v` force `min = max = v` (and hence every centroid mean `= v`); then every quantile in `[0,1]` is
exactly `v`, with no rounding assumption, as a corollary of `quantile_in_min_max`. -/
theorem all_equal_exact (d : Digest K) (hv : Valid d) (v : K) (hmin : d.min = v) (hmax : d.max = v)
    (q : K) (h0 : 0 ≤ q) (h1 : q ≤ 1) : quantile d q = .ok v := by
  obtain ⟨r, hr, hlo, hhi⟩ := quantile_in_min_max d hv q h0 h1
  rw [hmin] at hlo; rw [hmax] at hhi
  rw [hr, le_antisymm hhi hlo]

/-- … and so do the four reported percentiles. -/
theorem all_equal_percentiles (d : Digest K) (hv : Valid d) (trunc : K → Int) (htri : ∀ i : Int, trunc (i : K) = i)
    (v : Int) (hmin : d.min = (v : K)) (hmax : d.max = (v : K)) :
    close trunc d = .ok ⟨v, v, v, v⟩ := by
  have r50 := aux_lit_range (K := K) 50 100 (by omega) (by omega)
  have r90 := aux_lit_range (K := K) 90 100 (by omega) (by omega)
  have r95 := aux_lit_range (K := K) 95 100 (by omega) (by omega)
  have r99 := aux_lit_range (K := K) 99 100 (by omega) (by omega)
  unfold close
  simp only [aux_latQ trunc d _ _ (all_equal_exact d hv _ hmin hmax _ r50.1 r50.2),
    aux_latQ trunc d _ _ (all_equal_exact d hv _ hmin hmax _ r90.1 r90.2),
    aux_latQ trunc d _ _ (all_equal_exact d hv _ hmin hmax _ r95.1 r95.2),
    aux_latQ trunc d _ _ (all_equal_exact d hv _ hmin hmax _ r99.1 r99.2), htri]

/-- The two identities the all-equal clause rests on when the arithmetic is *not* exact, at the common
value `v`.  `bad` marks the error values of the arithmetic (NaN for IEEE-754; nothing in a field).
* `clamp`: `math.Max(v, math.Min(x, v))` is `v` (or NaN, when `x` is) — whatever the rounded weighted
  average `x = (v·w₁ + v·w₂)/(w₁ + w₂)` came out as, which in floats is in general *not* `v`;
* `interp`: `v + t·(v − v)` is `v` (or NaN, when `t` is NaN or infinite): `v − v = 0`, `t·0 = ±0`,
  `v ± 0 = v`. -/
structure EqLaws (F : Type) [QOps F] (bad : F → Prop) (v : F) : Prop where
  clamp : ∀ x : F, QOps.fmax v (QOps.fmin x v) = v ∨ bad (QOps.fmax v (QOps.fmin x v))
  interp : ∀ t : F, QOps.add v (QOps.mul t (QOps.sub v v)) = v ∨ bad (QOps.add v (QOps.mul t (QOps.sub v v)))

theorem aux_wa_equal {F : Type} [QOps F] (bad : F → Prop) (v : F) (laws : EqLaws F bad v) (w1 w2 : F) :
    weightedAverage v w1 v w2 = v ∨ bad (weightedAverage v w1 v w2) := by
  unfold weightedAverage weightedAverageSorted
  split <;> exact laws.clamp _

/-- **All latencies equal ⇒ every percentile equals that value, in any arithmetic satisfying `EqLaws`**
(floats included): if every centroid mean, `min` and `max` equal `v`, then whatever `Quantile(q)`
returns for an in-range `q` is `v` itself — or the arithmetic's error value.  No property of the
weights, of the cumulative table or of the search is used. -/
theorem all_equal_exact_any_arithmetic {F : Type} [QOps F] (bad : F → Prop) (v : F) (laws : EqLaws F bad v)
    (d : Digest F) (hne : d.processed ≠ []) (hmeans : ∀ c ∈ d.processed, c.mean = v)
    (hmin : d.min = v) (hmax : d.max = v) (q r : F)
    (hq : (QOps.lt q (QOps.ofNat 0) || QOps.lt (QOps.ofNat 1) q) = false)
    (hr : quantile d q = .ok r) : r = v ∨ bad r := by
  obtain ⟨cs, W, mn, mx⟩ := d
  simp only at hne hmeans hmin hmax
  have hmin' := hmin.symm
  have hmax' := hmax.symm
  subst hmin'
  subst hmax'
  unfold quantile quantileCum at hr
  simp only [hq, Bool.false_eq_true, ↓reduceIte] at hr
  match cs, hne, hmeans with
  | [], hne, _ => exact absurd rfl hne
  | [c], _, hmeans =>
    simp only at hr; cases hr
    exact Or.inl (hmeans c (by simp))
  | c0 :: c1 :: rest, _, hmeans =>
    simp only at hr
    have hc0 : c0.mean = v := hmeans c0 (by simp)
    split at hr
    · cases hr
      rw [hc0]; exact laws.interp _
    · split at hr
      · split at hr
        · cases hr
        · split at hr
          · rename_i cl cu pl pu _ _ hpl hpu
            cases hr
            rw [hmeans pl (List.mem_of_getElem? hpl), hmeans pu (List.mem_of_getElem? hpu)]
            exact aux_wa_equal bad v laws _ _
          · cases hr
      · split at hr
        · rename_i pl last hpl hlast
          cases hr
          rw [hmeans last (List.mem_of_getLast? hlast)]
          exact aux_wa_equal bad v laws _ _
        · cases hr

/-- the laws hold in every ordered field (nothing is an error value there) -/
theorem eqLaws_field (v : K) : EqLaws K (fun _ => False) v where
  clamp x := Or.inl (by simp only [aux_ops_fmax, aux_ops_fmin]; exact max_eq_left (min_le_right _ _))
  interp t := Or.inl (by simp only [aux_ops_add, aux_ops_mul, aux_ops_sub]; ring)


/-! ### the all-equal clause in float64 (SoftF64) -/

/-- `math.Max(v, math.Min(x, v))` over SoftF64 is `v` for every finite non-zero `v` and EVERY `x`, except
that it is NaN when `x` is NaN (proof in Proofs/QuantileF64.lean). -/
theorem clamp_float64 (v x : F64) (hn : v.isNaN = false) (hi : v.isInf = false) (hz : v.isZero = false) :
    goMax v (goMin x v) = v ∨ (goMax v (goMin x v)).isNaN = true :=
  Vegeta.Proofs.QuantileF64.clamp_float64 v x hn hi hz

/-- `v + t·(v − v)` over SoftF64 is `v` for every finite non-zero `v` and EVERY `t`, except that it is
NaN when `t` is NaN or infinite: `v − v = +0`, `t·(+0) = ±0`, and `v + (±0)` re-rounds `v` to itself
(proof in Proofs/QuantileF64.lean, through the exactness of `F64.roundRat` on representable values). -/
theorem interp_float64 (v t : F64) (hn : v.isNaN = false) (hi : v.isInf = false) (hz : v.isZero = false)
    (hb : v.bits < 2 ^ 64) :
    F64.add v (F64.mul t (F64.sub v v)) = v ∨ (F64.add v (F64.mul t (F64.sub v v))).isNaN = true :=
  Vegeta.Proofs.QuantileF64.interp_float64 v t hn hi hz hb

/-- **All latencies equal ⇒ every percentile equals that value, in float64** (SoftF64, the arithmetic
that is bit-exact with the Go code in the correspondence runs), with NO assumption about the
arithmetic: for a finite non-zero `v`, if every centroid mean, `min` and `max` are `v`, then whatever
`Quantile(q)` returns for an in-range `q` is bit-for-bit `v` — or NaN.  The rounded weighted average
`(v·w₁ + v·w₂)/(w₁ + w₂)` is in general NOT `v`; the clamp `max(v, min(x, v))` is. -/
theorem all_equal_exact_float64 (v : F64) (hn : v.isNaN = false) (hi : v.isInf = false) (hz : v.isZero = false)
    (hb : v.bits < 2 ^ 64)
    (d : Digest F64) (hne : d.processed ≠ []) (hmeans : ∀ c ∈ d.processed, c.mean = v)
    (hmin : d.min = v) (hmax : d.max = v) (q r : F64)
    (hq : (F64.lt q (F64.ofNat 0) || F64.lt (F64.ofNat 1) q) = false)
    (hr : quantile d q = .ok r) : r = v ∨ r.isNaN = true :=
  all_equal_exact_any_arithmetic (fun x : F64 => x.isNaN = true) v
    ⟨fun x => clamp_float64 v x hn hi hz, fun t => interp_float64 v t hn hi hz hb⟩ d hne hmeans hmin hmax q r hq hr

/-! ### facts regenerated from the source (extract/c11.go) -/

/-- every ladder literal was a plain decimal literal, and the table is mentioned only where it is
declared and where the reporter ranges over it (so nothing else can reorder it) -/
theorem facts_ladder_literals : Vegeta.Extracted.c11_ladder_ok = true ∧ Vegeta.Extracted.c11_ladder_mentions = 2 := by decide

/-- **The regenerated `logarithmic` table is non-decreasing, starts at 0 and ends at 1**, and every
entry is a fraction in [0,1] (compared exactly as rationals, from the literal text). -/
theorem ladder_sorted :
    ladderOK Vegeta.Extracted.c11_ladder = true ∧
    Vegeta.Extracted.c11_ladder.head? = some (0, 100) ∧
    Vegeta.Extracted.c11_ladder.getLast? = some (10, 10) ∧
    Vegeta.Extracted.c11_ladder.length = 94 := by decide

/-- `Metrics.Close` assigns `P50, P90, P95, P99 := Quantile(0.50), Quantile(0.90), Quantile(0.95),
Quantile(0.99)` in this pairing — the one `Model.Quantile.close` uses. -/
theorem facts_close_quantiles :
    Vegeta.Extracted.c11_close_quantiles =
      [([80, 53, 48], 50, 100), ([80, 57, 48], 90, 100), ([80, 57, 53], 95, 100), ([80, 57, 57], 99, 100)] ∧
    Vegeta.Extracted.c11_close_quantiles.map (fun x => x.2) = closeQuantiles := by decide

/-- compression 100, every sample added with weight 1, `Get` answers with `TDigest.Quantile` -/
theorem facts_estimator :
    Vegeta.Extracted.c11_compression = (100, 1) ∧ Vegeta.Extracted.c11_sample_weight = (1, 1) ∧
    Vegeta.Extracted.c11_estimator_get_calls = [[81, 117, 97, 110, 116, 105, 108, 101]] := by decide

/-- **The HDR-histogram report, over the ladder that is in the source today, never decreases.** -/
theorem hdr_report_nondecreasing (d : Digest K) (hv : Valid d) (trunc : K → Int)
    (htr : ∀ a b : K, a ≤ b → trunc a ≤ trunc b) (requests : Nat) :
    ∃ rs, hdrRows trunc d requests Vegeta.Extracted.c11_ladder = .ok rs ∧ rs.length = 94 ∧
      Chain (fun a b : HdrRow K => a.q ≤ b.q ∧ a.dur ≤ b.dur ∧ a.value ≤ b.value) rs := by
  obtain ⟨rs, h1, h2, h3⟩ := hdr_rows_nondecreasing d hv trunc htr requests _ ladder_sorted.1
  exact ⟨rs, h1, by rw [h2]; exact ladder_sorted.2.2.2, h3⟩

/-! ### non-vacuity -/

/-- a valid three-centroid digest over ℚ (samples 1, 2, 2, 4) -/
def exDigest : Digest ℚ := ⟨[⟨1, 1⟩, ⟨2, 2⟩, ⟨4, 1⟩], 4, 1, 4⟩

example : Valid exDigest where
  nonempty := by simp [exDigest]
  sorted := by simp [exDigest]; norm_num
  wpos := by simp [exDigest]
  total := by simp [exDigest]; norm_num
  lo := by simp [exDigest]
  hi := by simp [exDigest]; norm_num

/-- the hypotheses on the conversion are satisfiable: `⌊·⌋` (which is Go's truncation on the
non-negative values that occur) is monotone and exact on integers -/
example : (∀ a b : ℚ, a ≤ b → ⌊a⌋ ≤ ⌊b⌋) ∧ (∀ i : Int, ⌊(i : ℚ)⌋ = i) :=
  ⟨fun _ _ h => Int.floor_mono h, fun i => Int.floor_intCast i⟩

/-- the model runs (SoftF64, the arithmetic the driver uses): median of the digest of {1, 3} is 2,
an out-of-range argument gives NaN, and `Quantile(NaN)` indexes out of range — as the real code does -/
example : quantile (F := F64) ⟨[⟨F64.ofNat 1, F64.ofNat 1⟩, ⟨F64.ofNat 3, F64.ofNat 1⟩], F64.ofNat 2, F64.ofNat 1, F64.ofNat 3⟩
    (lit 1 2) = .ok (F64.ofNat 2) := by decide +kernel
example : quantile (F := F64) ⟨[⟨F64.ofNat 1, F64.ofNat 1⟩, ⟨F64.ofNat 3, F64.ofNat 1⟩], F64.ofNat 2, F64.ofNat 1, F64.ofNat 3⟩
    (lit 3 2) = .ok F64.nan := by decide +kernel
example : quantile (F := F64) ⟨[⟨F64.ofNat 1, F64.ofNat 1⟩, ⟨F64.ofNat 3, F64.ofNat 1⟩], F64.ofNat 2, F64.ofNat 1, F64.ofNat 3⟩
    F64.nan = .panic := by decide +kernel

/-- the float laws of `EqLaws` on sample values: the rounded weighted average of two copies of
`v = 0.1` with weights 0.3 and 0.7 is NOT `v` (it is one ulp below), the clamp returns `v` exactly -/
example :
    let v : F64 := lit 1 10
    let x : F64 := F64.div (F64.add (F64.mul v (lit 3 10)) (F64.mul v (lit 7 10))) (F64.add (lit 3 10) (lit 7 10))
    x ≠ v ∧ goMax v (goMin x v) = v ∧ F64.add v (F64.mul (lit 123 7) (F64.sub v v)) = v ∧
    (goMax v (goMin F64.nan v)).isNaN = true := by decide +kernel

/-- `all_equal_exact_float64` is not vacuous: `v` = 500 ms as a double, three centroids all at `v`
(weights 2, 3, 2); the median and the 99th percentile come out as `v` bit for bit -/
example :
    let v : F64 := F64.ofNat 500000000
    let d : Digest F64 := ⟨[⟨v, F64.ofNat 2⟩, ⟨v, F64.ofNat 3⟩, ⟨v, F64.ofNat 2⟩], F64.ofNat 7, v, v⟩
    v.isNaN = false ∧ v.isInf = false ∧ v.isZero = false ∧ v.bits < 2 ^ 64 ∧
    quantile d (lit 50 100) = .ok v ∧ quantile d (lit 99 100) = .ok v ∧ quantile d (lit 1 100) = .ok v := by decide +kernel


/-! ## The compression pass (Model/TDigestMerge.lean): `Valid` derived, end-to-end theorems

Everything below holds for EVERY limit function `lim : Lim K` (the sin/asin scale function of the
library is one instance) and every `sortBy` that returns its input permuted and sorted by mean
(`SortSpec`; Go's unstable pdqsort is one instance). -/

def sumW (cs : List (Centroid K)) : K := (cs.map (·.weight)).sum

theorem aux_cadd (c r : Centroid K) (hc : 0 < c.weight) (hr : 0 < r.weight) :
    centroidAdd c r = ⟨c.mean + r.weight * (r.mean - c.mean) / (c.weight + r.weight), c.weight + r.weight⟩ := by
  unfold centroidAdd ne0
  have h1 : ¬ (r.weight < ((0:Nat):K)) := by simp; exact le_of_lt hr
  have h2 : ¬ (c.weight ≤ ((0:Nat):K)) := by simp; exact hc
  simp only [aux_ops_lt, aux_ops_le, aux_ops_ofNat, h1, h2, decide_false, Bool.false_and, Bool.not_false,
    Bool.false_eq_true, ↓reduceIte, aux_ops_add, aux_ops_mul, aux_ops_sub, aux_ops_div]

/-- the merged mean is the weighted mean: it stays inside every interval that contains both means -/
theorem aux_cadd_lo (c r : Centroid K) (hc : 0 < c.weight) (hr : 0 < r.weight) (lo : K) (h1 : lo ≤ c.mean) (h2 : lo ≤ r.mean) :
    lo ≤ (centroidAdd c r).mean := by
  rw [aux_cadd c r hc hr]
  simp only
  have hW : 0 < c.weight + r.weight := by linarith
  have : c.mean + r.weight * (r.mean - c.mean) / (c.weight + r.weight) = (c.weight * c.mean + r.weight * r.mean) / (c.weight + r.weight) := by
    field_simp; ring
  rw [this, le_div_iff₀ hW]
  nlinarith [mul_nonneg (le_of_lt hc) (sub_nonneg.2 h1), mul_nonneg (le_of_lt hr) (sub_nonneg.2 h2)]

theorem aux_cadd_hi (c r : Centroid K) (hc : 0 < c.weight) (hr : 0 < r.weight) (hi : K) (h1 : c.mean ≤ hi) (h2 : r.mean ≤ hi) :
    (centroidAdd c r).mean ≤ hi := by
  rw [aux_cadd c r hc hr]
  simp only
  have hW : 0 < c.weight + r.weight := by linarith
  have : c.mean + r.weight * (r.mean - c.mean) / (c.weight + r.weight) = (c.weight * c.mean + r.weight * r.mean) / (c.weight + r.weight) := by
    field_simp; ring
  rw [this, div_le_iff₀ hW]
  nlinarith [mul_nonneg (le_of_lt hc) (sub_nonneg.2 h1), mul_nonneg (le_of_lt hr) (sub_nonneg.2 h2)]

theorem aux_cadd_weight (c r : Centroid K) (hc : 0 < c.weight) (hr : 0 < r.weight) :
    (centroidAdd c r).weight = c.weight + r.weight := by rw [aux_cadd c r hc hr]

theorem aux_sumW_cons (c : Centroid K) (cs : List (Centroid K)) : sumW (c :: cs) = c.weight + sumW cs := by
  simp [sumW]
theorem aux_sumW_append (a b : List (Centroid K)) : sumW (a ++ b) = sumW a + sumW b := by
  simp [sumW]
theorem aux_sumW_reverse (a : List (Centroid K)) : sumW a.reverse = sumW a := by
  simp [sumW, List.sum_reverse]
theorem aux_sumW_perm {a b : List (Centroid K)} (h : a.Perm b) : sumW a = sumW b := by
  unfold sumW; exact (h.map _).sum_eq

/-- What one merge pass guarantees, for EVERY limit function. -/
structure MergeOut (acc : List (Centroid K)) (cur : Centroid K) (rest out : List (Centroid K)) : Prop where
  sorted : out.Pairwise (fun a b => a.mean ≤ b.mean)
  wpos : ∀ c ∈ out, 0 < c.weight
  sum : sumW out = sumW acc + cur.weight + sumW rest
  ne : out ≠ []
  lo : ∀ lo : K, (∀ c ∈ acc, lo ≤ c.mean) → lo ≤ cur.mean → (∀ c ∈ rest, lo ≤ c.mean) → ∀ c ∈ out, lo ≤ c.mean
  hi : ∀ hi : K, (∀ c ∈ acc, c.mean ≤ hi) → cur.mean ≤ hi → (∀ c ∈ rest, c.mean ≤ hi) → ∀ c ∈ out, c.mean ≤ hi

theorem aux_merge (next : K → K → K) (W : K) : ∀ (rest acc : List (Centroid K)) (cur : Centroid K) (soFar limit : K),
    0 < cur.weight → (∀ c ∈ acc, 0 < c.weight) → (∀ c ∈ rest, 0 < c.weight) →
    (cur :: acc).Pairwise (fun a b => b.mean ≤ a.mean) → rest.Pairwise (fun a b => a.mean ≤ b.mean) →
    (∀ r ∈ rest, cur.mean ≤ r.mean) →
    MergeOut acc cur rest (mergeLoop next W acc cur soFar limit rest) := by
  intro rest
  induction rest with
  | nil =>
    intro acc cur soFar limit hcw hacc _ hdesc _ _
    simp only [mergeLoop]
    refine ⟨?_, ?_, ?_, by simp, ?_, ?_⟩
    · rw [List.pairwise_reverse]; exact hdesc
    · intro c hc
      rw [List.mem_reverse, List.mem_cons] at hc
      rcases hc with h | h
      · rw [h]; exact hcw
      · exact hacc c h
    · rw [aux_sumW_reverse, aux_sumW_cons]; simp [sumW]; ring
    · intro lo h1 h2 _ c hc
      rw [List.mem_reverse, List.mem_cons] at hc
      rcases hc with h | h
      · rw [h]; exact h2
      · exact h1 c h
    · intro hi h1 h2 _ c hc
      rw [List.mem_reverse, List.mem_cons] at hc
      rcases hc with h | h
      · rw [h]; exact h2
      · exact h1 c h
  | cons c rest ih =>
    intro acc cur soFar limit hcw hacc hrest hdesc hsorted hle
    have hc_w : 0 < c.weight := hrest c (by simp)
    have hrest' : ∀ x ∈ rest, 0 < x.weight := fun x hx => hrest x (List.mem_cons_of_mem _ hx)
    rw [List.pairwise_cons] at hsorted hdesc
    have hcur_c : cur.mean ≤ c.mean := hle c (by simp)
    simp only [mergeLoop]
    split
    · -- fold `c` into the current centroid
      have hm1 : cur.mean ≤ (centroidAdd cur c).mean := aux_cadd_lo cur c hcw hc_w _ (le_refl _) hcur_c
      have hm2 : (centroidAdd cur c).mean ≤ c.mean := aux_cadd_hi cur c hcw hc_w _ hcur_c (le_refl _)
      have hw' : 0 < (centroidAdd cur c).weight := by rw [aux_cadd_weight cur c hcw hc_w]; linarith
      have := ih acc (centroidAdd cur c) (QOps.add soFar c.weight) limit hw' hacc hrest'
        (by rw [List.pairwise_cons]; exact ⟨fun a ha => le_trans (hdesc.1 a ha) hm1, hdesc.2⟩)
        hsorted.2 (fun r hr => le_trans hm2 (hsorted.1 r hr))
      refine ⟨this.sorted, this.wpos, ?_, this.ne, ?_, ?_⟩
      · rw [this.sum, aux_cadd_weight cur c hcw hc_w, aux_sumW_cons]; ring
      · intro lo h1 h2 h3
        exact this.lo lo h1 (aux_cadd_lo cur c hcw hc_w lo h2 (h3 c (by simp))) (fun x hx => h3 x (List.mem_cons_of_mem _ hx))
      · intro hi h1 h2 h3
        exact this.hi hi h1 (aux_cadd_hi cur c hcw hc_w hi h2 (h3 c (by simp))) (fun x hx => h3 x (List.mem_cons_of_mem _ hx))
    · -- start a new centroid with `c`
      have := ih (cur :: acc) c (QOps.add soFar c.weight) (next soFar W) hc_w
        (by intro x hx; rw [List.mem_cons] at hx; rcases hx with h | h; (rw [h]; exact hcw); exact hacc x h)
        hrest'
        (by rw [List.pairwise_cons]
            refine ⟨?_, by rw [List.pairwise_cons]; exact hdesc⟩
            intro a ha
            rw [List.mem_cons] at ha
            rcases ha with h | h
            · rw [h]; exact hcur_c
            · exact le_trans (hdesc.1 a h) hcur_c)
        hsorted.2 hsorted.1
      refine ⟨this.sorted, this.wpos, ?_, this.ne, ?_, ?_⟩
      · rw [this.sum, aux_sumW_cons, aux_sumW_cons]; ring
      · intro lo h1 h2 h3
        refine this.lo lo ?_ (h3 c (by simp)) (fun x hx => h3 x (List.mem_cons_of_mem _ hx))
        intro x hx; rw [List.mem_cons] at hx
        rcases hx with h | h
        · rw [h]; exact h2
        · exact h1 x h
      · intro hi h1 h2 h3
        refine this.hi hi ?_ (h3 c (by simp)) (fun x hx => h3 x (List.mem_cons_of_mem _ hx))
        intro x hx; rw [List.mem_cons] at hx
        rcases hx with h | h
        · rw [h]; exact h2
        · exact h1 x h

/-- what is assumed of `sort.Sort(&t.unprocessed)`: it returns its input, permuted, sorted by mean -/
structure SortSpec (sortBy : List (Centroid K) → List (Centroid K)) : Prop where
  perm : ∀ l, (sortBy l).Perm l
  sorted : ∀ l, (sortBy l).Pairwise (fun a b => a.mean ≤ b.mean)

def LB (lo : K) (xs : List K) : Prop := ∀ x ∈ xs, lo ≤ x
def UB (hi : K) (xs : List K) : Prop := ∀ x ∈ xs, x ≤ hi

/-- The invariant of the digest after the samples `xs` were added (weight 1 each), for sentinels
`hiS = math.MaxFloat64`, `loS = -math.MaxFloat64`. -/
structure DigestInv (hiS loS : K) (xs : List K) (s : TD K) : Prop where
  sorted : s.processed.Pairwise (fun a b => a.mean ≤ b.mean)
  wposP : ∀ c ∈ s.processed, 0 < c.weight
  wposU : ∀ c ∈ s.unprocessed, 0 < c.weight
  pw : s.processedWeight = sumW s.processed
  uw : s.unprocessedWeight = sumW s.unprocessed
  count : sumW s.processed + sumW s.unprocessed = (xs.length : K)
  hullLo : ∀ lo, LB lo xs → ∀ c ∈ s.unprocessed ++ s.processed, lo ≤ c.mean
  hullHi : ∀ hi, UB hi xs → ∀ c ∈ s.unprocessed ++ s.processed, c.mean ≤ hi
  minLe : ∀ c ∈ s.processed, s.min ≤ c.mean
  maxGe : ∀ c ∈ s.processed, c.mean ≤ s.max
  minLo : ∀ lo, LB lo xs → lo ≤ hiS → lo ≤ s.min
  maxHi : ∀ hi, UB hi xs → loS ≤ hi → s.max ≤ hi

theorem aux_inv_init (maxP maxU : Nat) (hiS loS : K) : DigestInv hiS loS [] (TD.init maxP maxU hiS loS) where
  sorted := by simp [TD.init]
  wposP := by simp [TD.init]
  wposU := by simp [TD.init]
  pw := by simp [TD.init, sumW]
  uw := by simp [TD.init, sumW]
  count := by simp [TD.init, sumW]
  hullLo := by simp [TD.init]
  hullHi := by simp [TD.init]
  minLe := by simp [TD.init]
  maxGe := by simp [TD.init]
  minLo := by intro lo _ h; simpa [TD.init] using h
  maxHi := by intro hi _ h; simpa [TD.init] using h

theorem aux_head_le (l : List (Centroid K)) (hs : l.Pairwise (fun a b => a.mean ≤ b.mean)) (h : Centroid K)
    (hh : l.head? = some h) : ∀ c ∈ l, h.mean ≤ c.mean := by
  intro c hc
  obtain ⟨i, hi⟩ := List.mem_iff_getElem?.mp hc
  rw [List.head?_eq_getElem?] at hh
  exact aux_sorted_get l hs 0 i h c hh hi (by omega)

theorem aux_le_last (l : List (Centroid K)) (hs : l.Pairwise (fun a b => a.mean ≤ b.mean)) (z : Centroid K)
    (hz : l.getLast? = some z) : ∀ c ∈ l, c.mean ≤ z.mean := by
  intro c hc
  obtain ⟨i, hi⟩ := List.mem_iff_getElem?.mp hc
  rw [List.getLast?_eq_getElem?] at hz
  have hil : i < l.length := by
    rcases Nat.lt_or_ge i l.length with h | h
    · exact h
    · rw [List.getElem?_eq_none h] at hi; cases hi
  exact aux_sorted_get l hs i (l.length - 1) c z hi hz (by omega)

/-- **`process` preserves the invariant** — for every limit function and every sort that sorts — and
empties the unprocessed buffer; when there is nothing to do it leaves the state alone. -/
theorem process_preserves_invariant (lim : Lim K) (sortBy : List (Centroid K) → List (Centroid K)) (hsort : SortSpec sortBy)
    (hiS loS : K) (xs : List K) (s : TD K) (hinv : DigestInv hiS loS xs s) :
    ∃ s', process lim sortBy s = .ok s' ∧ DigestInv hiS loS xs s' ∧ s'.unprocessed = [] ∧
      s'.maxProcessed = s.maxProcessed ∧ s'.maxUnprocessed = s.maxUnprocessed ∧
      (needsProcess s = false → s' = s) := by
  unfold process
  by_cases hnp : needsProcess s = true
  · simp only [hnp, ↓reduceIte]
    have hperm := hsort.perm (s.unprocessed ++ s.processed)
    have hsd := hsort.sorted (s.unprocessed ++ s.processed)
    have hall_w : ∀ c ∈ sortBy (s.unprocessed ++ s.processed), 0 < c.weight := by
      intro c hc
      have := (hperm.mem_iff).mp hc
      rw [List.mem_append] at this
      rcases this with h | h
      · exact hinv.wposU c h
      · exact hinv.wposP c h
    cases hall : sortBy (s.unprocessed ++ s.processed) with
    | nil =>
      exfalso
      rw [hall] at hperm
      have hl := hperm.length_eq
      simp only [List.length_nil, List.length_append] at hl
      unfold needsProcess at hnp
      simp only [Bool.or_eq_true, decide_eq_true_eq] at hnp
      omega
    | cons c0 rest =>
      rw [hall] at hsd hall_w hperm
      rw [List.pairwise_cons] at hsd
      simp only
      have hm := aux_merge lim.next (QOps.add s.processedWeight s.unprocessedWeight) rest [] c0 c0.weight
        (lim.init (QOps.add s.processedWeight s.unprocessedWeight)) (hall_w c0 (by simp)) (by simp)
        (fun c hc => hall_w c (List.mem_cons_of_mem _ hc)) (by simp) hsd.2 hsd.1
      generalize mergeLoop lim.next (QOps.add s.processedWeight s.unprocessedWeight) [] c0 c0.weight
        (lim.init (QOps.add s.processedWeight s.unprocessedWeight)) rest = out at hm
      obtain ⟨h, hh⟩ : ∃ h, out.head? = some h := by
        cases out with
        | nil => exact absurd rfl hm.ne
        | cons a b => exact ⟨a, rfl⟩
      obtain ⟨z, hz⟩ : ∃ z, out.getLast? = some z := by
        cases hl : out.getLast? with
        | none => rw [List.getLast?_eq_none_iff] at hl; exact absurd hl hm.ne
        | some z => exact ⟨z, rfl⟩
      rw [hh, hz]
      simp only
      have hsum : sumW out = sumW s.unprocessed + sumW s.processed := by
        rw [hm.sum, ← aux_sumW_append, ← aux_sumW_perm hperm, aux_sumW_cons]; simp [sumW]
      have hmem_out_lo : ∀ lo, LB lo xs → ∀ c ∈ out, lo ≤ c.mean := by
        intro lo hlo
        have hin := hinv.hullLo lo hlo
        have hin' : ∀ c ∈ c0 :: rest, lo ≤ c.mean := fun c hc => hin c ((hperm.mem_iff).mp hc)
        exact hm.lo lo (by simp) (hin' c0 (by simp)) (fun c hc => hin' c (List.mem_cons_of_mem _ hc))
      have hmem_out_hi : ∀ hi, UB hi xs → ∀ c ∈ out, c.mean ≤ hi := by
        intro hi hhi
        have hin := hinv.hullHi hi hhi
        have hin' : ∀ c ∈ c0 :: rest, c.mean ≤ hi := fun c hc => hin c ((hperm.mem_iff).mp hc)
        exact hm.hi hi (by simp) (hin' c0 (by simp)) (fun c hc => hin' c (List.mem_cons_of_mem _ hc))
      have hh_mem : h ∈ out := List.mem_of_head? hh
      have hz_mem : z ∈ out := List.mem_of_getLast? hz
      refine ⟨_, rfl, ?_, rfl, rfl, rfl, ?_⟩
      · refine ⟨hm.sorted, hm.wpos, by simp, ?_, by simp [sumW], ?_, ?_, ?_, ?_, ?_, ?_, ?_⟩
        · simp only [aux_ops_add]; rw [hsum, hinv.pw, hinv.uw]; ring
        · simp only; rw [hsum]; simp only [sumW, List.map_nil, List.sum_nil, add_zero]
          have := hinv.count; simp only [sumW] at this; linarith
        · intro lo hlo c hc; simp only [List.nil_append] at hc; exact hmem_out_lo lo hlo c hc
        · intro hi hhi c hc; simp only [List.nil_append] at hc; exact hmem_out_hi hi hhi c hc
        · intro c hc
          simp only [aux_ops_fmin]
          exact le_trans (min_le_right _ _) (aux_head_le out hm.sorted h hh c hc)
        · intro c hc
          simp only [aux_ops_fmax]
          exact le_trans (aux_le_last out hm.sorted z hz c hc) (le_max_right _ _)
        · intro lo hlo hle
          simp only [aux_ops_fmin]
          exact le_min (hinv.minLo lo hlo hle) (hmem_out_lo lo hlo h hh_mem)
        · intro hi hhi hle
          simp only [aux_ops_fmax]
          exact max_le (hinv.maxHi hi hhi hle) (hmem_out_hi hi hhi z hz_mem)
      · intro hf; cases hf
  · simp only [Bool.not_eq_true] at hnp
    simp only [hnp, Bool.false_eq_true, ↓reduceIte]
    refine ⟨s, rfl, hinv, ?_, rfl, rfl, fun _ => rfl⟩
    unfold needsProcess at hnp
    simp only [Bool.or_eq_false_iff, decide_eq_false_iff_not] at hnp
    exact List.eq_nil_of_length_eq_zero (by omega)

theorem aux_LB_append {lo : K} {xs : List K} {x : K} (h : LB lo (xs ++ [x])) : LB lo xs ∧ lo ≤ x :=
  ⟨fun y hy => h y (List.mem_append_left _ hy), h x (by simp)⟩
theorem aux_UB_append {hi : K} {xs : List K} {x : K} (h : UB hi (xs ++ [x])) : UB hi xs ∧ x ≤ hi :=
  ⟨fun y hy => h y (List.mem_append_left _ hy), h x (by simp)⟩

/-- **`Add(x, 1)` preserves the invariant** (and appends `x` to the samples seen). -/
theorem add_preserves_invariant (lim : Lim K) (sortBy : List (Centroid K) → List (Centroid K)) (hsort : SortSpec sortBy)
    (hiS loS : K) (xs : List K) (s : TD K) (hinv : DigestInv hiS loS xs s) (x : K) :
    ∃ s', add lim sortBy s x (QOps.ofNat 1) = .ok s' ∧ DigestInv hiS loS (xs ++ [x]) s' ∧
      s'.maxProcessed = s.maxProcessed ∧ s'.maxUnprocessed = s.maxUnprocessed := by
  have hinv1 : DigestInv hiS loS (xs ++ [x])
      { s with unprocessed := s.unprocessed ++ [⟨x, QOps.ofNat 1⟩], unprocessedWeight := QOps.add s.unprocessedWeight (QOps.ofNat 1) } := by
    refine ⟨hinv.sorted, hinv.wposP, ?_, hinv.pw, ?_, ?_, ?_, ?_, hinv.minLe, hinv.maxGe, ?_, ?_⟩
    · intro c hc
      simp only [List.mem_append, List.mem_singleton] at hc
      rcases hc with h | h
      · exact hinv.wposU c h
      · rw [h]; simp
    · simp only [aux_ops_add, aux_ops_ofNat, aux_sumW_append, hinv.uw]; simp [sumW]
    · simp only [aux_sumW_append]
      have := hinv.count
      simp only [sumW, List.map_cons, List.map_nil, List.sum_cons, List.sum_nil, aux_ops_ofNat, List.length_append,
        List.length_singleton] at this ⊢
      push_cast; linarith
    · intro lo hlo c hc
      obtain ⟨h1, h2⟩ := aux_LB_append hlo
      simp only [List.mem_append, List.mem_singleton] at hc
      rcases hc with (h | h) | h
      · exact hinv.hullLo lo h1 c (List.mem_append_left _ h)
      · rw [h]; exact h2
      · exact hinv.hullLo lo h1 c (List.mem_append_right _ h)
    · intro hi hhi c hc
      obtain ⟨h1, h2⟩ := aux_UB_append hhi
      simp only [List.mem_append, List.mem_singleton] at hc
      rcases hc with (h | h) | h
      · exact hinv.hullHi hi h1 c (List.mem_append_left _ h)
      · rw [h]; exact h2
      · exact hinv.hullHi hi h1 c (List.mem_append_right _ h)
    · intro lo hlo hle; exact hinv.minLo lo (aux_LB_append hlo).1 hle
    · intro hi hhi hle; exact hinv.maxHi hi (aux_UB_append hhi).1 hle
  unfold add
  have hnan : (!QOps.le x x) = false := by simp
  simp only [hnan, Bool.false_eq_true, ↓reduceIte]
  split
  · obtain ⟨s', h1, h2, _, h4, h5, _⟩ := process_preserves_invariant lim sortBy hsort hiS loS _ _ hinv1
    exact ⟨s', h1, h2, h4, h5⟩
  · exact ⟨_, rfl, hinv1, rfl, rfl⟩

theorem aux_addAll (lim : Lim K) (sortBy : List (Centroid K) → List (Centroid K)) (hsort : SortSpec sortBy)
    (hiS loS : K) (ys : List K) : ∀ (xs : List K) (s : TD K), DigestInv hiS loS xs s →
    ∃ s', addAll lim sortBy s ys = .ok s' ∧ DigestInv hiS loS (xs ++ ys) s' ∧
      s'.maxProcessed = s.maxProcessed ∧ s'.maxUnprocessed = s.maxUnprocessed := by
  induction ys with
  | nil => intro xs s h; exact ⟨s, rfl, by simpa using h, rfl, rfl⟩
  | cons y ys ih =>
    intro xs s h
    obtain ⟨s1, e1, i1, a1, b1⟩ := add_preserves_invariant lim sortBy hsort hiS loS xs s h y
    obtain ⟨s2, e2, i2, a2, b2⟩ := ih (xs ++ [y]) s1 i1
    refine ⟨s2, ?_, by simpa using i2, by rw [a2, a1], by rw [b2, b1]⟩
    simp only [addAll, e1, e2]

/-- the invariant with an empty unprocessed buffer gives `Valid` (the hypothesis of the `Quantile`
theorems) as soon as one sample was added -/
theorem aux_inv_valid (hiS loS : K) (xs : List K) (s : TD K) (hinv : DigestInv hiS loS xs s)
    (hu : s.unprocessed = []) (hne : xs ≠ []) : Valid s.digest where
  nonempty := by
    intro hp
    have hc := hinv.count
    simp only [TD.digest] at hp
    rw [hp, hu] at hc
    simp only [sumW, List.map_nil, List.sum_nil, add_zero] at hc
    have : (0:K) < (xs.length : K) := by
      have : 0 < xs.length := List.length_pos_iff.mpr hne
      exact_mod_cast this
    linarith
  sorted := hinv.sorted
  wpos := hinv.wposP
  total := by simp only [TD.digest]; exact hinv.pw
  lo := hinv.minLe
  hi := hinv.maxGe

/-- one `Quantile` call on the live digest: the leading `process()` keeps the invariant, the value
lies within every interval that contains the samples -/
theorem aux_quantileTD (lim : Lim K) (sortBy : List (Centroid K) → List (Centroid K)) (hsort : SortSpec sortBy)
    (hiS loS : K) (xs : List K) (hne : xs ≠ []) (hsent : ∀ x ∈ xs, loS ≤ x ∧ x ≤ hiS)
    (s : TD K) (hinv : DigestInv hiS loS xs s) (q : K) (h0 : 0 ≤ q) (h1 : q ≤ 1) :
    ∃ s' r, quantileTD lim sortBy s q = .ok (s', r) ∧ process lim sortBy s = .ok s' ∧ quantile s'.digest q = .ok r ∧
      DigestInv hiS loS xs s' ∧ s'.unprocessed = [] ∧ Valid s'.digest ∧
      (∀ a, LB a xs → a ≤ r) ∧ (∀ b, UB b xs → r ≤ b) := by
  obtain ⟨s', hp, hinv', hu, _, _, _⟩ := process_preserves_invariant lim sortBy hsort hiS loS xs s hinv
  have hv := aux_inv_valid hiS loS xs s' hinv' hu hne
  obtain ⟨r, hr, hlo, hhi⟩ := quantile_in_min_max s'.digest hv q h0 h1
  obtain ⟨x0, hx0⟩ := List.exists_mem_of_ne_nil xs hne
  refine ⟨s', r, ?_, hp, hr, hinv', hu, hv, ?_, ?_⟩
  · unfold quantileTD; rw [hp]; simp only [hr]
  · intro a ha
    exact le_trans (hinv'.minLo a ha (le_trans (ha x0 hx0) (hsent x0 hx0).2)) hlo
  · intro b hb
    exact le_trans hhi (hinv'.maxHi b hb (le_trans (hsent x0 hx0).1 (hb x0 hx0)))

/-- **`Valid` is a theorem** (`process_preserves_valid`): for EVERY limit function and every sort that
sorts, after adding any non-empty sample sequence (weight 1 each, as vegeta does) through any
interleaving of buffer fills and `process` calls that `Add` performs, and the `process()` that
`Quantile` starts with: the processed list has sorted means, positive weights, total weight = number of
samples = `processedWeight`, the unprocessed buffer is empty, every centroid mean and the `min`/`max`
fields lie within every interval that contains the samples, and `min ≤ every mean ≤ max`. -/
theorem process_preserves_valid (lim : Lim K) (sortBy : List (Centroid K) → List (Centroid K)) (hsort : SortSpec sortBy)
    (maxP maxU : Nat) (hiS loS : K) (xs : List K) (hne : xs ≠ []) (hsent : ∀ x ∈ xs, loS ≤ x ∧ x ≤ hiS) :
    ∃ s s', addAll lim sortBy (TD.init maxP maxU hiS loS) xs = .ok s ∧ process lim sortBy s = .ok s' ∧
      Valid s'.digest ∧ s'.unprocessed = [] ∧
      s'.processedWeight = (xs.length : K) ∧ sumW s'.processed = (xs.length : K) ∧
      (∀ a, LB a xs → (∀ c ∈ s'.processed, a ≤ c.mean) ∧ a ≤ s'.min) ∧
      (∀ b, UB b xs → (∀ c ∈ s'.processed, c.mean ≤ b) ∧ s'.max ≤ b) := by
  obtain ⟨s, hs, hinv, _, _⟩ := aux_addAll lim sortBy hsort hiS loS xs [] _ (aux_inv_init maxP maxU hiS loS)
  simp only [List.nil_append] at hinv
  obtain ⟨s', hp, hinv', hu, _, _, _⟩ := process_preserves_invariant lim sortBy hsort hiS loS xs s hinv
  have hv := aux_inv_valid hiS loS xs s' hinv' hu hne
  obtain ⟨x0, hx0⟩ := List.exists_mem_of_ne_nil xs hne
  have hc := hinv'.count
  rw [hu] at hc
  simp only [sumW, List.map_nil, List.sum_nil, add_zero] at hc
  refine ⟨s, s', hs, hp, hv, hu, ?_, hc, ?_, ?_⟩
  · rw [hinv'.pw]; exact hc
  · intro a ha
    exact ⟨fun c hc => hinv'.hullLo a ha c (List.mem_append_right _ hc),
      hinv'.minLo a ha (le_trans (ha x0 hx0) (hsent x0 hx0).2)⟩
  · intro b hb
    exact ⟨fun c hc => hinv'.hullHi b hb c (List.mem_append_right _ hc),
      hinv'.maxHi b hb (le_trans (hsent x0 hx0).1 (hb x0 hx0))⟩

/-- **End to end: `min sample ≤ Quantile(q) ≤ max sample`** for the estimate computed from the samples
themselves (`Add` each, then `Quantile`), for every limit function, every sorting sort and every
q ∈ [0,1] — and nothing panics. -/
theorem e2e_quantile_in_sample_range (lim : Lim K) (sortBy : List (Centroid K) → List (Centroid K)) (hsort : SortSpec sortBy)
    (maxP maxU : Nat) (hiS loS : K) (xs : List K) (hne : xs ≠ []) (hsent : ∀ x ∈ xs, loS ≤ x ∧ x ≤ hiS)
    (a b : K) (ha : LB a xs) (hb : UB b xs) (q : K) (h0 : 0 ≤ q) (h1 : q ≤ 1) :
    ∃ s s' r, addAll lim sortBy (TD.init maxP maxU hiS loS) xs = .ok s ∧
      quantileTD lim sortBy s q = .ok (s', r) ∧ a ≤ r ∧ r ≤ b := by
  obtain ⟨s, hs, hinv, _, _⟩ := aux_addAll lim sortBy hsort hiS loS xs [] _ (aux_inv_init maxP maxU hiS loS)
  simp only [List.nil_append] at hinv
  obtain ⟨s', r, hq, _, _, _, _, _, hlo, hhi⟩ := aux_quantileTD lim sortBy hsort hiS loS xs hne hsent s hinv q h0 h1
  exact ⟨s, s', r, hs, hq, hlo a ha, hhi b hb⟩

theorem aux_latQuantileTD (trunc : K → Int) (htr : ∀ a b : K, a ≤ b → trunc a ≤ trunc b) (htri : ∀ i : Int, trunc (i : K) = i)
    (lim : Lim K) (sortBy : List (Centroid K) → List (Centroid K)) (hsort : SortSpec sortBy)
    (hiS loS : K) (xs : List K) (hne : xs ≠ []) (hsent : ∀ x ∈ xs, loS ≤ x ∧ x ≤ hiS)
    (lo hi : Int) (hlo : LB (lo : K) xs) (hhi : UB (hi : K) xs)
    (s : TD K) (hinv : DigestInv hiS loS xs s) (q : K) (h0 : 0 ≤ q) (h1 : q ≤ 1) :
    ∃ s' r, latQuantileTD trunc lim sortBy s q = .ok (s', trunc r) ∧ process lim sortBy s = .ok s' ∧
      quantile s'.digest q = .ok r ∧ DigestInv hiS loS xs s' ∧ s'.unprocessed = [] ∧ Valid s'.digest ∧
      lo ≤ trunc r ∧ trunc r ≤ hi := by
  obtain ⟨s', r, hq, hp, hr, hinv', hu, hv, ha, hb⟩ := aux_quantileTD lim sortBy hsort hiS loS xs hne hsent s hinv q h0 h1
  refine ⟨s', r, ?_, hp, hr, hinv', hu, hv, ?_, ?_⟩
  · unfold latQuantileTD; rw [hq]
  · rw [← htri lo]; exact htr _ _ (ha _ hlo)
  · rw [← htri hi]; exact htr _ _ (hb _ hhi)

/-- **End to end, unconditional: each of P50, P90, P95, P99 lies between the smallest and the largest
latency**, for every limit function and every sorting sort: `Metrics.Add` for every latency, then the
four `Quantile` calls of `Metrics.Close`, each with its own leading `process()`. -/
theorem e2e_percentiles_in_range (trunc : K → Int) (htr : ∀ a b : K, a ≤ b → trunc a ≤ trunc b) (htri : ∀ i : Int, trunc (i : K) = i)
    (lim : Lim K) (sortBy : List (Centroid K) → List (Centroid K)) (hsort : SortSpec sortBy)
    (maxP maxU : Nat) (hiS loS : K) (lats : List Int) (hne : lats ≠ [])
    (hsent : ∀ l ∈ lats, loS ≤ (l : K) ∧ (l : K) ≤ hiS)
    (lo hi : Int) (hlo : ∀ l ∈ lats, lo ≤ l) (hhi : ∀ l ∈ lats, l ≤ hi) :
    ∃ s p, runClose trunc lim sortBy (TD.init maxP maxU hiS loS) lats = .ok (s, p) ∧
      lo ≤ p.p50 ∧ p.p50 ≤ hi ∧ lo ≤ p.p90 ∧ p.p90 ≤ hi ∧ lo ≤ p.p95 ∧ p.p95 ≤ hi ∧ lo ≤ p.p99 ∧ p.p99 ≤ hi := by
  have hmap : lats.map (QOps.ofInt : Int → K) = lats.map (fun i : Int => (i : K)) := rfl
  set xs : List K := lats.map (fun i : Int => (i : K)) with hxs
  have hne' : xs ≠ [] := by simpa [hxs] using hne
  have hsent' : ∀ x ∈ xs, loS ≤ x ∧ x ≤ hiS := by
    intro x hx; simp only [hxs, List.mem_map] at hx; obtain ⟨l, hl, rfl⟩ := hx; exact hsent l hl
  have hLB : LB (lo : K) xs := by
    intro x hx; simp only [hxs, List.mem_map] at hx; obtain ⟨l, hl, rfl⟩ := hx; exact_mod_cast hlo l hl
  have hUB : UB (hi : K) xs := by
    intro x hx; simp only [hxs, List.mem_map] at hx; obtain ⟨l, hl, rfl⟩ := hx; exact_mod_cast hhi l hl
  obtain ⟨s, hs, hinv, _, _⟩ := aux_addAll lim sortBy hsort hiS loS xs [] _ (aux_inv_init maxP maxU hiS loS)
  simp only [List.nil_append] at hinv
  have r50 := aux_lit_range (K := K) 50 100 (by omega) (by omega)
  have r90 := aux_lit_range (K := K) 90 100 (by omega) (by omega)
  have r95 := aux_lit_range (K := K) 95 100 (by omega) (by omega)
  have r99 := aux_lit_range (K := K) 99 100 (by omega) (by omega)
  obtain ⟨s1, a, e1, _, _, i1, _, _, la, ua⟩ := aux_latQuantileTD trunc htr htri lim sortBy hsort hiS loS xs hne' hsent' lo hi hLB hUB s hinv _ r50.1 r50.2
  obtain ⟨s2, b, e2, _, _, i2, _, _, lb, ub⟩ := aux_latQuantileTD trunc htr htri lim sortBy hsort hiS loS xs hne' hsent' lo hi hLB hUB s1 i1 _ r90.1 r90.2
  obtain ⟨s3, c, e3, _, _, i3, _, _, lc, uc⟩ := aux_latQuantileTD trunc htr htri lim sortBy hsort hiS loS xs hne' hsent' lo hi hLB hUB s2 i2 _ r95.1 r95.2
  obtain ⟨s4, e, e4, _, _, i4, _, _, le', ue⟩ := aux_latQuantileTD trunc htr htri lim sortBy hsort hiS loS xs hne' hsent' lo hi hLB hUB s3 i3 _ r99.1 r99.2
  refine ⟨s4, ⟨trunc a, trunc b, trunc c, trunc e⟩, ?_, la, ua, lb, ub, lc, uc, le', ue⟩
  unfold runClose
  rw [hmap, hs]
  simp only [closeTD, e1, e2, e3, e4]

/-- **End to end: when all latencies are equal every reported percentile equals that value** — for
every limit function and every sorting sort, with no side condition. -/
theorem e2e_all_equal (trunc : K → Int) (htr : ∀ a b : K, a ≤ b → trunc a ≤ trunc b) (htri : ∀ i : Int, trunc (i : K) = i)
    (lim : Lim K) (sortBy : List (Centroid K) → List (Centroid K)) (hsort : SortSpec sortBy)
    (maxP maxU : Nat) (hiS loS : K) (lats : List Int) (hne : lats ≠ []) (v : Int) (hall : ∀ l ∈ lats, l = v)
    (hsent : loS ≤ (v : K) ∧ (v : K) ≤ hiS) :
    ∃ s, runClose trunc lim sortBy (TD.init maxP maxU hiS loS) lats = .ok (s, ⟨v, v, v, v⟩) := by
  obtain ⟨s, p, h, a1, a2, b1, b2, c1, c2, d1, d2⟩ := e2e_percentiles_in_range trunc htr htri lim sortBy hsort maxP maxU hiS loS lats hne
    (fun l hl => by rw [hall l hl]; exact hsent) v v (fun l hl => by rw [hall l hl]) (fun l hl => by rw [hall l hl])
  refine ⟨s, ?_⟩
  rw [h]
  obtain ⟨p50, p90, p95, p99⟩ := p
  simp only at a1 a2 b1 b2 c1 c2 d1 d2
  have : p50 = v := by omega
  have : p90 = v := by omega
  have : p95 = v := by omega
  have : p99 = v := by omega
  subst_vars; rfl

theorem aux_process_idle (lim : Lim K) (sortBy : List (Centroid K) → List (Centroid K)) (s : TD K)
    (hu : s.unprocessed = []) (hl : s.processed.length ≤ s.maxProcessed) : process lim sortBy s = .ok s := by
  unfold process needsProcess
  have h1 : ¬ (s.unprocessed.length > 0) := by rw [hu]; simp
  have h2 : ¬ (s.processed.length > s.maxProcessed) := by omega
  simp [h1, h2]

/-- **End to end: `min ≤ P50 ≤ P90 ≤ P95 ≤ P99 ≤ max`** over the latencies themselves, for every limit
function and every sorting sort, PROVIDED the first `process()` of `Close` leaves at most
`maxProcessed` centroids (`hstable`).  Each of the four `Quantile` calls starts with `process()`, and
`process` re-merges a list longer than `maxProcessed` even when nothing was added; only under `hstable`
do the four percentiles come from one and the same centroid list, so that monotonicity in q applies.
(The scale function bounds the count in the real library; the harness checks `len ≤ maxProcessed` on
every state.  Without it `e2e_percentiles_in_range` still holds.) -/
theorem e2e_percentiles_ordered (trunc : K → Int) (htr : ∀ a b : K, a ≤ b → trunc a ≤ trunc b) (htri : ∀ i : Int, trunc (i : K) = i)
    (lim : Lim K) (sortBy : List (Centroid K) → List (Centroid K)) (hsort : SortSpec sortBy)
    (maxP maxU : Nat) (hiS loS : K) (lats : List Int) (hne : lats ≠ [])
    (hsent : ∀ l ∈ lats, loS ≤ (l : K) ∧ (l : K) ≤ hiS)
    (lo hi : Int) (hlo : ∀ l ∈ lats, lo ≤ l) (hhi : ∀ l ∈ lats, l ≤ hi)
    (hstable : ∀ s s1, addAll lim sortBy (TD.init maxP maxU hiS loS) (lats.map QOps.ofInt) = .ok s →
      process lim sortBy s = .ok s1 → s1.processed.length ≤ s1.maxProcessed) :
    ∃ s p, runClose trunc lim sortBy (TD.init maxP maxU hiS loS) lats = .ok (s, p) ∧
      lo ≤ p.p50 ∧ p.p50 ≤ p.p90 ∧ p.p90 ≤ p.p95 ∧ p.p95 ≤ p.p99 ∧ p.p99 ≤ hi := by
  have hmap : lats.map (QOps.ofInt : Int → K) = lats.map (fun i : Int => (i : K)) := rfl
  set xs : List K := lats.map (fun i : Int => (i : K)) with hxs
  have hne' : xs ≠ [] := by simpa [hxs] using hne
  have hsent' : ∀ x ∈ xs, loS ≤ x ∧ x ≤ hiS := by
    intro x hx; simp only [hxs, List.mem_map] at hx; obtain ⟨l, hl, rfl⟩ := hx; exact hsent l hl
  have hLB : LB (lo : K) xs := by
    intro x hx; simp only [hxs, List.mem_map] at hx; obtain ⟨l, hl, rfl⟩ := hx; exact_mod_cast hlo l hl
  have hUB : UB (hi : K) xs := by
    intro x hx; simp only [hxs, List.mem_map] at hx; obtain ⟨l, hl, rfl⟩ := hx; exact_mod_cast hhi l hl
  obtain ⟨s, hs, hinv, _, _⟩ := aux_addAll lim sortBy hsort hiS loS xs [] _ (aux_inv_init maxP maxU hiS loS)
  simp only [List.nil_append] at hinv
  have r50 := aux_lit_range (K := K) 50 100 (by omega) (by omega)
  have r90 := aux_lit_range (K := K) 90 100 (by omega) (by omega)
  have r95 := aux_lit_range (K := K) 95 100 (by omega) (by omega)
  have r99 := aux_lit_range (K := K) 99 100 (by omega) (by omega)
  have l1 := aux_lit_le (K := K) 50 100 90 100 (by omega) (by omega) (by omega)
  have l2 := aux_lit_le (K := K) 90 100 95 100 (by omega) (by omega) (by omega)
  have l3 := aux_lit_le (K := K) 95 100 99 100 (by omega) (by omega) (by omega)
  obtain ⟨s1, a, e1, p1, q1, i1, u1, v1, la, _⟩ := aux_latQuantileTD trunc htr htri lim sortBy hsort hiS loS xs hne' hsent' lo hi hLB hUB s hinv _ r50.1 r50.2
  have hidle := aux_process_idle lim sortBy s1 u1 (hstable s s1 (by rw [hmap]; exact hs) p1)
  -- the three later calls find nothing to do: same state
  have step : ∀ q : K, 0 ≤ q → q ≤ 1 → ∃ r, latQuantileTD trunc lim sortBy s1 q = .ok (s1, trunc r) ∧ quantile s1.digest q = .ok r := by
    intro q h0 h1
    obtain ⟨r, hr, _, _⟩ := quantile_in_min_max s1.digest v1 q h0 h1
    refine ⟨r, ?_, hr⟩
    unfold latQuantileTD quantileTD
    rw [hidle]; simp only [hr]
  obtain ⟨b, e2, q2⟩ := step _ r90.1 r90.2
  obtain ⟨c, e3, q3⟩ := step _ r95.1 r95.2
  obtain ⟨e, e4, q4⟩ := step _ r99.1 r99.2
  have mono : ∀ (qa qb x y : K), 0 ≤ qa → qa ≤ qb → qb ≤ 1 → quantile s1.digest qa = .ok x → quantile s1.digest qb = .ok y → x ≤ y := by
    intro qa qb x y h0 h12 h1 hx hy
    obtain ⟨x', y', hx', hy', hxy⟩ := quantile_monotone_in_q s1.digest v1 qa qb h0 h12 h1
    rw [hx] at hx'; cases hx'
    rw [hy] at hy'; cases hy'
    exact hxy
  obtain ⟨e', he', _, hemax⟩ := quantile_in_min_max s1.digest v1 _ r99.1 r99.2
  rw [q4] at he'; cases he'
  obtain ⟨x0, hx0⟩ := List.exists_mem_of_ne_nil xs hne'
  have hmaxhi : s1.max ≤ (hi : K) := i1.maxHi _ hUB (le_trans (hsent' x0 hx0).1 (hUB x0 hx0))
  refine ⟨s1, ⟨trunc a, trunc b, trunc c, trunc e⟩, ?_, la,
    htr _ _ (mono _ _ a b r50.1 l1 r90.2 q1 q2), htr _ _ (mono _ _ b c r90.1 l2 r95.2 q2 q3),
    htr _ _ (mono _ _ c e r95.1 l3 r99.2 q3 q4), ?_⟩
  · unfold runClose
    rw [hmap, hs]
    simp only [closeTD, e1, e2, e3, e4]
  · rw [← htri hi]; exact htr _ _ (le_trans hemax hmaxhi)

/-- `SortSpec` is satisfiable: merge sort by mean (any sort that sorts will do; Go's is pdqsort) -/
theorem sortSpec_mergeSort : SortSpec (fun l : List (Centroid K) => l.mergeSort (fun a b => decide (a.mean ≤ b.mean))) where
  perm l := List.mergeSort_perm l _
  sorted l := by
    have := List.pairwise_mergeSort (le := fun (a b : Centroid K) => decide (a.mean ≤ b.mean))
      (fun a b c hab hbc => by simp only [decide_eq_true_eq] at *; exact le_trans hab hbc)
      (fun a b => by simp only [Bool.or_eq_true, decide_eq_true_eq]; exact le_total _ _) l
    exact this.imp (by intro a b h; simpa using h)

/-- the compression pass runs (SoftF64): samples 3, 1, 2, 5 into a digest whose unprocessed buffer
holds 3; the fourth `Add` runs `process` (permutation of the sort: 1 2 0 3; limits 2, then 100):
centroids (1.5, w 2) and (4, w 2) — and `min` = 1.5, `max` = 4 are centroid MEANS, strictly inside the
sample range [1, 5] -/
example :
    (match addAll (F := F64) ⟨fun _ => F64.ofNat 2, fun _ _ => F64.ofNat 100⟩ (applyPerm [1, 2, 0, 3])
        (TD.init 2 3 (F64.ofNat 1000) (F64.ofInt (-1000))) [F64.ofNat 3, F64.ofNat 1, F64.ofNat 2, F64.ofNat 5] with
      | .ok s => (s.processed.map (fun c => (c.mean.bits, c.weight.bits)), s.unprocessed.length, s.min.bits, s.max.bits)
      | _ => ([], 0, 0, 0))
    = ([((lit 3 2 : F64).bits, (F64.ofNat 2).bits), ((F64.ofNat 4).bits, (F64.ofNat 2).bits)], 0,
       (lit 3 2 : F64).bits, (F64.ofNat 4).bits) := by decide +kernel

/-- the hypotheses of the end-to-end theorems are satisfiable over ℚ: a sorting sort exists
(`sortSpec_mergeSort`), any limit function will do, e.g. the constant 2 -/
example : ∃ (lim : Lim ℚ) (sortBy : List (Centroid ℚ) → List (Centroid ℚ)), SortSpec sortBy ∧ lim.init 7 = 2 :=
  ⟨⟨fun _ => 2, fun _ _ => 2⟩, _, sortSpec_mergeSort, rfl⟩

end Vegeta.Props.C11
