/-
C02 — Every started hit yields exactly one result and the attack ends cleanly.
Theorems about every reachable state of the attack transition system (Model/Attack.lean):
all interleavings of pacer ticks, completions, consumption, Stop calls, pacer-stop decisions
and targeter errors; any initial/max worker counts; no depth bound.
-/
import Vegeta.Proofs.AttackInv
import Vegeta.Proofs.AttackLive
import Vegeta.Proofs.AttackAcceptSound
import Vegeta.Model.Pump
import Vegeta.Extracted.Facts
namespace Vegeta.Props.C02
open Vegeta.Model.Attack Vegeta.Proofs.Attack

variable {w m d : Nat} {s : St}

/-- **Sequence numbers are exactly 0..n-1**: the hits that started carry the sequence numbers
`0, 1, …, seq-1`, one each, in order of assignment. -/
theorem seq_exactly_range (h : Reachable w m d s) : s.hits.map (·.seq) = List.range s.seq := by
  have c := core_reachable h
  apply List.ext_getElem?
  intro i
  rw [c.seqlen]
  simp only [List.getElem?_map, List.getElem?_range']
  by_cases hi : i < s.hits.length
  · rw [List.getElem?_eq_getElem hi, List.getElem?_range hi]
    simp [c.seqidx i _ (List.getElem?_eq_getElem hi)]
  · rw [List.getElem?_eq_none (by omega), List.getElem?_eq_none (by simp; omega)]; rfl

/-- **Exactly one result per started hit, nothing for a hit that never started**: the delivered
sequence numbers contain no duplicate, and each belongs to a hit that started (`< seq`). -/
theorem delivered_nodup_and_started (h : Reachable w m d s) :
    s.delivered.Nodup ∧ ∀ i ∈ s.delivered, i < s.seq := by
  have c := core_reachable h
  have dl := deliv_reachable h
  refine ⟨dl.nodup, ?_⟩
  intro i hi
  obtain ⟨hh, he, _⟩ := (dl.mem i).mp hi
  rw [c.seqlen]
  rcases Nat.lt_or_ge i s.hits.length with h | h
  · exact h
  · rw [List.getElem?_eq_none h] at he; cases he

theorem aux_all_delivered_of_busy0 (hb : busyHits s = 0) (i : Nat) (hi : i < s.hits.length) : isDel s.hits i := by
  have := countP_zero_all (fun h : Hit => decide (h.phase ≠ .delivered)) s.hits hb i s.hits[i] (List.getElem?_eq_getElem hi)
  exact ⟨s.hits[i], List.getElem?_eq_getElem hi, by simpa using this⟩

/-- **The channel is closed only after every in-flight hit has delivered its result**: once the
results channel is closed every worker has exited, no hit is pending anywhere, the ticks channel
is closed, and the delivered sequence numbers are exactly `0..seq-1` (no gap). -/
theorem closed_only_after_all_delivered (h : Reachable w m d s) (hc : s.resultsClosed = true) :
    s.exited = s.nworkers ∧ s.starting = 0 ∧ s.idle = 0 ∧ s.got = 0 ∧ s.cs = none ∧ s.ticksClosed = true ∧
    ∀ i, i < s.seq → i ∈ s.delivered := by
  have c := core_reachable h
  have dl := deliv_reachable h
  have haw : afterWait s.pc = true := by
    have hrc := c.rc; rw [hc] at hrc
    cases hp : s.pc <;> rw [hp] at hrc <;> simp [afterCloseResults] at hrc <;> rfl
  have hex := c.ex haw
  have hpop := c.pop
  have hcs : s.cs = none := by
    cases hcs : s.cs with
    | none => rfl
    | some t => simp [csN, hcs] at hpop; omega
  have hb : busyHits s = 0 := by omega
  refine ⟨hex, by omega, by omega, by omega, hcs, ?_, ?_⟩
  · rw [c.tc]; cases hp : s.pc <;> rw [hp] at haw <;> simp [afterWait] at haw <;> rfl
  · intro i hi
    rw [c.seqlen] at hi
    exact (dl.mem i).mpr (aux_all_delivered_of_busy0 hb i hi)

/-- **No send on a closed channel, no double close**: the panic state is unreachable, so the
results channel is closed at most once and no worker ever sends after the close. -/
theorem never_panics (h : Reachable w m d s) : s.panicked = false := (core_reachable h).np

/-- **No goroutine of the attack is left behind**: in a terminal state every worker goroutine
that was ever started has exited and nothing is in flight. -/
theorem terminal_all_exited (h : Reachable w m d s) (hd : s.pc = .done) :
    s.exited = s.nworkers ∧ s.starting + s.idle + s.got + csN s + busyHits s = 0 ∧
    s.resultsClosed = true ∧ s.ticksClosed = true ∧ s.stopClosed = true := by
  have c := core_reachable h
  have dl := deliv_reachable h
  have hex := c.ex (by rw [hd]; rfl)
  have hpop := c.pop
  exact ⟨hex, by omega, by rw [c.rc, hd]; rfl, by rw [c.tc, hd]; rfl, done_stopped h hd⟩

/-- **Among all Stop calls exactly one reports that it initiated the stop** (external calls,
the calls made by workers whose targeter failed, and the attack's own deferred call alike),
whatever their interleaving. -/
theorem stop_exactly_one_true (h : Reachable w m d s) (hne : s.stopReturns ≠ []) :
    s.stopReturns.count true = 1 := by
  have dl := deliv_reachable h
  rw [dl.stop1, dl.stopc hne]; rfl

/-- Before any Stop call nobody has reported anything, and the stop channel is open unless
a call was made. -/
theorem stop_closed_iff_called (h : Reachable w m d s) : s.stopClosed = true ↔ s.stopReturns.count true = 1 := by
  have dl := deliv_reachable h
  rw [dl.stop1]; by_cases hc : s.stopClosed <;> simp [hc]

/-! #### the attack ends -/

/-- **Once the main loop has left its loop (pacer stop, deadline, targeter failure or Stop seen)
the attack ends**: (1) until the terminal state some goroutine of the attack or the consumer
always has an enabled step; (2) every such step strictly decreases a natural-number measure, so
any run of the attack's goroutines from that point has at most `mu s` steps — the clock and
external Stop calls cannot add to it. Under the sole assumption that enabled goroutines are
eventually scheduled and the caller keeps receiving, the channel is closed and `done` reached. -/
theorem closing_terminates (h : Reachable w m d s) (hcl : closing s.pc = true) :
    (s.pc ≠ .done → ∃ l s', isEnv l = false ∧ step s l = some s') ∧
    (∀ ls s', (∀ l ∈ ls, isEnv l = false) → run s ls = some s' → ls.length + mu s' ≤ mu s) :=
  ⟨fun hnd => closing_not_stuck s (core_reachable h) hcl hnd,
   fun ls s' hall hr => closing_run_bounded ls s s' h hcl hall hr⟩

/-- **A raised stop is seen at the next send**: with the stop channel closed the main loop, when
it reaches its `select`, can take the stop branch and cannot add a worker. -/
theorem stop_seen_at_send (hpc : s.pc = .trySend ∨ s.pc = .blockSend) (hst : s.stopClosed = true) :
    (∃ s', step s .seeStop = some s' ∧ s'.pc = .closeTicks) ∧ step s .spawn = none := by
  refine ⟨⟨{ s with pc := .closeTicks }, by simp [step, hpc, hst], rfl⟩, ?_⟩
  simp [step, hst]

/-! #### the conformance check composes with the theorems -/

/-- **What the controlled-schedule check establishes**: when the Lean acceptor accepts a trace
recorded on the real `Attack` (the driver answers `ok`), the initial observation and every
observation after a command equal the observable projection (`obsOf`) of some *reachable* state —
a state of which every theorem of this file, of C03, C04 and C05 holds. -/
theorem conformance_accepts_only_reachable (workers maxW : Nat) (o0 : Obs) (tr : List (Cmd × CmdObs × Obs))
    (h : acceptRun workers maxW o0 tr = none) :
    (∃ s, Reachable workers maxW 0 s ∧ obsOf s false = o0) ∧
    ∀ x ∈ tr, ∃ s sc, Reachable workers maxW 0 s ∧ obsOf s sc = x.2.2 :=
  acceptRun_explained workers maxW o0 tr h

/-- … in particular an accepted trace never shows a delivered sequence number twice, nor one
that was not started. -/
theorem accepted_trace_delivers_started_hits_once (workers maxW : Nat) (o0 : Obs) (tr : List (Cmd × CmdObs × Obs))
    (h : acceptRun workers maxW o0 tr = none) : ∀ x ∈ tr, x.2.2.delivered.Nodup := by
  intro x hx
  obtain ⟨s, sc, hr, ho⟩ := (acceptRun_explained workers maxW o0 tr h).2 x hx
  rw [← ho]
  simp only [obsOf]
  have hn := (delivered_nodup_and_started hr).1
  unfold List.Nodup at hn ⊢
  rw [List.pairwise_reverse]
  exact hn.imp (fun h => fun e => h e.symm)

/-! #### the shape `Stop` had before the repair: check, then close — two callers can both win -/

/-- old `Stop`: `select { case <-stopch: return false; default: once.Do(close); return true }`
as its two steps; `pending` = callers that passed the `default` branch and have not returned. -/
structure OldStop where
  closed  : Bool
  pending : Nat
  returns : List Bool
  deriving DecidableEq

inductive OldLbl | check | finish

def oldStep (s : OldStop) : OldLbl → Option OldStop
  | .check => if s.closed then some { s with returns := false :: s.returns } else some { s with pending := s.pending + 1 }
  | .finish => if s.pending > 0 then some { s with pending := s.pending - 1, closed := true, returns := true :: s.returns } else none

/-- With the old two-step shape two concurrent callers both return `true`. -/
theorem stop_old_shape_counterexample :
    ((oldStep ⟨false, 0, []⟩ .check).bind (oldStep · .check) |>.bind (oldStep · .finish) |>.bind (oldStep · .finish))
      = some ⟨true, 0, [true, true]⟩ := by decide

/-! #### non-vacuity: a reachable state with two hits in flight, one blocked send and a Stop -/

def demoTrace : List Lbl :=
  [.ready, .paceWait 0, .wake, .tick, .csEnter, .csLeave, .paceWait 5, .advance 5, .wake, .spawn, .ready, .tick,
   .csEnter, .csLeave, .enter 0, .leave 0, .finish 0, .stop, .paceWait 0, .wake, .seeStop, .closeTicks,
   .deliver 0, .finish 1, .deliver 1, .exit, .exit, .wgDone, .closeResults, .finalStop]

theorem aux_run_reachable (w m d : Nat) : ∀ (ls : List Lbl) (s s' : St), Reachable w m d s → run s ls = some s' → Reachable w m d s' := by
  intro ls
  induction ls with
  | nil => intro s s' h hr; simp [run] at hr; subst hr; exact h
  | cons l ls ih =>
    intro s s' h hr
    simp only [run] at hr
    split at hr
    · rename_i s1 hs1; exact ih s1 s' (Reachable.step l h hs1) hr
    · cases hr

example : (run (init 1 2 0) demoTrace).map (fun s => (s.pc, s.delivered, s.stopReturns, s.exited, s.resultsClosed, s.panicked))
    = some (.done, [1, 0], [false, true], 2, true, false) := by decide

example : Reachable 1 2 0 ((run (init 1 2 0) (demoTrace.take 18)).getD default) ∧
    ((run (init 1 2 0) (demoTrace.take 18)).map (fun s => (inFlight s, s.stopReturns))) = some (2, [true]) := by
  refine ⟨?_, by decide⟩
  have : ∃ s', run (init 1 2 0) (demoTrace.take 18) = some s' := by
    cases h : run (init 1 2 0) (demoTrace.take 18) with
    | none => exact absurd h (by decide)
    | some s' => exact ⟨s', rfl⟩
  obtain ⟨s', hs'⟩ := this
  rw [hs']; exact aux_run_reachable 1 2 0 _ _ _ Reachable.init hs'

/-! #### source fact (binding): `Stop` has the shape the model's atomic `stop` step assumes -/

def bytesOf (s : String) : List Nat := s.toUTF8.toList.map (·.toNat)

/-- `Stop` is: a local flag; `once.Do(func(){ close(stopch); flag = true })`; `return flag`.
The return value is decided inside the `sync.Once` function, so callers are serialised and
exactly the closing call reports `true` — which is what `doStop` models as one step. -/
theorem facts_stop_shape : Vegeta.Extracted.stopShape =
    [[97, 115, 115, 105, 103, 110, 32, 115, 116, 111, 112, 112, 101, 100],
     [111, 110, 99, 101, 46, 68, 111, 123, 99, 97, 108, 108, 32, 99, 108, 111, 115, 101, 59, 97, 115, 115, 105, 103, 110, 32, 115, 116, 111, 112, 112, 101, 100, 125],
     [114, 101, 116, 117, 114, 110]] := by decide

/-! #### source facts (binding): the shape of `Attack` the transition system assumes -/

/-- Both channels of an attack are unbuffered (`results unbuffered`, `ticks unbuffered`): a tick handed over is a
tick a worker holds (the model's `tick` step moves a worker from `idle` to `got` in the same step — there is no room
for a released hit other than a worker's hands), and a result delivered is a result the consumer has taken. -/
theorem facts_attack_channels : Vegeta.Extracted.attackChans =
    [[114, 101, 115, 117, 108, 116, 115, 32, 117, 110, 98, 117, 102, 102, 101, 114, 101, 100],
     [116, 105, 99, 107, 115, 32, 117, 110, 98, 117, 102, 102, 101, 114, 101, 100]] := by decide

/-- The deferred end of the main goroutine is `close(ticks); wg.Wait(); close(results); a.Stop()` in this order — the
model's `closeTicks → waitWG → closeResults → finalStop → done`. -/
theorem facts_attack_deferred : Vegeta.Extracted.attackDeferred =
    [[99, 108, 111, 115, 101, 32, 116, 105, 99, 107, 115],
     [87, 97, 105, 116],
     [99, 108, 111, 115, 101, 32, 114, 101, 115, 117, 108, 116, 115],
     [83, 116, 111, 112]] := by decide

/-- Every worker goroutine is announced to the WaitGroup by exactly one `wg.Add(1)` immediately before its
`go a.attack(…)` (`wg.Add(1) => go attack` for the initial pool, `workers++; wg.Add(1) => go attack` on demand), and
these are the only `Add` calls in `Attack`: the WaitGroup counts exactly the goroutines started — the model's
`nworkers`, which `wgDone` compares with `exited`. (Seeds c02l/c04m added the unclamped count in one call.) -/
theorem facts_attack_spawn_sites : Vegeta.Extracted.attackSpawnSites =
    [[119, 103, 46, 65, 100, 100, 40, 49, 41, 32, 61, 62, 32, 103, 111, 32, 97, 116, 116, 97, 99, 107],
     [119, 111, 114, 107, 101, 114, 115, 43, 43, 59, 32, 119, 103, 46, 65, 100, 100, 40, 49, 41, 32, 61, 62, 32, 103, 111, 32, 97, 116, 116, 97, 99, 107]] ∧ Vegeta.Extracted.attackWaitGroupAdds = 2 := by decide

/-! #### the CLI result pump (`processAttack`, attack.go) -/

def PumpInv (p : Vegeta.Model.Pump.St) : Prop :=
  ∃ k, p.encoded = (List.range k).reverse ∧ k ≤ p.arrived ∧ (p.ret = .running → k = p.arrived)

open Vegeta.Model.Pump in
theorem aux_pump_step (p : Vegeta.Model.Pump.St) (ev : Ev) (h : PumpInv p) : PumpInv (Vegeta.Model.Pump.step p ev) := by
  obtain ⟨k, hk, hle, hrun⟩ := h
  unfold Vegeta.Model.Pump.step
  by_cases hr : p.ret = .running
  · have hka := hrun hr
    simp only [hr, ne_eq, not_true_eq_false, ↓reduceIte]
    cases ev with
    | e => exact ⟨k, hk, hle, fun _ => hka⟩
    | s =>
      by_cases hc : p.stopClosed = true
      · simp only [hc, ↓reduceIte]; exact ⟨k, hk, hle, by simp⟩
      · simp only [hc, Bool.false_eq_true, ↓reduceIte]; exact ⟨k, hk, hle, fun _ => hka⟩
    | c => exact ⟨k, hk, hle, by simp⟩
    | r =>
      by_cases hf : p.failNext = true
      · simp only [hf, ↓reduceIte]; exact ⟨k, hk, by simp; omega, by simp⟩
      · simp only [hf, Bool.false_eq_true, ↓reduceIte]
        refine ⟨k + 1, ?_, by simp; omega, fun _ => by simp; omega⟩
        simp only [List.range_succ, List.reverse_append, List.reverse_cons, List.reverse_nil, List.nil_append,
          List.singleton_append, hk, hka]
  · simp only [ne_eq, hr, not_false_eq_true, ↓reduceIte]
    exact ⟨k, hk, hle, fun h => absurd h hr⟩

open Vegeta.Model.Pump in
/-- **The pump writes every result that arrives while it is running exactly once and in order**:
whatever the script of arrivals, signals, closes and encode failures, the written sequence
numbers are `0, 1, …, k-1` for some `k ≤` number of arrivals (newest first in the model), and
while the pump is still running nothing that arrived is missing (`k` = number of arrivals). -/
theorem pump_encodes_each_result_once_in_order (evs : List Ev) : PumpInv (runScript evs) := by
  have gen : ∀ (evs : List Ev) (p : Vegeta.Model.Pump.St), PumpInv p → PumpInv (evs.foldl Vegeta.Model.Pump.step p) := by
    intro evs
    induction evs with
    | nil => intro p h; exact h
    | cons ev evs ih => intro p h; exact ih _ (aux_pump_step p ev h)
  exact gen evs Vegeta.Model.Pump.init ⟨0, rfl, Nat.le_refl _, fun _ => rfl⟩

open Vegeta.Model.Pump in
/-- **A first signal keeps draining** (the attack is stopped, results keep being written);
**a second signal ends the pump.** -/
theorem pump_two_stage_signal :
    (runScript [.r, .s, .r, .r]).ret = .running ∧ (runScript [.r, .s, .r, .r]).encoded = [2, 1, 0] ∧
    (runScript [.r, .s, .r, .r]).stopClosed = true ∧
    (runScript [.r, .s, .s, .r]).ret = .nil ∧ (runScript [.r, .s, .s, .r]).encoded = [0] := by decide

end Vegeta.Props.C02
