/-
C03 — Requests in flight never exceed max-workers and free capacity is used.
Same transition system as C02; every (initial workers, max workers) configuration, every
interleaving, no depth bound.
-/
import Vegeta.Proofs.AttackInv
import Vegeta.Extracted.Facts
import Vegeta.Proofs.AttackAcceptSound
namespace Vegeta.Props.C03
open Vegeta.Model.Attack Vegeta.Proofs.Attack

variable {w m d : Nat} {s : St}

/-- **At every instant the number of hits that have started and whose result has not yet been
taken by the consumer is at most the configured maximum number of workers**, whatever the
initial worker count, the rate and the response times. -/
theorem inflight_le_max (h : Reachable w m d s) : inFlight s ≤ s.maxW := by
  have c := core_reachable h
  have := c.pop; have := c.maxw
  unfold inFlight; omega

theorem aux_maxW_step (s0 s1 : St) (l : Lbl) (hs : step s0 l = some s1) : s1.maxW = s0.maxW := by
  cases l <;> simp only [step] at hs <;> (repeat' split at hs) <;> simp at hs <;> subst hs <;>
    simp [(doStop_fields s0).2.2.2.2.2.2.2.2.2.2.2.2.2.1]

/-- the configured maximum never changes -/
theorem maxW_const (h : Reachable w m d s) : s.maxW = m := by
  induction h with
  | init => simp [init]
  | step l _ hs ih => rw [aux_maxW_step _ _ l hs, ih]

/-- **In flight ≤ the `MaxWorkers` option**, stated against the configuration value. -/
theorem inflight_le_configured_max (h : Reachable w m d s) : inFlight s ≤ m := by
  rw [← maxW_const h]; exact inflight_le_max h

/-- concurrent entries into the transport are hits in flight -/
def inTransport (s : St) : Nat := s.hits.countP (fun h => h.entered.isSome && h.left.isNone && h.phase == .hitting)

theorem aux_countP_le {α} (p q : α → Bool) (l : List α) (hpq : ∀ a, p a = true → q a = true) :
    l.countP p ≤ l.countP q := by
  induction l with
  | nil => simp
  | cons a l ih =>
    simp only [List.countP_cons]
    by_cases hp : p a = true
    · simp [hp, hpq a hp]; omega
    · simp [hp]; split <;> omega

/-- **Concurrent entries into the HTTP transport never exceed max-workers.** -/
theorem transport_concurrency_le_max (h : Reachable w m d s) : inTransport s ≤ m := by
  have h1 := inflight_le_configured_max h
  have : inTransport s ≤ busyHits s := by
    unfold inTransport busyHits
    apply aux_countP_le
    intro a ha
    simp at ha
    simp [ha.2]
  unfold inFlight at h1; omega

/-- **The initial worker count is clamped to the maximum.** -/
theorem initial_clamp (workers maxW du : Nat) :
    (init workers maxW du).nworkers = min workers maxW ∧ (init workers maxW du).nworkers ≤ maxW := by
  simp only [init]
  split <;> omega

def tickSt (t : St) : St :=
  { t with pc := .pace, idle := t.idle - 1, got := t.got + 1, count := t.count + 1, releases := t.now :: t.releases }
def readySt (t : St) : St := { t with starting := t.starting - 1, idle := t.idle + 1 }
def spawnSt (t : St) : St := { t with pc := .blockSend, nworkers := t.nworkers + 1, starting := t.starting + 1 }

def isInternal : Lbl → Bool
  | .ready | .spawn | .tick => true
  | _ => false

/-- **Whenever the pacer releases a hit while fewer than the maximum are busy, the hit starts
without waiting for any other request to finish**: from any reachable state in which the main
loop stands at the send (`trySend`/`blockSend`) with fewer than `max` hits in flight and no stop
signalled, the tick is handed to a worker within at most three steps, none of which is a
completion, a consumption or the passing of time — an idle worker takes it, or a starting worker
becomes idle and takes it, or a new worker is spawned on demand, becomes idle and takes it. -/
theorem free_capacity_progress (h : Reachable w m d s) (hpc : s.pc = .trySend ∨ s.pc = .blockSend)
    (hfree : inFlight s < s.maxW) (hns : s.stopClosed = false) :
    ∃ ls s', ls.length ≤ 3 ∧ (∀ l ∈ ls, isInternal l = true) ∧ run s ls = some s' ∧
      s'.count = s.count + 1 ∧ s'.got = s.got + 1 ∧ inFlight s' = inFlight s + 1 := by
  have c := core_reachable h
  have htc : s.ticksClosed = false := by
    rw [c.tc]; rcases hpc with h | h <;> rw [h] <;> rfl
  have hex := c.exz htc
  have hpop := c.pop
  unfold inFlight at hfree ⊢
  have tickOf : ∀ (t : St), (t.pc = .trySend ∨ t.pc = .blockSend) → 0 < t.idle → step t .tick = some (tickSt t) := by
    intro t h1 h2; simp [step, h1, h2, tickSt]
  by_cases hidle : 0 < s.idle
  · refine ⟨[.tick], tickSt s, by simp, by simp [isInternal], ?_, ?_⟩
    · simp only [run, tickOf s hpc hidle]
    · refine ⟨rfl, rfl, ?_⟩
      show (s.got + 1) + csN s + busyHits s = s.got + csN s + busyHits s + 1
      omega
  · by_cases hst : 0 < s.starting
    · have h1 : step s .ready = some (readySt s) := by simp [step, hst, readySt]
      refine ⟨[.ready, .tick], tickSt (readySt s), by simp, by simp [isInternal], ?_, ?_⟩
      · simp only [run, h1, tickOf (readySt s) (by simpa [readySt] using hpc) (by simp [readySt])]
      · refine ⟨rfl, rfl, ?_⟩
        show (s.got + 1) + csN s + busyHits s = s.got + csN s + busyHits s + 1
        omega
    · -- nobody idle or starting: all workers are busy, and fewer than max exist
      have hnw : s.nworkers < s.maxW := by omega
      have htry : s.pc = .trySend := by
        rcases hpc with h | h
        · exact h
        · rcases c.blk h with h' | h' <;> omega
      have hi0 : s.idle = 0 := by omega
      have h1 : step s .spawn = some (spawnSt s) := by simp [step, htry, hi0, hns, spawnSt]
      have h2 : step (spawnSt s) .ready = some (readySt (spawnSt s)) := by simp [step, spawnSt, readySt]
      refine ⟨[.spawn, .ready, .tick], tickSt (readySt (spawnSt s)), by simp, by simp [isInternal], ?_, ?_⟩
      · simp only [run, h1, h2, tickOf (readySt (spawnSt s)) (Or.inr rfl) (by simp [readySt])]
      · refine ⟨rfl, rfl, ?_⟩
        show (s.got + 1) + csN s + busyHits s = s.got + csN s + busyHits s + 1
        omega

/-- **When all are busy the hit starts as soon as one result has been consumed — and not before**:
with `max` hits in flight the tick cannot be handed over and no worker can be added; right after
one result is taken by the consumer the tick is enabled. -/
theorem saturated_waits_for_one_consumption (h : Reachable w m d s) (hpc : s.pc = .trySend ∨ s.pc = .blockSend)
    (hsat : inFlight s = s.maxW) :
    step s .tick = none ∧ step s .spawn = none ∧
    ∀ i s', step s (.deliver i) = some s' → (∃ s'', step s' .tick = some s'') := by
  have c := core_reachable h
  have htc : s.ticksClosed = false := by
    rw [c.tc]; rcases hpc with h | h <;> rw [h] <;> rfl
  have hex := c.exz htc
  have hpop := c.pop
  have hmax := c.maxw
  unfold inFlight at hsat
  have hi0 : s.idle = 0 := by omega
  have hnw : s.nworkers = s.maxW := by omega
  have hblk : s.pc = .blockSend := by
    rcases hpc with h | h
    · have := c.tryS h; omega
    · exact h
  refine ⟨by simp [step, hi0], by simp [step, hblk], ?_⟩
  intro i s' hd
  simp only [step] at hd
  split at hd
  · split at hd
    · split at hd
      · rename_i hrc; rw [c.rc, hblk] at hrc; simp [afterCloseResults] at hrc
      · simp at hd; subst hd
        simp [step, hblk]
    · cases hd
  · cases hd

theorem aux_insertSorted_length (x : Nat) (l : List Nat) : (insertSorted x l).length = l.length + 1 := by
  induction l with
  | nil => simp [insertSorted]
  | cons y ys ih => unfold insertSorted; split <;> simp [ih]

theorem aux_sortNat_length (l : List Nat) : (sortNat l).length = l.length := by
  induction l with
  | nil => simp [sortNat]
  | cons x xs ih =>
    have : sortNat (x :: xs) = insertSorted x (sortNat xs) := by simp [sortNat]
    rw [this, aux_insertSorted_length, ih]; simp

/-- **What the conformance check adds for C03**: in every trace the acceptor accepts, the number of
requests observed inside the transport never exceeds max-workers at any recorded point. -/
theorem accepted_trace_respects_cap (workers maxW : Nat) (o0 : Obs) (tr : List (Cmd × CmdObs × Obs))
    (h : acceptRun workers maxW o0 tr = none) : ∀ x ∈ tr, x.2.2.inTransport.length ≤ maxW := by
  intro x hx
  obtain ⟨s, sc, hr, ho⟩ := (acceptRun_explained workers maxW o0 tr h).2 x hx
  rw [← ho]
  simp only [obsOf, aux_sortNat_length, List.length_map]
  have h1 := inflight_le_configured_max hr
  have h2 : (s.hits.filter fun h => h.phase == .hitting && h.entered.isSome && h.left.isNone).length ≤ busyHits s := by
    rw [← List.countP_eq_length_filter]
    unfold busyHits
    apply aux_countP_le
    intro a ha
    simp at ha
    simp [ha.1.1]
  unfold inFlight at h1; omega

/-! non-vacuity -/
example : (run (init 0 1 0) [.paceWait 0, .wake]).map (fun s => (s.pc, inFlight s, s.maxW, s.stopClosed))
    = some (.trySend, 0, 1, false) := by decide

example : (run (init 1 1 0) [.ready, .paceWait 0, .wake, .tick, .paceWait 0, .wake]).map
    (fun s => (s.pc, inFlight s, s.maxW)) = some (.blockSend, 1, 1) := by decide

/-! #### source facts (binding): the clamp and the growth guard -/

/-- Before the first worker starts, `workers` is the configured initial count clamped to max-workers
(`workers := a.workers`; `if workers > a.maxWorkers { workers = a.maxWorkers }`) — `init`'s
`if workers > maxW then maxW else workers` — and nothing else touches it or the WaitGroup there. -/
theorem facts_attack_initial_clamp : Vegeta.Extracted.attackWorkersPrelude =
    [[119, 111, 114, 107, 101, 114, 115, 32, 58, 61, 32, 97, 46, 119, 111, 114, 107, 101, 114, 115],
     [105, 102, 32, 119, 111, 114, 107, 101, 114, 115, 32, 62, 32, 97, 46, 109, 97, 120, 87, 111, 114, 107, 101, 114, 115, 32, 123, 32, 119, 111, 114, 107, 101, 114, 115, 32, 61, 32, 97, 46, 109, 97, 120, 87, 111, 114, 107, 101, 114, 115, 32, 125]] := by decide

/-- The pool grows only under `workers < a.maxWorkers` (`workers < maxWorkers`), the guard of the model's
`trySend`/`spawn`. -/
theorem facts_attack_spawn_guard : Vegeta.Extracted.attackSpawnGuard =
    [119, 111, 114, 107, 101, 114, 115, 32, 60, 32, 109, 97, 120, 87, 111, 114, 107, 101, 114, 115] := by decide

end Vegeta.Props.C03
