/-
C17 — The plot shows every result exactly once, whatever the arrival order.
Property theorems (helper lemmas are named `aux_*`).
-/
import Vegeta.Model.LTTB
import Vegeta.Model.Plot
import Vegeta.Proofs.PlotOrder
import Vegeta.Proofs.PlotSort
import Vegeta.Proofs.Buckets
import Vegeta.Proofs.PlotWF
import Vegeta.Extracted.Facts
import Vegeta.Props.C13
import Vegeta.Props.C02
import Vegeta.Props.C05
namespace Vegeta.Props.C17
open Vegeta.Go Vegeta.Model.LTTB Vegeta.Model.Plot
open Vegeta.Proofs.PlotOrder (Canon specSeries specPts t0 prevOf)

/-! ## lttb.Downsample -/

/-- "at or below the threshold, or with threshold 0, it is unchanged": a series of exactly
`count` points comes back as it is. -/
theorem downsample_identity (count threshold : Int) (pts : List Point)
    (hlen : (pts.length : Int) = count) (h : threshold ≥ count ∨ threshold = 0) :
    downsample count threshold pts = .ok pts := by
  unfold downsample
  rw [if_pos h]
  unfold fetch
  have h0 : ¬ count < 0 := by omega
  rw [if_neg h0]
  have : count.toNat = pts.length := by omega
  simp [this]

/-- "a longer series with a threshold of 1 or 2 is rejected with an error rather than
mis-sampled" (for any points whatsoever). -/
theorem downsample_rejects_1_2 (count threshold : Int) (pts : List Point)
    (hlong : count > threshold) (h12 : threshold = 1 ∨ threshold = 2) :
    downsample count threshold pts = .error eThreshold := by
  unfold downsample
  have h1 : ¬ (threshold ≥ count ∨ threshold = 0) := by omega
  have h2 : threshold < 3 := by omega
  rw [if_neg h1, if_pos h2]

/-! ### the sampled case -/

theorem aux_argmax_bound (a c : Point) : ∀ (cur : List Point) (i : Nat) (l : F64) (idx : Nat),
    argmax a c cur i l idx = idx ∨ (i ≤ argmax a c cur i l idx ∧ argmax a c cur i l idx < i + cur.length) := by
  intro cur
  induction cur with
  | nil => intro i l idx; left; rfl
  | cons p ps ih =>
    intro i l idx
    unfold argmax
    simp only []
    split
    · rcases ih (i+1) (area2 a c p) i with h | h
      · right; rw [h]; simp
      · right; simp only [List.length_cons]; omega
    · rcases ih (i+1) l idx with h | h
      · left; exact h
      · right; simp only [List.length_cons]; omega

/-- `sample` returns a point of the current bucket and does not panic when it is non-empty. -/
theorem aux_sample_mem (a : Point) (cur next : List Point) (hne : cur ≠ []) :
    ∃ p, sample a cur next = .ok p ∧ p ∈ cur := by
  unfold sample
  have hlen : 0 < cur.length := List.length_pos_iff.mpr hne
  have hb : argmax a (avg next) cur 0 F64.posZero 0 < cur.length := by
    rcases aux_argmax_bound a (avg next) cur 0 F64.posZero 0 with h | h
    · rw [h]; exact hlen
    · omega
  rw [List.getElem?_eq_getElem hb]
  exact ⟨_, rfl, List.getElem_mem hb⟩

theorem aux_fetch (n : Int) (rem : List Point) (h : 0 ≤ n) :
    fetch n rem = .ok (rem.take n.toNat, rem.drop n.toNat) := by
  unfold fetch
  have : ¬ n < 0 := by omega
  rw [if_neg this]

/-- The loop under the bucket hypothesis: it appends one sample per iteration, each taken
from the bucket before the one just fetched, never panics, and leaves a non-empty `current`. -/
theorem aux_loop (size : F64) : ∀ (k : Nat) (i : Int) (last : Point) (cur rem : List Point),
    cur ≠ [] → bucketsLoopOK size k i (rem.length : Int) = true →
    ∃ ss pre cur' rem', loop size k i last cur rem = .ok (ss, cur', rem') ∧
      ss.length = k ∧ cur' ≠ [] ∧ cur ++ rem = pre ++ cur' ++ rem' ∧ ss.Sublist pre ∧
      rem'.length + k ≤ rem.length := by
  intro k
  induction k with
  | zero =>
    intro i last cur rem hne _
    exact ⟨[], [], cur, rem, rfl, rfl, hne, by simp, List.Sublist.refl _, by simp⟩
  | succ k ih =>
    intro i last cur rem hne hok
    unfold bucketsLoopOK at hok
    simp only [Bool.and_eq_true, decide_eq_true_eq] at hok
    obtain ⟨⟨hd, hrem⟩, hrest⟩ := hok
    obtain ⟨s, hs, hmem⟩ := aux_sample_mem last cur (rem.take (bucketWidth size i).toNat) hne
    have hnext : rem.take (bucketWidth size i).toNat ≠ [] := by
      intro h
      have := congrArg List.length h
      simp only [List.length_take, List.length_nil] at this
      omega
    have hlen' : ((rem.drop (bucketWidth size i).toNat).length : Int)
        = (rem.length : Int) - min (bucketWidth size i) (rem.length : Int) := by
      simp only [List.length_drop]
      omega
    rw [← hlen'] at hrest
    obtain ⟨ss, pre, cur', rem', hl, hss, hc, hsplit, hsub, hle⟩ :=
      ih (i+1) s (rem.take (bucketWidth size i).toNat) (rem.drop (bucketWidth size i).toNat) hnext hrest
    refine ⟨s :: ss, cur ++ pre, cur', rem', ?_, by simp [hss], hc, ?_, ?_, ?_⟩
    · unfold loop
      rw [aux_fetch _ _ (by omega)]
      simp only [hs, hl]
    · rw [List.take_append_drop] at hsplit
      rw [hsplit]; simp [List.append_assoc]
    · have h1 : [s].Sublist cur := List.singleton_sublist.mpr hmem
      exact (List.Sublist.append h1 hsub)
    · simp only [List.length_drop] at hle
      have : 1 ≤ rem.length := by omega
      have : 1 ≤ (bucketWidth size i).toNat := by omega
      omega

theorem aux_getLast_append_ne (xs ys : List Point) (h : ys ≠ []) :
    (xs ++ ys).getLast? = ys.getLast? := by
  cases ys with
  | nil => contradiction
  | cons y ys =>
    cases hq : (y :: ys).getLast? with
    | none => simp at hq
    | some z => simp [List.getLast?_append, hq]

/--
The sampled case under an explicit bucket hypothesis (no bound on `count`): for every series
`pts` of `count` points with arbitrary float values and `3 ≤ threshold < count`, if
`bucketsOK count threshold` — the decidable statement, evaluated with the same bit-exact float
arithmetic as the code, that the first fetch asks for ≥ 2 points and every bucket fetch returns
≥ 1 point — then `Downsample` neither panics nor fails and returns exactly `threshold` points
forming a subsequence of the input that starts with its first and ends with its last point.
`buckets_ok` discharges the hypothesis for every `count ≤ 2^50`; see `downsample_exact`.
-/
theorem downsample_exact_of_bucketsOK (count threshold : Int) (pts : List Point)
    (hlen : (pts.length : Int) = count) (h3 : 3 ≤ threshold) (hlt : threshold < count)
    (hok : bucketsOK count threshold = true) :
    ∃ out, downsample count threshold pts = .ok out ∧ (out.length : Int) = threshold ∧
      out.Sublist pts ∧ out.head? = pts.head? ∧ out.getLast? = pts.getLast? := by
  unfold bucketsOK at hok
  simp only [Bool.and_eq_true, decide_eq_true_eq] at hok
  obtain ⟨hf0, hloop⟩ := hok
  unfold downsample
  have h1 : ¬ (threshold ≥ count ∨ threshold = 0) := by omega
  have h2 : ¬ threshold < 3 := by omega
  rw [if_neg h1, if_neg h2]
  simp only []
  generalize hsz : bucketSize count threshold = size at hf0 hloop
  rw [aux_fetch _ _ (by omega)]
  simp only []
  -- the first fetch: p0 and a non-empty first bucket
  have hpl : 4 ≤ pts.length := by omega
  match hpts : pts with
  | [] => simp at hpl
  | [_] => simp at hpl
  | p0 :: p1 :: rest =>
    have htk : (p0 :: p1 :: rest).take (firstFetch size).toNat
        = p0 :: (p1 :: rest).take ((firstFetch size).toNat - 1) := by
      have : (firstFetch size).toNat = ((firstFetch size).toNat - 1) + 1 := by omega
      rw [this, List.take_succ_cons]; simp
    have hdr : (p0 :: p1 :: rest).drop (firstFetch size).toNat
        = (p1 :: rest).drop ((firstFetch size).toNat - 1) := by
      have : (firstFetch size).toNat = ((firstFetch size).toNat - 1) + 1 := by omega
      rw [this, List.drop_succ_cons]; simp
    rw [htk, hdr]
    simp only []
    generalize hcur : (p1 :: rest).take ((firstFetch size).toNat - 1) = cur
    generalize hrem : (p1 :: rest).drop ((firstFetch size).toNat - 1) = rem
    have hcne : cur ≠ [] := by
      intro h
      have := congrArg List.length (hcur.trans h)
      simp only [List.length_take, List.length_cons, List.length_nil] at this
      omega
    have hcr : cur ++ rem = p1 :: rest := by rw [← hcur, ← hrem, List.take_append_drop]
    have hremlen : (rem.length : Int) = count - min (firstFetch size) count := by
      rw [← hrem]
      simp only [List.length_drop, List.length_cons]
      simp only [List.length_cons] at hlen
      omega
    rw [← hremlen] at hloop
    obtain ⟨ss, pre, cur', rem', hl, hss, hc', hsplit, hsub, hle⟩ :=
      aux_loop size (threshold - 2).toNat 0 p0 cur rem hcne hloop
    rw [hl]
    simp only []
    -- the tail fetch returns everything that is left
    have hcurlen : 1 ≤ cur.length := List.length_pos_iff.mpr hcne
    have htot : cur.length + rem.length + 1 = pts.length := by
      have := congrArg List.length hcr
      simp only [List.length_append, List.length_cons] at this
      rw [hpts]; simp only [List.length_cons]; omega
    have hn : 0 ≤ count - ((p0 :: ss).length : Int) := by
      simp only [List.length_cons, hss]; omega
    rw [aux_fetch _ _ hn]
    simp only []
    have htake : rem'.take (count - ((p0 :: ss).length : Int)).toNat = rem' := by
      apply List.take_of_length_le
      simp only [List.length_cons, hss]
      omega
    rw [htake]
    have hlastne : (if rem'.isEmpty then cur' else rem') ≠ [] := by
      split
      · exact hc'
      · rename_i h; intro h'; simp [h'] at h
    have hlast : (if rem'.isEmpty then cur' else rem').getLast? = (cur' ++ rem').getLast? := by
      split
      · rename_i h; simp [List.isEmpty_iff.mp h]
      · rename_i h
        have : rem' ≠ [] := by intro h'; simp [h'] at h
        rw [aux_getLast_append_ne _ _ this]
    have hsplit' : p1 :: rest = pre ++ (cur' ++ rem') := by
      rw [← hcr, hsplit, List.append_assoc]
    have hcrne : cur' ++ rem' ≠ [] := by simp [hc']
    obtain ⟨l, hl'⟩ : ∃ l, (cur' ++ rem').getLast? = some l := by
      cases h : (cur' ++ rem').getLast? with
      | none => exact absurd (List.getLast?_eq_none_iff.mp h) hcrne
      | some l => exact ⟨l, rfl⟩
    rw [hlast, hl']
    simp only []
    refine ⟨_, rfl, ?_, ?_, ?_, ?_⟩
    · simp only [List.length_append, List.length_cons, List.length_nil, hss]; omega
    · rw [hsplit']
      have hlm : l ∈ cur' ++ rem' := List.mem_of_getLast? hl'
      have h1 : [l].Sublist (cur' ++ rem') := List.singleton_sublist.mpr hlm
      exact List.Sublist.cons_cons p0 (List.Sublist.append hsub h1)
    · simp
    · rw [hsplit']
      have : (p0 :: ss ++ [l]).getLast? = some l := by
        show ((p0 :: ss) ++ [l]).getLast? = some l
        rw [List.getLast?_append]; simp
      rw [this]
      have h2 : (p0 :: (pre ++ (cur' ++ rem'))) = (p0 :: pre) ++ (cur' ++ rem') := by simp
      rw [h2, aux_getLast_append_ne _ _ hcrne, hl']

/-- **The bucket arithmetic never produces an empty bucket**: for every pair
`3 ≤ threshold < count ≤ 2^50`, computing `size = float64(count-2)/float64(threshold-2)`,
`int(1+size)` and `int(float64(i)*size)` in IEEE-754 binary64 (round to nearest even, as the
code does), the first fetch asks for at least 2 points, every `hi − lo` is at least 1, and at
least one point is left for every bucket fetch.  (Proof: `Vegeta.Proofs.Rounding` characterises
`int(fl(x))` as `⌊x + 2^-(K+1)⌋` with `K` the scaling exponent of `x`; consecutive products
`float64(j)·size` differ by `size ≥ 1`, and the half-unit added by the rounding is not smaller
for the larger product; `1 + size` is not rounded up to an integer and `(threshold−2)·size`
stays below `count − 1` because the quotient is within half a unit in the last place.) -/
theorem buckets_ok (count threshold : Int) (h3 : 3 ≤ threshold) (hlt : threshold < count)
    (hc : count ≤ 1125899906842624) : bucketsOK count threshold = true :=
  Vegeta.Proofs.Buckets.bucketsOK_general count threshold h3 hlt hc

/--
"A series longer than the threshold is reduced to exactly threshold points that form a
subsequence of the original and include its first and last points": for every series `pts` of
`count` points with arbitrary float values (NaN, ±Inf, equal x, … included) and every
`3 ≤ threshold < count`, `Downsample` does not panic, returns no error, and its output has
exactly `threshold` points, is a sublist of `pts`, starts with the first and ends with the last
point of `pts`.

Bound: `count ≤ 2^50 = 1 125 899 906 842 624` points (16 PiB of points; beyond that the float
quotient `size` loses the two guard bits the rounding argument uses — there
`downsample_exact_of_bucketsOK` still applies to every pair whose bucket condition holds).
-/
theorem downsample_exact (count threshold : Int) (pts : List Point)
    (hlen : (pts.length : Int) = count) (h3 : 3 ≤ threshold) (hlt : threshold < count)
    (hc : count ≤ 1125899906842624) :
    ∃ out, downsample count threshold pts = .ok out ∧ (out.length : Int) = threshold ∧
      out.Sublist pts ∧ out.head? = pts.head? ∧ out.getLast? = pts.getLast? :=
  downsample_exact_of_bucketsOK count threshold pts hlen h3 hlt (buckets_ok count threshold h3 hlt hc)

/-- "never panics" spelled out -/
theorem downsample_never_panics (count threshold : Int) (pts : List Point)
    (hlen : (pts.length : Int) = count) (h0 : 0 ≤ threshold) (hc : count ≤ 1125899906842624) :
    downsample count threshold pts ≠ .panic := by
  by_cases h1 : threshold ≥ count ∨ threshold = 0
  · rw [downsample_identity count threshold pts hlen h1]; intro h; cases h
  · by_cases h2 : threshold < 3
    · rw [downsample_rejects_1_2 count threshold pts (by omega) (by omega)]; intro h; cases h
    · obtain ⟨out, h, _⟩ := downsample_exact count threshold pts hlen (by omega) (by omega) hc
      rw [h]; intro h'; cases h'

/-! non-vacuity / cross-check of the general theorem against kernel evaluation of the floats -/
def bucketsTable (lo hi : Nat) : Bool :=
  (List.range' lo (hi - lo)).all fun c => (List.range' 3 (c - 3)).all fun t => bucketsOK (c : Int) (t : Int)

set_option maxRecDepth 100000 in
example : bucketsTable 4 10 = true := by decide +kernel
example : bucketsOK 64 33 = true := by decide +kernel
example : downsample 5 3 [⟨⟨0⟩, ⟨0⟩⟩, ⟨F64.ofNat 1, F64.ofNat 5⟩, ⟨F64.ofNat 2, F64.ofNat 1⟩, ⟨F64.ofNat 3, F64.ofNat 9⟩, ⟨F64.ofNat 4, F64.ofNat 2⟩]
    = .ok [⟨⟨0⟩, ⟨0⟩⟩, ⟨F64.ofNat 3, F64.ofNat 9⟩, ⟨F64.ofNat 4, F64.ofNat 2⟩] := by decide +kernel

/-! ## labeledSeries.add / Plot.Add: the arrival order is irrelevant -/

/-- the series of attack `a` and label `l` held by the plot -/
def seriesOf (p : Plot) (a l : Bytes) : Option TimeSeries :=
  (plotLookup p a).bind (fun ls => seriesLookup ls.series l)

/--
"For any attack's results presented in any arrival order … the plotted data contain exactly one
point per result at x = time since the attack's first request … with millisecond resolution, and
y = its latency in milliseconds, split into per-attack OK and ERROR series".

`canon a` lists the results of attack `a` in sequence order (`Canon`: sequence numbers
0, 1, 2, … and time stamps non-decreasing in the sequence number, which is property C05).
`rs` is *any* arrival order: an arbitrary interleaving of arbitrary permutations of the attacks'
results.  Then no `Add` fails or panics, and the series of attack `a` and label `l` exists iff
some result of `a` carries label `l`, and it holds exactly the points
`(ms since the time stamp of a's sequence number 0, latency in ms)` of the results of `a`
labelled `l`, one per result, in sequence order — the same value for every arrival order, in
particular the one of the in-order run (`arrival_orders_agree`).
-/
theorem arrival_order_irrelevant (canon : Bytes → List Result) (rs : List Result)
    (hc : ∀ a, Canon a (canon a))
    (hperm : ∀ a, (rs.filter (fun r => r.attack == a)).Perm (canon a)) :
    ∃ p, Plot.addAll [] rs = .ok p ∧
      ∀ a l, seriesOf p a l =
        if (∃ r ∈ canon a, r.label = l) then some (specSeries a (t0 (canon a)) (canon a) l) else none := by
  have hone := fun a => Vegeta.Proofs.PlotOrder.one_attack a (canon a) _ (hc a) (hperm a)
  have hall : ∀ a, ∃ ls, Vegeta.Proofs.PlotOrder.attackRun [] rs a = .ok ls := by
    intro a
    obtain ⟨ls, h, _⟩ := hone a
    exact ⟨ls, by simpa [Vegeta.Proofs.PlotOrder.attackRun, plotLookup] using h⟩
  obtain ⟨p, hp, hlook⟩ := Vegeta.Proofs.PlotOrder.plot_addAll_split rs [] hall
  refine ⟨p, hp, ?_⟩
  intro a l
  obtain ⟨ls, h, _, _, hser⟩ := hone a
  have hrun : Vegeta.Proofs.PlotOrder.attackRun [] rs a = .ok ls := by
    simpa [Vegeta.Proofs.PlotOrder.attackRun, plotLookup] using h
  unfold seriesOf
  rw [hlook a, hrun]
  by_cases hex : ∃ r ∈ rs, r.attack = a
  · rw [if_pos hex]
    simp only [Option.bind_some]
    exact hser l
  · rw [if_neg hex]
    simp only [plotLookup, Option.bind_none]
    have hnil : canon a = [] := by
      have : rs.filter (fun r => r.attack == a) = [] := by
        rw [List.filter_eq_nil_iff]
        intro x hx hxa
        exact hex ⟨x, hx, by simpa using hxa⟩
      have hp' := hperm a
      rw [this] at hp'
      exact hp'.symm.eq_nil
    have : ¬ ∃ r ∈ canon a, r.label = l := by rw [hnil]; simp
    rw [if_neg this]

/-- Two arrival orders of the same results end in the same series (so every arrival order
agrees with the in-order run, which is one of them). -/
theorem arrival_orders_agree (canon : Bytes → List Result) (rs₁ rs₂ : List Result)
    (hc : ∀ a, Canon a (canon a))
    (h₁ : ∀ a, (rs₁.filter (fun r => r.attack == a)).Perm (canon a))
    (h₂ : ∀ a, (rs₂.filter (fun r => r.attack == a)).Perm (canon a)) :
    ∃ p₁ p₂, Plot.addAll [] rs₁ = .ok p₁ ∧ Plot.addAll [] rs₂ = .ok p₂ ∧
      ∀ a l, seriesOf p₁ a l = seriesOf p₂ a l := by
  obtain ⟨p₁, e₁, s₁⟩ := arrival_order_irrelevant canon rs₁ hc h₁
  obtain ⟨p₂, e₂, s₂⟩ := arrival_order_irrelevant canon rs₂ hc h₂
  exact ⟨p₁, p₂, e₁, e₂, fun a l => by rw [s₁, s₂]⟩

/-- "exactly one point per result": the series of a label has as many points as the attack has
results with that label, the `k`-th point belonging to the `k`-th such result. -/
theorem one_point_per_result (began : Int) (cs : List Result) (l : Bytes) :
    (specPts began cs l).length = (cs.filter (fun r => r.label == l)).length ∧
    ∀ (k : Nat) (r : Result), (cs.filter (fun r => r.label == l))[k]? = some r →
      (specPts began cs l)[k]? = some (msSince r.ts began, latencyMs r.latency) := by
  unfold specPts
  refine ⟨by simp, ?_⟩
  intro k r h
  rw [List.getElem?_map, h]; rfl

/-- "x = time since the attack's first request … with millisecond resolution": for a time stamp
not before the first request (and a difference inside the `Duration` range, 292 years) the
stored x is `⌊(t − t₀) / 1 ms⌋`. -/
theorem x_is_whole_milliseconds (began t : Int) (h0 : began ≤ t) (h1 : t - began ≤ maxInt64) :
    (msSince t began : Int) = (t - began) / 1000000 :=
  Vegeta.Proofs.PlotOrder.msSince_eq_floor began t h0 h1

/-- With `ErrorLabeler` the sort key `attack+label` determines the series: the order that
`sort.Slice` (not stable) gives the series is determined, as the model assumes. -/
theorem series_keys_unique (a₁ a₂ l₁ l₂ : Bytes)
    (h₁ : l₁ = labelOK ∨ l₁ = labelERROR) (h₂ : l₂ = labelOK ∨ l₂ = labelERROR)
    (h : a₁ ++ l₁ = a₂ ++ l₂) : a₁ = a₂ ∧ l₁ = l₂ := by
  have hlast := congrArg List.getLast? h
  rcases h₁ with h₁ | h₁ <;> rcases h₂ with h₂ | h₂ <;> subst h₁ <;> subst h₂
  · exact ⟨List.append_cancel_right h, rfl⟩
  · simp [labelOK, labelERROR, List.getLast?_append] at hlast
  · simp [labelOK, labelERROR, List.getLast?_append] at hlast
  · exact ⟨List.append_cancel_right h, rfl⟩

/-! ## Plot.data -/

/-- "sorted by x": in the rows of `Plot.data` no later row has a smaller x than an earlier one
(for every plot state, threshold and store). -/
theorem rows_sorted_by_x (store : Store) (p : Plot) (threshold : Int) (rows : List (List F64))
    (labels : List Bytes) (h : Plot.data store p threshold = .ok (rows, labels)) :
    rows.Pairwise (fun a b => rowLt b a = false) := by
  unfold Plot.data at h
  simp only [] at h
  split at h
  · rename_i raw _
    cases h
    exact Vegeta.Proofs.PlotSort.sortBy_sorted rowLt Vegeta.Proofs.PlotSort.rowLt_irrefl
      Vegeta.Proofs.PlotSort.rowLt_trans raw
  · cases h
  · cases h

/-- the rows of the series from index `i` on: every (down-sampled) point of series `j` as a row
`[x, NaN, …, y at column j+1, …, NaN]` -/
def seriesRows (store : Store) (threshold : Int) (n : Nat) : Nat → List TimeSeries → List (List F64)
  | _, [] => []
  | i, s :: rest =>
    (match downsample (s.pts.length : Int) threshold (seriesPoints store s) with
      | .ok ps => ps.map (mkRow n i)
      | _ => []) ++ seriesRows store threshold n (i+1) rest

theorem aux_rowsFrom (store : Store) (threshold : Int) (n : Nat) :
    ∀ (ss : List TimeSeries) (i : Nat) (rows : List (List F64)),
      rowsFrom store threshold n i ss = .ok rows → rows = seriesRows store threshold n i ss := by
  intro ss
  induction ss with
  | nil => intro i rows h; simp [rowsFrom] at h; simp [seriesRows, h]
  | cons s rest ih =>
    intro i rows h
    unfold rowsFrom at h
    unfold seriesRows
    split at h
    · rename_i ps hps
      split at h
      · rename_i rs hrs
        cases h
        rw [hps, ih (i+1) rs hrs]
      · cases h
      · cases h
    · cases h
    · cases h

/-- The rows are exactly the (down-sampled) points of the series, one row per point, NaN-padded
— nothing is lost or duplicated by the final sort — and the labels name the series in
`attack+label` order. -/
theorem rows_are_the_series_points (store : Store) (p : Plot) (threshold : Int)
    (rows : List (List F64)) (labels : List Bytes)
    (h : Plot.data store p threshold = .ok (rows, labels)) :
    rows.Perm (seriesRows store threshold (allSeries p).length 0 (allSeries p)) ∧
    labels = dataLabels (allSeries p) := by
  unfold Plot.data at h
  simp only [] at h
  split at h
  · rename_i raw hraw
    cases h
    rw [← aux_rowsFrom store threshold _ _ _ _ hraw]
    exact ⟨Vegeta.Proofs.PlotSort.sortBy_perm rowLt raw, rfl⟩
  · cases h
  · cases h

/-- "split into per-attack OK and ERROR series": after any sequence of successful `Add`s the
series handed to `Plot.data` are exactly the series found under an attack name and a label (no
series is shown twice or dropped), and they come in `attack+label` order. -/
theorem series_shown_are_the_label_series (rs : List Result) (p : Plot)
    (h : Plot.addAll [] rs = .ok p) :
    (∀ s, s ∈ allSeries p ↔ ∃ a l, seriesOf p a l = some s) ∧
    (allSeries p).Pairwise (fun a b => bytesLt (seriesKey b) (seriesKey a) = false) :=
  ⟨fun s => Vegeta.Proofs.PlotWF.allSeries_mem p
      (Vegeta.Proofs.PlotWF.addAll_wf rs [] p Vegeta.Proofs.PlotWF.empty_wf h) s,
   Vegeta.Proofs.PlotWF.allSeries_sorted p⟩

/-- With threshold 0 (no down-sampling) `Plot.data` never fails, whatever the store returns. -/
theorem data_threshold_zero_ok (store : Store) (p : Plot) :
    ∃ rows labels, Plot.data store p 0 = .ok (rows, labels) := by
  have key : ∀ (ss : List TimeSeries) (n i : Nat), ∃ rows, rowsFrom store 0 n i ss = .ok rows := by
    intro ss n
    induction ss with
    | nil => intro i; exact ⟨[], rfl⟩
    | cons s rest ih =>
      intro i
      obtain ⟨rs, hrs⟩ := ih (i+1)
      unfold rowsFrom
      have hd : ∃ ps, downsample (s.pts.length : Int) 0 (seriesPoints store s) = .ok ps := by
        unfold downsample
        rw [if_pos (Or.inr rfl)]
        rw [aux_fetch _ _ (Int.natCast_nonneg _)]
        exact ⟨_, rfl⟩
      obtain ⟨ps, hps⟩ := hd
      rw [hps, hrs]
      exact ⟨_, rfl⟩
  obtain ⟨rows, hrows⟩ := key (allSeries p) (allSeries p).length 0
  unfold Plot.data
  simp only [hrows]
  exact ⟨_, _, rfl⟩

theorem aux_gaps_shift (bound : Nat) : ∀ (rest : List Nat) (t : Nat),
    gapsBelow bound (t + 1) (rest.map (· + 1)) = gapsBelow bound t rest := by
  intro rest
  induction rest with
  | nil => intro t; rfl
  | cons t' rest ih =>
    intro t
    simp only [List.map_cons, gapsBelow, ih]
    have e2 : t' + 1 - (t + 1) = t' - t := by omega
    rw [e2]
    simp only [Nat.add_le_add_iff_right]

/-- Inside the store's limits the iterator hands back the pushed points: the points `Plot.data`
works on are the series' points with x converted from ms to seconds (the shift by one that keeps
stored time stamps positive cancels). -/
theorem points_of_lossless_store (store : Store) (hl : Lossless store) (s : TimeSeries)
    (hd : msDomain (s.pts.map (·.1)) = true) :
    seriesPoints store s = s.pts.map (fun (t, v) => ⟨msToSeconds t, v⟩) := by
  unfold seriesPoints
  cases hp : s.pts with
  | nil => rfl
  | cons p rest =>
    simp only [List.isEmpty_cons, Bool.false_eq_true, ↓reduceIte]
    rw [hp] at hd
    have hdom : tszDomain (((p :: rest).map shiftUp).map (·.1)) = true := by
      simp only [List.map_cons, tszDomain, List.map_map]
      have e : (rest.map ((fun x => x.1) ∘ shiftUp)) = (rest.map (·.1)).map (· + 1) := by
        simp [List.map_map, shiftUp, Function.comp_def]
      have e0 : (shiftUp p).1 = p.1 + 1 := rfl
      rw [e, e0, aux_gaps_shift]
      simp only [List.map_cons, msDomain] at hd
      simp [hd]
    rw [hl _ hdom, List.map_map]
    apply List.map_congr_left
    intro x _
    obtain ⟨t, v⟩ := x
    simp [shiftUp, unshift]

/-- the rows the property asks for: every point of every series, x in seconds, NaN-padded -/
def expectedRows (n : Nat) : Nat → List TimeSeries → List (List F64)
  | _, [] => []
  | i, s :: rest =>
    s.pts.map (fun (tv : Nat × F64) => mkRow n i ⟨msToSeconds tv.1, tv.2⟩) ++ expectedRows n (i+1) rest

theorem aux_seriesRows_zero (store : Store) (hl : Lossless store) (n : Nat) :
    ∀ (ss : List TimeSeries) (i : Nat), (∀ s ∈ ss, msDomain (s.pts.map (·.1)) = true) →
      seriesRows store 0 n i ss = expectedRows n i ss := by
  intro ss
  induction ss with
  | nil => intro i _; rfl
  | cons s rest ih =>
    intro i hd
    unfold seriesRows expectedRows
    rw [ih (i+1) (fun s' hs' => hd s' (List.mem_cons_of_mem _ hs'))]
    have hp := points_of_lossless_store store hl s (hd s (by simp))
    have hlen : ((seriesPoints store s).length : Int) = (s.pts.length : Int) := by rw [hp]; simp
    rw [downsample_identity _ 0 _ hlen (Or.inr rfl), hp]
    simp only [List.map_map]
    rfl

/--
**First sentence of the property, end to end** (threshold 0, i.e. no down-sampling; the only
hypothesis about the store is `msDomain`: consecutive points of one series are less than 2^31 ms
≈ 24.8 days apart — a series may begin any time after the attack did): for results presented in any arrival order, `Plot.data` succeeds, its
rows are sorted by x and are — up to the order of rows with equal x — exactly one row per result
`[seconds since the attack's first request at ms resolution, NaN, …, latency in ms, …, NaN]`,
the value standing in the column of the result's per-attack OK/ERROR series, the series being
exactly the (attack, label) pairs that occur, in `attack+label` order.
-/
theorem plot_shows_every_result_once (canon : Bytes → List Result) (rs : List Result)
    (hc : ∀ a, Canon a (canon a))
    (hperm : ∀ a, (rs.filter (fun r => r.attack == a)).Perm (canon a))
    (store : Store) (hl : Lossless store)
    (hdom : ∀ a l, msDomain ((specPts (t0 (canon a)) (canon a) l).map (·.1)) = true) :
    ∃ p rows labels, Plot.addAll [] rs = .ok p ∧ Plot.data store p 0 = .ok (rows, labels) ∧
      rows.Pairwise (fun a b => rowLt b a = false) ∧
      rows.Perm (expectedRows (allSeries p).length 0 (allSeries p)) ∧
      labels = dataLabels (allSeries p) ∧
      (∀ s, s ∈ allSeries p ↔
        ∃ a l, (∃ r ∈ canon a, r.label = l) ∧ s = specSeries a (t0 (canon a)) (canon a) l) := by
  obtain ⟨p, hp, hser⟩ := arrival_order_irrelevant canon rs hc hperm
  obtain ⟨rows, labels, hdata⟩ := data_threshold_zero_ok store p
  obtain ⟨hmem, _⟩ := series_shown_are_the_label_series rs p hp
  have hiff : ∀ s, s ∈ allSeries p ↔
      ∃ a l, (∃ r ∈ canon a, r.label = l) ∧ s = specSeries a (t0 (canon a)) (canon a) l := by
    intro s
    rw [hmem s]
    constructor
    · rintro ⟨a, l, h⟩
      rw [hser a l] at h
      by_cases hex : ∃ r ∈ canon a, r.label = l
      · rw [if_pos hex] at h; cases h; exact ⟨a, l, hex, rfl⟩
      · rw [if_neg hex] at h; cases h
    · rintro ⟨a, l, hex, hs⟩
      exact ⟨a, l, by rw [hser a l, if_pos hex, hs]⟩
  obtain ⟨hperm', hlabels⟩ := rows_are_the_series_points store p 0 rows labels hdata
  refine ⟨p, rows, labels, hp, hdata, rows_sorted_by_x store p 0 rows labels hdata, ?_, hlabels, hiff⟩
  rw [← aux_seriesRows_zero store hl _ _ 0 ?_]
  · exact hperm'
  · intro s hs
    obtain ⟨a, l, _, hs'⟩ := (hiff s).mp hs
    rw [hs']
    exact hdom a l

/-! ### end to end with down-sampling active -/

/-- the points of a series as `timeSeries.iter` hands them to `Downsample` -/
def toPoints (s : TimeSeries) : List Point := s.pts.map (fun (tv : Nat × F64) => ⟨msToSeconds tv.1, tv.2⟩)

/-- what the property allows `sel` to be for a series with points `pts` and threshold `th`:
all points when `th = 0` or the series is not longer than `th`; otherwise exactly `th` points
forming a sublist of `pts` that starts with its first and ends with its last point -/
def Selected (th : Int) (pts sel : List Point) : Prop :=
  if th = 0 ∨ th ≥ (pts.length : Int) then sel = pts
  else (sel.length : Int) = th ∧ sel.Sublist pts ∧ sel.head? = pts.head? ∧ sel.getLast? = pts.getLast?

/-- one selection per series, in the series' order -/
def SelectedAll (th : Int) : List TimeSeries → List (List Point) → Prop
  | [], [] => True
  | s :: ss, sel :: sels => Selected th (toPoints s) sel ∧ SelectedAll th ss sels
  | _, _ => False

/-- rows of the selections: every selected point of series `j` as a NaN-padded row -/
def rowsOfSel (n : Nat) : Nat → List (List Point) → List (List F64)
  | _, [] => []
  | i, ps :: rest => ps.map (mkRow n i) ++ rowsOfSel n (i+1) rest

theorem aux_rows_selected (store : Store) (hl : Lossless store) (th : Int) (hth : th = 0 ∨ 3 ≤ th) (n : Nat) :
    ∀ (ss : List TimeSeries) (i : Nat),
      (∀ s ∈ ss, msDomain (s.pts.map (·.1)) = true ∧ (s.pts.length : Int) ≤ 1125899906842624) →
      ∃ sels, SelectedAll th ss sels ∧ rowsFrom store th n i ss = .ok (rowsOfSel n i sels) := by
  intro ss
  induction ss with
  | nil => intro i _; exact ⟨[], trivial, rfl⟩
  | cons s rest ih =>
    intro i hd
    obtain ⟨sels, hsel, hrows⟩ := ih (i+1) (fun s' hs' => hd s' (List.mem_cons_of_mem _ hs'))
    obtain ⟨hdom, hlen50⟩ := hd s (by simp)
    have hp : seriesPoints store s = toPoints s := by
      rw [points_of_lossless_store store hl s hdom]; rfl
    have hlen : ((toPoints s).length : Int) = (s.pts.length : Int) := by simp [toPoints]
    have hds : ∃ sel, downsample (s.pts.length : Int) th (toPoints s) = .ok sel ∧ Selected th (toPoints s) sel := by
      by_cases hid : th ≥ (s.pts.length : Int) ∨ th = 0
      · refine ⟨toPoints s, downsample_identity _ th _ hlen hid, ?_⟩
        unfold Selected
        have : th = 0 ∨ th ≥ ((toPoints s).length : Int) := by rw [hlen]; omega
        rw [if_pos this]
      · obtain ⟨out, ho, h1, h2, h3, h4⟩ := downsample_exact _ th (toPoints s) hlen (by omega) (by omega) hlen50
        refine ⟨out, ho, ?_⟩
        unfold Selected
        have : ¬ (th = 0 ∨ th ≥ ((toPoints s).length : Int)) := by rw [hlen]; omega
        rw [if_neg this]
        exact ⟨h1, h2, h3, h4⟩
    obtain ⟨sel, hsd, hsl⟩ := hds
    refine ⟨sel :: sels, ⟨hsl, hsel⟩, ?_⟩
    unfold rowsFrom
    rw [hp, hsd, hrows]
    rfl

/--
**Both sentences of the property, end to end, as one theorem** (store inside its limits; series
of at most 2^50 points; threshold 0 or ≥ 3): for results presented in any arrival order
`Plot.data` succeeds; its rows are sorted by x and are — up to the order of rows with equal x —
the NaN-padded rows of one selection `sel` per per-attack label series (the series being exactly
the (attack, label) pairs that occur, in `attack+label` order), where for a series longer than
the threshold `sel` has exactly `threshold` points, is a sublist of the series' points and
contains its first and last point, and otherwise (also with threshold 0) `sel` is all points of
the series: one point per result at (seconds since the attack's first request at ms resolution,
latency in ms).
-/
theorem plot_downsampled_end_to_end (canon : Bytes → List Result) (rs : List Result)
    (hc : ∀ a, Canon a (canon a))
    (hperm : ∀ a, (rs.filter (fun r => r.attack == a)).Perm (canon a))
    (store : Store) (hl : Lossless store)
    (hdom : ∀ a l, msDomain ((specPts (t0 (canon a)) (canon a) l).map (·.1)) = true)
    (hsize : ∀ a, ((canon a).length : Int) ≤ 1125899906842624)
    (th : Int) (hth : th = 0 ∨ 3 ≤ th) :
    ∃ p rows labels sels, Plot.addAll [] rs = .ok p ∧ Plot.data store p th = .ok (rows, labels) ∧
      rows.Pairwise (fun a b => rowLt b a = false) ∧
      SelectedAll th (allSeries p) sels ∧
      rows.Perm (rowsOfSel (allSeries p).length 0 sels) ∧
      labels = dataLabels (allSeries p) ∧
      (∀ s, s ∈ allSeries p ↔
        ∃ a l, (∃ r ∈ canon a, r.label = l) ∧ s = specSeries a (t0 (canon a)) (canon a) l) := by
  obtain ⟨p, hp, hser⟩ := arrival_order_irrelevant canon rs hc hperm
  obtain ⟨hmem, _⟩ := series_shown_are_the_label_series rs p hp
  have hiff : ∀ s, s ∈ allSeries p ↔
      ∃ a l, (∃ r ∈ canon a, r.label = l) ∧ s = specSeries a (t0 (canon a)) (canon a) l := by
    intro s
    rw [hmem s]
    constructor
    · rintro ⟨a, l, h⟩
      rw [hser a l] at h
      by_cases hex : ∃ r ∈ canon a, r.label = l
      · rw [if_pos hex] at h; cases h; exact ⟨a, l, hex, rfl⟩
      · rw [if_neg hex] at h; cases h
    · rintro ⟨a, l, hex, hs⟩
      exact ⟨a, l, by rw [hser a l, if_pos hex, hs]⟩
  obtain ⟨sels, hsel, hrows⟩ := aux_rows_selected store hl th hth (allSeries p).length (allSeries p) 0 (by
    intro s hs
    obtain ⟨a, l, _, hs'⟩ := (hiff s).mp hs
    rw [hs']
    refine ⟨hdom a l, ?_⟩
    have h1 : (specPts (t0 (canon a)) (canon a) l).length ≤ (canon a).length := by
      unfold specPts; rw [List.length_map]; exact List.length_filter_le _ _
    have := hsize a
    show ((specPts (t0 (canon a)) (canon a) l).length : Int) ≤ _
    omega)
  have hdata : Plot.data store p th = .ok (sortBy rowLt (rowsOfSel (allSeries p).length 0 sels), dataLabels (allSeries p)) := by
    unfold Plot.data
    simp only [hrows]
  refine ⟨p, _, _, sels, hp, hdata, rows_sorted_by_x store p th _ _ hdata, hsel,
    Vegeta.Proofs.PlotSort.sortBy_perm rowLt _, rfl, hiff⟩

/-! ### the `plot` command -/

open Vegeta.Model.RoundRobin in
/-- **The command's data block is `Plot.data` of the decoded records**: for well-formed result
files (any number ≥ 1, any lengths) the command decodes — through the round-robin decoder of C13 —
a list `decoded` that is a permutation of the concatenation of the files and keeps each file's own
order, adds its records in that order, and renders `Plot.data` of the resulting plot; an `Add`
error is returned as it is.  (`fuel`: bound on the number of decode calls, only a device of the
model; `hw`: the decoder's `uint64` rotation counter does not wrap.) -/
theorem plot_command_is_fold (store : Store) (th : Int) (inputs : List (List Result)) (fuel : Nat)
    (hn : 0 < inputs.length) (hfuel : inputs.flatten.length < fuel)
    (hw : 0 + inputs.length * fuel < two64) :
    ∃ decoded, decoded.Perm inputs.flatten ∧ (∀ l ∈ inputs, l.Sublist decoded) ∧
      plotCommand store th fuel (ofInputs inputs) =
        (match Plot.addAll [] decoded with
         | .ok p => Plot.data store p th
         | .error e => .error e
         | .panic => .panic) := by
  obtain ⟨out, s', hd, hperm⟩ := Vegeta.Props.C13.rr_output_perm_concat inputs 0 fuel hn hfuel hw
  obtain ⟨out2, s2, hd2, hsub⟩ := Vegeta.Props.C13.rr_each_input_sublist inputs 0 fuel hn hfuel hw
  rw [hd] at hd2
  have e : out2 = out := by cases hd2; rfl
  subst e
  refine ⟨out2.map (·.2), hperm, hsub, ?_⟩
  unfold plotCommand
  have hi : RR.init (ofInputs inputs) = ⟨ofInputs inputs, 0⟩ := rfl
  rw [hi, hd]
  simp only [↓reduceIte]
  cases Plot.addAll [] (out2.map (·.2)) <;> rfl

open Vegeta.Model.RoundRobin in
/-- **Plotting several files is plotting their union**: however the results are split over files
and ordered inside them — provided the union holds every attack's records completely (contiguous
sequence numbers, C05 time stamps) — the command succeeds and its data block satisfies the
end-to-end statement `plot_downsampled_end_to_end`, which does not mention the split. -/
theorem plot_files_equal_union (canon : Bytes → List Result) (inputs : List (List Result)) (fuel : Nat)
    (hn : 0 < inputs.length) (hfuel : inputs.flatten.length < fuel)
    (hw : 0 + inputs.length * fuel < two64)
    (hc : ∀ a, Canon a (canon a))
    (hunion : ∀ a, (inputs.flatten.filter (fun r => r.attack == a)).Perm (canon a))
    (store : Store) (hl : Lossless store)
    (hdom : ∀ a l, msDomain ((specPts (t0 (canon a)) (canon a) l).map (·.1)) = true)
    (hsize : ∀ a, ((canon a).length : Int) ≤ 1125899906842624)
    (th : Int) (hth : th = 0 ∨ 3 ≤ th) :
    ∃ p rows labels sels, plotCommand store th fuel (ofInputs inputs) = .ok (rows, labels) ∧
      rows.Pairwise (fun a b => rowLt b a = false) ∧
      SelectedAll th (allSeries p) sels ∧
      rows.Perm (rowsOfSel (allSeries p).length 0 sels) ∧
      labels = dataLabels (allSeries p) ∧
      (∀ s, s ∈ allSeries p ↔
        ∃ a l, (∃ r ∈ canon a, r.label = l) ∧ s = specSeries a (t0 (canon a)) (canon a) l) := by
  obtain ⟨decoded, hperm, _, hcmd⟩ := plot_command_is_fold store th inputs fuel hn hfuel hw
  obtain ⟨p, rows, labels, sels, hp, hdata, h1, h2, h3, h4, h5⟩ :=
    plot_downsampled_end_to_end canon decoded hc
      (fun a => (hperm.filter _).trans (hunion a)) store hl hdom hsize th hth
  refine ⟨p, rows, labels, sels, ?_, h1, h2, h3, h4, h5⟩
  rw [hcmd, hp]
  exact hdata

/-! ### composition with the attack (C02, C05): the plot of any attack -/

abbrev AHit := Vegeta.Model.Attack.Hit
abbrev ASt := Vegeta.Model.Attack.St
abbrev AReachable := Vegeta.Model.Attack.Reachable

/-- The result the attack delivers for a hit, as the plot sees it: attack name `name`, the hit's
sequence number, `Timestamp = began + ts`, `Latency = fin − ts` (the deferred measurement), and a
label that is free (`lbl seq`: whether the hit ended in an error is not decided by the attack's
transition system). -/
def hitResult (name : Bytes) (began : Int) (lbl : Nat → Bytes) (h : AHit) : Result :=
  { attack := name, seq := h.seq, ts := began + (h.ts : Int),
    latency := ((h.fin.getD h.ts : Nat) : Int) - (h.ts : Int), label := lbl h.seq }

/-- the results of all started hits, in sequence order -/
def attackResults (name : Bytes) (began : Int) (lbl : Nat → Bytes) (s : ASt) : List Result :=
  s.hits.map (hitResult name began lbl)

/-- the results the consumer has received, in delivery order (oldest first) -/
def deliveredResults (name : Bytes) (began : Int) (lbl : Nat → Bytes) (s : ASt) : List Result :=
  s.delivered.reverse.map (fun i => hitResult name began lbl (s.hits[i]?.getD default))

/-- the family of in-order result lists of a plot fed by one attack -/
def attackCanon (name : Bytes) (cs : List Result) (a : Bytes) : List Result := if a = name then cs else []

theorem aux_canon_nil (a : Bytes) : Canon a [] := ⟨by simp, by simp, by simp⟩

/-- **The results of any reachable attack state are in the plot theorem's domain** (C02: the
`i`-th started hit has sequence number `i`; C05: time stamps do not decrease with the sequence
number) — any number of workers, any interleaving. -/
theorem attack_results_canon {w m d : Nat} {s : ASt} (h : AReachable w m d s)
    (name : Bytes) (began : Int) (lbl : Nat → Bytes) : Canon name (attackResults name began lbl s) := by
  refine ⟨?_, ?_, ?_⟩
  · intro r hr
    unfold attackResults at hr
    rw [List.mem_map] at hr
    obtain ⟨hh, _, e⟩ := hr
    rw [← e]; rfl
  · intro i r hr
    unfold attackResults at hr
    rw [List.getElem?_map] at hr
    cases hi : s.hits[i]? with
    | none => rw [hi] at hr; cases hr
    | some hh =>
      rw [hi] at hr
      simp only [Option.map_some, Option.some.injEq] at hr
      rw [← hr]
      exact Vegeta.Props.C05.index_is_seq h i hh hi
  · intro i j r r' hij hr hr'
    unfold attackResults at hr hr'
    rw [List.getElem?_map] at hr hr'
    cases hi : s.hits[i]? with
    | none => rw [hi] at hr; cases hr
    | some hh =>
      cases hj : s.hits[j]? with
      | none => rw [hj] at hr'; cases hr'
      | some hh' =>
        rw [hi] at hr; rw [hj] at hr'
        simp only [Option.map_some, Option.some.injEq] at hr hr'
        rw [← hr, ← hr']
        simp only [hitResult]
        rcases Nat.lt_or_ge i j with hlt | hge
        · have := Vegeta.Props.C05.seq_lt_imp_ts_le h i j hh hh' hlt hi hj
          omega
        · have : i = j := by omega
          subst this
          rw [hi] at hj; cases hj; omega

theorem aux_perm_range (l : List Nat) (n : Nat) (hnd : l.Nodup) (hmem : ∀ i, i ∈ l ↔ i < n) :
    l.Perm (List.range n) := by
  rw [List.perm_iff_count]
  intro a
  rw [hnd.count, (List.nodup_range (n := n)).count]
  simp only [hmem a, List.mem_range]

theorem aux_map_range_getD {β} (hs : List AHit) (f : AHit → β) :
    (List.range hs.length).map (fun i => f (hs[i]?.getD default)) = hs.map f := by
  apply List.ext_getElem?
  intro i
  simp only [List.getElem?_map]
  by_cases hi : i < hs.length
  · rw [List.getElem?_range hi, List.getElem?_eq_getElem hi]; simp [List.getElem?_eq_getElem hi]
  · rw [List.getElem?_eq_none (by simp; omega), List.getElem?_eq_none (by omega)]; rfl

/-- **Once the results channel is closed** (`s.resultsClosed`, in particular in the terminal state
`pc = done`) **the results the consumer received are exactly the results of all started hits**,
each once (C02 `closed_only_after_all_delivered`, `delivered_nodup_and_started`): the delivery
order is a permutation of the sequence order. -/
theorem delivered_is_perm_of_all {w m d : Nat} {s : ASt} (h : AReachable w m d s)
    (hclosed : s.resultsClosed = true) (name : Bytes) (began : Int) (lbl : Nat → Bytes) :
    (deliveredResults name began lbl s).Perm (attackResults name began lbl s) := by
  obtain ⟨hnd, hlt⟩ := Vegeta.Props.C02.delivered_nodup_and_started h
  obtain ⟨_, _, _, _, _, _, hall⟩ := Vegeta.Props.C02.closed_only_after_all_delivered h hclosed
  have hlen : s.seq = s.hits.length := (Vegeta.Proofs.Attack.core_reachable h).seqlen
  have hp : s.delivered.reverse.Perm (List.range s.hits.length) := by
    apply aux_perm_range
    · exact (List.reverse_perm _).nodup_iff.mpr hnd
    · intro i
      rw [List.mem_reverse, ← hlen]
      exact ⟨hlt i, hall i⟩
  unfold deliveredResults attackResults
  rw [← aux_map_range_getD s.hits (hitResult name began lbl)]
  exact hp.map _

/--
**The plot of any attack** (composition of C02, C05 and C17).  Take any reachable state `s` of the
attack's transition system — any initial and maximal worker counts, any duration, any interleaving
of pacer, workers, consumer, `Stop` calls and clock — in which the results channel has been closed
(`s.resultsClosed = true`; this covers the terminal state `pc = done`, and by C02 it implies that
every started hit has delivered its result).  Present the delivered results to the plot in ANY
arrival order `rs` (a permutation of the sequence order; `delivered_is_perm_of_all` shows the
attack's own delivery order is one).  Then, with no further hypothesis on the results, the plot
shows every result exactly once: `plot_downsampled_end_to_end` holds for `rs`.  The remaining
hypotheses concern only the store (`Lossless`, consecutive points of a series < 2^31 ms apart)
and the size bound of `downsample_exact`.  For states in which hits are still in flight see
`plot_of_attack_in_progress`.
-/
theorem plot_of_any_attack {w m d : Nat} {s : ASt} (h : AReachable w m d s)
    (name : Bytes) (began : Int) (lbl : Nat → Bytes) (rs : List Result)
    (hrs : rs.Perm (attackResults name began lbl s))
    (store : Store) (hl : Lossless store)
    (hdom : ∀ l, msDomain ((specPts (t0 (attackResults name began lbl s)) (attackResults name began lbl s) l).map (·.1)) = true)
    (hsize : (s.hits.length : Int) ≤ 1125899906842624)
    (th : Int) (hth : th = 0 ∨ 3 ≤ th) :
    ∃ p rows labels sels, Plot.addAll [] rs = .ok p ∧ Plot.data store p th = .ok (rows, labels) ∧
      rows.Pairwise (fun a b => rowLt b a = false) ∧
      SelectedAll th (allSeries p) sels ∧
      rows.Perm (rowsOfSel (allSeries p).length 0 sels) ∧
      labels = dataLabels (allSeries p) ∧
      (∀ sr, sr ∈ allSeries p ↔
        ∃ l, (∃ r ∈ attackResults name began lbl s, r.label = l) ∧
          sr = specSeries name (t0 (attackResults name began lbl s)) (attackResults name began lbl s) l) := by
  have hcan := attack_results_canon h name began lbl
  generalize hcs : attackResults name began lbl s = cs at *
  have hattack : ∀ r ∈ rs, r.attack = name := fun r hr => hcan.attack r (hrs.mem_iff.mp hr)
  obtain ⟨p, rows, labels, sels, h1, h2, h3, h4, h5, h6, h7⟩ :=
    plot_downsampled_end_to_end (attackCanon name cs) rs
      (by intro a; unfold attackCanon; split
          · rename_i e; rw [e]; exact hcan
          · exact aux_canon_nil a)
      (by intro a; unfold attackCanon; split
          · rename_i e
            have : rs.filter (fun r => r.attack == a) = rs := by
              rw [List.filter_eq_self]; intro r hr; simp [hattack r hr, e]
            rw [this]; exact hrs
          · rename_i e
            have : rs.filter (fun r => r.attack == a) = [] := by
              rw [List.filter_eq_nil_iff]; intro r hr; simp [hattack r hr]; exact fun e' => e e'.symm
            rw [this])
      store hl
      (by intro a l; unfold attackCanon; split
          · exact hdom l
          · simp [specPts, msDomain])
      (by intro a; unfold attackCanon; split
          · rw [← hcs]; simp only [attackResults, List.length_map]; exact hsize
          · simp)
      th hth
  refine ⟨p, rows, labels, sels, h1, h2, h3, h4, h5, h6, ?_⟩
  intro sr
  rw [h7 sr]
  constructor
  · rintro ⟨a, l, hex, hs⟩
    unfold attackCanon at hex hs
    by_cases e : a = name
    · simp only [e, ↓reduceIte] at hex hs; exact ⟨l, hex, hs⟩
    · simp only [e, ↓reduceIte] at hex; obtain ⟨r, hr, _⟩ := hex; simp at hr
  · rintro ⟨l, hex, hs⟩
    refine ⟨name, l, ?_, ?_⟩ <;> simp only [attackCanon, ↓reduceIte]
    · exact hex
    · exact hs

theorem aux_delivered_hit {w m d : Nat} {s : ASt} (h : AReachable w m d s) (i : Nat) (hi : i ∈ s.delivered)
    (name : Bytes) (began : Int) (lbl : Nat → Bytes) :
    ∃ hh, s.hits[i]? = some hh ∧ hh.seq = i ∧
      (attackResults name began lbl s)[i]? = some (hitResult name began lbl hh) := by
  obtain ⟨hh, he, _⟩ := ((Vegeta.Proofs.Attack.deliv_reachable h).mem i).mp hi
  refine ⟨hh, he, Vegeta.Props.C05.index_is_seq h i hh he, ?_⟩
  unfold attackResults
  rw [List.getElem?_map, he]; rfl

theorem aux_delivered_seqs {w m d : Nat} {s : ASt} (h : AReachable w m d s)
    (name : Bytes) (began : Int) (lbl : Nat → Bytes) :
    (deliveredResults name began lbl s).map (·.seq) = s.delivered.reverse := by
  unfold deliveredResults
  rw [List.map_map]
  have : ∀ i ∈ s.delivered.reverse,
      ((fun r : Result => r.seq) ∘ fun i => hitResult name began lbl (s.hits[i]?.getD default)) i = id i := by
    intro i hi
    obtain ⟨hh, he, hs, _⟩ := aux_delivered_hit h i (List.mem_reverse.mp hi) name began lbl
    simp [he, hitResult, hs]
  rw [List.map_congr_left this, List.map_id]

/--
**The plot of an attack that is still running** (any reachable state, hits in flight or not yet
consumed).  Present the results delivered so far in any arrival order `rs`.  Then no `Add` fails,
and with `k` the first sequence number that has not been delivered: the plot's series hold exactly
the results with sequence numbers below `k` (one point each, in sequence order), and the
delivered results with larger sequence numbers — the tail behind the gap — sit in the re-ordering
buffer, to be released when the missing results arrive.
-/
theorem plot_of_attack_in_progress {w m d : Nat} {s : ASt} (h : AReachable w m d s)
    (name : Bytes) (began : Int) (lbl : Nat → Bytes) (rs : List Result)
    (hrs : rs.Perm (deliveredResults name began lbl s)) :
    ∃ p ls, Plot.addAll [] rs = .ok p ∧ (rs ≠ [] → plotLookup p name = some ls) ∧
      (∀ i, i < ls.seq → i ∈ s.delivered) ∧ ls.seq ∉ s.delivered ∧
      (∀ l, seriesLookup ls.series l =
        if l ∈ rs.map (·.label) then
          some (specSeries name (t0 (attackResults name began lbl s)) ((attackResults name began lbl s).take ls.seq) l)
        else none) ∧
      (∀ i, bufLookup ls.buf i =
        if i ∈ s.delivered ∧ ls.seq ≤ i then
          ((attackResults name began lbl s)[i]?).map Vegeta.Proofs.PlotOrder.pt
        else none) := by
  have hcan := attack_results_canon h name began lbl
  -- every arrived result is the canonical result of its (delivered) sequence number
  have hmem : ∀ r ∈ rs, (attackResults name began lbl s)[r.seq]? = some r ∧ r.attack = name := by
    intro r hr
    have hr' := hrs.mem_iff.mp hr
    unfold deliveredResults at hr'
    rw [List.mem_map] at hr'
    obtain ⟨i, hi, e⟩ := hr'
    obtain ⟨hh, he, hs, hc⟩ := aux_delivered_hit h i (List.mem_reverse.mp hi) name began lbl
    rw [he] at e
    simp only [Option.getD_some] at e
    rw [← e]
    exact ⟨by show (attackResults name began lbl s)[hh.seq]? = _; rw [hs]; exact hc, rfl⟩
  have hseqs : (rs.map (fun r : Result => r.seq)).Perm s.delivered.reverse := by
    rw [← aux_delivered_seqs h name began lbl]; exact hrs.map _
  have hnd : (rs.map (fun r : Result => r.seq) ++ []).Nodup := by
    rw [List.append_nil, hseqs.nodup_iff, (List.reverse_perm _).nodup_iff]
    exact (Vegeta.Props.C02.delivered_nodup_and_started h).1
  obtain ⟨ls, hls, hp, hmex⟩ := Vegeta.Proofs.PlotOrder.addAllLS_spec name _ hcan rs [] []
    LabeledSeries.new (Vegeta.Proofs.PlotOrder.inv_new name _) (fun r hr => (hmem r hr).1) hnd
  simp only [List.append_nil] at hp hmex
  have hS : ∀ i, i ∈ (rs.map (fun r : Result => r.seq)).reverse ↔ i ∈ s.delivered := by
    intro i
    rw [List.mem_reverse, hseqs.mem_iff, List.mem_reverse]
  have hL : ∀ l, l ∈ (rs.map (fun r : Result => r.label)).reverse ↔ l ∈ rs.map (·.label) := by
    intro l; rw [List.mem_reverse]
  -- the plot routes everything to the one attack
  have hall : ∀ a, ∃ ls', Vegeta.Proofs.PlotOrder.attackRun [] rs a = .ok ls' := by
    intro a
    unfold Vegeta.Proofs.PlotOrder.attackRun
    by_cases e : a = name
    · have : rs.filter (fun r => r.attack == a) = rs := by
        rw [List.filter_eq_self]; intro r hr; simp [(hmem r hr).2, e]
      rw [this]; exact ⟨ls, by simpa [plotLookup] using hls⟩
    · have : rs.filter (fun r => r.attack == a) = [] := by
        rw [List.filter_eq_nil_iff]; intro r hr; simp [(hmem r hr).2]; exact fun e' => e e'.symm
      rw [this]; exact ⟨_, rfl⟩
  obtain ⟨p, hpp, hlook⟩ := Vegeta.Proofs.PlotOrder.plot_addAll_split rs [] hall
  refine ⟨p, ls, hpp, ?_, ?_, ?_, ?_, ?_⟩
  · intro hne
    rw [hlook name]
    have hex : ∃ r ∈ rs, r.attack = name := by
      cases rs with
      | nil => exact absurd rfl hne
      | cons r rest => exact ⟨r, by simp, (hmem r (by simp)).2⟩
    rw [if_pos hex]
    have hrun : Vegeta.Proofs.PlotOrder.attackRun [] rs name = .ok ls := by
      unfold Vegeta.Proofs.PlotOrder.attackRun
      have : rs.filter (fun r => r.attack == name) = rs := by
        rw [List.filter_eq_self]; intro r hr; simp [(hmem r hr).2]
      rw [this]; simpa [plotLookup] using hls
    rw [hrun]
  · intro i hi; exact (hS i).mp (hp.below i hi)
  · intro hc; exact hmex ((hS _).mpr hc)
  · intro l
    rw [hp.series l]
    by_cases hl : l ∈ rs.map (·.label)
    · rw [if_pos ((hL l).mpr hl), if_pos hl]
    · rw [if_neg (fun hh => hl ((hL l).mp hh)), if_neg hl]
  · intro i
    rw [hp.buf i]
    by_cases hi : i ∈ s.delivered ∧ ls.seq ≤ i
    · rw [if_pos ⟨(hS i).mpr hi.1, hi.2⟩, if_pos hi]
    · rw [if_neg (fun hh => hi ⟨(hS i).mp hh.1, hh.2⟩), if_neg hi]

/-- non-vacuity: a reachable terminal state of the attack (C02's demonstration trace: two hits,
a spawned second worker, an external Stop) whose results were delivered out of sequence order -/
example : ∃ s : ASt, AReachable 1 2 0 s ∧ s.resultsClosed = true ∧ s.delivered = [1, 0] ∧ s.hits.length = 2 := by
  have hd : (Vegeta.Model.Attack.run (Vegeta.Model.Attack.init 1 2 0) Vegeta.Props.C02.demoTrace).map
      (fun s => (s.resultsClosed, s.delivered, s.hits.length)) = some (true, [1, 0], 2) := by decide
  cases hr : Vegeta.Model.Attack.run (Vegeta.Model.Attack.init 1 2 0) Vegeta.Props.C02.demoTrace with
  | none => rw [hr] at hd; cases hd
  | some s' =>
    rw [hr] at hd
    simp only [Option.map_some, Option.some.injEq, Prod.mk.injEq] at hd
    exact ⟨s', Vegeta.Props.C02.aux_run_reachable 1 2 0 _ _ _ Vegeta.Model.Attack.Reachable.init hr, hd.1, hd.2.1, hd.2.2⟩

/-! ### source facts binding the store model to lib/plot/timeseries.go (regenerated every run) -/

/-- `timeSeries.add` creates the store lazily from the first time stamp
(`if ts.data == nil { ts.data = tsz.New(t + 1) }`, the only `tsz.New` of the file, not in
`newTimeSeries`) and then pushes the shifted time stamp (`ts.data.Push(t+1, v)`, once) — what
`seriesPoints`/`shiftUp` model and what makes the store's 27-bit first delta zero. -/
theorem facts_add_creates_store_at_first_point :
    Vegeta.Extracted.c17AddCreatesWhenNil = true ∧
    Vegeta.Extracted.c17TszNewArg = [116, 32, 43, 32, 49] ∧                 -- "t + 1"
    Vegeta.Extracted.c17PushCount = 1 ∧
    Vegeta.Extracted.c17PushArgs = [[116, 32, 43, 32, 49], [118]] ∧        -- "t + 1", "v"
    Vegeta.Extracted.c17CreateBeforePush = true ∧
    Vegeta.Extracted.c17NewTimeSeriesCreatesStore = false ∧
    Vegeta.Extracted.c17TszNewCalls = 1 := by decide

/-- `timeSeries.iter` returns nothing for a series without store and decodes
`X = time.Duration((t - 1) * 1e6).Seconds()` — the un-shift modelled by `unshift`. -/
theorem facts_iter_unshifts :
    Vegeta.Extracted.c17IterNilGuard = true ∧
    Vegeta.Extracted.c17IterXExpr =
      [116, 105, 109, 101, 46, 68, 117, 114, 97, 116, 105, 111, 110, 40, 40, 116, 32, 45, 32, 49, 41,
       32, 42, 32, 49, 101, 54, 41, 46, 83, 101, 99, 111, 110, 100, 115, 40, 41] := by decide

example : Lossless (id : Store) := fun _ _ => rfl
example : msDomain [0, 0, 5, 10, 4000000] = true := by decide
/-- a series may begin 38 h after the attack's first request, and its second point may lie 38 h
after a first point at 0 ms (both were outside the limits of the store before the repair of
`timeSeries.add`) -/
example : msDomain [136800000, 136801000] = true ∧ msDomain [0, 136800000] = true := by decide
/-- where the assumption stops: two consecutive points of a series 2^31 ms (24.8 days) apart -/
example : msDomain [5, 2147483653] = false := by decide

/-! non-vacuity: two attacks, results arriving out of order -/
def exA : Bytes := [97]
def exB : Bytes := [98]
def exCanon (a : Bytes) : List Result :=
  if a = exA then
    [⟨exA, 0, 1000000000, 2000000, labelOK⟩, ⟨exA, 1, 1000000000, 3000000, labelERROR⟩, ⟨exA, 2, 1005500000, 1500000, labelOK⟩]
  else if a = exB then [⟨exB, 0, 77, 5, labelOK⟩, ⟨exB, 1, 1000077, 6, labelOK⟩]
  else []
def exArrival : List Result :=
  [⟨exA, 2, 1005500000, 1500000, labelOK⟩, ⟨exB, 1, 1000077, 6, labelOK⟩, ⟨exA, 1, 1000000000, 3000000, labelERROR⟩,
   ⟨exA, 0, 1000000000, 2000000, labelOK⟩, ⟨exB, 0, 77, 5, labelOK⟩]

/-- the hypotheses of `arrival_order_irrelevant` hold for this input -/
example : (∀ a, Canon a (exCanon a)) ∧
    (∀ a, (exArrival.filter (fun r => r.attack == a)).Perm (exCanon a)) := by
  constructor
  · intro a
    unfold exCanon
    split
    · rename_i h; subst h
      refine ⟨by simp, ?_, ?_⟩
      · intro i r h
        match i with
        | 0 => simp at h; rw [← h]
        | 1 => simp at h; rw [← h]
        | 2 => simp at h; rw [← h]
        | n+3 => simp at h
      · intro i j r r' hij h h'
        match i, j with
        | 0, 0 => simp at h h'; rw [← h, ← h']; decide
        | 0, 1 => simp at h h'; rw [← h, ← h']; decide
        | 0, 2 => simp at h h'; rw [← h, ← h']; decide
        | 1, 1 => simp at h h'; rw [← h, ← h']; decide
        | 1, 2 => simp at h h'; rw [← h, ← h']; decide
        | 2, 2 => simp at h h'; rw [← h, ← h']; decide
        | 1, 0 => omega
        | 2, 0 => omega
        | 2, 1 => omega
        | n+3, _ => simp at h
        | _, n+3 => simp at h'
    · split
      · rename_i h; subst h
        refine ⟨by simp, ?_, ?_⟩
        · intro i r h
          match i with
          | 0 => simp at h; rw [← h]
          | 1 => simp at h; rw [← h]
          | n+2 => simp at h
        · intro i j r r' hij h h'
          match i, j with
          | 0, 0 => simp at h h'; rw [← h, ← h']; decide
          | 0, 1 => simp at h h'; rw [← h, ← h']; decide
          | 1, 1 => simp at h h'; rw [← h, ← h']; decide
          | 1, 0 => omega
          | n+2, _ => simp at h
          | _, n+2 => simp at h'
      · exact ⟨by simp, by simp, by simp⟩
  · intro a
    unfold exCanon
    split
    · rename_i h; subst h; decide
    · split
      · rename_i h; subst h; decide
      · rename_i h1 h2
        have : exArrival.filter (fun r => r.attack == a) = [] := by
          rw [List.filter_eq_nil_iff]
          intro x hx
          simp only [exArrival, List.mem_cons, List.not_mem_nil, or_false] at hx
          rcases hx with hx | hx | hx | hx | hx <;> subst hx <;> simp <;> first | exact fun e => h1 e.symm | exact fun e => h2 e.symm
        rw [this]

/-- … and so does the store-limit hypothesis of `plot_shows_every_result_once` -/
example : ∀ a l, msDomain ((specPts (t0 (exCanon a)) (exCanon a) l).map (·.1)) = true := by
  intro a l
  by_cases h1 : l = labelOK
  · subst h1
    unfold exCanon
    split
    · decide +kernel
    · split
      · decide +kernel
      · decide
  · by_cases h2 : l = labelERROR
    · subst h2
      unfold exCanon
      split
      · decide +kernel
      · split
        · decide +kernel
        · decide
    · have e1 : (labelOK == l) = false := by simp; exact fun e => h1 e.symm
      have e2 : (labelERROR == l) = false := by simp; exact fun e => h2 e.symm
      unfold exCanon
      split
      · simp [specPts, e1, e2, msDomain]
      · split
        · simp [specPts, e1, msDomain]
        · simp [specPts, msDomain]

example : (Plot.addAll [] exArrival).isOk = true := by decide +kernel
example : (match Plot.addAll [] exArrival with
    | .ok p => (seriesOf p exA labelOK).map (fun s => s.pts.map (·.1))
    | _ => none) = some [0, 5] := by decide +kernel

/-! ## the outcome of `Plot.data` and of the command as a function of threshold and series lengths -/

/-- "a longer series with a threshold of 1 or 2 is rejected", for every threshold below 3 that is
not 0 (negative ones included) and any points: the decision depends on `count` and `threshold`
only. -/
theorem downsample_rejects_below_3 (count threshold : Int) (pts : List Point)
    (hlong : count > threshold) (h0 : threshold ≠ 0) (h3 : threshold < 3) :
    downsample count threshold pts = .error eThreshold := by
  unfold downsample
  have h1 : ¬ (threshold ≥ count ∨ threshold = 0) := by omega
  rw [if_neg h1, if_pos h3]

/-- `Downsample` refuses a series of `len` points at threshold `th` -/
def rejects (th : Int) (len : Nat) : Bool := decide (th ≠ 0) && decide (th < (len : Int)) && decide (th < 3)

/-- the rows before the final sort when no series is sampled: every point of every series -/
def allRows (store : Store) (n : Nat) : Nat → List TimeSeries → List (List F64)
  | _, [] => []
  | i, s :: rest => ((seriesPoints store s).take s.pts.length).map (mkRow n i) ++ allRows store n (i+1) rest

theorem aux_rowsFrom_below_3 (store : Store) (th : Int) (h3 : th < 3) (n : Nat) :
    ∀ (ss : List TimeSeries) (i : Nat),
      rowsFrom store th n i ss =
        if ss.any (fun s => rejects th s.pts.length) then .error eThreshold else .ok (allRows store n i ss) := by
  intro ss
  induction ss with
  | nil => intro i; rfl
  | cons s rest ih =>
    intro i
    unfold rowsFrom
    by_cases hr : rejects th s.pts.length = true
    · have hr' := hr
      unfold rejects at hr'
      simp only [Bool.and_eq_true, decide_eq_true_eq] at hr'
      rw [downsample_rejects_below_3 _ th _ (by omega) hr'.1.1 h3]
      simp [hr]
    · have hid : th ≥ (s.pts.length : Int) ∨ th = 0 := by
        unfold rejects at hr
        simp only [Bool.and_eq_true, decide_eq_true_eq, not_and] at hr
        by_cases h0 : th = 0
        · exact Or.inr h0
        · left
          by_cases hlt : th < (s.pts.length : Int)
          · exact absurd h3 (hr ⟨h0, hlt⟩)
          · omega
      have hds : downsample (s.pts.length : Int) th (seriesPoints store s)
          = .ok ((seriesPoints store s).take s.pts.length) := by
        unfold downsample
        rw [if_pos hid, aux_fetch _ _ (Int.natCast_nonneg _)]
        simp
      rw [hds, ih (i+1)]
      have hf : (rejects th s.pts.length) = false := by simpa using hr
      simp only [List.any_cons, hf, Bool.false_or]
      by_cases hany : (rest.any fun s => rejects th s.pts.length) = true
      · simp only [hany, ↓reduceIte]
      · simp only [hany, Bool.false_eq_true, ↓reduceIte]
        rfl

/--
**The outcome of `Plot.data` for a threshold below 3, both directions, any plot state, any store**
("a longer series with a threshold of 1 or 2 is rejected with an error rather than mis-sampled";
"at or below the threshold, or with threshold 0, it is unchanged" — thresholds 1 and 2 included):
the plot is rejected iff SOME series — whichever, first, last or in between in `attack+label`
order — is longer than a non-zero threshold; otherwise `data` succeeds with every point of every
series.  The error of any one series is the outcome of the whole call.
-/
theorem data_outcome_below_3 (store : Store) (p : Plot) (th : Int) (h3 : th < 3) :
    Plot.data store p th =
      if (allSeries p).any (fun s => rejects th s.pts.length) then .error eThreshold
      else .ok (sortBy rowLt (allRows store (allSeries p).length 0 (allSeries p)), dataLabels (allSeries p)) := by
  unfold Plot.data
  simp only []
  rw [aux_rowsFrom_below_3 store th h3]
  by_cases hany : ((allSeries p).any fun s => rejects th s.pts.length) = true
  · simp only [hany, ↓reduceIte]
  · simp only [hany, Bool.false_eq_true, ↓reduceIte]

/-- for thresholds ≥ 3 (or 0) `Plot.data` never returns an error (store inside its limits,
series of at most 2^50 points): no series is ever rejected -/
theorem data_ok_from_3 (store : Store) (hl : Lossless store) (p : Plot) (th : Int) (hth : th = 0 ∨ 3 ≤ th)
    (hdom : ∀ s ∈ allSeries p, msDomain (s.pts.map (·.1)) = true ∧ (s.pts.length : Int) ≤ 1125899906842624) :
    ∃ rows labels, Plot.data store p th = .ok (rows, labels) := by
  obtain ⟨sels, _, hrows⟩ := aux_rows_selected store hl th hth (allSeries p).length (allSeries p) 0 hdom
  unfold Plot.data
  simp only [hrows]
  exact ⟨_, _, rfl⟩

/-- the plot built from any arrival order of complete attacks, and exactly which series it holds -/
theorem aux_plot_and_series (canon : Bytes → List Result) (rs : List Result)
    (hc : ∀ a, Canon a (canon a))
    (hperm : ∀ a, (rs.filter (fun r => r.attack == a)).Perm (canon a)) :
    ∃ p, Plot.addAll [] rs = .ok p ∧
      (∀ a l, seriesOf p a l =
        if (∃ r ∈ canon a, r.label = l) then some (specSeries a (t0 (canon a)) (canon a) l) else none) ∧
      (∀ s, s ∈ allSeries p ↔
        ∃ a l, (∃ r ∈ canon a, r.label = l) ∧ s = specSeries a (t0 (canon a)) (canon a) l) := by
  obtain ⟨p, hp, hser⟩ := arrival_order_irrelevant canon rs hc hperm
  obtain ⟨hmem, _⟩ := series_shown_are_the_label_series rs p hp
  refine ⟨p, hp, hser, ?_⟩
  intro s
  rw [hmem s]
  constructor
  · rintro ⟨a, l, h⟩
    rw [hser a l] at h
    by_cases hex : ∃ r ∈ canon a, r.label = l
    · rw [if_pos hex] at h; cases h; exact ⟨a, l, hex, rfl⟩
    · rw [if_neg hex] at h; cases h
  · rintro ⟨a, l, hex, hs⟩
    exact ⟨a, l, by rw [hser a l, if_pos hex, hs]⟩

/-- number of results of attack `a` with label `l` -/
def seriesLen (canon : Bytes → List Result) (a l : Bytes) : Nat :=
  ((canon a).filter (fun r => r.label == l)).length

open Vegeta.Model.RoundRobin in
/--
**The outcome of the `plot` command as a total function of the threshold and the per-attack
OK/ERROR counts** (well-formed files holding every attack's records completely, in any split and
order; store inside its limits; at most 2^50 results per attack):

* it fails with "lttb: min threshold is 3" **iff** the threshold is non-zero and below 3 and SOME
  existing (attack, label) series has more results than the threshold (for a negative threshold:
  any series at all) — so `--threshold 1` or `2` over
  result sets whose series all have at most that many points is NOT an error (they are plotted
  unchanged, see `data_outcome_below_3`), and one long series anywhere makes the whole command fail;
* in every other case it succeeds.
-/
theorem plot_command_outcome (canon : Bytes → List Result) (inputs : List (List Result)) (fuel : Nat)
    (hn : 0 < inputs.length) (hfuel : inputs.flatten.length < fuel)
    (hw : 0 + inputs.length * fuel < two64)
    (hc : ∀ a, Canon a (canon a))
    (hunion : ∀ a, (inputs.flatten.filter (fun r => r.attack == a)).Perm (canon a))
    (store : Store) (hl : Lossless store)
    (hdom : ∀ a l, msDomain ((specPts (t0 (canon a)) (canon a) l).map (·.1)) = true)
    (hsize : ∀ a, ((canon a).length : Int) ≤ 1125899906842624)
    (th : Int) :
    (plotCommand store th fuel (ofInputs inputs) = .error eThreshold ↔
      (th ≠ 0 ∧ th < 3 ∧ ∃ a l, 0 < seriesLen canon a l ∧ th < (seriesLen canon a l : Int))) ∧
    (¬ (th ≠ 0 ∧ th < 3 ∧ ∃ a l, 0 < seriesLen canon a l ∧ th < (seriesLen canon a l : Int)) →
      ∃ rows labels, plotCommand store th fuel (ofInputs inputs) = .ok (rows, labels)) := by
  obtain ⟨decoded, hperm, _, hcmd⟩ := plot_command_is_fold store th inputs fuel hn hfuel hw
  obtain ⟨p, hp, _, hiff⟩ := aux_plot_and_series canon decoded hc (fun a => (hperm.filter _).trans (hunion a))
  have hcmd' : plotCommand store th fuel (ofInputs inputs) = Plot.data store p th := by rw [hcmd, hp]
  rw [hcmd']
  have hlen : ∀ a l, (specSeries a (t0 (canon a)) (canon a) l).pts.length = seriesLen canon a l := by
    intro a l; simp [specSeries, specPts, seriesLen]
  -- some series is refused  ⇔  some (attack, label) count exceeds a non-zero threshold below 3
  have hany : ((allSeries p).any (fun s => rejects th s.pts.length) = true) ↔
      (th ≠ 0 ∧ th < 3 ∧ ∃ a l, 0 < seriesLen canon a l ∧ th < (seriesLen canon a l : Int)) := by
    rw [List.any_eq_true]
    constructor
    · rintro ⟨s, hs, hr⟩
      obtain ⟨a, l, hexr, e⟩ := (hiff s).mp hs
      unfold rejects at hr
      simp only [Bool.and_eq_true, decide_eq_true_eq] at hr
      rw [e, hlen] at hr
      refine ⟨hr.1.1, hr.2, a, l, ?_, hr.1.2⟩
      obtain ⟨r, hr1, hr2⟩ := ‹∃ r ∈ canon a, r.label = l›
      unfold seriesLen
      apply List.length_pos_of_mem (a := r)
      rw [List.mem_filter]; exact ⟨hr1, by simp [hr2]⟩
    · rintro ⟨h0, h3, a, l, hpos, hlt⟩
      have hex : ∃ r ∈ canon a, r.label = l := by
        unfold seriesLen at hpos
        obtain ⟨r, hr⟩ := List.exists_mem_of_length_pos hpos
        rw [List.mem_filter] at hr
        exact ⟨r, hr.1, by simpa using hr.2⟩
      refine ⟨_, (hiff _).mpr ⟨a, l, hex, rfl⟩, ?_⟩
      unfold rejects
      simp only [Bool.and_eq_true, decide_eq_true_eq]
      rw [hlen]
      exact ⟨⟨h0, hlt⟩, h3⟩
  by_cases h3 : th < 3
  · rw [data_outcome_below_3 store p th h3]
    constructor
    · constructor
      · intro h
        by_cases ha : (allSeries p).any (fun s => rejects th s.pts.length) = true
        · exact hany.mp ha
        · rw [if_neg ha] at h; cases h
      · intro h; rw [if_pos (hany.mpr h)]
    · intro h
      rw [if_neg (fun ha => h (hany.mp ha))]
      exact ⟨_, _, rfl⟩
  · have hok := data_ok_from_3 store hl p th (Or.inr (by omega)) (by
      intro s hs
      obtain ⟨a, l, _, e⟩ := (hiff s).mp hs
      rw [e]
      refine ⟨hdom a l, ?_⟩
      rw [hlen]
      have h1 : seriesLen canon a l ≤ (canon a).length := List.length_filter_le _ _
      have := hsize a
      omega)
    obtain ⟨rows, labels, hd⟩ := hok
    constructor
    · constructor
      · intro h; rw [hd] at h; cases h
      · intro h; omega
    · intro _; exact ⟨rows, labels, hd⟩

/-! ## rows, columns and labels -/

/-- **Sorted and complete, for every plot state** (any number of attacks, any labels, one attack
with an OK and an ERROR series included): the rows `Plot.data` returns are sorted by x AND are a
permutation of the rows of all (down-sampled) series points — every point exactly once. -/
theorem rows_sorted_and_complete (store : Store) (p : Plot) (th : Int) (rows : List (List F64))
    (labels : List Bytes) (h : Plot.data store p th = .ok (rows, labels)) :
    rows.Pairwise (fun a b => rowLt b a = false) ∧
    rows.Perm (seriesRows store th (allSeries p).length 0 (allSeries p)) :=
  ⟨rows_sorted_by_x store p th rows labels h, (rows_are_the_series_points store p th rows labels h).1⟩

theorem aux_seriesRows_mem (store : Store) (th : Int) (n : Nat) :
    ∀ (ss : List TimeSeries) (i : Nat) (row : List F64), row ∈ seriesRows store th n i ss →
      ∃ j s ps pt, ss[j]? = some s ∧ downsample (s.pts.length : Int) th (seriesPoints store s) = .ok ps ∧
        pt ∈ ps ∧ row = mkRow n (i + j) pt := by
  intro ss
  induction ss with
  | nil => intro i row h; simp [seriesRows] at h
  | cons s rest ih =>
    intro i row h
    unfold seriesRows at h
    rw [List.mem_append] at h
    rcases h with h | h
    · cases hd : downsample (s.pts.length : Int) th (seriesPoints store s) with
      | ok ps =>
        rw [hd] at h
        simp only [List.mem_map] at h
        obtain ⟨pt, hpt, e⟩ := h
        exact ⟨0, s, ps, pt, by simp, hd, hpt, by simp [e]⟩
      | error e => rw [hd] at h; simp at h
      | panic => rw [hd] at h; simp at h
    · obtain ⟨j, s', ps, pt, h1, h2, h3, h4⟩ := ih (i+1) row h
      refine ⟨j+1, s', ps, pt, by simpa using h1, h2, h3, ?_⟩
      rw [h4]; congr 1; omega

/-- the cells of a row: x first, then the value in column `i+1` and NaN elsewhere -/
theorem mkRow_cells (n i : Nat) (pt : Point) :
    (mkRow n i pt)[0]? = some pt.x ∧
    ∀ j, j < n → (mkRow n i pt)[j+1]? = some (if j = i then pt.y else goNaN) := by
  unfold mkRow
  refine ⟨by simp, ?_⟩
  intro j hj
  simp only [List.getElem?_cons_succ, List.getElem?_map, List.getElem?_range hj, Option.map_some]
  by_cases h : j = i <;> simp [h]

/--
**`labels[i+1]` is the label of the series whose points stand in column `i+1`** — for arbitrary
byte strings as attack names and labels (names that are prefixes of one another, names containing
":" or sorting before it, …): the label list is "Seconds" followed by `attack ++ ": " ++ label`
of the series in exactly the order in which the series were given their columns, and every row is
the row of a point of some series `i`: its value stands in column `i+1` (all other cells NaN), the
column labelled with that series' own attack and label.
-/
theorem labels_match_columns (store : Store) (p : Plot) (th : Int) (rows : List (List F64))
    (labels : List Bytes) (h : Plot.data store p th = .ok (rows, labels)) :
    labels = [83, 101, 99, 111, 110, 100, 115] :: (allSeries p).map (fun s => s.attack ++ [58, 32] ++ s.label) ∧
    ∀ row ∈ rows, ∃ i s ps pt, (allSeries p)[i]? = some s ∧
      labels[i+1]? = some (s.attack ++ [58, 32] ++ s.label) ∧
      downsample (s.pts.length : Int) th (seriesPoints store s) = .ok ps ∧ pt ∈ ps ∧
      row = mkRow (allSeries p).length i pt ∧
      row[0]? = some pt.x ∧ row[i+1]? = some pt.y ∧
      (∀ j, j < (allSeries p).length → j ≠ i → row[j+1]? = some goNaN) := by
  obtain ⟨hperm, hlab⟩ := rows_are_the_series_points store p th rows labels h
  have hl : labels = [83, 101, 99, 111, 110, 100, 115] :: (allSeries p).map (fun s => s.attack ++ [58, 32] ++ s.label) := by
    rw [hlab]; rfl
  refine ⟨hl, ?_⟩
  intro row hrow
  obtain ⟨j, s, ps, pt, h1, h2, h3, h4⟩ :=
    aux_seriesRows_mem store th _ _ 0 row (hperm.mem_iff.mp hrow)
  simp only [Nat.zero_add] at h4
  have hj : j < (allSeries p).length := by
    rcases Nat.lt_or_ge j (allSeries p).length with h | h
    · exact h
    · rw [List.getElem?_eq_none h] at h1; cases h1
  obtain ⟨c0, cj⟩ := mkRow_cells (allSeries p).length j pt
  refine ⟨j, s, ps, pt, h1, ?_, h2, h3, h4, ?_, ?_, ?_⟩
  · rw [hl]; simp [List.getElem?_map, h1]
  · rw [h4]; exact c0
  · rw [h4, cj j hj]; simp
  · intro k hk hne; rw [h4, cj k hk]; simp [hne]

/-! ## x is measured from the attack's first request, whichever result arrives first -/

/--
**x = ⌊(t − t₀)/1 ms⌋ with t₀ the time stamp of sequence number 0**, for every arrival order — in
particular when the result with sequence number 0 arrives late or last, and for time stamps with
sub-millisecond parts: the `k`-th result `r` of attack `a` with label `l` (in sequence order) is
the `k`-th point of the series, at `x = ⌊(r.ts − r₀.ts)/10^6⌋` ms where `r₀` is the attack's
result with sequence number 0 (time differences inside the `Duration` range), and
`y = latency` in ms.
-/
theorem x_is_floor_since_seq0 (canon : Bytes → List Result) (rs : List Result)
    (hc : ∀ a, Canon a (canon a))
    (hperm : ∀ a, (rs.filter (fun r => r.attack == a)).Perm (canon a))
    (a l : Bytes) (k : Nat) (r r0 : Result)
    (hk : ((canon a).filter (fun r => r.label == l))[k]? = some r)
    (h0 : (canon a)[0]? = some r0) (hrange : r.ts - r0.ts ≤ maxInt64) :
    r0.seq = 0 ∧
    ∃ p s x, Plot.addAll [] rs = .ok p ∧ seriesOf p a l = some s ∧
      s.pts[k]? = some (x, latencyMs r.latency) ∧ (x : Int) = (r.ts - r0.ts) / 1000000 := by
  have hseq0 : r0.seq = 0 := (hc a).seq 0 r0 h0
  refine ⟨hseq0, ?_⟩
  obtain ⟨p, hp, hser⟩ := arrival_order_irrelevant canon rs hc hperm
  have hmemf : r ∈ (canon a).filter (fun r => r.label == l) := List.mem_of_getElem? hk
  rw [List.mem_filter] at hmemf
  have hex : ∃ r' ∈ canon a, r'.label = l := ⟨r, hmemf.1, by simpa using hmemf.2⟩
  have ht0 : t0 (canon a) = r0.ts := by
    cases hca : canon a with
    | nil => rw [hca] at h0; simp at h0
    | cons c rest => rw [hca] at h0; simp at h0; simp [t0, h0]
  obtain ⟨i, hi, hie⟩ := List.getElem_of_mem hmemf.1
  have hget : (canon a)[i]? = some r := by rw [List.getElem?_eq_getElem hi, hie]
  have hle : r0.ts ≤ r.ts := (hc a).mono 0 i r0 r (Nat.zero_le _) h0 hget
  refine ⟨p, _, msSince r.ts r0.ts, hp, by rw [hser a l, if_pos hex], ?_, ?_⟩
  · simp only [specSeries]
    rw [(one_point_per_result (t0 (canon a)) (canon a) l).2 k r hk, ht0]
  · exact x_is_whole_milliseconds r0.ts r.ts hle hrange

/-! ## the command line -/

/-- source facts (regenerated every run) binding `plotCmdLine` / `plotCommand` to plot.go: the flags
`title` (default "Vegeta Plot"), `threshold` (default 4000), `output` (default "stdout"); the call
`plotRun(files, *threshold, *title, *output)` matching `plotRun`'s parameters
`(files, threshold, title, output)`; the default input `stdin`; and
`plot.New(plot.Title(title), plot.Downsample(threshold), plot.Label(plot.ErrorLabeler))`. -/
theorem facts_plot_command_glue :
    Vegeta.Extracted.c17PlotFlags = [([34, 116, 105, 116, 108, 101, 34], [34, 86, 101, 103, 101, 116, 97, 32, 80, 108, 111, 116, 34]), ([34, 116, 104, 114, 101, 115, 104, 111, 108, 100, 34], [52, 48, 48, 48]), ([34, 111, 117, 116, 112, 117, 116, 34], [34, 115, 116, 100, 111, 117, 116, 34])] ∧
    Vegeta.Extracted.c17PlotRunCallArgs = [[102, 105, 108, 101, 115], [42, 116, 104, 114, 101, 115, 104, 111, 108, 100], [42, 116, 105, 116, 108, 101], [42, 111, 117, 116, 112, 117, 116]] ∧
    Vegeta.Extracted.c17PlotRunParams = [[102, 105, 108, 101, 115], [116, 104, 114, 101, 115, 104, 111, 108, 100], [116, 105, 116, 108, 101], [111, 117, 116, 112, 117, 116]] ∧
    Vegeta.Extracted.c17PlotDefaultInput = [102, 105, 108, 101, 115, 32, 61, 32, 97, 112, 112, 101, 110, 100, 40, 102, 105, 108, 101, 115, 44, 32, 34, 115, 116, 100, 105, 110, 34, 41] ∧
    Vegeta.Extracted.c17PlotNewOpts = [[112, 108, 111, 116, 46, 84, 105, 116, 108, 101, 40, 116, 105, 116, 108, 101, 41], [112, 108, 111, 116, 46, 68, 111, 119, 110, 115, 97, 109, 112, 108, 101, 40, 116, 104, 114, 101, 115, 104, 111, 108, 100, 41], [112, 108, 111, 116, 46, 76, 97, 98, 101, 108, 40, 112, 108, 111, 116, 46, 69, 114, 114, 111, 114, 76, 97, 98, 101, 108, 101, 114, 41]] := by decide

/-- the threshold default of the model is the flag's default in the source -/
theorem facts_default_threshold :
    (Vegeta.Extracted.c17PlotFlags.lookup [34, 116, 104, 114, 101, 115, 104, 111, 108, 100, 34]) = some [52, 48, 48, 48] ∧ defaultThreshold = 4000 := by decide

open Vegeta.Model.RoundRobin in
/--
**`vegeta plot` without `-threshold` down-samples to 4000 points per series**: the command line
with the flag absent is the command with threshold 4000, so (files holding every attack's records
completely, store inside its limits) every per-attack OK/ERROR series of more than 4000 results is
plotted with exactly 4000 points — a sublist with first and last point — and every shorter one
unchanged; with the flag given, its value is the threshold.
-/
theorem plot_cmdline_default_threshold (canon : Bytes → List Result) (inputs : List (List Result)) (fuel : Nat)
    (hn : 0 < inputs.length) (hfuel : inputs.flatten.length < fuel)
    (hw : 0 + inputs.length * fuel < two64)
    (hc : ∀ a, Canon a (canon a))
    (hunion : ∀ a, (inputs.flatten.filter (fun r => r.attack == a)).Perm (canon a))
    (store : Store) (hl : Lossless store)
    (hdom : ∀ a l, msDomain ((specPts (t0 (canon a)) (canon a) l).map (·.1)) = true)
    (hsize : ∀ a, ((canon a).length : Int) ≤ 1125899906842624) :
    (∀ th, plotCmdLine store (some th) fuel (ofInputs inputs) = plotCommand store th fuel (ofInputs inputs)) ∧
    ∃ p rows labels sels, plotCmdLine store none fuel (ofInputs inputs) = .ok (rows, labels) ∧
      rows.Pairwise (fun a b => rowLt b a = false) ∧
      SelectedAll 4000 (allSeries p) sels ∧
      rows.Perm (rowsOfSel (allSeries p).length 0 sels) ∧
      labels = dataLabels (allSeries p) ∧
      (∀ s, s ∈ allSeries p ↔
        ∃ a l, (∃ r ∈ canon a, r.label = l) ∧ s = specSeries a (t0 (canon a)) (canon a) l) :=
  ⟨fun _ => rfl,
   plot_files_equal_union canon inputs fuel hn hfuel hw hc hunion store hl hdom hsize 4000 (Or.inr (by decide))⟩

/-! non-vacuity of the new theorems -/

/-- one attack with an OK and an ERROR series overlapping in time: the rows come out interleaved
by x (not series after series) -/
def exMixed : List Result :=
  [⟨exA, 2, 1002000000, 3000000, labelOK⟩, ⟨exA, 0, 1000000000, 1000000, labelOK⟩, ⟨exA, 1, 1001000000, 2000000, labelERROR⟩]

example : (match Plot.addAll [] exMixed with
    | .ok p => (match Plot.data id p 0 with
      | .ok (rows, _) => some (rows.map (fun r => r.map (fun f => f == goNaN)))
      | _ => none)
    | _ => none) = some [[false, true, false], [false, false, true], [false, true, false]] := by decide +kernel

/-- thresholds 1 and 2: a plot whose series all have at most that many points is not rejected, one
longer series anywhere rejects it (`exMixed` has 2 OK results and 1 ERROR result) -/
example : (match Plot.addAll [] exMixed with
    | .ok p => some ((Plot.data id p 2).isOk, (Plot.data id p 1) = .error eThreshold, (Plot.data id p (-1)) = .error eThreshold)
    | _ => none) = some (true, true, true) := by decide +kernel

/-- sequence number 0 arrives last and the time stamps have sub-millisecond parts: x is still
measured from the time stamp of sequence number 0 (1.0000007 s): 0 ms and 1 ms, not 1 ms and 2 ms -/
example : (match Plot.addAll [] [⟨exB, 1, 1001700500, 5, labelOK⟩, ⟨exB, 2, 1002700600, 5, labelOK⟩, ⟨exB, 0, 1000700700, 5, labelOK⟩] with
    | .ok p => (seriesOf p exB labelOK).map (fun s => s.pts.map (·.1))
    | _ => none) = some [0, 0, 1] := by decide +kernel

end Vegeta.Props.C17
