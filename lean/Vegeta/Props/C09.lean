/-
C09 — A truncated result stream decodes to a clean prefix.

gob: what is proved is the *framing* contract (length-prefixed messages; payloads opaque): a reader that
follows it can never see part of a message. JSON: every record is one line with exactly one newline,
the decoder consumes only complete lines. CSV: cuts at record boundaries. And each encoder hands the
writer one whole record per call.  Lemmas live in `Vegeta/Proofs/GobFrame.lean` and
`Vegeta/Proofs/StreamCut.lean`; they are restated here so that the axiom audit sees them.
-/
import Vegeta.Proofs.GobFrame
import Vegeta.Proofs.StreamCut
import Vegeta.Proofs.CodecJSONResult
import Vegeta.Proofs.CodecCSVResult
import Vegeta.Proofs.CodecRFC3339
import Vegeta.Proofs.GobValueResult
import Vegeta.Proofs.EncodeCalls
import Vegeta.Proofs.EncodeCmdCut
import Vegeta.Extracted.Facts
namespace Vegeta.Props.C09
open Vegeta.Go Vegeta.Model.Codec Vegeta.Model.GobFrame Vegeta.Proofs.GobFrame Vegeta.Proofs.Codec

/-! ### gob framing -/

/-- one message: `recvMessage` reads back exactly the payload and stops exactly after it -/
theorem frame_roundtrip (p rest : Bytes) (h : p.length < tooBig) :
    parseFrame (encodeFrame p ++ rest) = .frame p rest := parseFrame_encodeFrame p rest h

/-- a proper non-empty prefix of a message is neither a message nor malformed: it is `incomplete`
(io.ErrUnexpectedEOF), wherever the cut falls — inside the length prefix or inside the payload -/
theorem frame_proper_prefix_incomplete (p : Bytes) (h : p.length < tooBig) (k : Nat) (hk0 : 0 < k)
    (hk : k < (encodeFrame p).length) : parseFrame ((encodeFrame p).take k) = .incomplete :=
  parseFrame_prefix p h k hk0 hk

/-- **frame_prefix_safe**: for any list of frames and any cut offset `k`, parsing the first `k` bytes of
the stream yields exactly the frames that lie wholly before the cut (`cutFrames`), then `eof` when the
cut is at a frame boundary and `incomplete` otherwise — never a frame that was not written, never part
of one. -/
theorem frame_prefix_safe (fs : List Bytes) (hfs : ∀ f ∈ fs, f.length < tooBig) (k : Nat) :
    parseFrames ((encodeFrames fs).take k) = cutFrames fs k :=
  Vegeta.Proofs.GobFrame.frame_prefix_safe fs hfs k

/-- what `cutFrames` returns is a prefix of the written frames, these fit before the cut and the next
frame (if any) does not -/
theorem frame_prefix_exact (fs : List Bytes) (k : Nat) :
    ∃ m, m ≤ fs.length ∧ (cutFrames fs k).1 = fs.take m ∧ (encodeFrames (fs.take m)).length ≤ k ∧
      (∀ f, fs[m]? = some f → k < (encodeFrames (fs.take (m + 1))).length) := cutFrames_prefix fs k

/-- the uncut stream: all frames, then end-of-stream -/
theorem frames_complete_stream (fs : List Bytes) (hfs : ∀ f ∈ fs, f.length < tooBig) :
    parseFrames (encodeFrames fs) = (fs, .eof) := parseFrames_encodeFrames fs hfs

/-! ### gob at record level (value encoding modelled in Model/GobValue.lean) -/

section GobRecords
open Vegeta.Model.GobValue Vegeta.Proofs.Gob

/-- **gob_cut_prefix**: for every sequence of results of the gob domain, the stream (four type-definition
messages, then one value message per result) cut after ANY number of bytes `k` decodes to exactly the
results whose value message lies wholly before the cut — `cutFrames` counts the complete messages, the
first four carry no result — then io.EOF if the cut falls between two records (or at offset 0), else an
error (io.ErrUnexpectedEOF); never a result that was not written, never a partly filled one. -/
theorem gob_cut_prefix (z : Zone) (rs : List Result) (hz : ZoneOK z) (hrs : ∀ r ∈ rs, ReprGobResult z r) (k : Nat) :
    ∃ ps, valueFrames z rs = some ps ∧ ps.length = rs.length ∧
      decodeGob ((encodeFrames (preFrames ++ ps)).take k) =
        ((rs.map gobDecoded).take ((cutFrames (preFrames ++ ps) k).1.length - 4),
         gobTerm (cutFrames (preFrames ++ ps) k).1 (cutFrames (preFrames ++ ps) k).2 true) :=
  decodeGob_cut z rs hz hrs k

/-- each `Encode` call hands the writer whole messages: the type definitions (first call only) and the
value message of the result -/
theorem gob_encode_emits_whole_records (z : Zone) (first : Bool) (r : Result) (b : Bytes)
    (h : encodeGobCall z first r = some b) :
    ∃ p, valuePayload z r = some p ∧ b = (if first then preamble else []) ++ encodeFrame p := by
  unfold encodeGobCall at h
  cases hp : valuePayload z r with
  | none => simp [hp] at h
  | some p => simp [hp] at h; exact ⟨p, rfl, h.symm⟩

end GobRecords

/-! ### JSON: one line per record -/

/-- **json_record_single_newline**: whatever the result (any bytes in the texts, any numbers, any zone),
an encoded JSON record contains the byte 0x0A exactly once, as its last byte: every byte below 0x20 is
escaped by the writer, base64, RFC 3339 and digits contain none. -/
theorem json_record_single_newline (offMin : Int) (r : Result) (b : Bytes) (h : encodeJSON offMin r = some b) :
    ∃ body, b = body ++ [10] ∧ 10 ∉ body := encodeJSON_single_newline offMin r b h

/-- `ReadBytes('\n')` returns exactly the next line, and nothing when no newline is left -/
theorem json_decoder_consumes_whole_lines (l rest : Bytes) (hl : IsLine l) :
    splitLine (l ++ rest) = some (l, rest) ∧ ∀ s, 10 ∉ s → splitLine s = none :=
  ⟨splitLine_line l rest hl, splitLine_none⟩

theorem aux_forall₂_length {α β : Type} {R : α → β → Prop} {as : List α} {bs : List β}
    (h : Forall₂ R as bs) : as.length = bs.length := by
  induction h with
  | nil => rfl
  | cons _ _ ih => simp [ih]

theorem aux_lines (offMin : Int) (ho : offMin.natAbs < 1440) (rs : List Result)
    (hrs : ∀ r ∈ rs, ReprJSONResult r) :
    ∃ lines, encodeJSONAll offMin rs = some lines.flatten ∧
      Forall₂ (fun l r => IsLine l ∧ decodeJSONLine l = .ok r) lines rs := by
  induction rs with
  | nil => exact ⟨[], rfl, .nil⟩
  | cons r rs ih =>
    have hr := hrs r (by simp)
    obtain ⟨tb, h1, h2, h3⟩ := timeUnmarshal_timeMarshal r.timestamp offMin hr.num.ts0
      (by simpa [tsLimit] using hr.num.ts1) ho
    obtain ⟨b, hb, hd⟩ := decodeJSONLine_encodeJSON offMin r hr ⟨tb, h1, h2, h3⟩
    obtain ⟨ls, hls, hf⟩ := ih (fun x hx => hrs x (by simp [hx]))
    refine ⟨b :: ls, ?_, .cons ⟨encodeJSON_single_newline offMin r b hb, hd⟩ hf⟩
    simp [encodeJSONAll, hb, hls]

/-- **json_cut_prefix**: for every sequence of results of the JSON domain, the encoded stream is a
sequence of lines, one per result, and decoding the stream cut after ANY number of bytes `k` returns
exactly the results whose terminating newline precedes the cut (`linesBefore`), in order, then
end-of-stream (a torn last line makes `ReadBytes` return io.EOF with nothing decoded) — never a record
that was not written, never a partly filled one. -/
theorem json_cut_prefix (offMin : Int) (ho : offMin.natAbs < 1440) (rs : List Result)
    (hrs : ∀ r ∈ rs, ReprJSONResult r) :
    ∃ lines, encodeJSONAll offMin rs = some lines.flatten ∧ lines.length = rs.length ∧
      ∀ k, decodeJSON (lines.flatten.take k) = (rs.take (linesBefore lines k), .eof) ∧
        linesBefore lines k ≤ lines.length ∧ ((lines.take (linesBefore lines k)).flatten).length ≤ k ∧
        (∀ l, lines[linesBefore lines k]? = some l → k < ((lines.take (linesBefore lines k + 1)).flatten).length) := by
  obtain ⟨lines, hl, hf⟩ := aux_lines offMin ho rs hrs
  exact ⟨lines, hl, aux_forall₂_length hf, fun k => ⟨decodeJSON_cut lines rs hf k, linesBefore_spec lines k⟩⟩

/-! ### CSV: cuts at record boundaries -/

/-- **csv_boundary_prefix**: for every sequence of results of the CSV domain and every `m`, the bytes
of the first `m` records are a prefix of the stream, and decoding the stream cut there returns exactly
these `m` results (as the decoder returns them, `Equal` to the written ones), then end-of-stream. -/
theorem csv_boundary_prefix (rs : List Result) (hrs : ∀ r ∈ rs, ReprCSVResult r) (m : Nat) :
    decodeCSV ((encodeCSVAll rs).take (encodeCSVAll (rs.take m)).length) = ((rs.take m).map csvDecoded, .eof) ∧
      equalAll ((rs.take m).map csvDecoded) (rs.take m) = true := by
  have hsub : ∀ r ∈ rs.take m, ReprCSVResult r := fun r hr => hrs r (List.mem_of_mem_take hr)
  rw [encodeCSVAll_take rs m, decodeCSV_encodeCSVAll _ hsub]
  obtain ⟨out, h1, h2⟩ := csv_roundtrip_equal _ hsub
  rw [decodeCSV_encodeCSVAll _ hsub] at h1
  cases h1
  exact ⟨rfl, h2⟩

/-! ### One whole record per `Encode` call -/

/-- **encode_emits_whole_records (CSV)**: `Write` + `Flush` in every call — after the `k`-th `Encode`
call has returned, the bytes handed to the underlying writer are exactly the first `k` complete records
and nothing is held back in the buffer; so every point between calls is a record boundary. -/
theorem csv_encode_emits_whole_records (rs : List Result) (k : Nat) :
    ((rs.take k).foldl csvEncodeCall {}).out = encodeCSVAll (rs.take k) ∧
    ((rs.take k).foldl csvEncodeCall {}).buf = [] := csv_calls_whole_records (rs.take k)

/-- **encode_emits_whole_records (JSON)**: marshal, newline, `DumpTo` in every call -/
theorem json_encode_emits_whole_records (offMin : Int) (rs : List Result) (k : Nat) (b : Bytes)
    (h : encodeJSONAll offMin (rs.take k) = some b) :
    ((rs.take k).foldl (jsonEncodeCall offMin) {}).out = b ∧
    ((rs.take k).foldl (jsonEncodeCall offMin) {}).buf = [] := json_calls_whole_records offMin (rs.take k) b h

/-! ### Encoders called repeatedly, with failing calls in between (Model/EncodeCmd.lean) -/

section CallSequences
open Vegeta.Model.EncodeCmd Vegeta.Model.GobValue Vegeta.Proofs.EncodeCmd Vegeta.Proofs.Gob

/-- **each `Encode` call appends exactly one whole record, or nothing** — lifted to call SEQUENCES: after any
sequence of calls (results that can be encoded or not, the caller going on after errors) the writer holds
the records of the calls that returned nil, in call order (gob: after the type definitions, sent once by
the first call even if that call fails), and nothing else. -/
theorem encoder_calls_emit_whole_records (c : Codec) (args : List (Zone × Result)) :
    (encCalls c {} args).1 =
      (if c = .gob ∧ args ≠ [] then preamble else []) ++ (okCalls c {} args).flatMap (recordOf c) :=
  enc_calls_whole_records c args

/-- **which calls return nil**: CSV — all; JSON — exactly the calls before the first result that cannot be
marshalled: the unchanged JSON encoder STAYS FAILED (jwriter's sticky error), every later call returns the
error and writes nothing; gob — exactly the calls whose result can be encoded, a failure leaves no trace. -/
theorem encoder_calls_outcomes (args : List (Zone × Result)) :
    (encCalls .csv {} args).2 = args.map (fun _ => true) ∧
    (encCalls .json {} args).2 =
      (args.takeWhile (fun a => (encodeJSON (zoneMin a.1) a.2).isSome)).map (fun _ => true) ++
      (args.dropWhile (fun a => (encodeJSON (zoneMin a.1) a.2).isSome)).map (fun _ => false) ∧
    (encCalls .gob {} args).2 = args.map (fun a => (valuePayload a.1 a.2).isSome) :=
  ⟨enc_calls_ok_csv args, enc_calls_ok_json args, enc_calls_ok_gob args⟩

/-- … hence what is at the writer after ANY call sequence decodes to exactly the results of the successful
calls, then end-of-stream (gob: an unexpected end if calls were made but none succeeded — only type
definitions are there). This is the failing-encode oracle of the harness as a corollary. -/
theorem encoder_calls_decode (args : List (Zone × Result)) :
    ((∀ a ∈ args, ReprCSVResult a.2) →
      decodeCSV (encCalls .csv {} args).1 = (args.map (fun a => csvDecoded a.2), .eof)) ∧
    ((∀ a ∈ okCalls .json {} args, ReprJSONResult a.2 ∧ (zoneMin a.1).natAbs < 1440) →
      decodeJSON (encCalls .json {} args).1 = ((okCalls .json {} args).map (·.2), .eof)) ∧
    ((∀ a ∈ okCalls .gob {} args, ReprGobResult a.1 a.2 ∧ ZoneOK a.1) →
      decodeGob (encCalls .gob {} args).1 =
        ((okCalls .gob {} args).map (fun a => gobDecoded a.2),
         if args = [] ∨ okCalls .gob {} args ≠ [] then .eof else .err)) :=
  ⟨enc_calls_decode_csv args, enc_calls_decode_json args, enc_calls_decode_gob args⟩

/-! ### The `encode` command on truncated inputs -/

/-- **`vegeta encode` on a JSON input cut after ANY number of bytes**, any target encoding: the command
returns nil and what it wrote decodes to exactly the records whose line lies wholly before the cut. -/
theorem encode_cmd_cut_json (dst : Codec) (zs zd : Zone) (rs : List Result)
    (hs : ∀ r ∈ rs, ReprFor .json zs r) (hd : ∀ r ∈ rs, ReprFor dst zd r) (k : Nat) :
    ∃ lines, encodeJSONAll (zoneMin zs) rs = some lines.flatten ∧ lines.length = rs.length ∧
      (encodeCmd .json dst zd (lines.flatten.take k)).2 = true ∧
      decodeWith dst (encodeCmd .json dst zd (lines.flatten.take k)).1 =
        ((rs.take (linesBefore lines k)).map (decodedBy dst), .eof) :=
  encodeCmd_cut_json dst zs zd rs hs hd k

/-- **… on a gob input cut after ANY number of bytes**: whatever the command returns (the decoder's error when
the cut is inside a message), what it wrote decodes to exactly the records whose value message lies wholly
before the cut — every record decoded before the error has been encoded (decode one, encode one). -/
theorem encode_cmd_cut_gob (dst : Codec) (zs zd : Zone) (rs : List Result)
    (hs : ∀ r ∈ rs, ReprFor .gob zs r) (hd : ∀ r ∈ rs, ReprFor dst zd (gobDecoded r)) (k : Nat) :
    ∃ ps, valueFrames zs rs = some ps ∧ ps.length = rs.length ∧
      decodeWith dst (encodeCmd .gob dst zd ((encodeFrames (preFrames ++ ps)).take k)).1 =
        ((rs.take ((cutFrames (preFrames ++ ps) k).1.length - 4)).map (decodedBy dst ∘ gobDecoded), .eof) ∧
      (encodeCmd .gob dst zd ((encodeFrames (preFrames ++ ps)).take k)).2 =
        (gobTerm (cutFrames (preFrames ++ ps) k).1 (cutFrames (preFrames ++ ps) k).2 true == .eof) :=
  encodeCmd_cut_gob dst zs zd rs hs hd k

/-- **… on a CSV input cut at any record boundary** -/
theorem encode_cmd_cut_csv (dst : Codec) (zd : Zone) (rs : List Result)
    (hs : ∀ r ∈ rs, ReprCSVResult r) (hd : ∀ r ∈ rs, ReprFor dst zd (csvDecoded r)) (m : Nat) :
    (encodeCmd .csv dst zd ((encodeCSVAll rs).take (encodeCSVAll (rs.take m)).length)).2 = true ∧
    decodeWith dst (encodeCmd .csv dst zd ((encodeCSVAll rs).take (encodeCSVAll (rs.take m)).length)).1 =
      ((rs.take m).map (decodedBy dst ∘ csvDecoded), .eof) :=
  encodeCmd_cut_csv dst zd rs hs hd m

/-! non-vacuity -/
example : (encCalls .json {} [(.utc, exGood), (.utc, exLate), (.utc, exGood)]).2 = [true, false, false] ∧
    (encCalls .gob {} [(.utc, exGood), (.fixed (-60), exGood), (.utc, exGood)]).2 = [true, false, true] := by decide
example : ∃ ps, valueFrames .utc [cmdExample] = some ps ∧ ps.length = 1 ∧
    decodeWith .csv (encodeCmd .gob .csv .utc ((encodeFrames (preFrames ++ ps)).take 300)).1 =
      (([cmdExample].take ((cutFrames (preFrames ++ ps) 300).1.length - 4)).map (decodedBy .csv ∘ gobDecoded), .eof) ∧ True := by
  obtain ⟨ps, h1, h2, h3, _⟩ := encode_cmd_cut_gob .csv .utc .utc [cmdExample]
    (by intro r hr; simp at hr; subst hr; exact ⟨cmdExample_gob, trivial⟩)
    (by intro r hr; simp at hr; subst hr; exact cmdExample_csv) 300
  exact ⟨ps, h1, by simpa using h2, h3, trivial⟩

end CallSequences

/-! ### regenerated facts: how records reach the writer -/

/-- the CSV encoder closure calls `Write` and then `Flush`; the JSON encoder marshals, appends '\n' and
dumps its buffer to the writer in every call; the JSON decoder takes its input from
`ReadBytes('\n')` and returns a read error before decoding anything; the attack command encodes each
result as it arrives, straight to the (unbuffered) output file -/
theorem facts_records_reach_writer_whole :
    Vegeta.Extracted.csvEncoderWritesThenFlushes = true ∧ Vegeta.Extracted.jsonEncoderDumpsPerRecord = true ∧
    Vegeta.Extracted.jsonDecoderReadsWholeLines = true ∧ Vegeta.Extracted.attackEncodesEachResult = true ∧
    Vegeta.Extracted.attackOutputUnbuffered = true := by decide

/-! ### non-vacuity -/

example : parseFrames ((encodeFrames [[1, 2, 3], [], [9]]).take 6) = ([[1, 2, 3], []], .incomplete) := by decide
example : cutFrames [[1, 2, 3], [], [9]] 5 = ([[1, 2, 3], []], .eof) := by decide
example : ReprJSONResult jsonExampleResult := jsonExampleResult_repr
example : ReprCSVResult exampleResult := exampleResult_repr
example : ([1, 2, 3] : Bytes).length < tooBig := by decide

end Vegeta.Props.C09
