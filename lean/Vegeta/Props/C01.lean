/-
C01 — Pacers keep the hit count on their declared schedule in closed loop.

Constant pacer: theorems over ALL integer parameter values (within the Go types' ranges where a
range matters), all elapsed times / hit counts, all stall histories of unbounded length.
Sine / linear pacers: the decision structure of the code for ANY float operations.
Where the unchanged code violates a clause the full statement is kept in a comment, its negation is
proved on a concrete witness (`…_counterexample`) and the part that does hold is `…_partial`.
-/
import Vegeta.Model.Pacer
import Mathlib.Tactic.Linarith
import Mathlib.Tactic.Ring
namespace Vegeta.Props.C01
open Vegeta.Go Vegeta.Model.Pacer

/-! ## Notation of the statement -/

/-- The code's own catch-up test `hits < expectedHits` (with Go's wrap-around). -/
abbrev Behind (freq per elapsed : Int) (hits : Nat) : Prop :=
  (hits : Int) < wrapU64 (wrapU64 freq * wrapU64 (wrapS64 (elapsed.tdiv per)))

/-- Parameters and arguments lie in the ranges of their Go types
(`Freq int`, `Per time.Duration`, `elapsed time.Duration ≥ 0`, `hits uint64`). -/
structure InRange (freq per elapsed : Int) (hits : Nat) : Prop where
  freq : inS64 freq
  per : inS64 per
  elapsed : 0 ≤ elapsed ∧ elapsed ≤ maxInt64
  hits : (hits : Int) < (two64 : Int)

/-! ## Helper lemmas -/

theorem aux_wrapS64_mod (x : Int) : wrapS64 x % (two64 : Int) = x % (two64 : Int) := by
  unfold wrapS64 two64 two63; simp only []; split <;> omega

theorem aux_wrapS64_congr {a b : Int} (h : a % (two64 : Int) = b % (two64 : Int)) :
    wrapS64 a = wrapS64 b := by
  unfold wrapS64; simp only [h]

/-- The chain of wrapping conversions at the end of `Pace` is one reduction of the mathematical
value `(hits+1)·interval − elapsed` into `int64`. -/
theorem aux_delta (h i e : Int) :
    wrapS64 (wrapS64 (wrapU64 (wrapU64 (h + 1) * i)) - e) = wrapS64 ((h + 1) * i - e) := by
  apply aux_wrapS64_congr
  rw [Int.sub_emod, aux_wrapS64_mod]
  unfold wrapU64
  rw [Int.emod_emod, Int.mul_emod, Int.emod_emod, ← Int.mul_emod, ← Int.sub_emod]

theorem aux_div_bounds {a b : Int} (ha : 0 ≤ a) (hb : 0 < b) :
    0 ≤ a / b ∧ a / b ≤ a ∧ a / b * b ≤ a ∧ a < (a / b + 1) * b :=
  ⟨Int.ediv_nonneg ha (Int.le_of_lt hb), Int.ediv_le_self b ha,
   Int.ediv_mul_le a (Int.ne_of_gt hb), Int.lt_ediv_add_one_mul_self a hb⟩

theorem aux_div_pos {a b : Int} (hb : 0 < b) (hab : b ≤ a) : 1 ≤ a / b :=
  Int.le_ediv_of_mul_le hb (by omega)

/-- Normal form of `constPace` for positive in-range parameters. -/
theorem aux_constPace_pos {freq per elapsed : Int} {hits : Nat}
    (hf : 0 < freq) (hp : 0 < per) (hp' : per ≤ maxInt64) :
    constPace freq per elapsed hits =
      if Behind freq per elapsed hits then .wait 0
      else if per / freq = 0 then .panic
      else if maxInt64 / (per / freq) < (hits : Int) then .stop
      else .wait (wrapS64 (((hits : Int) + 1) * (per / freq) - elapsed)) := by
  have hb := aux_div_bounds (Int.le_of_lt hp) hf
  have hq : wrapU64 (wrapS64 (per.tdiv freq)) = per / freq := by
    rw [Int.tdiv_eq_ediv_of_nonneg (Int.le_of_lt hp)]
    have h1 : wrapS64 (per / freq) = per / freq :=
      wrapS64_id (by unfold inS64 minInt64; unfold maxInt64 at *; omega)
    rw [h1]
    exact wrapU64_id (by unfold inU64 two64; unfold maxInt64 at *; omega)
  unfold constPace constExpected constInterval sdiv udiv
  rw [if_neg (by omega), if_neg (by omega), if_neg (by omega)]
  simp only []
  split
  · rfl
  · rw [if_neg (by omega)]
    simp only [hq]
    by_cases h0 : per / freq = 0
    · simp only [if_pos h0]
    · simp only [if_neg h0]
      have hnn : (0 : Int) ≤ maxInt64 := by unfold maxInt64; omega
      rw [Int.tdiv_eq_ediv_of_nonneg hnn]
      split
      · rfl
      · rw [aux_delta]

/-! ## Sign and zero cases -/

/-- "negative frequency/unit stops the attack" — for all elapsed times and hit counts
(a zero field takes precedence, see `const_zero_unlimited`). -/
theorem const_neg_stops (freq per elapsed : Int) (hits : Nat)
    (hf : freq ≠ 0) (hp : per ≠ 0) (hneg : freq < 0 ∨ per < 0) :
    constPace freq per elapsed hits = .stop := by
  unfold constPace
  rw [if_neg (by omega), if_pos (by omega)]

example : constPace (-1) 1000000000 1000000000 0 = .stop := by decide

/-- "a zero one means unlimited rate": the pacer never asks to wait and never stops. -/
theorem const_zero_unlimited (freq per elapsed : Int) (hits : Nat) (hz : freq = 0 ∨ per = 0) :
    constPace freq per elapsed hits = .wait 0 := by
  unfold constPace
  rw [if_pos (by omega)]

example : constPace 0 (-5) 17 3 = .wait 0 := by decide

/-! ## No panic -/

/-
FULL STATEMENT (false for the unchanged code):
  theorem const_never_panics (freq per elapsed : Int) (hits : Nat) :
      constPace freq per elapsed hits ≠ .panic
`ConstantPacer{Freq: 2, Per: 1ns}.Pace(0, 0)`: interval = 1/2 = 0, `math.MaxInt64/interval` panics.
-/
theorem const_never_panics_counterexample : constPace 2 1 0 0 = .panic := by decide

/-- No panic for any elapsed time and hit count whenever the rate is at most one hit per
nanosecond of the unit (`Freq ≤ Per`) or a field is not positive. -/
theorem const_never_panics_partial (freq per elapsed : Int) (hits : Nat)
    (hp : per ≤ maxInt64) (h : freq ≤ per ∨ freq ≤ 0 ∨ per ≤ 0) :
    constPace freq per elapsed hits ≠ .panic := by
  by_cases hz : freq = 0 ∨ per = 0
  · rw [const_zero_unlimited _ _ _ _ hz]; exact PaceOut.noConfusion
  · by_cases hn : freq < 0 ∨ per < 0
    · rw [const_neg_stops _ _ _ _ (by omega) (by omega) hn]; exact PaceOut.noConfusion
    · have hf0 : 0 < freq := by omega
      have hp0 : 0 < per := by omega
      have hle : freq ≤ per := by omega
      rw [aux_constPace_pos hf0 hp0 hp]
      have := aux_div_pos hf0 hle
      split
      · exact PaceOut.noConfusion
      · rw [if_neg (by omega)]
        split <;> exact PaceOut.noConfusion

example : (30000 : Int) ≤ 1000000000 ∨ (30000 : Int) ≤ 0 ∨ (1000000000 : Int) ≤ 0 := by omega

/-- Exactly when the unchanged code panics (positive in-range parameters): more than one hit per
nanosecond of the unit, as soon as the attacker is not behind by the code's own test. -/
theorem const_panic_iff (freq per elapsed : Int) (hits : Nat)
    (hf : 0 < freq) (hp : 0 < per) (hp' : per ≤ maxInt64) :
    constPace freq per elapsed hits = .panic ↔ per < freq ∧ ¬ Behind freq per elapsed hits := by
  rw [aux_constPace_pos hf hp hp']
  have hb := aux_div_bounds (Int.le_of_lt hp) hf
  constructor
  · intro h
    split at h
    · exact absurd h PaceOut.noConfusion
    · rename_i hnb
      split at h
      · rename_i h0
        refine ⟨?_, hnb⟩
        rw [h0] at hb
        omega
      · split at h <;> exact absurd h PaceOut.noConfusion
  · rintro ⟨hlt, hnb⟩
    rw [if_neg hnb, if_pos]
    have : per / freq < 1 := Int.ediv_lt_of_lt_mul hf (by omega)
    omega

example : constPace 446 1 5 72296151 = .panic := by decide

/-! ## Overflow: stop instead of wrapping -/

/-- The code's catch-up test without wrap-around, for rates of at most one hit per nanosecond. -/
theorem aux_behind_iff {freq per elapsed : Int} {hits : Nat}
    (hf : 0 < freq) (hfp : freq ≤ per) (hp' : per ≤ maxInt64)
    (he : 0 ≤ elapsed ∧ elapsed ≤ maxInt64) :
    Behind freq per elapsed hits ↔ (hits : Int) < freq * (elapsed / per) := by
  have hp : 0 < per := by omega
  have hb := aux_div_bounds he.1 hp
  have hmul : freq * (elapsed / per) ≤ elapsed / per * per := by
    rw [Int.mul_comm freq]; exact Int.mul_le_mul_of_nonneg_left hfp hb.1
  have hnn : 0 ≤ freq * (elapsed / per) := Int.mul_nonneg (Int.le_of_lt hf) hb.1
  have h1 : wrapS64 (elapsed.tdiv per) = elapsed / per := by
    rw [Int.tdiv_eq_ediv_of_nonneg he.1]
    exact wrapS64_id (by unfold inS64 minInt64; unfold maxInt64 at *; omega)
  have h2 : wrapU64 (elapsed / per) = elapsed / per :=
    wrapU64_id (by unfold inU64 two64; unfold maxInt64 at *; omega)
  have h3 : wrapU64 freq = freq :=
    wrapU64_id (by unfold inU64 two64; unfold maxInt64 at *; omega)
  have h4 : wrapU64 (freq * (elapsed / per)) = freq * (elapsed / per) :=
    wrapU64_id (by unfold inU64 two64; unfold maxInt64 at *; omega)
  unfold Behind
  rw [h1, h2, h3, h4]

/-- The returned wait is always the mathematical value `(hits+1)·interval − elapsed` reduced into
`int64` (or the catch-up answer 0). -/
theorem const_wait_value (freq per elapsed : Int) (hits : Nat) (d : Int)
    (hf : 0 < freq) (hp : 0 < per) (hp' : per ≤ maxInt64)
    (h : constPace freq per elapsed hits = .wait d) :
    (Behind freq per elapsed hits ∧ d = 0) ∨
    (¬ Behind freq per elapsed hits ∧ d = wrapS64 (((hits : Int) + 1) * (per / freq) - elapsed)) := by
  rw [aux_constPace_pos hf hp hp'] at h
  split at h
  · rename_i hb; left; exact ⟨hb, by injection h with h; omega⟩
  · rename_i hb
    split at h
    · exact absurd h PaceOut.noConfusion
    · split at h
      · exact absurd h PaceOut.noConfusion
      · right; exact ⟨hb, by injection h with h; omega⟩

/-- The overflow guard as it is: the attack is stopped iff `hits·interval > MaxInt64`
(positive in-range parameters with `Freq ≤ Per`, attacker not behind). -/
theorem const_stop_iff (freq per elapsed : Int) (hits : Nat)
    (hf : 0 < freq) (hfp : freq ≤ per) (hp' : per ≤ maxInt64) :
    constPace freq per elapsed hits = .stop ↔
      ¬ Behind freq per elapsed hits ∧ maxInt64 < (hits : Int) * (per / freq) := by
  have hp : 0 < per := by omega
  have hi := aux_div_pos hf hfp
  rw [aux_constPace_pos hf hp hp']
  have hiff := @Int.ediv_lt_iff_lt_mul maxInt64 (hits : Int) (per / freq) (by omega)
  constructor
  · intro h
    split at h
    · exact absurd h PaceOut.noConfusion
    · rename_i hb
      rw [if_neg (by omega)] at h
      split at h
      · rename_i hg; exact ⟨hb, hiff.1 hg⟩
      · exact absurd h PaceOut.noConfusion
  · rintro ⟨hb, hg⟩
    rw [if_neg hb, if_neg (by omega), if_pos (hiff.2 hg)]

/-
FULL STATEMENT (false for the unchanged code): "arithmetic overflow stops the attack instead of wrapping"
  theorem const_no_wrap (freq per elapsed : Int) (hits : Nat) (hr : InRange freq per elapsed hits)
      (hf : 0 < freq) (hfp : freq ≤ per) :
      (∀ d, constPace freq per elapsed hits = .wait d →
          (Behind freq per elapsed hits ∧ d = 0) ∨ d = (hits + 1) * (per / freq) - elapsed) ∧
      (¬ Behind freq per elapsed hits → maxInt64 < (hits + 1) * (per / freq) →
          constPace freq per elapsed hits = .stop)
The guard `MaxInt64/interval < hits` is off by one: at `hits = ⌊MaxInt64/interval⌋` the product
`(hits+1)·interval` already exceeds MaxInt64, the code returns the wrapped value and goes on.
-/
theorem const_no_wrap_counterexample :
    ∃ d, constPace 1 922337203685477580 0 10 = .wait d ∧
      d ≠ ((10 : Nat) + 1 : Int) * (922337203685477580 / 1) - 0 ∧ d < 0 ∧
      maxInt64 < ((10 : Nat) + 1 : Int) * (922337203685477580 / 1) :=
  ⟨-8301034833169298236, by decide⟩

/-- What does hold: (1) a returned wait is the unwrapped mathematical value whenever that value
fits `int64`; (2) the attack is stopped whenever `hits·interval` exceeds MaxInt64.  The gap to the
full statement is exactly `MaxInt64 − interval < hits·interval ≤ MaxInt64`. -/
theorem const_no_wrap_partial (freq per elapsed : Int) (hits : Nat)
    (hf : 0 < freq) (hfp : freq ≤ per) (hp' : per ≤ maxInt64) :
    (∀ d, inS64 (((hits : Int) + 1) * (per / freq) - elapsed) →
        constPace freq per elapsed hits = .wait d →
        (Behind freq per elapsed hits ∧ d = 0) ∨ d = ((hits : Int) + 1) * (per / freq) - elapsed) ∧
    (¬ Behind freq per elapsed hits → maxInt64 < (hits : Int) * (per / freq) →
        constPace freq per elapsed hits = .stop) := by
  have hp : 0 < per := by omega
  constructor
  · intro d hin h
    rcases const_wait_value freq per elapsed hits d hf hp hp' h with h1 | h1
    · left; exact h1
    · right; rw [h1.2, wrapS64_id hin]
  · intro hb hg
    exact (const_stop_iff freq per elapsed hits hf hfp hp').2 ⟨hb, hg⟩

example : inS64 ((((2 : Nat) : Int) + 1) * (1000000000 / 1) - 1000000000) := by decide
example : constPace 1 1000000000 1000000000 2 = .wait 2000000000 := by decide
example : constPace 1 3600000000000 9223372036854775807 2562048 = .stop := by decide

/-! ## Positive wait only on or ahead of schedule; never more than one hit behind -/

/-- Core of the two schedule clauses: a positive wait is the exact distance to the deadline
`(hits+1)·interval`, for ALL parameter values of the Go types. -/
theorem aux_positive_wait (freq per elapsed : Int) (hits : Nat) (d : Int)
    (hr : InRange freq per elapsed hits)
    (h : constPace freq per elapsed hits = .wait d) (hd : 0 < d) :
    0 < freq ∧ freq ≤ per ∧ ¬ Behind freq per elapsed hits ∧
      elapsed + d = ((hits : Int) + 1) * (per / freq) := by
  obtain ⟨hfr, hpr, he, _⟩ := hr
  unfold inS64 at hfr hpr
  by_cases hz : freq = 0 ∨ per = 0
  · rw [const_zero_unlimited _ _ _ _ hz] at h; injection h with h; omega
  · by_cases hn : freq < 0 ∨ per < 0
    · rw [const_neg_stops _ _ _ _ (by omega) (by omega) hn] at h; exact absurd h PaceOut.noConfusion
    · have hf : 0 < freq := by omega
      have hp : 0 < per := by omega
      have hb := aux_div_bounds (Int.le_of_lt hp) hf
      rw [aux_constPace_pos hf hp hpr.2] at h
      split at h
      · injection h with h; omega
      · rename_i hnb
        split at h
        · exact absurd h PaceOut.noConfusion
        · rename_i h0
          split at h
          · exact absurd h PaceOut.noConfusion
          · rename_i hg
            have hi : 0 < per / freq := by omega
            have hfp : freq ≤ per := by
              by_cases hlt : per < freq
              · have : per / freq < 1 := Int.ediv_lt_of_lt_mul hf (by omega)
                omega
              · omega
            have hle : (hits : Int) ≤ maxInt64 / (per / freq) := by omega
            have hmul : (hits : Int) * (per / freq) ≤ maxInt64 := (Int.le_ediv_iff_mul_le hi).1 hle
            have hnn : 0 ≤ (hits : Int) * (per / freq) :=
              Int.mul_nonneg (Int.natCast_nonneg _) hb.1
            have hM : ((hits : Int) + 1) * (per / freq) - elapsed
                = (hits : Int) * (per / freq) + per / freq - elapsed := by ring
            injection h with h
            rw [hM] at h
            have hM2 : ((hits : Int) + 1) * (per / freq)
                = (hits : Int) * (per / freq) + per / freq := by ring
            refine ⟨hf, hfp, hnb, ?_⟩
            rw [hM2]
            generalize (hits : Int) * (per / freq) = x at *
            generalize per / freq = i at *
            unfold wrapS64 two64 two63 at h
            simp only [] at h
            unfold maxInt64 at *
            split at h <;> omega

/-- "the pacer asks for a positive wait only when the count is already on or ahead of that
schedule": a positive wait implies `hits` is not below the code's own expected count, and
`hits + 1 > S(elapsed) = Freq·elapsed/Per`, i.e. `hits ≥ ⌊S(elapsed)⌋` — for all parameter values. -/
theorem const_positive_wait_on_schedule (freq per elapsed : Int) (hits : Nat) (d : Int)
    (hr : InRange freq per elapsed hits)
    (h : constPace freq per elapsed hits = .wait d) (hd : 0 < d) :
    ¬ Behind freq per elapsed hits ∧ freq * elapsed < ((hits : Int) + 1) * per := by
  obtain ⟨hf, hfp, hnb, heq⟩ := aux_positive_wait freq per elapsed hits d hr h hd
  refine ⟨hnb, ?_⟩
  have hp : 0 < per := by omega
  have hb := aux_div_bounds (Int.le_of_lt hp) hf
  have h1 : freq * elapsed < freq * (((hits : Int) + 1) * (per / freq)) :=
    Int.mul_lt_mul_of_pos_left (by omega) hf
  have h2 : ((hits : Int) + 1) * (per / freq * freq) ≤ ((hits : Int) + 1) * per :=
    Int.mul_le_mul_of_nonneg_left hb.2.2.1 (by omega)
  have h3 : freq * (((hits : Int) + 1) * (per / freq)) = ((hits : Int) + 1) * (per / freq * freq) := by
    ring
  omega

/-- "the count never falls more than one hit behind the schedule at the instants hits are
released": at the release instant the pacer prescribes (`elapsed + d`), the schedule has not passed
the new count: `S(elapsed + d) ≤ hits + 1` (today's truncated interval errs on the early side only). -/
theorem const_lower (freq per elapsed : Int) (hits : Nat) (d : Int)
    (hr : InRange freq per elapsed hits)
    (h : constPace freq per elapsed hits = .wait d) (hd : 0 < d) :
    freq * (elapsed + d) ≤ ((hits : Int) + 1) * per := by
  obtain ⟨hf, hfp, _, heq⟩ := aux_positive_wait freq per elapsed hits d hr h hd
  have hp : 0 < per := by omega
  have hb := aux_div_bounds (Int.le_of_lt hp) hf
  have h2 : ((hits : Int) + 1) * (per / freq * freq) ≤ ((hits : Int) + 1) * per :=
    Int.mul_le_mul_of_nonneg_left hb.2.2.1 (by omega)
  have h3 : freq * (elapsed + d) = ((hits : Int) + 1) * (per / freq * freq) := by
    rw [heq]; ring
  omega

example : InRange 2 1000000000 4900000000 9 := by
  refine ⟨?_, ?_, ?_, ?_⟩ <;> decide
example : constPace 2 1000000000 4900000000 9 = .wait 100000000 := by decide

/-! ## The closed loop: count against schedule along every trajectory -/

/-- Invariants of the pacer's answers lift to every state of every closed-loop run, for any
pacer, any stall history, any length. -/
theorem closedLoop_invariant (p : Int → Nat → PaceOut) (Inv : Int → Nat → Prop)
    (hstep : ∀ (t : Int) (n : Nat) (d : Int) (s : Nat), Inv t n → p t n = .wait d →
      t + max d 0 + (s : Int) ≤ maxInt64 → Inv (t + max d 0 + (s : Int)) (n + 1)) :
    ∀ (stalls : List Nat) (t : Int) (n : Nat), Inv t n →
      ∀ x ∈ closedLoop p stalls t n, Inv x.1 x.2 := by
  intro stalls
  induction stalls with
  | nil => intro t n _ x hx; simp [closedLoop] at hx
  | cons s rest ih =>
    intro t n hinv x hx
    unfold closedLoop at hx
    split at hx
    · rename_i d hw
      simp only [] at hx
      split at hx
      · rename_i hle
        have hnext := hstep t n d s hinv hw hle
        rcases List.mem_cons.1 hx with h | h
        · rw [h]; exact hnext
        · exact ih _ _ hnext x h
      · simp at hx
    · simp at hx
    · simp at hx

/-- Generic form of the upper clause: if every answer of a pacer releases the next hit no earlier
than a monotone schedule `S` reaches it (`n + 1 ≤ S (t + max d 0) + 1`), the count never exceeds the
schedule by more than one hit along any closed loop with any stall history. -/
theorem closedLoop_upper_of_contract (p : Int → Nat → PaceOut) (S : Int → Int)
    (hmono : ∀ a b : Int, a ≤ b → S a ≤ S b)
    (hcontract : ∀ (t : Int) (n : Nat) (d : Int), (n : Int) ≤ S t + 1 → p t n = .wait d →
      ((n + 1 : Nat) : Int) ≤ S (t + max d 0) + 1)
    (stalls : List Nat) (t0 : Int) (n0 : Nat) (h0 : (n0 : Int) ≤ S t0 + 1) :
    ∀ x ∈ closedLoop p stalls t0 n0, (x.2 : Int) ≤ S x.1 + 1 := by
  apply closedLoop_invariant p (fun t n => (n : Int) ≤ S t + 1) _ stalls t0 n0 h0
  intro t n d s hinv hw _
  have h1 := hcontract t n d hinv hw
  have h2 := hmono (t + max d 0) (t + max d 0 + (s : Int)) (by omega)
  omega

/-
FULL STATEMENT (false for the unchanged code): "the number of hits issued by any elapsed time t
never exceeds the pacer's declared cumulative schedule by more than one hit"
  theorem const_upper (freq per : Int) (hf : 0 < freq) (hfp : freq ≤ per) (hp : per ≤ maxInt64)
      (stalls : List Nat) :
      ∀ x ∈ closedLoop (constPace freq per) stalls 0 0, (x.2 : Int) * per ≤ freq * x.1 + per
With `interval = ⌊Per/Freq⌋` the pacer runs at `1/interval > Freq/Per` whenever `Freq ∤ Per`, and
the excess grows without bound: 3 hits per 10ns, no stalls, 11 hits at t = 33ns, S(33) = 9.9.
-/
theorem const_upper_counterexample :
    ∃ stalls, ∃ x ∈ closedLoop (constPace 3 10) stalls 0 0,
      ¬ ((x.2 : Int) * 10 ≤ 3 * x.1 + 10) :=
  ⟨List.replicate 11 0, (33, 11), by decide, by decide⟩

/-- What does hold, for every rate of at most one hit per nanosecond, every stall history and
every length: the count never exceeds the EFFECTIVE schedule `t / ⌊Per/Freq⌋` (not even by one). -/
theorem const_upper_partial (freq per : Int) (hf : 0 < freq) (hfp : freq ≤ per)
    (hp' : per ≤ maxInt64) (stalls : List Nat) :
    ∀ x ∈ closedLoop (constPace freq per) stalls 0 0, (x.2 : Int) * (per / freq) ≤ x.1 := by
  have hp : 0 < per := by omega
  have hb := aux_div_bounds (Int.le_of_lt hp) hf
  have hi := aux_div_pos hf hfp
  have key := closedLoop_invariant (constPace freq per)
    (fun t n => 0 ≤ t ∧ t ≤ maxInt64 ∧ (n : Int) * (per / freq) ≤ t) ?_ stalls 0 0
    ⟨by omega, by unfold maxInt64; omega, by simp⟩
  · intro x hx; exact (key x hx).2.2
  · intro t n d s ⟨ht0, ht1, hinv⟩ hw hle
    have hcast : ((n + 1 : Nat) : Int) = (n : Int) + 1 := by push_cast; ring
    refine ⟨by omega, hle, ?_⟩
    rw [hcast]
    rcases const_wait_value freq per t n d hf hp hp' hw with ⟨hbeh, hd⟩ | ⟨hnb, hd⟩
    · -- catching up: n < freq·⌊t/per⌋, hence (n+1)·interval ≤ t
      rw [aux_behind_iff hf hfp hp' ⟨ht0, ht1⟩] at hbeh
      have hq := aux_div_bounds ht0 hp
      have h1 : ((n : Int) + 1) * (per / freq) ≤ freq * (t / per) * (per / freq) :=
        Int.mul_le_mul_of_nonneg_right (by omega) hb.1
      have h2 : t / per * (per / freq * freq) ≤ t / per * per :=
        Int.mul_le_mul_of_nonneg_left hb.2.2.1 hq.1
      have h3 : freq * (t / per) * (per / freq) = t / per * (per / freq * freq) := by ring
      omega
    · -- on schedule: the deadline (n+1)·interval, no wrap because n·interval ≤ t
      have hM : ((n : Int) + 1) * (per / freq) - t = (n : Int) * (per / freq) + per / freq - t := by
        ring
      have hM2 : ((n : Int) + 1) * (per / freq) = (n : Int) * (per / freq) + per / freq := by ring
      have hnn : 0 ≤ (n : Int) * (per / freq) := Int.mul_nonneg (Int.natCast_nonneg _) hb.1
      rw [hM] at hd
      rw [hM2]
      generalize (n : Int) * (per / freq) = x at *
      generalize per / freq = i at *
      unfold wrapS64 two64 two63 at hd
      simp only [] at hd
      unfold maxInt64 at *
      split at hd <;> omega

/-- Consequently the statement's upper clause holds for the true schedule `S(t) = Freq·t/Per`
whenever `Freq` divides `Per` (e.g. every rate `n/1s` with `n | 10^9`): `n_k ≤ S(t_k)`. -/
theorem const_upper_of_dvd (freq per : Int) (hf : 0 < freq) (hdvd : freq ∣ per) (hp0 : 0 < per)
    (hp' : per ≤ maxInt64) (stalls : List Nat) :
    ∀ x ∈ closedLoop (constPace freq per) stalls 0 0, (x.2 : Int) * per ≤ freq * x.1 + per := by
  have hfp : freq ≤ per := Int.le_of_dvd hp0 hdvd
  intro x hx
  have h := const_upper_partial freq per hf hfp hp' stalls x hx
  have hmul : freq * (per / freq) = per := Int.mul_ediv_cancel' hdvd
  have h1 : (x.2 : Int) * (per / freq) * freq ≤ x.1 * freq :=
    Int.mul_le_mul_of_nonneg_right h (Int.le_of_lt hf)
  have h2 : (x.2 : Int) * (per / freq) * freq = (x.2 : Int) * (freq * (per / freq)) := by ring
  rw [h2, hmul] at h1
  have h3 : x.1 * freq = freq * x.1 := by ring
  omega

example : ∃ x ∈ closedLoop (constPace 2 10) [0, 7, 0] 0 0, x = ((17 : Int), (3 : Nat)) := by decide

/-- Along every closed loop no call panics when `Freq ≤ Per` (end reason 2 = panic). -/
theorem const_loop_never_panics_partial (freq per : Int) (hp' : per ≤ maxInt64)
    (h : freq ≤ per ∨ freq ≤ 0 ∨ per ≤ 0) (stalls : List Nat) :
    ∀ (t : Int) (n : Nat), closedLoopEnd (constPace freq per) stalls t n ≠ 2 := by
  induction stalls with
  | nil => intro t n; simp [closedLoopEnd]
  | cons s rest ih =>
    intro t n
    unfold closedLoopEnd
    have hnp := const_never_panics_partial freq per t n hp' h
    split
    · simp only []
      split
      · exact ih _ _
      · omega
    · omega
    · rename_i hpanic; exact absurd hpanic hnp

/-! ## Sine and linear pacers: decision structure, for ANY float operations -/

section floats
variable {F : Type} (o : FloatOps F)

/-- An invalid configuration (`Period ≤ 0`, mean rate `≤ 0`, amplitude `≥` mean) stops the attack. -/
theorem sine_invalid_stops (p : SineP F) (t : Int) (n : Nat) (h : sineInvalid o p = true) :
    sinePace o p t n = .stop := by
  unfold sinePace sinePaceX
  rw [if_pos h]

/-- `SinePacer.Pace` has no partial operation on any path (float division, the float→integer
conversions and the wrapping additions are total), whatever the float operations do. -/
theorem sine_never_panics (p : SineP F) (t : Int) (n : Nat) : sinePace o p t n ≠ .panic := by
  unfold sinePace sinePaceX
  split
  · exact PaceOut.noConfusion
  · split <;> exact PaceOut.noConfusion

/-- A positive wait is returned only when the count has reached the schedule as computed:
`hits ≥ uint64(H(t))`, and the configuration is valid. -/
theorem sine_positive_wait_on_schedule (p : SineP F) (t : Int) (n : Nat) (d : Int)
    (h : sinePace o p t n = .wait d) (hd : 0 < d) :
    sineInvalid o p = false ∧ o.toUInt64 (sineHits o p t) ≤ (n : Int) := by
  unfold sinePace sinePaceX at h
  split at h
  · exact absurd h PaceOut.noConfusion
  · rename_i hv
    split at h
    · injection h with h; omega
    · rename_i hb
      exact ⟨by simpa using hv, by omega⟩

theorem aux_sineIter_converged (p : SineP F) (t : Int) (n : Nat) :
    ∀ (k : Nat) (g : Int), (sineIter o p t n k g).2 = true →
      o.lt (o.abs (o.sub (o.ofUInt64 (wrapU64 ((n : Int) + 1)))
        (sineHits o p (wrapS64 (t + (sineIter o p t n k g).1))))) o.em3 = true := by
  intro k
  induction k with
  | zero => intro g h; simp [sineIter] at h
  | succ k ih =>
    intro g h
    unfold sineIter at h ⊢
    simp only [] at h ⊢
    split
    · rename_i hc; simpa using hc
    · rename_i hc
      rw [if_neg hc] at h
      exact ih _ h

/-- A return from inside the inversion loop is a converged one: the schedule at the prescribed
release instant is within 1e-3 hits of the new count, `|hits + 1 − H(t + wait)| < 1e-3`
(as computed).  The exit after the fifth iteration carries no such guarantee — that is where the
unchanged code runs away when the amplitude approaches the mean. -/
theorem sine_converged_exit (p : SineP F) (t : Int) (n : Nat) (w : Int)
    (h : sinePaceX o p t n = (.wait w, .converged)) :
    o.lt (o.abs (o.sub (o.ofUInt64 (wrapU64 ((n : Int) + 1)))
      (sineHits o p (wrapS64 (t + w))))) o.em3 = true := by
  unfold sinePaceX at h
  split at h
  · simp at h
  · split at h
    · simp at h
    · simp only [Prod.mk.injEq, PaceOut.wait.injEq] at h
      obtain ⟨hw, hx⟩ := h
      have hconv : (sineIter o p t n 5 (sineFirstGuess o p t n)).2 = true := by
        by_cases hc : (sineIter o p t n 5 (sineFirstGuess o p t n)).2 = true
        · exact hc
        · rw [if_neg hc] at hx; exact absurd hx (by decide)
      rw [← hw]
      exact aux_sineIter_converged o p t n 5 _ hconv

/-- Zero `StartAt` frequency/unit: unlimited rate. -/
theorem linear_zero_unlimited (p : LinearP F) (t : Int) (n : Nat) (hz : p.per = 0 ∨ p.freq = 0) :
    linearPace o p t n = .wait 0 := by
  unfold linearPace
  rw [if_pos hz]

/-- Negative `StartAt` frequency/unit stops the attack. -/
theorem linear_invalid_stops (p : LinearP F) (t : Int) (n : Nat)
    (hz : p.per ≠ 0 ∧ p.freq ≠ 0) (hneg : p.per < 0 ∨ p.freq < 0) :
    linearPace o p t n = .stop := by
  unfold linearPace
  rw [if_neg (by omega), if_pos hneg]

/-- `LinearPacer.Pace` never panics: its only partial operation, `math.MaxInt64/n`, is guarded
by `n != 0`. -/
theorem linear_never_panics (p : LinearP F) (t : Int) (n : Nat) : linearPace o p t n ≠ .panic := by
  unfold linearPace udiv
  split
  · exact PaceOut.noConfusion
  · split
    · exact PaceOut.noConfusion
    · simp only []
      split
      · exact PaceOut.noConfusion
      · split
        · rename_i hg
          split at hg
          · simp at hg
          · simp at hg
        · exact PaceOut.noConfusion
        · exact PaceOut.noConfusion

/-- A positive wait is returned only when the count has reached the schedule as computed:
`hits ≥ uint64(H(t))` (and at least one hit was sent). -/
theorem linear_positive_wait_on_schedule (p : LinearP F) (t : Int) (n : Nat) (d : Int)
    (h : linearPace o p t n = .wait d) (hd : 0 < d) :
    n ≠ 0 ∧ o.toUInt64 (linearHits o p t) ≤ (n : Int) := by
  unfold linearPace at h
  split at h
  · injection h with h; omega
  · split at h
    · exact absurd h PaceOut.noConfusion
    · simp only [] at h
      split at h
      · injection h with h; omega
      · rename_i hb
        exact ⟨by omega, by omega⟩

/-- Every answer of the sine pacer is a stop or one of the three waiting exits. -/
theorem aux_sine_exits (p : SineP F) (t : Int) (n : Nat) (d : Int)
    (h : sinePace o p t n = .wait d) :
    sinePaceX o p t n = (.wait d, .behind) ∨ sinePaceX o p t n = (.wait d, .converged) ∨
      sinePaceX o p t n = (.wait d, .unconverged) := by
  unfold sinePace at h
  unfold sinePaceX at h ⊢
  split
  · rename_i hv; rw [if_pos hv] at h; exact absurd h PaceOut.noConfusion
  · rename_i hv
    rw [if_neg hv] at h
    split
    · rename_i hb; rw [if_pos hb] at h; left; simp only [] at h; rw [h]
    · rename_i hb
      rw [if_neg hb] at h
      simp only [] at h ⊢
      injection h with h
      rw [h]
      by_cases hc : (sineIter o p t n 5 (sineFirstGuess o p t n)).2 = true
      · right; left; rw [if_pos hc]
      · right; right; rw [if_neg hc]

/-
FULL STATEMENT (not provable: it is about `sin`/`cos` and it is false for the unchanged code when
the amplitude approaches the mean): along every closed loop of the sine pacer the count never
exceeds the schedule `H` by more than one hit.
What is proved: the closed-loop bound for ANY monotone schedule `S` (in hits) that the float
computation is sound for on the two good exits — the catch-up test (`hits < uint64(H(t))` implies
`hits + 1 ≤ S(t) + 1`) and the converged exit (`|hits+1 − H(t+w)| < 1e-3` implies
`hits + 1 ≤ S(t+w) + 1`) — under the hypothesis that no call leaves through the un-converged exit.
-/
theorem sine_upper_partial (p : SineP F) (S : Int → Int)
    (hmono : ∀ a b : Int, a ≤ b → S a ≤ S b)
    (hbehind : ∀ (t : Int) (n : Nat) (w : Int), sinePaceX o p t n = (.wait w, .behind) →
      ((n : Int) + 1) ≤ S (t + max w 0) + 1)
    (hconv : ∀ (t : Int) (n : Nat) (w : Int), sinePaceX o p t n = (.wait w, .converged) →
      ((n : Int) + 1) ≤ S (t + max w 0) + 1)
    (hnever : ∀ (t : Int) (n : Nat) (w : Int), sinePaceX o p t n ≠ (.wait w, .unconverged))
    (stalls : List Nat) (h0 : 0 ≤ S 0 + 1) :
    ∀ x ∈ closedLoop (sinePace o p) stalls 0 0, (x.2 : Int) ≤ S x.1 + 1 := by
  apply closedLoop_upper_of_contract (sinePace o p) S hmono _ stalls 0 0 (by simpa using h0)
  intro t n d _ hw
  have hcast : ((n + 1 : Nat) : Int) = (n : Int) + 1 := by push_cast; ring
  rw [hcast]
  rcases aux_sine_exits o p t n d hw with h | h | h
  · exact hbehind t n d h
  · exact hconv t n d h
  · exact absurd h (hnever t n d)

end floats

/-! Non-vacuity of the float theorems: a concrete instance (SoftF64 arithmetic, `sin = cos = 0`),
on which each exit of the sine pacer and a positive linear wait occur. -/
def nvOps : FloatOps F64 where
  ofInt64 := F64.ofInt
  ofUInt64 := F64.ofInt
  add := F64.add
  sub := F64.sub
  mul := F64.mul
  div := F64.div
  lt := F64.lt
  le := F64.le
  abs := F64.abs
  round := F64.round
  sin := fun _ => F64.posZero
  cos := fun _ => F64.posZero
  sq := fun x => F64.mul x x
  toInt64 := F64.toInt64
  toUInt64 := F64.toUInt64
  zero := F64.posZero
  one := F64.ofNat 1
  two := F64.ofNat 2
  pi := F64.ofDecimal 3141592653589793 (-15)
  twoPi := F64.ofDecimal 6283185307179586 (-15)
  e9 := F64.ofDecimal 1 9
  em3 := F64.ofDecimal 1 (-3)

def nvSine : SineP F64 :=
  { period := 1000000000, meanFreq := 100, meanPer := 1000000000, ampFreq := 50,
    ampPer := 1000000000, startAt := F64.posZero }

example : sinePaceX nvOps nvSine 0 0 = (.wait 10000000, .converged) := by decide +kernel
example : sinePaceX nvOps nvSine 1000000000 3 = (.wait 0, .behind) := by decide +kernel
example : sineInvalid nvOps { nvSine with ampFreq := 100 } = true := by decide +kernel
example : linearPace nvOps { freq := 10, per := 1000000000, slope := F64.ofNat 1 } 1000000000 11
    = .wait 136363636 := by decide +kernel

end Vegeta.Props.C01
